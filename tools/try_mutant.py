#!/usr/bin/env python3
"""try_mutant.py <property-id> <mutant-dir> <seed-name> [--tier quick]
Verifies a seeded change independently (scratch worktree: clean tree passes suite+demo; with the patch it
builds, passes the suite, fails the demo), then applies it to /repo, runs ./check <id>, reverts, and files
it under /verif/seeded/<seed-name>/ (patch.diff, demo_test.go, NOTE.md, meta.json)."""
import json, os, shutil, subprocess, sys, time
ENV = dict(os.environ, GOFLAGS="-mod=mod", GOPROXY="off", GOSUMDB="off", GOTOOLCHAIN="local")

def sh(cmd, cwd=None, timeout=3600):
    p = subprocess.run(cmd, cwd=cwd, env=ENV, shell=isinstance(cmd, str), stdout=subprocess.PIPE, stderr=subprocess.STDOUT, text=True, errors='replace', timeout=timeout)
    return p.returncode, p.stdout

def main():
    pid, mdir, name = sys.argv[1], sys.argv[2], sys.argv[3]
    tier = sys.argv[sys.argv.index("--tier") + 1] if "--tier" in sys.argv else "quick"
    also = sys.argv[sys.argv.index("--also") + 1].split(",") if "--also" in sys.argv else []
    race = "--race" in sys.argv
    gotest = "CGO_ENABLED=1 go test -race -vet=off -count=1 ./... 2>&1 | tail -15" if race else "go test -vet=off -count=1 ./... 2>&1 | tail -15"
    wt = f"/tmp/mv_{name}"
    sh(f"git -C /repo worktree remove --force {wt}")
    rc, out = sh(f"git -C /repo worktree add --detach {wt} HEAD")
    meta = {"property": pid, "source_dir": mdir, "verified": {}, "checks": {}}
    try:
        demo = os.path.join(mdir, "demo_test.go")
        shutil.copy(demo, os.path.join(wt, "zz_demo_test.go"))
        rc1, o1 = sh(gotest, cwd=wt)
        meta["verified"]["clean_suite_and_demo_pass"] = ("FAIL" not in o1 and "ok" in o1)
        rc, o = sh(f"git apply {os.path.join(mdir, 'patch.diff')}", cwd=wt)
        meta["verified"]["patch_applies"] = rc == 0
        rc, o = sh("go build ./...", cwd=wt)
        meta["verified"]["builds"] = rc == 0
        os.remove(os.path.join(wt, "zz_demo_test.go"))
        rc2, o2 = sh("go test -vet=off -count=1 ./... 2>&1 | tail -5", cwd=wt)
        meta["verified"]["suite_passes_with_patch"] = ("FAIL" not in o2 and "ok" in o2)
        shutil.copy(demo, os.path.join(wt, "zz_demo_test.go"))
        rc3, o3 = sh(gotest, cwd=wt)
        meta["verified"]["demo_fails_with_patch"] = "FAIL" in o3
        meta["demo_output_tail"] = o3[-600:]
    finally:
        sh(f"git -C /repo worktree remove --force {wt}")
    ok = all(meta["verified"].values())
    print("verified:", meta["verified"])
    if ok:
        rc, o = sh("git -C /repo status --porcelain")
        if o.strip():
            print("/repo is not clean, refusing"); return 2
        rc, o = sh(f"git -C /repo apply {os.path.join(mdir, 'patch.diff')}")
        # evidence/ and replays/ describe the UNCHANGED tree: keep them out of the mutant runs' way
        saved = {}
        for p in [pid] + also:
            ev = f"/verif/evidence/{p}.json"
            if os.path.exists(ev):
                saved[ev] = open(ev).read()
        try:
            for p in [pid] + also:
                t0 = time.time()
                rc, o = sh(["/verif/check", p, "--tier", tier], cwd="/verif")
                lines = [l for l in o.splitlines() if l.startswith(("VIOLATION", "OK ", "KNOWN-FINDING"))]
                rp = None
                for l in lines:
                    if "replay=" in l:
                        rp = l.split("replay=")[1].split()[0]
                detail = ""
                if rp and os.path.exists(os.path.join("/verif", rp)):
                    r = json.load(open(os.path.join("/verif", rp)))
                    f = r.get("finding") or {}
                    detail = (f.get("check", "") + " :: " + f.get("case", "")[:300]) if f else json.dumps(r)[:400]
                meta["checks"][p] = {"tier": tier, "exit": rc, "lines": lines, "first_finding": detail, "wall_s": round(time.time() - t0, 1)}
                print(p, rc, lines, detail[:200])
        finally:
            sh("git -C /repo checkout -- .")
            sh("git -C /repo clean -fdq")
            # the regenerated tables must describe the unchanged tree again
            sh("/verif/bin/kvqlextract -repo /repo -out /verif/lean/Kvql/Generated")
            for ev, txt in saved.items():
                open(ev, "w").write(txt)
    dst = f"/verif/seeded/{name}"
    os.makedirs(dst, exist_ok=True)
    for f in ("patch.diff", "demo_test.go", "NOTE.md"):
        if os.path.exists(os.path.join(mdir, f)):
            shutil.copy(os.path.join(mdir, f), os.path.join(dst, f))
    meta["what_it_needs"] = open(os.path.join(mdir, "NOTE.md")).read()[:1500] if os.path.exists(os.path.join(mdir, "NOTE.md")) else ""
    meta["ran"] = f"tools/try_mutant.py {pid} {mdir} {name} --tier {tier}"
    json.dump(meta, open(os.path.join(dst, "meta.json"), "w"), indent=1)
    return 0

sys.exit(main())
