#!/usr/bin/env python3
"""Prints the as-built matrix (DESIGN.md §14.7) from checks.json and the .theorems files."""
import json, os
root = "/verif"
c = json.load(open(os.path.join(root, "checks.json")))
print("| id | level | theorems audited (full / partial) | partial theorems | correspondence / oracle groups |")
print("|---|---|---|---|---|")
for pid in sorted(c):
    cfg = c[pid]
    files = [f"Kvql/Properties/{pid}.theorems"] + cfg.get("extra_theorems", [])
    full, part = 0, []
    for f in files:
        for l in open(os.path.join(root, "lean", f)):
            l = l.strip()
            if not l or l.startswith("#"):
                continue
            p = [x.strip() for x in l.split("|")]
            if len(p) < 2:
                continue
            if p[1] == "partial":
                part.append(p[0].replace("Kvql.Properties.", "").replace("Kvql.Proofs.", ""))
            else:
                full += 1
    print(f"| {pid} | {cfg['level']} | {full} / {len(part)} | {', '.join('`'+x+'`' for x in part) or '—'} | {' '.join(cfg['groups'])} |")
