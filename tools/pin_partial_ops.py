#!/usr/bin/env python3
"""Re-pins lean/Kvql/Properties/C06Inventory.lean `expectedPartialTotals` to the totals regenerated from the CURRENT /repo.
Run only after a deliberate change of /repo (a fix: commit) whose new partial operations have been reviewed."""
import re, subprocess
subprocess.run(["/verif/bin/kvqlextract", "-repo", "/repo", "-out", "/verif/lean/Kvql/Generated"], check=True)
inv = open('/verif/lean/Kvql/Generated/Inventory.lean').read()
tot = re.search(r"def partialTotals : Nat × Nat × Nat × Nat := (\([0-9, ]+\))", inv).group(1)
p = '/verif/lean/Kvql/Properties/C06Inventory.lean'
s = open(p).read()
s2 = re.sub(r"(def expectedPartialTotals : Nat × Nat × Nat × Nat := )\([0-9, ]+\)", lambda m: m.group(1) + tot, s)
open(p, 'w').write(s2)
print("re-pinned " + tot if s2 != s else "unchanged " + tot)
