#!/usr/bin/env python3
"""Re-pins lean/Kvql/Properties/C06.lean `expectedPartialOps` to the inventory regenerated from the CURRENT /repo.
Run only after a deliberate change of /repo (a fix: commit) whose new partial operations have been reviewed."""
import re, subprocess
subprocess.run(["/verif/bin/kvqlextract", "-repo", "/repo", "-out", "/verif/lean/Kvql/Generated"], check=True)
inv = open('/verif/lean/Kvql/Generated/Inventory.lean').read()
body = re.search(r"def partialOps : List \(String × Nat × Nat × Nat × Nat\) := \[\n(.*?)\n\]", inv, re.S).group(1)
p = '/verif/lean/Kvql/Properties/C06.lean'
s = open(p).read()
s2 = re.sub(r"(def expectedPartialOps : List \(String × Nat × Nat × Nat × Nat\) := \[\n).*?(\n\]\n)", lambda m: m.group(1) + body + m.group(2), s, flags=re.S)
open(p, 'w').write(s2)
print("re-pinned" if s2 != s else "unchanged")
