#!/usr/bin/env python3
"""Re-applies every seeded change under /verif/seeded to the CURRENT /repo HEAD and re-runs the property's quick
check (and those listed in meta['also']); records the outcome in meta.json under 'recheck'."""
import json, os, subprocess, sys, time
ENV = dict(os.environ, GOFLAGS="-mod=mod", GOPROXY="off", GOSUMDB="off", GOTOOLCHAIN="local")
def sh(cmd, cwd=None, timeout=3000):
    p = subprocess.run(cmd, cwd=cwd, env=ENV, shell=isinstance(cmd, str), stdout=subprocess.PIPE, stderr=subprocess.STDOUT, text=True, timeout=timeout)
    return p.returncode, p.stdout
only = sys.argv[1:]
head = sh("git -C /repo log --format=%h -1")[1].strip()
rows = []
for name in sorted(os.listdir("/verif/seeded")):
    d = os.path.join("/verif/seeded", name)
    if not os.path.exists(os.path.join(d, "patch.diff")) or (only and not any(name.startswith(o) for o in only)):
        continue
    meta = json.load(open(os.path.join(d, "meta.json")))
    pid = meta["property"]
    if sh("git -C /repo status --porcelain")[1].strip():
        print("/repo not clean"); sys.exit(2)
    rc, o = sh(f"git -C /repo apply {d}/patch.diff")
    if rc != 0:
        meta["recheck"] = {"head": head, "applies": False}
        rows.append((name, "patch no longer applies"))
    else:
        ev = f"/verif/evidence/{pid}.json"
        saved = open(ev).read() if os.path.exists(ev) else None
        try:
            rc2, o2 = sh("go build ./... ", cwd="/repo")
            t0 = time.time()
            try:
                rc3, o3 = sh(["/verif/check", pid, "--tier", "quick"], cwd="/verif", timeout=1500)
            except subprocess.TimeoutExpired:
                rc3, o3 = 124, "TIMEOUT"
            lines = [l for l in o3.splitlines() if l.startswith(("VIOLATION", "OK ", "KNOWN-FINDING"))] or [o3[-200:]]
            meta["recheck"] = {"head": head, "applies": True, "builds": rc2 == 0, "exit": rc3, "lines": lines, "wall_s": round(time.time() - t0, 1)}
            rows.append((name, lines[0][:120]))
        finally:
            sh("git -C /repo checkout -- .")
            sh("git -C /repo clean -fdq")
            if saved is not None:
                open(ev, "w").write(saved)
    json.dump(meta, open(os.path.join(d, "meta.json"), "w"), indent=1)
    print(name, "::", rows[-1][1], flush=True)
