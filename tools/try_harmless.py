#!/usr/bin/env python3
"""try_harmless.py <dir with i/patch.diff> [ids…]
False-alarm study: applies each behaviour-preserving change to a scratch worktree of /repo and runs the quick
checks of a private copy of /verif (under /tmp) against it with KVQL_REPO.  Nothing in /repo or /verif changes.
Prints one line per (change, property) that did not answer OK."""
import json, os, shutil, subprocess, sys
ENV = dict(os.environ, GOFLAGS="-mod=mod", GOPROXY="off", GOSUMDB="off", GOTOOLCHAIN="local")
def sh(cmd, cwd=None, env=ENV, timeout=7200):
    p = subprocess.run(cmd, cwd=cwd, env=env, shell=isinstance(cmd, str), stdout=subprocess.PIPE, stderr=subprocess.STDOUT, text=True, errors="replace", timeout=timeout)
    return p.returncode, p.stdout
src = os.path.abspath(sys.argv[1])
ids = sys.argv[2:] or ["C%02d" % i for i in range(1, 20)]
copy = "/tmp/verif_h"
if not os.path.exists(copy):
    sh(f"cp -r /verif {copy}")
res = {}
for d in sorted(os.listdir(src), key=lambda x: int(x) if x.isdigit() else 0):
    patch = os.path.join(src, d, "patch.diff")
    if not os.path.exists(patch):
        continue
    wt = f"/tmp/hw_{d}"
    sh(f"git -C /repo worktree remove --force {wt}")
    sh(f"git -C /repo worktree add --detach {wt} HEAD")
    rc, out = sh(f"git apply {patch}", cwd=wt)
    if rc != 0:
        print(d, "patch does not apply:", out[:200]); continue
    rc, out = sh("go build ./... && go test -vet=off -count=1 ./... 2>&1 | tail -3", cwd=wt)
    suite = "ok" in out and "FAIL" not in out
    res[d] = {"suite": suite, "checks": {}}
    for pid in ids:
        rc, out = sh([os.path.join(copy, "check"), pid], cwd=copy, env=dict(ENV, KVQL_REPO=wt))
        last = [l for l in out.splitlines() if l.startswith(("OK ", "VIOLATION", "KNOWN-FINDING"))]
        res[d]["checks"][pid] = last[-1] if last else out[-300:]
        if not (last and last[-1].startswith("OK ")):
            detail = ""
            if last and "replay=" in last[-1]:
                rp = os.path.join(copy, last[-1].split("replay=")[1].split()[0])
                if os.path.exists(rp):
                    detail = open(rp).read()[:700].replace("\n", " ")
            print(f"change {d} {pid}: {res[d]['checks'][pid][:200]} :: {detail}", flush=True)
    print(f"change {d}: suite={'pass' if suite else 'FAIL'} alarms={[p for p, l in res[d]['checks'].items() if not l.startswith('OK ')]}", flush=True)
    sh(f"git -C /repo worktree remove --force {wt}")
json.dump(res, open(os.path.join(src, "RESULTS.json"), "w"), indent=1)
