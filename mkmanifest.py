#!/usr/bin/env python3
"""Regenerates MANIFEST.json from checks.json (one entry per claimed property)."""
import json, os
ROOT = os.path.dirname(os.path.abspath(__file__))
cfg = json.load(open(os.path.join(ROOT, "checks.json")))
props = [json.loads(l) for l in open(os.path.join(ROOT, "properties.jsonl"))]
pending = json.load(open(os.path.join(ROOT, "not_applicable.json"))) if os.path.exists(os.path.join(ROOT, "not_applicable.json")) else {}
checks = []
for p in props:
    pid = p["id"]
    if pid not in cfg:
        continue
    c = cfg[pid]
    checks.append({
        "property_id": pid,
        "quick_cmd": f"./check {pid} --tier quick",
        "thorough_cmd": f"./check {pid} --tier thorough",
        "evidence_file": f"/verif/evidence/{pid}.json",
        "replay_cmd_template": "./check replay {path}",
        "engine": "lean4-proof+correspondence",
        "level_claimed": {"category": c.get("level", "proof"), "text": c["explanation"], "design_ref": c.get("design_ref", "DESIGN.md section 6 / " + pid)},
        "level_note": c.get("level_note", "Trusted: Lean kernel; axioms propext/Classical.choice/Quot.sound; the go/ast extractor; the correspondence harness and its generators (the model is hand-written and tied to the Go code by differential testing, not by proof); Go stdlib behaviour as listed in evidence.trusted_base. " + "; ".join(c.get("assumptions", []))),
        "technique": c.get("technique", "Lean 4 theorems over an executable model + model/code correspondence check + spec differential as counter-example search"),
    })
na = [{"property_id": p["id"], "reason": pending.get(p["id"], "no check registered yet: model and theorems for this property are still being built (see DESIGN.md, order of work)")} for p in props if p["id"] not in cfg]
m = {
    "version": 1,
    "setup_cmd": "./check setup",
    "hooks": {"guard": "verif", "enable": "go build -tags verif (the harness is built with the tag; no hook file is needed so far: the exported API suffices)",
              "baseline_off_cmd": "cd /repo && go test -vet=off -count=1 ./...", "source_commits": [], "add_only": True},
    "engines": [{"name": "lean4-proof+correspondence", "path": "/verif/check", "serves_properties": [c["property_id"] for c in checks],
                 "kind_free_text": "Lean 4 model+spec+theorems (lean/), go/ast table extractor (extract/), Go differential harness against /repo (harness/), python orchestrator (check)"}],
    "checks": checks,
    "not_applicable": na,
    "notes": "Every check regenerates the Lean tables from /repo, rebuilds the theorems, audits axioms, rebuilds the harness against /repo and runs the correspondence + spec differential. See DESIGN.md.",
}
json.dump(m, open(os.path.join(ROOT, "MANIFEST.json"), "w"), indent=1)
print("claimed:", [c["property_id"] for c in checks], "not claimed:", [n["property_id"] for n in na])
