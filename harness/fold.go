package main

// Group FOLD: expression_optimizer.go (constant folding, Boolean simplification with
// true/false, re-association of constants in + and * chains), property C04.
//
//   correspondence  `(&kvql.ExpressionOptimizer{Root: e}).Optimize()` on a fresh parse versus the
//                   Lean model `Kvql.Fold.optimizeBoth` (Driver.handleFold): the returned tree AND
//                   the state in which the old root node is left (alias references point at it),
//                   node by node, positions included.  The `Data` text of float literals is blanked
//                   on both sides (`%v` of a float64 is outside the model's library domain; it is
//                   read by String()/EXPLAIN only).
//   property C04    spec differential on the real engine, independent of the model:
//                     C04-row / C04-batch   the un-optimised AST (fresh parse) and the optimised AST
//                       are evaluated on every pair of the stores (Execute per pair; ExecuteBatch on
//                       the whole store and on every singleton chunk): wherever the original yields
//                       a value, the optimised one must yield the same value of the same kind
//                       (int64 / float64 by bits / text by content / bool)
//                     C04-stmt   rows of `NewOptimizer(q).BuildPlan` (Next and Batch) versus rows
//                       computed from the un-optimised statement (`BuildExecutor` + projection),
//                       whenever that reference is defined on every pair
//
// Expressions: every shape up to depth 2 (quick) over a small typed pool (integers, exactly
// representable floats, texts, Booleans obtained by comparing constants; key/value through
// int()/float(); aliases), operators + - * / = != < <= > >= & | and or, constant calls of
// upper lower str int float strlen substr is_int is_float len join; constant chains for the
// re-association (x op c1 op c2 op c3 in every bracketing); / - * + chains over integer constants
// ≥ 2^31 / 2^32 / near 2^63 and the non-dyadic floats 0.1, 0.7 (every bracketing of two and three
// constants, judged on an extra store with values around 2^32); depth 3 over a reduced pool
// (thorough); random deeper trees (own generator + the typed statement generator XGen).
//
// Protocol:  FOLD <wire-expr>  ->  ok <wire-ret> <wire-node> | panic <site>

import (
	"fmt"
	"sort"
	"strconv"
	"strings"
	"time"

	"github.com/c4pt0r/kvql"
)

func init() { groups["FOLD"] = runFOLD }

// ---------------------------------------------------------------- stores

// values: decimal integers, exactly representable floats, texts; 2^53+1 and MaxInt64 make
// int/float mixing and wrapping visible, 1e16 makes float re-association visible
var foldStores = [][]KV{
	{{"a", "1"}, {"ab", "7"}, {"b", "-3"}, {"k1", "0.5"}, {"k2", "1e16"}},
	{{"", "abc"}, {"2", "2"}, {"K", "9007199254740993"}, {"z", "9223372036854775807"}, {"zz", "0.25"}},
}

// foldWideStore: for the chains over constants ≥ 2^31 (origin "wide:…"): values around 2^32 and
// 2^33 (a wrapped product of divisors changes their quotient), both ends of int64
var foldWideStore = []KV{{"h", "6074001000"}, {"m", "8589934592"}, {"q", "4294967296"}, {"y", "-9223372036854775808"}, {"yy", "-8589934593"}}

func foldChunk(st []KV) []kvql.KVPair {
	ks := make([]KV, len(st))
	copy(ks, st)
	sort.Slice(ks, func(i, j int) bool { return ks[i].K < ks[j].K })
	out := make([]kvql.KVPair, len(ks))
	for i, kv := range ks {
		out[i] = kvql.NewKVP([]byte(kv.K), []byte(kv.V))
	}
	return out
}

// ---------------------------------------------------------------- typed enumeration

type foldPool struct {
	num0, str0     []string // atoms
	numOps         []string
	cmpOps         []string
	boolOps        []string // & | and or
	funcs          bool
	boolLits       bool
	maxNum, maxStr int // cap on the operands taken from the previous levels for Boolean comparisons (0 = all)
}

// levels[d] = expressions of depth exactly d
type foldLevels struct {
	num, str, boolean [][]string
}

func upTo(l [][]string, d int) []string {
	var out []string
	for i := 0; i <= d && i < len(l); i++ {
		out = append(out, l[i]...)
	}
	return out
}

// pairsAt calls f(x, y) for every pair with max(depth x, depth y) = d-1
func pairsAt(lx, ly [][]string, d int, f func(x, y string)) {
	for dx := 0; dx < d; dx++ {
		for dy := 0; dy < d; dy++ {
			if dx != d-1 && dy != d-1 {
				continue
			}
			for _, x := range lx[dx] {
				for _, y := range ly[dy] {
					f(x, y)
				}
			}
		}
	}
}

func (p *foldPool) enumerate(depth int) *foldLevels {
	L := &foldLevels{}
	L.num = append(L.num, p.num0)
	L.str = append(L.str, p.str0)
	L.boolean = append(L.boolean, nil)
	for d := 1; d <= depth; d++ {
		var nn, ss, bb []string
		pairsAt(L.num, L.num, d, func(x, y string) {
			for _, op := range p.numOps {
				nn = append(nn, "("+x+" "+op+" "+y+")")
			}
			for _, op := range p.cmpOps {
				bb = append(bb, "("+x+" "+op+" "+y+")")
			}
		})
		pairsAt(L.str, L.str, d, func(x, y string) {
			ss = append(ss, "("+x+" + "+y+")")
			for _, op := range p.cmpOps {
				bb = append(bb, "("+x+" "+op+" "+y+")")
			}
		})
		// Boolean connectives: & | need non-literal operands (Check); and/or also take true/false
		if d >= 2 {
			pairsAt(L.boolean, L.boolean, d, func(x, y string) {
				for _, op := range p.boolOps {
					bb = append(bb, "("+x+" "+op+" "+y+")")
				}
			})
			if p.boolLits {
				for _, x := range L.boolean[d-1] {
					for _, lit := range []string{"true", "false"} {
						for _, op := range []string{"and", "or", "=", "!="} {
							if !contains(p.boolOps, op) && !contains(p.cmpOps, op) {
								continue
							}
							bb = append(bb, "("+lit+" "+op+" "+x+")", "("+x+" "+op+" "+lit+")")
						}
					}
				}
			}
		}
		if p.funcs {
			for _, s := range L.str[d-1] {
				nn = append(nn, "int("+s+")", "float("+s+")", "strlen("+s+")", "len("+s+")")
				ss = append(ss, "upper("+s+")", "lower("+s+")", "str("+s+")", "substr("+s+", 0, 1)", "substr("+s+", 1, 3)", "join("+s+", 1, 'x')")
				bb = append(bb, "is_int("+s+")", "is_float("+s+")")
			}
			for _, n := range L.num[d-1] {
				nn = append(nn, "int("+n+")", "float("+n+")", "strlen("+n+")")
				ss = append(ss, "str("+n+")", "join('-', "+n+", 'y')", "substr('abcd', "+n+", 3)")
				bb = append(bb, "is_int("+n+")", "is_float("+n+")")
			}
			if d >= 2 {
				for _, b := range L.boolean[d-1] {
					ss = append(ss, "str("+b+")")
				}
			}
		}
		L.num = append(L.num, nn)
		L.str = append(L.str, ss)
		L.boolean = append(L.boolean, bb)
	}
	return L
}

func contains(xs []string, x string) bool {
	for _, y := range xs {
		if x == y {
			return true
		}
	}
	return false
}

type foldCase struct {
	q      string // the statement
	origin string // histogram label
}

// statement for an expression of the given type; `prefix` = alias-defining fields
func foldStmt(prefix, x, typ string) string {
	if typ == "bool" {
		return "select " + prefix + x + " as f where " + x
	}
	return "select " + prefix + x + " as f where true"
}

const foldAliasPrefix = "int(value) as n, key as s, float(value) as g, "

func foldCases(e *Env) []foldCase {
	var out []foldCase
	add := func(origin, prefix string, L *foldLevels, maxd int) {
		for d := 0; d <= maxd; d++ {
			for _, x := range L.num[d] {
				out = append(out, foldCase{foldStmt(prefix, x, "num"), fmt.Sprintf("%s:num:d%d", origin, d)})
			}
			for _, x := range L.str[d] {
				out = append(out, foldCase{foldStmt(prefix, x, "str"), fmt.Sprintf("%s:str:d%d", origin, d)})
			}
			for _, x := range L.boolean[d] {
				out = append(out, foldCase{foldStmt(prefix, x, "bool"), fmt.Sprintf("%s:bool:d%d", origin, d)})
			}
		}
	}
	allCmp := []string{"=", "!=", "<", "<=", ">", ">="}
	allBool := []string{"&", "|", "and", "or"}
	// (1) the main pool, every shape of depth <= 2
	main := &foldPool{
		num0: []string{"1", "2", "0.5", "int(value)", "float(value)"}, str0: []string{"'a'", "'2'", "key"},
		numOps: []string{"+", "-", "*", "/"}, cmpOps: allCmp, boolOps: allBool, funcs: true, boolLits: true,
	}
	add("main", "", main.enumerate(2), 2)
	// (2) aliases in place of key/value
	al := &foldPool{
		num0: []string{"3", "1.5", "n", "g"}, str0: []string{"'b'", "s"},
		numOps: []string{"+", "-", "*", "/"}, cmpOps: []string{"=", "<", ">="}, boolOps: []string{"&", "|"}, funcs: true,
	}
	add("alias", foldAliasPrefix, al.enumerate(2), 2)
	// (3) constant chains for the re-association: x op c1 op c2 [op c3] in every bracketing
	xsNum := []string{"int(value)", "float(value)", "(int(value) + 1)", "(2 * float(value))", "strlen(key)"}
	csNum := []string{"1", "2", "0.5", "3", "1.5"}
	for _, op := range []string{"+", "*"} {
		for _, x := range xsNum {
			for _, c1 := range csNum {
				for _, c2 := range csNum {
					out = append(out, foldCase{foldStmt("", "(("+x+" "+op+" "+c1+") "+op+" "+c2+")", "num"), "chain:num2"})
					for _, c3 := range csNum {
						for _, sh := range []string{
							"(((" + x + " " + op + " " + c1 + ") " + op + " " + c2 + ") " + op + " " + c3 + ")",
							"((" + x + " " + op + " (" + c1 + " " + op + " " + c2 + ")) " + op + " " + c3 + ")",
							"((" + c1 + " " + op + " (" + x + " " + op + " " + c2 + ")) " + op + " " + c3 + ")",
							"(((" + c1 + " " + op + " " + x + ") " + op + " " + c2 + ") " + op + " " + c3 + ")",
						} {
							out = append(out, foldCase{foldStmt("", sh, "num"), "chain:num3"})
							out = append(out, foldCase{foldStmt("", "("+sh+" > 2)", "bool"), "chain:num3-cmp"})
						}
					}
				}
			}
		}
	}
	// (3b) / and - chains (and + * again) over integer constants ≥ 2^31 and ≥ 2^32 — the product or sum
	// of two of them leaves int64 — and the non-dyadic floats 0.1, 0.7; every bracketing of two and
	// of three constants.  Judged on the usual stores and on foldWideStore.
	xsWide := []string{"int(value)", "float(value)", "strlen(key)"}
	cs2 := []string{"2", "3", "0.5", "0.1", "0.7", "2147483648", "4294967296", "4294967297", "3037000500", "9223372036854775807"}
	cs3 := []string{"2", "0.7", "2147483648", "4294967296", "4294967297"}
	for _, op := range []string{"/", "-", "*", "+"} {
		for _, x := range xsWide {
			for _, c1 := range cs2 {
				for _, c2 := range cs2 {
					out = append(out, foldCase{foldStmt("", "(("+x+" "+op+" "+c1+") "+op+" "+c2+")", "num"), "wide:chain2"})
					out = append(out, foldCase{foldStmt("", "("+x+" "+op+" ("+c1+" "+op+" "+c2+"))", "num"), "wide:chain2"})
					out = append(out, foldCase{foldStmt("", "((("+x+" "+op+" "+c1+") "+op+" "+c2+") = 0)", "bool"), "wide:chain2-cmp"})
				}
			}
			for _, c1 := range cs3 {
				for _, c2 := range cs3 {
					for _, c3 := range cs3 {
						for _, sh := range []string{
							"(((" + x + " " + op + " " + c1 + ") " + op + " " + c2 + ") " + op + " " + c3 + ")",
							"((" + x + " " + op + " (" + c1 + " " + op + " " + c2 + ")) " + op + " " + c3 + ")",
							"(" + x + " " + op + " ((" + c1 + " " + op + " " + c2 + ") " + op + " " + c3 + "))",
							"(" + x + " " + op + " (" + c1 + " " + op + " (" + c2 + " " + op + " " + c3 + ")))",
							"((" + x + " " + op + " " + c1 + ") " + op + " (" + c2 + " " + op + " " + c3 + "))",
						} {
							out = append(out, foldCase{foldStmt("", sh, "num"), "wide:chain3"})
						}
					}
				}
			}
		}
	}
	// mixed / and *, - and +, over the large constants (left-deep, as written without brackets)
	for _, x := range xsWide {
		for _, c1 := range cs3 {
			for _, c2 := range cs3 {
				for _, ops := range [][2]string{{"/", "*"}, {"*", "/"}, {"-", "+"}, {"+", "-"}} {
					out = append(out, foldCase{foldStmt("", "(("+x+" "+ops[0]+" "+c1+") "+ops[1]+" "+c2+")", "num"), "wide:mixed2"})
				}
			}
		}
	}
	xsStr := []string{"key", "value", "upper(key)", "(key + 'x')", "str(int(value))"}
	csStr := []string{"'a'", "''", "'1'", "'b2'"}
	for _, x := range xsStr {
		for _, c1 := range csStr {
			for _, c2 := range csStr {
				out = append(out, foldCase{foldStmt("", "(("+x+" + "+c1+") + "+c2+")", "str"), "chain:str2"})
				for _, c3 := range csStr {
					for _, sh := range []string{
						"(((" + x + " + " + c1 + ") + " + c2 + ") + " + c3 + ")",
						"((" + x + " + (" + c1 + " + " + c2 + ")) + " + c3 + ")",
						"(((" + c1 + " + " + x + ") + " + c2 + ") + " + c3 + ")",
					} {
						out = append(out, foldCase{foldStmt("", sh, "str"), "chain:str3"})
					}
				}
			}
		}
	}
	// (4) thorough: depth 3 over a reduced pool (~1.6e6 numeric shapes + comparisons of depth-2 operands)
	if e.Tier == "thorough" {
		p3 := &foldPool{num0: []string{"2", "0.5", "int(value)"}, str0: []string{"'a'", "key"}, numOps: []string{"+", "*"}, cmpOps: []string{"<"}, boolOps: []string{"&", "|"}}
		L := p3.enumerate(3)
		for _, x := range L.num[3] {
			out = append(out, foldCase{foldStmt("", x, "num"), "deep3:num"})
		}
		for _, x := range L.str[3] {
			out = append(out, foldCase{foldStmt("", x, "str"), "deep3:str"})
		}
		p3b := &foldPool{num0: []string{"1", "1.5", "float(value)"}, str0: []string{"'b'"}, numOps: []string{"+", "*", "/"}, cmpOps: []string{"<=", "="}, boolOps: []string{"&", "|", "or"}, boolLits: true}
		Lb := p3b.enumerate(2)
		// Boolean connectives over depth-2 comparisons: depth 3 for the and/or simplification
		bs := upTo(Lb.boolean, 2)
		if len(bs) > 700 {
			bs = bs[:700]
		}
		for _, x := range bs {
			for _, y := range bs {
				for _, op := range []string{"&", "|"} {
					out = append(out, foldCase{foldStmt("", "("+x+" "+op+" "+y+")", "bool"), "deep3:bool"})
				}
			}
		}
	}
	return out
}

// ---------------------------------------------------------------- random deeper trees

type foldGen struct {
	r     *Rand
	alias bool
}

func (g *foldGen) numAtom() string {
	if g.r.Chance(3, 5) {
		if g.r.Chance(1, 8) {
			// integers ≥ 2^31 / 2^32 / near 2^63, non-dyadic floats
			return pick(g.r, []string{"2147483648", "4294967296", "4294967297", "9223372036854775807", "3037000500", "0.1", "0.7", "65536"})
		}
		return pick(g.r, []string{"0", "1", "2", "3", "7", "-2", "0.5", "1.5", "2.0", "0.25", "4.0"})
	}
	if g.alias && g.r.Chance(1, 2) {
		return pick(g.r, []string{"n", "g"})
	}
	return pick(g.r, []string{"int(value)", "float(value)", "strlen(key)", "int(key)", "len(value)"})
}

func (g *foldGen) strAtom() string {
	if g.r.Chance(3, 5) {
		// numerals with blanks around them: not numbers for the conversions, whatever Go kind carries the text
		return pick(g.r, []string{"'a'", "''", "'12'", "'B'", "'0.5'", "'x y'", "'2 '", "' 7'", "'1.5 '", "' '"})
	}
	if g.alias && g.r.Chance(1, 2) {
		return "s"
	}
	return pick(g.r, []string{"key", "value"})
}

func (g *foldGen) num(d int) string {
	if d <= 0 || g.r.Chance(1, 5) {
		return g.numAtom()
	}
	switch g.r.Intn(10) {
	case 0, 1, 2, 3:
		op := pick(g.r, []string{"+", "*", "+", "*", "-", "/"})
		// left-deep chains with constants on the right are what tryReorderBinaryOp looks for
		if g.r.Chance(1, 2) {
			if g.r.Chance(1, 4) {
				// the same operator twice: x op c1 op c2, either bracketing
				c1, c2 := g.numAtom(), g.numAtom()
				if g.r.Bool() {
					return "((" + g.num(d-1) + " " + op + " " + c1 + ") " + op + " " + c2 + ")"
				}
				return "(" + g.num(d-1) + " " + op + " (" + c1 + " " + op + " " + c2 + "))"
			}
			return "(" + g.num(d-1) + " " + op + " " + g.numAtom() + ")"
		}
		return "(" + g.num(d-1) + " " + op + " " + g.num(d-1) + ")"
	case 4:
		return "int(" + g.str(d-1) + ")"
	case 5:
		return "float(" + g.str(d-1) + ")"
	case 6:
		return "strlen(" + g.str(d-1) + ")"
	case 7:
		return pick(g.r, []string{"int", "float"}) + "(" + g.num(d-1) + ")"
	case 8:
		return "len(" + g.str(d-1) + ")"
	default:
		return "(" + g.numAtom() + " " + pick(g.r, []string{"+", "*"}) + " " + g.num(d-1) + ")"
	}
}

func (g *foldGen) str(d int) string {
	if d <= 0 || g.r.Chance(1, 5) {
		return g.strAtom()
	}
	switch g.r.Intn(9) {
	case 0, 1, 2:
		if g.r.Chance(1, 2) {
			return "(" + g.str(d-1) + " + " + g.strAtom() + ")"
		}
		return "(" + g.str(d-1) + " + " + g.str(d-1) + ")"
	case 3:
		return pick(g.r, []string{"upper", "lower"}) + "(" + g.str(d-1) + ")"
	case 4:
		return "str(" + g.num(d-1) + ")"
	case 5:
		return fmt.Sprintf("substr(%s, %d, %d)", g.str(d-1), g.r.Intn(3), g.r.Intn(5))
	case 6:
		return "join(" + g.strAtom() + ", " + g.num(d-1) + ", " + g.str(d-1) + ")"
	case 7:
		return "str(" + g.boolean(d-1) + ")"
	default:
		return "substr(" + g.str(d-1) + ", " + g.num(d-1) + ", " + g.num(d-1) + ")"
	}
}

func (g *foldGen) boolean(d int) string {
	if d <= 0 {
		if g.r.Bool() {
			return "(" + g.numAtom() + " " + pick(g.r, []string{"=", "!=", "<", "<=", ">", ">="}) + " " + g.numAtom() + ")"
		}
		return "(" + g.strAtom() + " " + pick(g.r, []string{"=", "!=", "<", "<=", ">", ">=", "^="}) + " " + g.strAtom() + ")"
	}
	switch g.r.Intn(10) {
	case 0, 1, 2, 3:
		return "(" + g.boolean(d-1) + " " + pick(g.r, []string{"&", "|", "&", "|", "and", "or"}) + " " + g.boolean(d-1) + ")"
	case 4, 5:
		return "(" + g.num(d-1) + " " + pick(g.r, []string{"=", "!=", "<", "<=", ">", ">="}) + " " + g.num(d-1) + ")"
	case 6:
		return "(" + g.str(d-1) + " " + pick(g.r, []string{"=", "!=", "<", ">="}) + " " + g.str(d-1) + ")"
	case 7:
		return pick(g.r, []string{"is_int", "is_float"}) + "(" + g.str(d-1) + ")"
	case 8:
		return "!" + g.boolean(d-1)
	default:
		return "(" + pick(g.r, []string{"true", "false"}) + " " + pick(g.r, []string{"and", "or", "="}) + " " + g.boolean(d-1) + ")"
	}
}

func foldRandomCase(e *Env, idx uint64) foldCase {
	r := NewRand(e.Seed, "FOLD", idx)
	if idx%4 == 3 {
		// the typed statement generator of the EVAL group
		g := NewXGen(r, defaultOpts())
		fields := g.XFields(1 + r.Intn(3))
		return foldCase{"select " + strings.Join(fields, ", ") + " where " + g.XBool(2), "random:xgen"}
	}
	g := &foldGen{r: r, alias: r.Chance(1, 3)}
	d := 3 + r.Intn(3)
	prefix := ""
	if g.alias {
		prefix = foldAliasPrefix
	}
	var x string
	switch r.Intn(3) {
	case 0:
		x = g.num(d)
	case 1:
		x = g.str(d)
	default:
		x = g.boolean(d - 1)
		return foldCase{"select " + prefix + x + " as f where " + g.boolean(d-1), "random:bool"}
	}
	return foldCase{"select " + prefix + x + " as f where " + g.boolean(1+r.Intn(2)), "random:deep"}
}

// ---------------------------------------------------------------- raw trees (not through the parser)

// The optimizer is public API (`ExpressionOptimizer{Root}`) and the theorem speaks of every tree,
// also those Check refuses (`(key + 1) + 2`, `'a' - 1`, `true & 1`, unknown functions, …): random
// trees built node by node, the same description built twice (Optimize mutates).

type rawNode struct {
	kind string // B F S N C I R M D T L A
	op   kvql.Operator
	pos  int
	data string
	i    int64
	f    float64
	b    bool
	kids []*rawNode
}

func (n *rawNode) build() kvql.Expression {
	switch n.kind {
	case "B":
		return &kvql.BinaryOpExpr{Pos: n.pos, Op: n.op, Left: n.kids[0].build(), Right: n.kids[1].build()}
	case "F":
		if n.b {
			return &kvql.FieldExpr{Pos: n.pos, Field: kvql.KeyKW}
		}
		return &kvql.FieldExpr{Pos: n.pos, Field: kvql.ValueKW}
	case "S":
		return &kvql.StringExpr{Pos: n.pos, Data: n.data}
	case "N":
		return &kvql.NotExpr{Pos: n.pos, Right: n.kids[0].build()}
	case "C":
		args := make([]kvql.Expression, len(n.kids))
		for i, k := range n.kids {
			args[i] = k.build()
		}
		return &kvql.FunctionCallExpr{Pos: n.pos, Name: &kvql.NameExpr{Pos: n.pos, Data: n.data}, Args: args}
	case "I":
		return &kvql.NameExpr{Pos: n.pos, Data: n.data}
	case "R":
		return &kvql.FieldReferenceExpr{Name: &kvql.NameExpr{Pos: n.pos, Data: n.data}, FieldExpr: n.kids[0].build()}
	case "M":
		return &kvql.NumberExpr{Pos: n.pos, Data: fmt.Sprint(n.i), Int: n.i}
	case "D":
		return &kvql.FloatExpr{Pos: n.pos, Data: "f", Float: n.f}
	case "T":
		return &kvql.BoolExpr{Pos: n.pos, Data: fmt.Sprint(n.b), Bool: n.b}
	case "L":
		items := make([]kvql.Expression, len(n.kids))
		for i, k := range n.kids {
			items[i] = k.build()
		}
		return &kvql.ListExpr{Pos: n.pos, List: items}
	default: // "A"
		return &kvql.FieldAccessExpr{Pos: n.pos, Left: n.kids[0].build(), FieldName: n.kids[1].build()}
	}
}

var rawOps = []kvql.Operator{kvql.And, kvql.Or, kvql.Not, kvql.Eq, kvql.NotEq, kvql.PrefixMatch, kvql.RegExpMatch, kvql.Add, kvql.Sub,
	kvql.Mul, kvql.Div, kvql.Gt, kvql.Gte, kvql.Lt, kvql.Lte, kvql.In, kvql.Between, kvql.KWAnd, kvql.KWOr}
var rawHotOps = []kvql.Operator{kvql.Add, kvql.Add, kvql.Mul, kvql.Add, kvql.Mul, kvql.Sub, kvql.Div, kvql.And, kvql.Or, kvql.Eq, kvql.Lt, kvql.Gte}
var rawFuncs = []string{"upper", "lower", "str", "int", "float", "strlen", "substr", "is_int", "is_float", "len", "join", "split", "list",
	"json", "INT", "Upper", "nosuch", "count", "l2_distance", "ilist"}

func rawLeaf(r *Rand) *rawNode {
	pos := r.Intn(40)
	switch r.Intn(12) {
	case 0, 1:
		return &rawNode{kind: "M", pos: pos, i: pick(r, []int64{0, 1, 2, 3, -1, 7, 9223372036854775807, -9223372036854775808, 2147483648, 4294967296, 4294967297, 3037000500})}
	case 2, 3:
		return &rawNode{kind: "D", pos: pos, f: pick(r, []float64{0.5, 1.5, 2.0, 0.0, -0.25, 1e16, 1e308, 0.1, 0.7})}
	case 4, 5:
		return &rawNode{kind: "S", pos: pos, data: pick(r, []string{"a", "", "12", "0.5", "B", "a,b"})}
	case 6:
		return &rawNode{kind: "T", pos: pos, b: r.Bool()}
	case 7, 8:
		return &rawNode{kind: "F", pos: pos, b: r.Bool()}
	case 9:
		return &rawNode{kind: "I", pos: pos, data: pick(r, []string{"n", "x"})}
	case 10:
		return &rawNode{kind: "C", pos: pos, data: "int", kids: []*rawNode{{kind: "F", pos: pos + 4}}}
	default:
		return &rawNode{kind: "C", pos: pos, data: "float", kids: []*rawNode{{kind: "F", pos: pos + 6}}}
	}
}

func rawTree(r *Rand, d int) *rawNode {
	if d <= 0 || r.Chance(1, 4) {
		return rawLeaf(r)
	}
	pos := r.Intn(40)
	switch r.Intn(12) {
	case 0, 1, 2, 3, 4:
		op := pick(r, rawHotOps)
		if r.Chance(1, 4) {
			op = pick(r, rawOps)
		}
		right := rawTree(r, d-1)
		if (op == kvql.In || op == kvql.Between) && r.Chance(2, 3) {
			n := 2
			if op == kvql.In {
				n = r.Intn(3)
			}
			right = &rawNode{kind: "L", pos: pos + 1}
			for i := 0; i < n; i++ {
				right.kids = append(right.kids, rawTree(r, d-1))
			}
		}
		return &rawNode{kind: "B", pos: pos, op: op, kids: []*rawNode{rawTree(r, d-1), right}}
	case 5, 6:
		// left-deep chain with literals on the right
		op := pick(r, []kvql.Operator{kvql.Add, kvql.Mul, kvql.Add, kvql.Mul, kvql.Sub, kvql.Div})
		n := &rawNode{kind: "B", pos: pos, op: op, kids: []*rawNode{rawTree(r, d-1), rawLeaf(r)}}
		for i := r.Intn(3); i > 0; i-- {
			n = &rawNode{kind: "B", pos: r.Intn(40), op: op, kids: []*rawNode{n, rawLeaf(r)}}
		}
		return n
	case 7, 8:
		n := &rawNode{kind: "C", pos: pos, data: pick(r, rawFuncs)}
		for i := r.Intn(4); i > 0; i-- {
			n.kids = append(n.kids, rawTree(r, d-1))
		}
		return n
	case 9:
		return &rawNode{kind: "N", pos: pos, kids: []*rawNode{rawTree(r, d-1)}}
	case 10:
		return &rawNode{kind: "R", pos: pos, data: "n", kids: []*rawNode{rawTree(r, d-1)}}
	default:
		fn := &rawNode{kind: "S", pos: pos + 2, data: "a"}
		if r.Bool() {
			fn = &rawNode{kind: "M", pos: pos + 2, i: int64(r.Intn(3))}
		}
		return &rawNode{kind: "A", pos: pos, kids: []*rawNode{rawTree(r, d-1), fn}}
	}
}

func foldRawCase(e *Env, col *Collector, d *Driver, idx uint64, chunks [][]kvql.KVPair) error {
	r := NewRand(e.Seed, "FOLDRAW", idx)
	desc := rawTree(r, 1+r.Intn(4))
	to, tn := desc.build(), desc.build()
	return foldJudge(e, col, d, idx, "tree", "raw tree", "raw:", false, to, tn, chunks)
}

// ---------------------------------------------------------------- engine side

// blankFloatData removes the Data text of float literals (token after `D,pos`) from a wire tree and
// renders every NaN as `nan` (sign and payload of a NaN differ between the hardware, 0*Inf =
// fff8…, and the Lean run time, 7ff8…, and are not observable through kvql)
func blankFloatData(w string) string {
	if !strings.Contains(w, "D,") {
		return w
	}
	t := strings.Split(w, ",")
	for i := 0; i+3 < len(t); i++ {
		if t[i] == "D" {
			t[i+2] = "-"
			if bits, err := strconv.ParseUint(t[i+3], 10, 64); err == nil && bits&0x7ff0000000000000 == 0x7ff0000000000000 && bits&0xfffffffffffff != 0 {
				t[i+3] = "nan"
			}
			i += 3
		}
	}
	return strings.Join(t, ",")
}

// engineFold runs Optimize() on the node and renders (returned root, old root afterwards)
func engineFold(t kvql.Expression) (line string, ret kvql.Expression) {
	out, panicked := safely(func() string {
		ret = (&kvql.ExpressionOptimizer{Root: t}).Optimize()
		return "ok " + blankFloatData(wireExpr(ret)) + " " + blankFloatData(wireExpr(t))
	})
	if panicked {
		return "panic", nil
	}
	return out, ret
}

func modelFoldLine(resp string) string {
	w := strings.Fields(resp)
	if len(w) == 3 && w[0] == "ok" {
		return "ok " + blankFloatData(w[1]) + " " + blankFloatData(w[2])
	}
	if len(w) >= 1 && w[0] == "panic" {
		return "panic"
	}
	return resp
}

func valueKind(v any) string {
	switch v.(type) {
	case int64, int:
		return "int"
	case float64:
		return "float"
	case string, []byte:
		return "text"
	case bool:
		return "bool"
	case nil:
		return "nil"
	}
	return "other"
}

// describe how an optimised outcome differs from the original value
func foldDiffClass(orig rowRes, optClass string, optVal any) string {
	if optClass != "ok" {
		return valueKind(orig.val) + "->" + optClass
	}
	ko, kn := valueKind(orig.val), valueKind(optVal)
	if ko != kn {
		return "kind:" + ko + "->" + kn
	}
	return "value:" + ko
}

func exprText(e kvql.Expression) string {
	s, _ := safely(func() string { return e.String() })
	return s
}

func runFOLD(e *Env) (*Summary, error) {
	start := time.Now()
	col := NewCollector("FOLD", e.Tier, e.Seed,
		"correspondence: ExpressionOptimizer.Optimize() (returned root and old root node) vs Kvql.Fold.optimizeBoth on every select field and where clause, modulo Data of float literals; property C04: un-optimised vs optimised AST on every pair of 2 stores in row mode, batch mode (whole store and singleton chunks), value and kind; statement rows of BuildPlan (Next/Batch) vs rows of the un-optimised statement")
	saved := kvql.PlanBatchSize
	defer func() { kvql.PlanBatchSize = saved }()
	kvql.PlanBatchSize = 3
	cases := foldCases(e)
	nRandom := e.n(60000, 600000)
	nRaw := e.n(60000, 600000)
	col.Note(fmt.Sprintf("enumerated statements: %d; random statements: %d; raw trees: %d; PlanBatchSize=3", len(cases), nRandom, nRaw))
	chunks := make([][]kvql.KVPair, len(foldStores))
	for i, st := range foldStores {
		chunks[i] = foldChunk(st)
	}
	wideStores := append(append([][]KV{}, foldStores...), foldWideStore)
	wideChunks := append(append([][]kvql.KVPair{}, chunks...), foldChunk(foldWideStore))
	err := e.parallel(func(w int, d *Driver) error {
		for idx := w; idx < len(cases); idx += e.Workers {
			cs, sts := chunks, foldStores
			if strings.HasPrefix(cases[idx].origin, "wide:") {
				cs, sts = wideChunks, wideStores
			}
			if err := foldCheck(e, col, d, uint64(idx), cases[idx], cs, sts); err != nil {
				return err
			}
		}
		for idx := w; idx < nRandom; idx += e.Workers {
			if err := foldCheck(e, col, d, uint64(idx), foldRandomCase(e, uint64(idx)), chunks, foldStores); err != nil {
				return err
			}
		}
		for idx := w; idx < nRaw; idx += e.Workers {
			if err := foldRawCase(e, col, d, uint64(idx), chunks); err != nil {
				return err
			}
		}
		return nil
	})
	if err != nil {
		return nil, err
	}
	s := col.Finish(start)
	s.Exhaustive = true
	return s, nil
}

func foldCheck(e *Env, col *Collector, d *Driver, idx uint64, c foldCase, chunks [][]kvql.KVPair, stores [][]KV) error {
	orig, perr := parseTargets(c.q)
	if perr != nil {
		col.Hist("parse:rejected", "parse:rejected:"+strings.SplitN(c.origin, ":", 2)[0])
		return nil
	}
	opt, perr2 := parseTargets(c.q)
	if perr2 != nil {
		return nil
	}
	col.Hist("parse:accepted", "origin:"+c.origin)
	nf := len(orig.Fields)
	for ti := 0; ti <= nf; ti++ {
		var name string
		var to, tn kvql.Expression
		if ti < nf {
			name = fmt.Sprintf("field%d", ti)
			to, tn = orig.Fields[ti], opt.Fields[ti]
		} else {
			name = "where"
			to, tn = orig.Where.Expr, opt.Where.Expr
		}
		sample := strings.HasPrefix(c.origin, "main") || strings.HasPrefix(c.origin, "chain") || (strings.HasPrefix(c.origin, "wide") && idx%7 == 0)
		if err := foldJudge(e, col, d, idx, name, fmt.Sprintf("%s of `%s`", name, c.q), "", sample, to, tn, chunks); err != nil {
			return err
		}
	}
	// ---- C04 on the statement
	foldStmtCheck(e, col, idx, c, stores)
	return nil
}

// foldJudge: correspondence of Optimize() on tn (a tree nobody else holds) and the C04 differential
// between the untouched twin `to` and the optimised tree.  `pre` prefixes the check names ("raw:"
// for trees that did not come from the parser).
func foldJudge(e *Env, col *Collector, d *Driver, idx uint64, name, caseStr, pre string, sample bool, to, tn kvql.Expression, chunks [][]kvql.KVPair) error {
	wire := wireExpr(tn)
	if strings.Contains(wire, "Y") || strings.Contains(wire, "?") {
		col.Hist("skip:cyclic-or-unknown-node")
		return nil
	}
	before := exprText(tn)
	// ---- correspondence
	line := "FOLD " + wire
	eng, ret := engineFold(tn)
	resp, err := d.Ask(line)
	if err != nil {
		return err
	}
	mod := modelFoldLine(resp)
	col.Eval(1)
	if eng != mod {
		col.Find(Finding{Kind: "correspondence", Group: "FOLD", Check: pre + "optimize", Case: caseStr + " = `" + before + "`", Line: line,
			Engine: eng, Model: mod, Seed: e.Seed, Index: idx, Properties: []string{"C04"}})
	}
	if eng == "panic" {
		col.Hist("engine-panic:optimize")
		col.Find(Finding{Kind: "crash", Group: "FOLD", Check: pre + "optimize-panic", Case: caseStr + " = `" + before + "`", Line: line,
			Engine: "panic in Optimize()", Model: mod, Seed: e.Seed, Index: idx, Properties: []string{"C04", "C06"}})
		return nil
	}
	after := exprText(ret)
	if after != before {
		col.Hist("rewritten:" + pre + name)
		col.Nontrivial(blankFloatData(wire))
		if sample {
			col.Sample(before + "  =>  " + after)
		}
	} else {
		col.Hist("unchanged:" + pre + name)
	}
	// ---- C04 on the expression
	for si, chunk := range chunks {
		ro, _ := engineRows(to, chunk, "0")
		rn, _ := engineRows(ret, chunk, "0")
		for i := range chunk {
			if ro[i].class != "ok" {
				col.Hist("row:orig-" + ro[i].class)
				continue
			}
			col.Hist("row:orig-ok")
			col.Eval(1)
			if rn[i].class != "ok" || evContent(rn[i].val) != evContent(ro[i].val) {
				cls := foldDiffClass(ro[i], rn[i].class, rn[i].val)
				got := rn[i].class
				if got == "ok" {
					got = evContent(rn[i].val)
				}
				col.Find(Finding{Kind: "property", Group: "FOLD", Check: pre + "C04-row:" + cls, Class: cls,
					Case:   fmt.Sprintf("`%s` => `%s` on (%q, %q) [%s, store %d]", before, after, chunk[i].Key, chunk[i].Value, caseStr, si),
					Line:   line,
					Engine: "optimised: " + got, Model: "original: " + evContent(ro[i].val),
					Seed: e.Seed, Index: idx, Properties: []string{"C04"}})
			}
		}
		// batch: the whole store, then every singleton chunk
		judgeBatch := func(sub []kvql.KVPair, label string) {
			bo, co, _ := engineBatch(to, sub, "0")
			if co != "ok" || len(bo) != len(sub) {
				col.Hist("batch:orig-" + co)
				return
			}
			col.Hist("batch:orig-ok")
			bn, cn, _ := engineBatch(ret, sub, "0")
			col.Eval(1)
			for i := range sub {
				bad, got, cls := false, cn, ""
				if cn != "ok" || len(bn) != len(sub) {
					bad, cls = true, foldDiffClass(rowRes{bo[i], "ok"}, cn, nil)
				} else if evContent(bn[i]) != evContent(bo[i]) {
					bad, got, cls = true, evContent(bn[i]), foldDiffClass(rowRes{bo[i], "ok"}, "ok", bn[i])
				}
				if bad {
					col.Find(Finding{Kind: "property", Group: "FOLD", Check: pre + "C04-batch:" + cls, Class: cls,
						Case:   fmt.Sprintf("`%s` => `%s` on (%q, %q) %s [%s, store %d]", before, after, sub[i].Key, sub[i].Value, label, caseStr, si),
						Line:   line,
						Engine: "optimised: " + got, Model: "original: " + evContent(bo[i]),
						Seed: e.Seed, Index: idx, Properties: []string{"C04"}})
					return
				}
			}
		}
		judgeBatch(chunk, "in the whole-store chunk")
		for i := range chunk {
			judgeBatch(chunk[i:i+1], "as a singleton chunk")
		}
	}
	return nil
}

// reference rows of the un-optimised statement: filter + projection pair by pair, row evaluator
func foldReferenceRows(q string, chunk []kvql.KVPair, batch bool, rowProjection bool) (rows []string, class string) {
	out, panicked := safely(func() string {
		stmt, filter, err := kvql.BuildExecutor(q)
		if err != nil {
			class = "parse"
			return ""
		}
		if batch {
			ctx := mkCtx("0")
			keep, err := filter.FilterBatch(chunk, ctx)
			if err != nil || len(keep) != len(chunk) {
				class = "error"
				return ""
			}
			var sel []kvql.KVPair
			for i, k := range keep {
				if k {
					sel = append(sel, chunk[i])
				}
			}
			cols := make([][]any, len(stmt.Fields))
			for fi, f := range stmt.Fields {
				vs, err := f.ExecuteBatch(sel, mkCtx("0"))
				if err != nil || len(vs) != len(sel) {
					class = "error"
					return ""
				}
				cols[fi] = vs
			}
			for i := range sel {
				p := make([]string, len(cols))
				for fi := range cols {
					p[fi] = evContent(cols[fi][i])
				}
				rows = append(rows, strings.Join(p, " "))
			}
			class = "ok"
			return ""
		}
		for _, kv := range chunk {
			ctx := mkCtx("0")
			ok, err := filter.Filter(kv, ctx)
			if err != nil {
				class = "error"
				return ""
			}
			if !ok {
				continue
			}
			p := make([]string, len(stmt.Fields))
			for fi, f := range stmt.Fields {
				v, err := f.Execute(kv, ctx)
				if err != nil {
					class = "error"
					return ""
				}
				switch v.(type) {
				case []string, []int64, []float64, []kvql.Expression:
					// ProjectionPlan.Next refuses typed lists ("Expression result type not support"),
					// with or without the optimizer: outside this group's domain
					if rowProjection {
						class = "unsupported-column"
						return ""
					}
				}
				p[fi] = evContent(v)
			}
			rows = append(rows, strings.Join(p, " "))
		}
		class = "ok"
		return ""
	})
	_ = out
	if panicked {
		return nil, "panic"
	}
	sort.Strings(rows)
	return rows, class
}

func foldStmtCheck(e *Env, col *Collector, idx uint64, c foldCase, stores [][]KV) {
	for si, st := range stores {
		chunk := foldChunk(st)
		for _, batch := range []bool{false, true} {
			mode := "row"
			if batch {
				mode = "batch"
			}
			ref, cls := foldReferenceRows(c.q, chunk, false, !batch)
			if cls != "ok" {
				col.Hist("stmt:reference-" + cls)
				continue
			}
			if batch {
				// the batch evaluators on the un-optimised statement must agree with the row ones,
				// else the difference is C03's business, not the optimizer's
				refB, clsB := foldReferenceRows(c.q, chunk, true, false)
				if clsB != "ok" || strings.Join(refB, ";") != strings.Join(ref, ";") {
					col.Hist("stmt:batch-reference-differs(C03)")
					continue
				}
			}
			res := runStatement(c.q, NewRefStore(st), batch, false)
			col.Eval(1)
			var got []string
			for _, r := range res.Rows {
				p := make([]string, len(r))
				for j, v := range r {
					p[j] = evContent(v)
				}
				got = append(got, strings.Join(p, " "))
			}
			sort.Strings(got)
			eng := res.Outcome() + " " + strings.Join(got, ";")
			want := "ok " + strings.Join(ref, ";")
			oc := res.Outcome()
			if i := strings.Index(oc, "@"); i >= 0 {
				oc = oc[:i]
			}
			col.Hist("stmt:" + mode + ":" + oc)
			if eng != want {
				col.Find(Finding{Kind: "property", Group: "FOLD", Check: "C04-stmt", Class: mode,
					Case:   fmt.Sprintf("`%s` %s mode, store %d", c.q, mode, si),
					Line:   "STMT " + hxs(c.q),
					Engine: "BuildPlan rows: " + eng, Model: "un-optimised statement: " + want,
					Seed: e.Seed, Index: idx, Properties: []string{"C04"}})
			}
		}
	}
}
