package main

// Group SCAN (properties C02, C18 planner half).
//
//   correspondence: for a generated predicate P, `select * where P` is parsed by the real parser,
//     planned by the real FilterOptimizer (bare, and through NewOptimizer+BuildPlan, which folds
//     constants first) and the plan node is compared with the Lean model (`SCAN <wire-expr>`).
//   property (spec differential): an independent evaluator (this file, plain Go string/byte
//     comparisons on the generator's own tree, no kvql code) decides P on every key of a universe
//     that realises every order/prefix relation to P's literals, under every value of the opaque
//     atoms.  C02: every key on which P can be true lies inside the plan's region; the rows the
//     engine returns on a store holding the universe equal filter-every-pair.  C18: AND narrows to
//     within a pinning conjunct; equalities/IN are point reads; face-unsatisfiable shapes read nothing.

import (
	"bytes"
	"fmt"
	"os"
	"sort"
	"strings"
	"sync/atomic"
	"time"
	"unicode/utf8"

	"github.com/c4pt0r/kvql"
)

func init() { groups["SCAN"] = runSCAN }

// ---------------------------------------------------------------- predicate trees

const (
	pCmp     = iota // key OP 'lit'  /  'lit' OP key
	pIn             // key in ('l1', …)
	pBetween        // key between 'l1' and 'l2'
	pOpaque         // a predicate on the value only
	pConst          // true / false / 1 = 1 / 1 = 2
	pNot
	pBin
)

type pnode struct {
	kind    int
	op      string   // pCmp: = ^= > >= < <= ; pBin: & | and or
	litLeft bool     // pCmp: literal on the left
	lits    []string // pCmp: 1, pIn: n, pBetween: 2
	opq     int      // pOpaque: index into opaqueAtoms
	cval    bool     // pConst
	ctext   string   // pConst: source text
	l, r    *pnode
}

var cmpOps = []string{"=", "^=", ">", ">=", "<", "<="}
var binOps = []string{"&", "|", "and", "or"}

// opaque atoms: decided by the value alone; the pool of values realises all four combinations
// of the first two (the third is a dependent one)
var opaqueAtoms = []string{"value ^= 'x'", "value ~= 'y'", "value = 'xy'"}
var valuePool = []string{"x", "xy", "y", "z"}

func evalOpaque(i int, v string) bool {
	switch i {
	case 0:
		return strings.HasPrefix(v, "x")
	case 1:
		return strings.Contains(v, "y")
	default:
		return v == "xy"
	}
}

func (p *pnode) text() string {
	switch p.kind {
	case pCmp:
		if p.litLeft {
			return "'" + p.lits[0] + "' " + p.op + " key"
		}
		return "key " + p.op + " '" + p.lits[0] + "'"
	case pIn:
		q := make([]string, len(p.lits))
		for i, l := range p.lits {
			q[i] = "'" + l + "'"
		}
		return "key in (" + strings.Join(q, ", ") + ")"
	case pBetween:
		return "key between '" + p.lits[0] + "' and '" + p.lits[1] + "'"
	case pOpaque:
		return opaqueAtoms[p.opq]
	case pConst:
		return p.ctext
	case pNot:
		return "!(" + p.l.text() + ")"
	default:
		return "(" + p.l.text() + ") " + p.op + " (" + p.r.text() + ")"
	}
}

// eval: the documented meaning, on one pair.  Plain byte-wise comparisons.
func (p *pnode) eval(k, v string) bool {
	switch p.kind {
	case pCmp:
		a, b := k, p.lits[0] // a OP b
		if p.litLeft {
			a, b = p.lits[0], k
		}
		c := bytes.Compare([]byte(a), []byte(b))
		switch p.op {
		case "=":
			return c == 0
		case "^=":
			return strings.HasPrefix(a, b)
		case ">":
			return c > 0
		case ">=":
			return c >= 0
		case "<":
			return c < 0
		default:
			return c <= 0
		}
	case pIn:
		for _, l := range p.lits {
			if l == k {
				return true
			}
		}
		return false
	case pBetween:
		return p.lits[0] <= k && k <= p.lits[1]
	case pOpaque:
		return evalOpaque(p.opq, v)
	case pConst:
		return p.cval
	case pNot:
		return !p.l.eval(k, v)
	default:
		if p.op == "&" || p.op == "and" {
			return p.l.eval(k, v) && p.r.eval(k, v)
		}
		return p.l.eval(k, v) || p.r.eval(k, v)
	}
}

func (p *pnode) literals(acc map[string]bool) {
	for _, l := range p.lits {
		acc[l] = true
	}
	if p.l != nil {
		p.l.literals(acc)
	}
	if p.r != nil {
		p.r.literals(acc)
	}
}

func (p *pnode) shape(acc map[string]bool) {
	switch p.kind {
	case pCmp:
		if p.litLeft {
			acc["atom:lit"+p.op+"key"] = true
		} else {
			acc["atom:key"+p.op+"lit"] = true
		}
	case pIn:
		acc["atom:in"] = true
	case pBetween:
		acc["atom:between"] = true
	case pOpaque:
		acc["atom:opaque"] = true
	case pConst:
		acc["atom:const"] = true
	case pNot:
		acc["op:!"] = true
	default:
		acc["op:"+p.op] = true
	}
	if p.l != nil {
		p.l.shape(acc)
	}
	if p.r != nil {
		p.r.shape(acc)
	}
}

func (p *pnode) isAnd() bool { return p.kind == pBin && (p.op == "&" || p.op == "and") }

// conjuncts of the top-level AND spine
func (p *pnode) conjuncts(acc []*pnode) []*pnode {
	if p.isAnd() {
		return p.r.conjuncts(p.l.conjuncts(acc))
	}
	return append(acc, p)
}

// ---------------------------------------------------------------- regions

// scanRegion is a canonical plan node
type scanRegion struct {
	kind   string // EMPTY MGET PREFIX RANGE FULL
	keys   []string
	lo, hi []byte // RANGE; nil = unbounded
}

func (s scanRegion) String() string {
	nh := func(b []byte) string {
		if b == nil {
			return "nil"
		}
		return hx(b)
	}
	switch s.kind {
	case "MGET":
		p := make([]string, len(s.keys))
		for i, k := range s.keys {
			p[i] = hxs(k)
		}
		return "MGET " + strings.Join(p, ",")
	case "PREFIX":
		return "PREFIX " + hxs(s.keys[0])
	case "RANGE":
		return "RANGE " + nh(s.lo) + " " + nh(s.hi)
	}
	return s.kind
}

// contains: the keys the plan node reads (scan_plan.go: RangeScan reads Start ≤ k ≤ End)
func (s scanRegion) contains(k string) bool {
	switch s.kind {
	case "EMPTY":
		return false
	case "MGET":
		for _, x := range s.keys {
			if x == k {
				return true
			}
		}
		return false
	case "PREFIX":
		return strings.HasPrefix(k, s.keys[0])
	case "RANGE":
		return (s.lo == nil || bytes.Compare(s.lo, []byte(k)) <= 0) && (s.hi == nil || bytes.Compare([]byte(k), s.hi) <= 0)
	}
	return true
}

func canonPlan(p kvql.Plan) scanRegion {
	switch x := p.(type) {
	case *kvql.EmptyResultPlan:
		return scanRegion{kind: "EMPTY"}
	case *kvql.MultiGetPlan:
		ks := append([]string{}, x.Keys...)
		sort.Strings(ks)
		return scanRegion{kind: "MGET", keys: ks}
	case *kvql.PrefixScanPlan:
		return scanRegion{kind: "PREFIX", keys: []string{x.Prefix}}
	case *kvql.RangeScanPlan:
		return scanRegion{kind: "RANGE", lo: x.Start, hi: x.End}
	case *kvql.FullScanPlan:
		return scanRegion{kind: "FULL"}
	}
	return scanRegion{kind: fmt.Sprintf("?%T", p)}
}

// pinRegion: the region an atom pins, closed (a range scan is inclusive at both ends, so
// `key > 'a'` pins [a, ∞)); ok=false when the atom does not pin the key
func (p *pnode) pinRegion() (in func(k string) bool, ok bool) {
	switch p.kind {
	case pCmp:
		l := p.lits[0]
		op := p.op
		if p.litLeft { // 'l' OP key  ≡  key OP' 'l'
			switch op {
			case ">":
				op = "<"
			case ">=":
				op = "<="
			case "<":
				op = ">"
			case "<=":
				op = ">="
			case "^=":
				return nil, false // 'l' ^= key: l has prefix key — not a region the planner uses
			}
		}
		switch op {
		case "=":
			return func(k string) bool { return k == l }, true
		case "^=":
			if l == "" {
				return nil, false
			}
			return func(k string) bool { return strings.HasPrefix(k, l) }, true
		case ">", ">=":
			if l == "" {
				return nil, false
			}
			return func(k string) bool { return k >= l }, true
		default:
			return func(k string) bool { return k <= l }, true
		}
	case pIn:
		return func(k string) bool {
			for _, l := range p.lits {
				if l == k {
					return true
				}
			}
			return false
		}, true
	case pBetween:
		lo, hi := p.lits[0], p.lits[1]
		if lo > hi { // reversed bounds (a run-time error in kvql): the planner reads them swapped
			lo, hi = hi, lo
		}
		return func(k string) bool { return lo <= k && k <= hi }, true
	}
	return nil, false
}

// ---------------------------------------------------------------- key universe

var baseKeys = func() []string {
	ks := []string{"", "\x00"}
	for _, a := range []string{"a", "b"} {
		ks = append(ks, a)
		for _, b := range []string{"a", "b"} {
			ks = append(ks, a+b)
			for _, c := range []string{"a", "b"} {
				ks = append(ks, a+b+c)
			}
		}
	}
	return ks
}()

func succPrefix(l string) (string, bool) {
	b := []byte(l)
	for len(b) > 0 && b[len(b)-1] == 0xff {
		b = b[:len(b)-1]
	}
	if len(b) == 0 {
		return "", false
	}
	b[len(b)-1]++
	return string(b), true
}

// universe: every literal l and the end succ(l) of its prefix interval are cut points of the key
// line ("" is always one).  The truth of a predicate on a key depends only on the key's position
// relative to the cut points and, for `'lit' ^= key`, on the key being one of the finitely many
// prefixes of a literal.  The universe holds every prefix of every literal, every cut point c and
// c + "\x00"^(L+1) (L = the longest literal): that key is the representative of the open cell above c
// when it lies below the next cut point c' (it is longer than every literal, so a prefix of none);
// when it does not, c' = c + "\x00"^n is a literal and every key of the cell is one of its prefixes.
// Literals may hold any byte (0x00, 0xff, ≥ 0x80): nothing here assumes printable text.
// Below/above neighbours are added on top.
func cellRep(c string, maxLit int) string { return c + strings.Repeat("\x00", maxLit+1) }

func cutPoints(lits map[string]bool) (cs []string, maxLit int) {
	cuts := map[string]bool{"": true}
	for l := range lits {
		if len(l) > maxLit {
			maxLit = len(l)
		}
		cuts[l] = true
		if s, ok := succPrefix(l); ok {
			cuts[s] = true
		}
	}
	for c := range cuts {
		cs = append(cs, c)
	}
	sort.Strings(cs)
	return cs, maxLit
}

func universe(p *pnode) []string {
	lits := map[string]bool{}
	p.literals(lits)
	set := map[string]bool{}
	for _, k := range baseKeys {
		set[k] = true
	}
	cs, maxLit := cutPoints(lits)
	for _, c := range cs {
		set[c] = true
		set[cellRep(c, maxLit)] = true
	}
	for l := range lits {
		for i := 0; i <= len(l); i++ {
			set[l[:i]] = true
		}
		set[l+"\x00"] = true
		set[l+"\xff"] = true
		set[l+"a"] = true
		if s, ok := succPrefix(l); ok {
			set[s+"\x00"] = true
		}
		if n := len(l); n > 0 && l[n-1] > 0 {
			set[l[:n-1]+string([]byte{l[n-1] - 1})+"\xff"] = true
			set[l[:n-1]+string([]byte{l[n-1] - 1})] = true
		}
	}
	ks := make([]string, 0, len(set))
	for k := range set {
		ks = append(ks, k)
	}
	sort.Strings(ks)
	return ks
}

// universeAdequate re-checks the claim above for one predicate, cell by cell, without relying on
// how the universe was built: every cut point is a universe key; the open cell above a cut point c
// either holds a universe key that is a prefix of no literal, or all its keys (then finitely many:
// c + "\x00"^j below the next cut point) are universe keys.
func universeAdequate(p *pnode, u []string) bool {
	lits := map[string]bool{}
	p.literals(lits)
	cs, maxLit := cutPoints(lits)
	isLitPrefix := func(k string) bool {
		for l := range lits {
			if strings.HasPrefix(l, k) {
				return true
			}
		}
		return false
	}
	inU := map[string]bool{}
	for _, k := range u {
		inU[k] = true
	}
	for i, c := range cs {
		if !inU[c] {
			return false
		}
		hasHi := i+1 < len(cs)
		hi := ""
		if hasHi {
			hi = cs[i+1]
		}
		found := false
		for _, k := range u {
			if k > c && (!hasHi || k < hi) && !isLitPrefix(k) {
				found = true
				break
			}
		}
		if found {
			continue
		}
		// no representative: the cell must be finite and entirely inside the universe
		if !hasHi || cellRep(c, maxLit) < hi {
			return false
		}
		for k := c + "\x00"; k < hi; k += "\x00" {
			if !inU[k] {
				return false
			}
		}
	}
	return true
}

// ---------------------------------------------------------------- atoms and trees

var smallLits = []string{"", "a", "ab", "b", "ba"}

func allAtoms(lits []string) []*pnode {
	var as []*pnode
	for _, op := range cmpOps {
		for _, l := range lits {
			as = append(as, &pnode{kind: pCmp, op: op, lits: []string{l}})
			as = append(as, &pnode{kind: pCmp, op: op, lits: []string{l}, litLeft: true})
		}
	}
	for _, a := range lits {
		as = append(as, &pnode{kind: pIn, lits: []string{a}})
		for _, b := range lits {
			as = append(as, &pnode{kind: pIn, lits: []string{a, b}})
			as = append(as, &pnode{kind: pBetween, lits: []string{a, b}})
		}
	}
	as = append(as, &pnode{kind: pIn, lits: []string{"b", "a", "a", ""}})
	for i := range opaqueAtoms {
		as = append(as, &pnode{kind: pOpaque, opq: i})
	}
	as = append(as, constAtoms()...)
	return as
}

func constAtoms() []*pnode {
	return []*pnode{
		{kind: pConst, cval: true, ctext: "true"}, {kind: pConst, cval: false, ctext: "false"},
		{kind: pConst, cval: true, ctext: "1 = 1"}, {kind: pConst, cval: false, ctext: "1 = 2"},
	}
}

// the fixed atom list of the depth-2 enumeration: one of each operator and side, the corner
// literals ” and a prefix pair (a, ab), an opaque atom
func fixedAtoms() []*pnode {
	c := func(op, l string, left bool) *pnode {
		return &pnode{kind: pCmp, op: op, lits: []string{l}, litLeft: left}
	}
	return []*pnode{
		c("=", "a", false), c("=", "", false), c("^=", "a", false), c("^=", "", false),
		c(">", "ab", false), c(">=", "b", false), c("<", "b", false), c("<=", "", false),
		c("<", "a", true), c(">", "ab", true),
		{kind: pIn, lits: []string{"ab", "b", "ab"}},
		{kind: pBetween, lits: []string{"a", "b"}},
		{kind: pBetween, lits: []string{"", ""}},
		{kind: pOpaque, opq: 0},
	}
}

// hiLits: literals with the bytes 0xff, 0x00 and ≥ 0x80 — the ends of the byte order, where the
// "next prefix" of a literal needs a carry ("k\xff" → "l", "\xff" → none) and where a key directly
// above a literal ("a\x00") is itself a literal.  The query text carries the bytes raw inside the
// quotes (the lexer has no escapes); the wire format is hex.
var hiLits = []string{"k\xff", "\xff", "a\x00", "\x80", "k\xfe\xff", "l", "k", "\xff\xff"}

// hiAtoms: a reduced atom list over hiLits (every operator, both sides for the order operators,
// IN and BETWEEN over neighbours)
func hiAtoms() []*pnode {
	var as []*pnode
	for _, l := range hiLits {
		for _, op := range cmpOps {
			as = append(as, &pnode{kind: pCmp, op: op, lits: []string{l}})
		}
	}
	for _, l := range []string{"k\xff", "\xff", "a\x00"} {
		for _, op := range []string{"^=", "<", ">="} {
			as = append(as, &pnode{kind: pCmp, op: op, lits: []string{l}, litLeft: true})
		}
	}
	as = append(as,
		&pnode{kind: pIn, lits: []string{"k\xff", "\xff"}},
		&pnode{kind: pIn, lits: []string{"a\x00", "\x80", "a\x00"}},
		&pnode{kind: pBetween, lits: []string{"k", "k\xff"}},
		&pnode{kind: pBetween, lits: []string{"k\xfe\xff", "l"}},
		&pnode{kind: pBetween, lits: []string{"\x80", "\xff"}},
		&pnode{kind: pBetween, lits: []string{"a\x00", "a\x00"}},
		&pnode{kind: pCmp, op: "^=", lits: []string{"a"}},
		&pnode{kind: pCmp, op: "^=", lits: []string{"b"}},
		&pnode{kind: pOpaque, opq: 0})
	return as
}

func randLit(r *Rand) string {
	switch x := r.Intn(20); {
	case x < 13:
		return pick(r, smallLits)
	case x < 16:
		return pick(r, hiLits)
	case x < 18:
		n := 1 + r.Intn(3)
		b := make([]byte, n)
		for i := range b {
			b[i] = pick(r, []byte("kkl\xff\xff\xfe\x00\x80a"))
		}
		return string(b)
	}
	n := r.Intn(4)
	b := make([]byte, n)
	for i := range b {
		b[i] = pick(r, []byte("aabbc~0A"))
	}
	return string(b)
}

func randAtom(r *Rand) *pnode {
	switch x := r.Intn(20); {
	case x < 10:
		return &pnode{kind: pCmp, op: pick(r, cmpOps), lits: []string{randLit(r)}, litLeft: r.Chance(1, 3)}
	case x < 13:
		n := 1 + r.Intn(4)
		ls := make([]string, n)
		for i := range ls {
			ls[i] = randLit(r)
		}
		return &pnode{kind: pIn, lits: ls}
	case x < 16:
		return &pnode{kind: pBetween, lits: []string{randLit(r), randLit(r)}}
	case x < 19:
		return &pnode{kind: pOpaque, opq: r.Intn(len(opaqueAtoms))}
	default:
		return pick(r, constAtoms())
	}
}

// seededAtoms: a second atom list of the same size as fixedAtoms, drawn from the seed
func seededAtoms(seed uint64, n int) []*pnode {
	r := NewRand(seed, "SCAN-atoms", 0)
	var as []*pnode
	seen := map[string]bool{}
	for len(as) < n {
		a := randAtom(r)
		if a.kind == pConst || seen[a.text()] {
			continue
		}
		seen[a.text()] = true
		as = append(as, a)
	}
	return as
}

func randTree(r *Rand, depth int) *pnode {
	if depth == 0 || r.Chance(1, 4) {
		return randAtom(r)
	}
	if r.Chance(1, 10) {
		return &pnode{kind: pNot, l: randTree(r, depth-1)}
	}
	return &pnode{kind: pBin, op: pick(r, binOps), l: randTree(r, depth-1), r: randTree(r, depth-1)}
}

// depth1 lists every tree of depth ≤ 1 over the atoms with the given connectives
func depth1(atoms []*pnode, ops []string) []*pnode {
	ts := append([]*pnode{}, atoms...)
	for _, a := range atoms {
		ts = append(ts, &pnode{kind: pNot, l: a})
	}
	for _, op := range ops {
		for _, a := range atoms {
			for _, b := range atoms {
				ts = append(ts, &pnode{kind: pBin, op: op, l: a, r: b})
			}
		}
	}
	return ts
}

// ---------------------------------------------------------------- the check of one predicate

type scanCtx struct {
	c        *Collector
	d        *Driver
	modelOp  string
	rows     bool
	seed     uint64
	inadequ  *int64
	rejected *int64
}

func childOfFinal(fp kvql.FinalPlan) kvql.Plan {
	if pp, ok := fp.(*kvql.ProjectionPlan); ok {
		return pp.ChildPlan
	}
	return nil
}

func (x *scanCtx) checkOne(p *pnode, idx uint64, r *Rand) error {
	c := x.c
	ptext := p.text()
	q := "select * where " + ptext
	// --- the real parser (and checker)
	var stmt *kvql.SelectStmt
	perr, panicked := safely(func() string {
		st, err := kvql.NewParser(q).Parse()
		if err != nil {
			return "reject"
		}
		s, ok := st.(*kvql.SelectStmt)
		if !ok || s.Where == nil {
			return "reject"
		}
		stmt = s
		return ""
	})
	if panicked {
		c.Find(Finding{Kind: "crash", Group: "SCAN", Check: "parse", Case: visible(q), Engine: perr, Seed: x.seed, Index: idx, Properties: []string{"C06"}})
		return nil
	}
	if perr != "" {
		atomic.AddInt64(x.rejected, 1)
		return nil
	}
	c.Eval(1)
	shapes := map[string]bool{}
	p.shape(shapes)
	for s := range shapes {
		c.Hist(s)
	}

	// --- correspondence A: bare FilterOptimizer on the parsed tree
	wireRaw := wireExpr(stmt.Where.Expr)
	var planA scanRegion
	out, panicked := safely(func() string {
		planA = canonPlan(kvql.NewFilterOptimizer(stmt.Where, nil, &kvql.FilterExec{Ast: stmt.Where}).Optimize())
		return planA.String()
	})
	if panicked {
		c.Find(Finding{Kind: "crash", Group: "SCAN", Check: "optimize", Case: visible(q), Engine: out, Seed: x.seed, Index: idx, Properties: []string{"C06"}})
		return nil
	}
	lineA := x.modelOp + " " + wireRaw
	modelA, err := x.d.Ask(lineA)
	if err != nil {
		return err
	}
	if modelA != out {
		c.Find(Finding{Kind: "correspondence", Group: "SCAN", Check: "scan-plan", Case: visible(q), Line: lineA, Engine: out, Model: modelA, Seed: x.seed, Index: idx, Properties: []string{"C02", "C18"}})
	}

	// --- correspondence B: NewOptimizer + BuildPlan (constant folding first)
	u := universe(p)
	if !universeAdequate(p, u) {
		atomic.AddInt64(x.inadequ, 1)
	}
	variant := r.Intn(len(valuePool))
	kvs := make([]KV, len(u))
	for i, k := range u {
		kvs[i] = KV{k, valuePool[(i+variant)%len(valuePool)]}
	}
	store := NewRefStore(kvs)
	planB := planA
	outB, panickedB := safely(func() string {
		fp, err := kvql.NewOptimizer(q).BuildPlan(store)
		if err != nil {
			return "plan-error:" + errClass(err)
		}
		ch := childOfFinal(fp)
		if ch == nil {
			return "no-projection"
		}
		planB = canonPlan(ch)
		return planB.String()
	})
	if panickedB {
		c.Find(Finding{Kind: "crash", Group: "SCAN", Check: "buildplan", Case: visible(q), Engine: outB, Seed: x.seed, Index: idx, Properties: []string{"C06"}})
		return nil
	}
	if strings.HasPrefix(outB, "plan-error") || outB == "no-projection" {
		c.Hist("buildplan:" + outB)
	} else {
		// the folded tree, from a second parse
		st2, err := kvql.NewParser(q).Parse()
		if err == nil {
			s2 := st2.(*kvql.SelectStmt)
			eo := kvql.ExpressionOptimizer{Root: s2.Where.Expr}
			folded := eo.Optimize()
			wireF := wireExpr(folded)
			if wireF != wireRaw {
				c.Hist("folded-differs")
				lineB := x.modelOp + " " + wireF
				modelB, err := x.d.Ask(lineB)
				if err != nil {
					return err
				}
				if modelB != outB {
					c.Find(Finding{Kind: "correspondence", Group: "SCAN", Check: "scan-plan-folded", Case: visible(q), Line: lineB, Engine: outB, Model: modelB, Seed: x.seed, Index: idx, Properties: []string{"C02", "C18"}})
				}
			} else if outB != out {
				c.Find(Finding{Kind: "correspondence", Group: "SCAN", Check: "buildplan-vs-bare", Case: visible(q), Line: lineA, Engine: outB, Model: out, Seed: x.seed, Index: idx, Properties: []string{"C02", "C18"}})
			}
		}
	}
	c.Hist("kind:" + planB.kind)
	if planB.kind != "FULL" {
		c.Nontrivial(ptext)
	}
	if idx%4001 == 0 {
		c.Sample(q + "  =>  " + outB)
	}

	// --- C02 on the planner: every key on which P can hold is inside the region
	for pi, plan := range []scanRegion{planA, planB} {
		if pi == 1 && planB.String() == planA.String() {
			break
		}
		if k, v, bad := c02Violation(p, plan, u); bad {
			c.Find(Finding{Kind: "property", Group: "SCAN", Check: "C02-region", Case: visible(q), Line: lineA,
				Engine: plan.String(), Model: "key " + hxs(k) + " value " + hxs(v) + " satisfies the filter but lies outside the region",
				Seed: x.seed, Index: idx, Properties: []string{"C02"}})
		}
	}

	// --- the model's region test agrees with this file's reading of a plan node (sampled)
	if x.modelOp == "SCAN" && idx%16 == 0 {
		for j := 0; j < 4 && len(u) > 0; j++ {
			k := u[r.Intn(len(u))]
			line := "SCANSPEC " + wireRaw + " " + hxs(k)
			ans, err := x.d.Ask(line)
			if err != nil {
				return err
			}
			want := "out"
			if planA.contains(k) {
				want = "in"
			}
			if ans != want {
				c.Find(Finding{Kind: "correspondence", Group: "SCAN", Check: "region-test", Case: visible(q) + " key " + hxs(k), Line: line, Engine: want, Model: ans, Seed: x.seed, Index: idx, Properties: []string{"C02", "C18"}})
			}
		}
	}

	// --- C18 on the planner
	x.checkC18(p, q, lineA, planB, u, idx)

	// --- the DELETE shortcut: `delete where P` planned as RemovePlan only with an exact key list
	x.checkDelete(p, ptext, u, idx)

	// --- rows: the engine on a store holding the universe vs filter-every-pair
	if x.rows {
		var want []string
		for i, k := range u {
			if p.eval(k, valuePool[(i+variant)%len(valuePool)]) {
				want = append(want, hxs(k))
			}
		}
		wants := strings.Join(want, ",")
		for _, batch := range []bool{false, true} {
			res := runStatement(q, store.Clone(), batch, false)
			mode := "row"
			if batch {
				mode = "batch"
			}
			if res.Panic != "" {
				c.Find(Finding{Kind: "crash", Group: "SCAN", Check: "run-" + mode, Case: visible(q), Engine: "panic: " + res.Panic, Seed: x.seed, Index: idx, Properties: []string{"C06"}})
				continue
			}
			if res.Err != nil {
				c.Hist("run:" + res.ErrStage + "-error") // e.g. between with lower ≥ upper: a run-time error (C01's business)
				continue
			}
			var got []string
			for _, row := range res.Rows {
				if len(row) > 0 {
					if kb, ok := row[0].([]byte); ok {
						got = append(got, hx(kb))
						continue
					}
				}
				got = append(got, "?")
			}
			gots := strings.Join(got, ",")
			if gots == wants {
				c.Hist("run:" + mode + "-agree")
				continue
			}
			class := "rows-differ"
			gs, ws := dedupSorted(got), dedupSorted(want)
			switch {
			case strings.Join(gs, ",") == strings.Join(ws, ",") && len(got) > len(gs):
				class = "duplicate-rows"
			case subset(gs, ws) && len(gs) < len(ws):
				class = "rows-lost"
			case subset(ws, gs):
				class = "rows-extra"
			}
			props := []string{"C02", "C01"}
			if class == "duplicate-rows" || class == "rows-extra" {
				props = []string{"C01"}
			}
			c.Find(Finding{Kind: "property", Group: "SCAN", Check: "rows-" + mode, Case: visible(q), Line: lineA, Class: class,
				Engine: planB.String() + " rows " + gots, Model: "filter-every-pair " + wants, Seed: x.seed, Index: idx, Properties: props})
		}
	}
	return nil
}

// visible renders a statement for a finding's Case: control bytes and bytes that are not part of
// a valid UTF-8 sequence as \xNN (a JSON summary would turn them all into U+FFFD); the exact bytes
// are in the finding's Line
func visible(s string) string {
	var b strings.Builder
	for i := 0; i < len(s); {
		r, n := utf8.DecodeRuneInString(s[i:])
		if (r == utf8.RuneError && n <= 1) || r < 0x20 || r == 0x7f {
			fmt.Fprintf(&b, "\\x%02x", s[i])
			i++
			continue
		}
		b.WriteString(s[i : i+n])
		i += n
	}
	return b.String()
}

func c02Violation(p *pnode, plan scanRegion, u []string) (string, string, bool) {
	for _, k := range u {
		if plan.contains(k) {
			continue
		}
		for _, v := range valuePool {
			if p.eval(k, v) {
				return k, v, true
			}
		}
	}
	return "", "", false
}

// checkDelete: correspondence of buildDeletePlan (`SCANDEL`), and the exactness of the key list
// handed to RemovePlan: k ∈ keys ⇔ P holds on (k, v), for every key of the universe and every value
func (x *scanCtx) checkDelete(p *pnode, ptext string, u []string, idx uint64) {
	c := x.c
	q := "delete where " + ptext
	var removeKeys []string
	isRemove := false
	out, panicked := safely(func() string {
		fp, err := kvql.NewOptimizer(q).BuildPlan(NewRefStore(nil))
		if err != nil {
			return "plan-error:" + errClass(err)
		}
		switch pl := fp.(type) {
		case *kvql.RemovePlan:
			isRemove = true
			ks := make([]string, len(pl.Keys))
			for i, k := range pl.Keys {
				se, ok := k.(*kvql.StringExpr)
				if !ok {
					return "remove-with-non-literal-key"
				}
				removeKeys = append(removeKeys, se.Data)
				ks[i] = hxs(se.Data)
			}
			return "REMOVE " + strings.Join(ks, ",")
		case *kvql.DeletePlan:
			ch := canonPlan(pl.ChildPlan)
			if ch.kind == "EMPTY" {
				return "DELETE EMPTY"
			}
			return "DELETE " + ch.String()
		}
		return fmt.Sprintf("?%T", fp)
	})
	if panicked {
		c.Find(Finding{Kind: "crash", Group: "SCAN", Check: "delete-buildplan", Case: visible(q), Engine: out, Seed: x.seed, Index: idx, Properties: []string{"C06"}})
		return
	}
	if strings.HasPrefix(out, "plan-error") {
		c.Hist("delete:" + out)
		return
	}
	st2, err := kvql.NewParser(q).Parse()
	if err != nil {
		return
	}
	d2, ok := st2.(*kvql.DeleteStmt)
	if !ok {
		return
	}
	eo := kvql.ExpressionOptimizer{Root: d2.Where.Expr}
	line := "SCANDEL " + wireExpr(eo.Optimize())
	model := out
	if x.modelOp == "SCAN" { // the unpatched model has no DELETE part
		if model, err = x.d.Ask(line); err != nil {
			return
		}
	}
	if model != out {
		c.Find(Finding{Kind: "correspondence", Group: "SCAN", Check: "delete-plan", Case: visible(q), Line: line, Engine: out, Model: model, Seed: x.seed, Index: idx, Properties: []string{"C02"}})
	}
	c.Hist("delete:" + strings.Fields(out)[0])
	if isRemove {
		in := map[string]bool{}
		for _, k := range removeKeys {
			in[k] = true
		}
		uu := append([]string{}, u...)
		for _, k := range removeKeys { // a removed key outside the universe would be a finding too
			uu = append(uu, k)
		}
		for _, k := range uu {
			for _, v := range valuePool {
				if p.eval(k, v) != in[k] {
					c.Find(Finding{Kind: "property", Group: "SCAN", Check: "C02-delete-exact", Case: visible(q), Line: line, Engine: out,
						Model: fmt.Sprintf("key %s value %s: filter says %v, key list says %v", hxs(k), hxs(v), p.eval(k, v), in[k]),
						Seed:  x.seed, Index: idx, Properties: []string{"C02", "C11"}})
					return
				}
			}
		}
	}
}

func dedupSorted(xs []string) []string {
	ys := append([]string{}, xs...)
	sort.Strings(ys)
	out := ys[:0]
	for i, y := range ys {
		if i == 0 || y != ys[i-1] {
			out = append(out, y)
		}
	}
	return out
}

func subset(a, b []string) bool {
	m := map[string]bool{}
	for _, x := range b {
		m[x] = true
	}
	for _, x := range a {
		if !m[x] {
			return false
		}
	}
	return true
}

// planOf: the plan of a sub-predicate standing alone, constants folded as BuildPlan does
// (used for non-atomic conjuncts)
func planOf(p *pnode) (scanRegion, bool) {
	st, err := kvql.NewParser("select * where " + p.text()).Parse()
	if err != nil {
		return scanRegion{}, false
	}
	s, ok := st.(*kvql.SelectStmt)
	if !ok {
		return scanRegion{}, false
	}
	var reg scanRegion
	_, panicked := safely(func() string {
		// as BuildPlan does: fold constants first
		eo := kvql.ExpressionOptimizer{Root: s.Where.Expr}
		s.Where.Expr = eo.Optimize()
		reg = canonPlan(kvql.NewFilterOptimizer(s.Where, nil, &kvql.FilterExec{Ast: s.Where}).Optimize())
		return ""
	})
	return reg, !panicked
}

func (x *scanCtx) checkC18(p *pnode, q, line string, plan scanRegion, u []string, idx uint64) {
	c := x.c
	cs := p.conjuncts(nil)
	find := func(check, what string) {
		c.Find(Finding{Kind: "property", Group: "SCAN", Check: check, Case: visible(q), Line: line, Engine: plan.String(), Model: what,
			Seed: x.seed, Index: idx, Properties: []string{"C18"}})
	}
	// (i) a conjunction with a pinning conjunct reads inside the region of one pinning conjunct
	type pin struct {
		in   func(string) bool
		what string
	}
	var pins []pin
	for _, cj := range cs {
		if in, ok := cj.pinRegion(); ok {
			pins = append(pins, pin{in, cj.text()})
		}
	}
	if len(pins) > 0 {
		c.Hist("c18:pinned-conjunction")
		okAtom := false
		for _, pn := range pins {
			inside := true
			for _, k := range u {
				if plan.contains(k) && !pn.in(k) {
					inside = false
					break
				}
			}
			if inside {
				okAtom = true
				break
			}
		}
		if !okAtom {
			// a non-atomic conjunct (an OR of pinning atoms, …) may be the one AND narrowed to
			okOther := false
			for _, cj := range cs {
				if cj.kind != pBin && cj.kind != pNot {
					continue
				}
				reg, ok := planOf(cj)
				if !ok || reg.kind == "FULL" {
					continue
				}
				inside := true
				for _, k := range u {
					if plan.contains(k) && !reg.contains(k) {
						inside = false
						break
					}
				}
				if inside {
					okOther = true
					break
				}
			}
			if okOther {
				c.Hist("c18:narrowed-to-composite-conjunct")
			} else {
				find("C18-narrows", "region is inside the region of no pinning conjunct")
			}
		}
	}
	// (ii) key = lit / key in (…) as a conjunct ⇒ point reads or nothing
	for _, cj := range cs {
		if (cj.kind == pCmp && cj.op == "=") || cj.kind == pIn {
			c.Hist("c18:point-conjunct")
			if plan.kind != "MGET" && plan.kind != "EMPTY" {
				find("C18-point-reads", "conjunct "+cj.text()+" should give point reads")
			}
			break
		}
	}
	// (iii) unsatisfiable on its face ⇒ EMPTY
	unsat := ""
	for i, a := range cs {
		if a.kind == pConst && !a.cval {
			unsat = "false"
		}
		for _, b := range cs[i+1:] {
			if a.kind == pCmp && b.kind == pCmp && a.op == "=" && b.op == "=" && a.lits[0] != b.lits[0] {
				unsat = "two different equalities"
			}
			if a.kind == pCmp && b.kind == pCmp && a.op == "^=" && b.op == "^=" && !a.litLeft && !b.litLeft &&
				!strings.HasPrefix(a.lits[0], b.lits[0]) && !strings.HasPrefix(b.lits[0], a.lits[0]) {
				unsat = "two incompatible prefixes"
			}
			if isRangeAtom(a) && isRangeAtom(b) {
				ia, _ := a.pinRegion()
				ib, _ := b.pinRegion()
				if ia != nil && ib != nil {
					disjoint := true
					for _, k := range u {
						if ia(k) && ib(k) {
							disjoint = false
							break
						}
					}
					if disjoint {
						unsat = "two disjoint ranges"
					}
				}
			}
		}
	}
	if unsat != "" {
		if plan.kind == "EMPTY" {
			c.Hist("c18:unsat-empty")
		} else {
			// whatever the other conjuncts are and however the two are nested: optimizeAndExpr tests
			// every pair of conjuncts of the flattened spine (theorem C18.unsat_reads_nothing)
			find("C18-unsat", unsat+" as conjuncts should read nothing")
		}
	}
}

func isRangeAtom(p *pnode) bool {
	if p.kind == pBetween {
		return true
	}
	return p.kind == pCmp && p.op != "=" && p.op != "^="
}

// tripleConjunctions: a ∘ (b ∘ c) and (a ∘ b) ∘ c over a small list of key atoms and an opaque one
func tripleConjunctions() []*pnode {
	c := func(op, l string) *pnode { return &pnode{kind: pCmp, op: op, lits: []string{l}} }
	atoms := []*pnode{
		c("^=", "b"), c("^=", "c"), c("^=", "ba"), c(">=", "ba"), c(">", "c"), c("<", "bb"), c("<=", "a"),
		c("=", "ba"), c("=", "c"), {kind: pBetween, lits: []string{"b", "bz"}}, {kind: pIn, lits: []string{"ba", "c"}},
		{kind: pOpaque, opq: 0},
	}
	var out []*pnode
	for i, op := range []string{"&", "and"} {
		op2 := []string{"&", "and"}[1-i]
		for _, x := range atoms {
			for _, y := range atoms {
				for _, z := range atoms {
					out = append(out,
						&pnode{kind: pBin, op: op, l: x, r: &pnode{kind: pBin, op: op2, l: y, r: z}},
						&pnode{kind: pBin, op: op, l: &pnode{kind: pBin, op: op2, l: x, r: y}, r: z})
				}
			}
		}
	}
	return out
}

// ---------------------------------------------------------------- the group

func runSCAN(e *Env) (*Summary, error) {
	start := time.Now()
	c := NewCollector("SCAN", e.Tier, e.Seed,
		"distinct predicate texts whose plan node is not FULL (EMPTY/MGET/PREFIX/RANGE reached)")
	modelOp := "SCAN"
	if os.Getenv("KVQL_SCAN_MODEL") == "unpatched" {
		modelOp = "SCAN0"
		c.Note("model = ScanUnpatched (SCAN0)")
	}
	kvql.PlanBatchSize = 3

	// phase 1: exhaustive
	var cases []*pnode
	if e.Tier == "thorough" {
		d1 := depth1(fixedAtoms(), []string{"&", "|"})
		cases = append(cases, depth1(allAtoms(smallLits), binOps)...)
		for _, op := range []string{"&", "|"} {
			for _, a := range d1 {
				for _, b := range d1 {
					cases = append(cases, &pnode{kind: pBin, op: op, l: a, r: b})
				}
			}
		}
		for _, a := range d1 {
			cases = append(cases, &pnode{kind: pNot, l: a})
		}
		d1s := depth1(seededAtoms(e.Seed, len(fixedAtoms())), []string{"and", "|"})
		for _, op := range []string{"&", "or"} {
			for _, a := range d1s {
				for _, b := range d1s {
					cases = append(cases, &pnode{kind: pBin, op: op, l: a, r: b})
				}
			}
		}
	} else {
		cases = depth1(allAtoms(smallLits), binOps)
	}
	// literals with the bytes 0xff / 0x00 / ≥ 0x80: depth ≤ 1 over the reduced atom list (quick: & |;
	// thorough: all four connectives, and depth 2 over the prefix atoms)
	if e.Tier == "thorough" {
		cases = append(cases, depth1(hiAtoms(), binOps)...)
		var pre []*pnode
		for _, l := range append(append([]string{}, hiLits...), "a", "") {
			pre = append(pre, &pnode{kind: pCmp, op: "^=", lits: []string{l}})
		}
		pre = append(pre, &pnode{kind: pOpaque, opq: 1}, &pnode{kind: pCmp, op: ">=", lits: []string{"k\xff"}}, &pnode{kind: pCmp, op: "<", lits: []string{"\xff"}})
		d1p := depth1(pre, []string{"&", "|"})
		for _, op := range []string{"&", "|"} {
			for _, a := range d1p {
				for _, b := range pre {
					cases = append(cases, &pnode{kind: pBin, op: op, l: a, r: b})
				}
			}
		}
	} else {
		cases = append(cases, depth1(hiAtoms(), []string{"&", "|"})...)
	}
	// three conjuncts in both nestings (both tiers): the face-unsatisfiable pair of C18 with a third
	// conjunct between, before or after it — PREFIX ∩ RANGE keeps the range, so only the pair test of
	// optimizeAndExpr sees the incompatible prefixes of `key ^= 'c' & (key ^= 'b' & key >= 'ba')`
	cases = append(cases, tripleConjunctions()...)
	nExh := len(cases)
	nRand := e.n(20_000, 500_000)
	var inadequate, rejected int64
	total := uint64(nExh + nRand)
	var next uint64
	err := e.parallel(func(w int, d *Driver) error {
		x := &scanCtx{c: c, d: d, modelOp: modelOp, rows: true, seed: e.Seed, inadequ: &inadequate, rejected: &rejected}
		for {
			i := atomic.AddUint64(&next, 1) - 1
			if i >= total {
				return nil
			}
			r := NewRand(e.Seed, "SCAN", i)
			var p *pnode
			if i < uint64(nExh) {
				p = cases[i]
			} else {
				p = randTree(r, 1+r.Intn(5))
			}
			if err := x.checkOne(p, i, r); err != nil {
				return err
			}
		}
	})
	if err != nil {
		return nil, err
	}
	s := c.Finish(start)
	s.Exhaustive = true
	s.Notes = append(s.Notes,
		fmt.Sprintf("exhaustive trees: %d (quick: depth ≤ 1 over %d atoms × 4 connectives; thorough adds depth ≤ 2 over %d fixed + %d seeded atoms), random trees: %d (depth ≤ 5)",
			nExh, len(allAtoms(smallLits)), len(fixedAtoms()), len(fixedAtoms()), nRand),
		fmt.Sprintf("literals with the bytes 0xff, 0x00, ≥ 0x80 (%d atoms over %q): depth ≤ 1 in both tiers, depth 2 over the prefix atoms in the thorough tier; 7 in 20 random literals hold such bytes", len(hiAtoms()), hiLits),
		fmt.Sprintf("statements rejected by the parser/checker (skipped): %d", rejected),
		fmt.Sprintf("predicates whose key universe failed the adequacy re-check: %d (must be 0)", inadequate),
		"C18 reads `key > l` as pinning the closed half-line [l, ∞) (a range scan is inclusive); `between` with lower > upper (a run-time error in kvql) is read as pinning the swapped interval, as the planner does",
		"PlanBatchSize = 3 for the row comparison (row and batch mode)")
	if inadequate > 0 {
		s.Findings = append(s.Findings, Finding{Kind: "crash", Group: "SCAN", Check: "universe-adequacy", Case: "key universe misses a cell"})
		s.NumFindings++
	}
	return s, nil
}
