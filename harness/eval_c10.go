package main

// C10 oracles: every documented scalar function and the indexing forms, judged by fresh
// re-implementations written from the one-line descriptions in README.md ("Scalar
// Functions") - not from the engine and not from the Lean model.  Each case is one function
// (or one indexing chain) applied to arguments of its documented types, constant or
// row-dependent (key, value, an alias of them), evaluated row by row and on the whole chunk
// with the field cache switched off; results are compared by content (`contentValue`).

import (
	"sort"
	"encoding/json"
	"fmt"
	"math"
	"regexp"
	"strconv"
	"strings"

	"github.com/c4pt0r/kvql"
)

// ---- expected values, rendered like contentValue

func cText(s string) string   { return "x:" + hxs(s) }
func cInt(n int64) string     { return fmt.Sprintf("i:%d", n) }
func cFloat(f float64) string { return canonNaN("f:" + canonFloat(f)) }
func cBool(b bool) string {
	if b {
		return "t"
	}
	return "F"
}
func cList(items []string) string { return "[" + strings.Join(items, " ") + "]" }

// cJSON renders a value decoded by encoding/json the way contentValue renders the engine's
func cJSON(v any) string {
	switch x := v.(type) {
	case nil:
		return "n"
	case string:
		return cText(x)
	case float64:
		return cFloat(x)
	case bool:
		return cBool(x)
	case []any:
		p := make([]string, len(x))
		for i, e := range x {
			p[i] = cJSON(e)
		}
		return cList(p)
	case map[string]any:
		return canonNaN(contentMap(x))
	}
	return "?"
}

// ---- argument descriptors: expression text + what it denotes on a pair (by the oracle)

type tArg struct {
	text string
	f    func(kv kvql.KVPair) string
}
type iArg struct {
	text   string
	rowInt bool // denotes int(value): the store must hold decimal integers
	f      func(kv kvql.KVPair) int64
}
type fArg struct {
	text string
	f    func(kv kvql.KVPair) float64
}

type c10Gen struct {
	r      *Rand
	nalias int
	defs   []string
}

func (g *c10Gen) newAlias(def string) string {
	g.nalias++
	n := fmt.Sprintf("a%d", g.nalias)
	g.defs = append(g.defs, def+" as "+n)
	return n
}

var c10Lits = []string{"abc", "Hello World", "", "aXbXc", "mIxEd 123 zZ", "a", "k1", "x-y", "UPPER", "@[`{~",
	// numerals whose value needs more than six decimals (constant calls are computed at plan time: same value as on a row)
	"0.1234567", "3.14159265358979", "1e-7", "0.00000005", "123456789.123456789"}

// wide scopes: texts longer than 3 bytes with 2-, 3- and 4-byte UTF-8 sequences (strlen, substr,
// split, join count and cut BYTES; upper/lower stay on ASCII, the oracle's c10Upper is ASCII only),
// vector elements, integers with ≥ 10 digits and beyond 2^53
var c10WideLits = []string{"héllo wörld", "键值对 kv", "😅x😅", "naïve café", "the quick brown fox jumps over the lazy dog", "ab键", "Ünïcödé"}
var c10VecNums = []string{"0", "1", "2", "-3", "1.5", "0.25", "10", "7", "100", "3.75", "-0.5", "12345", "6", "0.125"}
var c10BigInts = []string{"9007199254740993", "-9007199254740993", "1234567890123456789", "-1234567890123456789",
	"-9223372036854775808", "9223372036854775807", "1234567890", "-4294967297", "9007199254740992", "4611686018427387905"}

// wideText: a text argument that is, one time in three, a long / multi-byte literal
func (g *c10Gen) wideText() tArg {
	if g.r.Chance(1, 3) {
		l := pick(g.r, c10WideLits)
		return tArg{text: quote(l), f: func(kvql.KVPair) string { return l }}
	}
	return g.text()
}

// vecLen: 4–9 elements (one or two complete groups of four and every remainder) or 33–40
func (g *c10Gen) vecLen() int {
	if g.r.Chance(1, 4) {
		return 33 + g.r.Intn(8)
	}
	return 4 + g.r.Intn(6)
}

func randVec(r *Rand, n int) string {
	p := make([]string, n)
	for i := range p {
		p[i] = pick(r, c10VecNums)
	}
	return strings.Join(p, ",")
}

// listN: a numeric list of exactly n elements: literal int / float lists (one element may be the
// row-dependent strlen(key)) or split(value, ',') over a store whose values are n-element vectors (store 6)
func (g *c10Gen) listN(n int) lArg {
	switch g.r.Intn(4) {
	case 0:
		parts := func(kv kvql.KVPair) []string { return strings.Split(string(kv.Value), ",") }
		return lArg{text: "split(value, ',')", kind: "split", store: 6,
			elems: func(kv kvql.KVPair) []string {
				var p []string
				for _, s := range parts(kv) {
					p = append(p, cText(s))
				}
				return p
			},
			nums: func(kv kvql.KVPair) []float64 {
				var p []float64
				for _, s := range parts(kv) {
					p = append(p, atofOr0([]byte(s)))
				}
				return p
			}}
	case 1:
		as := make([]iArg, n)
		txt := make([]string, n)
		for i := range as {
			v := pick(g.r, []int64{0, 1, 2, 3, 7, 10, 100, 12345, 1234567890, 4294967296, 9223372036854775807})
			as[i] = iArg{text: fmt.Sprint(v), f: func(kvql.KVPair) int64 { return v }}
		}
		if g.r.Chance(1, 3) {
			as[g.r.Intn(n)] = iArg{text: "strlen(key)", f: func(kv kvql.KVPair) int64 { return int64(len(kv.Key)) }}
		}
		for i, a := range as {
			txt[i] = a.text
		}
		name := pick(g.r, []string{"list", "int_list", "ilist"})
		return lArg{text: name + "(" + strings.Join(txt, ", ") + ")", kind: name, store: -1,
			elems: func(kv kvql.KVPair) []string {
				p := make([]string, n)
				for i, a := range as {
					p[i] = cInt(a.f(kv))
				}
				return p
			},
			nums: func(kv kvql.KVPair) []float64 {
				p := make([]float64, n)
				for i, a := range as {
					p[i] = float64(a.f(kv))
				}
				return p
			}}
	default:
		vs := make([]float64, n)
		txt := make([]string, n)
		for i := range vs {
			txt[i] = pick(g.r, []string{"0.5", "1.5", "2.0", "0.25", "10.0", "3.75", "100.125", "0.1", "7.0"})
			vs[i], _ = strconv.ParseFloat(txt[i], 64)
		}
		name := pick(g.r, []string{"list", "float_list", "flist"})
		return lArg{text: name + "(" + strings.Join(txt, ", ") + ")", kind: name, store: -1,
			elems: func(kvql.KVPair) []string {
				p := make([]string, n)
				for i, v := range vs {
					p[i] = cFloat(v)
				}
				return p
			},
			nums: func(kvql.KVPair) []float64 { return vs }}
	}
}

// distWant: the formulas of README.md over the oracle's element values
func distWant(fn string, a, b lArg) c10Want {
	return func(kv kvql.KVPair) (string, bool) {
		x, y := a.nums(kv), b.nums(kv)
		if len(x) != len(y) {
			return "", false // judged by the refuse cases
		}
		if fn == "l2_distance" {
			sum := 0.0
			for i := range x {
				sum += (x[i] - y[i]) * (x[i] - y[i])
			}
			return cFloat(math.Sqrt(sum)), true
		}
		dot, na, nb := 0.0, 0.0, 0.0
		for i := range x {
			dot += x[i] * y[i]
			na += x[i] * x[i]
			nb += y[i] * y[i]
		}
		return cFloat(1 - dot/(math.Sqrt(na)*math.Sqrt(nb))), true
	}
}

func (g *c10Gen) text() tArg {
	switch g.r.Intn(8) {
	case 6, 7:
		// the same text carried by another Go kind: the evaluators hand functions a string (not the
		// cursor's []byte) when the text comes out of a concatenation, join, split or substr
		base, f := "value", func(kv kvql.KVPair) string { return string(kv.Value) }
		if g.r.Chance(1, 4) {
			base, f = "key", func(kv kvql.KVPair) string { return string(kv.Key) }
		}
		carrier := pick(g.r, []string{"(%s + '')", "join('', %s)", "split(%s, '§§')[0]", "substr(%s, 0, 100000)", "('' + %s)"})
		return tArg{text: fmt.Sprintf(carrier, base), f: f}
	case 0:
		return tArg{text: "key", f: func(kv kvql.KVPair) string { return string(kv.Key) }}
	case 1, 2:
		return tArg{text: "value", f: func(kv kvql.KVPair) string { return string(kv.Value) }}
	case 3:
		n := g.newAlias("value")
		return tArg{text: n, f: func(kv kvql.KVPair) string { return string(kv.Value) }}
	case 4:
		n := g.newAlias("key")
		return tArg{text: n, f: func(kv kvql.KVPair) string { return string(kv.Key) }}
	default:
		l := pick(g.r, c10Lits)
		return tArg{text: quote(l), f: func(kvql.KVPair) string { return l }}
	}
}

func atoiOr0(b []byte) int64 {
	n, err := strconv.ParseInt(string(b), 10, 64)
	if err != nil {
		return 0
	}
	return n
}

// int argument; rowDep values require a store whose values are decimal integers
func (g *c10Gen) integer(small bool) iArg {
	switch g.r.Intn(5) {
	case 0:
		return iArg{text: "int(value)", rowInt: true, f: func(kv kvql.KVPair) int64 { return atoiOr0(kv.Value) }}
	case 1:
		n := g.newAlias("int(value)")
		return iArg{text: n, rowInt: true, f: func(kv kvql.KVPair) int64 { return atoiOr0(kv.Value) }}
	case 2:
		return iArg{text: "strlen(key)", f: func(kv kvql.KVPair) int64 { return int64(len(kv.Key)) }}
	default:
		pool := []int64{0, 1, 2, 3, 7, 10, 100, 12345, 9223372036854775807, 1234567890, 4294967296, 9007199254740993, 1234567890123456789}
		if small {
			pool = []int64{0, 1, 2, 3, 4, 5, 7, 12, 40}
		}
		v := pick(g.r, pool)
		if !small && g.r.Chance(1, 8) {
			// a negative number is written 0 - n (there is no unary minus)
			v = pick(g.r, []int64{5, 1234567890, 9007199254740993, 1234567890123456789, 9223372036854775807})
			return iArg{text: fmt.Sprintf("(0 - %d)", v), f: func(kvql.KVPair) int64 { return -v }}
		}
		return iArg{text: fmt.Sprint(v), f: func(kvql.KVPair) int64 { return v }}
	}
}

func atofOr0(b []byte) float64 {
	f, err := strconv.ParseFloat(string(b), 64)
	if err != nil {
		return 0
	}
	return f
}

// float argument; rowDep values require a store whose values are decimal floats
func (g *c10Gen) float() fArg {
	switch g.r.Intn(4) {
	case 0:
		return fArg{text: "float(value)", f: func(kv kvql.KVPair) float64 { return atofOr0(kv.Value) }}
	case 1:
		n := g.newAlias("float(value)")
		return fArg{text: n, f: func(kv kvql.KVPair) float64 { return atofOr0(kv.Value) }}
	default:
		l := pick(g.r, []string{"0.5", "1.5", "2.0", "0.25", "10.0", "3.75", "100.125"})
		v, _ := strconv.ParseFloat(l, 64)
		return fArg{text: l, f: func(kvql.KVPair) float64 { return v }}
	}
}

// ---- list descriptors: expression text + element contents by the oracle

type lArg struct {
	text  string
	kind  string // "split", "list-int", "list-float", "int_list", "float_list", "json"
	store int    // required store kind (chunk kinds of genChunk) or -1
	elems func(kv kvql.KVPair) []string
	nums  func(kv kvql.KVPair) []float64 // numeric lists only
}

func (g *c10Gen) list(minLen int) lArg {
	n := minLen + g.r.Intn(3)
	if n == 0 {
		n = 1
	}
	switch g.r.Intn(7) {
	case 0:
		// split over a row-dependent or constant text; separator "," (texts store has such values)
		t := g.text()
		sep := pick(g.r, []string{",", "-", "X"})
		return lArg{text: "split(" + t.text + ", " + quote(sep) + ")", kind: "split", store: 2,
			elems: func(kv kvql.KVPair) []string {
				var p []string
				for _, s := range strings.Split(t.f(kv), sep) {
					p = append(p, cText(s))
				}
				return p
			}}
	case 1, 2:
		as := make([]iArg, n)
		for i := range as {
			as[i] = g.integer(false)
		}
		name := pick(g.r, []string{"list", "int_list", "ilist"})
		txt := make([]string, n)
		for i, a := range as {
			txt[i] = a.text
		}
		return lArg{text: name + "(" + strings.Join(txt, ", ") + ")", kind: name, store: 0,
			elems: func(kv kvql.KVPair) []string {
				p := make([]string, n)
				for i, a := range as {
					p[i] = cInt(a.f(kv))
				}
				return p
			},
			nums: func(kv kvql.KVPair) []float64 {
				p := make([]float64, n)
				for i, a := range as {
					p[i] = float64(a.f(kv))
				}
				return p
			}}
	case 3, 4:
		as := make([]fArg, n)
		for i := range as {
			as[i] = g.float()
		}
		name := pick(g.r, []string{"list", "float_list", "flist"})
		txt := make([]string, n)
		for i, a := range as {
			txt[i] = a.text
		}
		return lArg{text: name + "(" + strings.Join(txt, ", ") + ")", kind: name, store: 1,
			elems: func(kv kvql.KVPair) []string {
				p := make([]string, n)
				for i, a := range as {
					p[i] = cFloat(a.f(kv))
				}
				return p
			},
			nums: func(kv kvql.KVPair) []float64 {
				p := make([]float64, n)
				for i, a := range as {
					p[i] = a.f(kv)
				}
				return p
			}}
	case 5:
		// float_list over integer arguments: elements are the floats of the integers
		as := make([]iArg, n)
		for i := range as {
			as[i] = g.integer(true)
		}
		txt := make([]string, n)
		for i, a := range as {
			txt[i] = a.text
		}
		return lArg{text: "float_list(" + strings.Join(txt, ", ") + ")", kind: "float_list", store: 0,
			elems: func(kv kvql.KVPair) []string {
				p := make([]string, n)
				for i, a := range as {
					p[i] = cFloat(float64(a.f(kv)))
				}
				return p
			},
			nums: func(kv kvql.KVPair) []float64 {
				p := make([]float64, n)
				for i, a := range as {
					p[i] = float64(a.f(kv))
				}
				return p
			}}
	default:
		// an array inside a JSON document
		path := pick(g.r, [][]string{{"l"}, {"o", "l"}})
		txt := "json(value)"
		for _, p := range path {
			txt += "['" + p + "']"
		}
		return lArg{text: txt, kind: "json", store: 3,
			elems: func(kv kvql.KVPair) []string {
				arr, ok := jsonNav(kv.Value, path).([]any)
				if !ok {
					return nil
				}
				p := make([]string, len(arr))
				for i, e := range arr {
					p[i] = cJSON(e)
				}
				return p
			}}
	}
}

// jsonNav parses the document with encoding/json and follows object members / array indexes
func jsonNav(doc []byte, path []string) any {
	var v any
	if err := json.Unmarshal(doc, &v); err != nil {
		return nil
	}
	for _, p := range path {
		switch x := v.(type) {
		case map[string]any:
			m, ok := x[p]
			if !ok {
				return missing{}
			}
			v = m
		case []any:
			i, err := strconv.Atoi(p)
			if err != nil || i < 0 || i >= len(x) {
				return missing{}
			}
			v = x[i]
		default:
			return missing{}
		}
	}
	return v
}

type missing struct{}

// ---- the documents of the JSON store for C10: well-formed objects only
var c10Docs = []string{
	`{"a":1,"b":"x","s":"str","l":[1,"s",2.5,true],"o":{"b":"deep","l":[10,20,30]},"t":true}`,
	`{"a":"A","b":2.5,"l":["p","q","r"],"o":{"b":7,"l":["z"]},"s":"S"}`,
	`{"a":{"b":"v"},"l":[[1,2],{"x":1},"e"],"o":{"b":false,"l":[0.5,1.5]},"s":""}`,
}

var isDecInt = regexp.MustCompile(`^[+-]?[0-9]+$`)
var isDecFloat = regexp.MustCompile(`^[+-]?([0-9]+(\.[0-9]*)?|\.[0-9]+)([eE][+-]?[0-9]+)?$`)

// c10Want: expected content for a pair; ok=false: no expectation on this pair
type c10Want func(kv kvql.KVPair) (want string, ok bool)

type c10Case struct {
	name    string
	expr    string
	store   int // chunk kind
	want    c10Want
	refuse  bool   // every pair must be refused with an error (not a panic)
	noPanic bool   // only requirement: no panic
	vecLen  int    // store 6: every value is a vector of vecLen numbers joined by ','
	sep     string // store 5: every value is three parts joined by sep (default ",")
}

func runC10(e *Env, col *Collector, d *Driver, w int) error {
	n := e.n(30000, 300000)
	for idx := w; idx < n; idx += e.Workers {
		c10One(e, col, uint64(idx))
	}
	return nil
}

func c10One(e *Env, col *Collector, idx uint64) {
	r := NewRand(e.Seed, "C10", idx)
	g := &c10Gen{r: r}
	c := c10Make(g)
	fields := append(append([]string{}, g.defs...), c.expr+" as t")
	q := "select " + strings.Join(fields, ", ") + " where is_int('1')"
	col.Hist("c10:" + c.name)
	col.Eval(1)
	stmt, err := parseTargets(q)
	if err != nil {
		col.Find(Finding{Kind: "property", Group: "EVAL", Check: "C10-rejected:" + c.name, Case: q, Line: q,
			Engine: "rejected: " + errClass(err), Model: "a documented use must be accepted", Seed: e.Seed, Index: idx, Properties: []string{"C10"}})
		return
	}
	// the plan-time validation (argument counts and static argument types) must accept it too
	if perr, panicked := safely(func() string {
		if _, err := kvql.NewOptimizer(q).BuildPlan(NewRefStore(nil)); err != nil {
			return errClass(err)
		}
		return ""
	}); perr != "" || panicked {
		col.Find(Finding{Kind: "property", Group: "EVAL", Check: "C10-rejected-at-plan:" + c.name, Case: q, Line: q,
			Engine: "BuildPlan: " + perr, Model: "a documented use must be accepted", Seed: e.Seed, Index: idx, Properties: []string{"C10", "C14"}})
		return
	}
	target := stmt.Fields[len(stmt.Fields)-1]
	chunk := genChunk(r, max(c.store, 0)%5)
	if len(chunk) == 0 {
		chunk = []kvql.KVPair{kvql.NewKVP([]byte("k1"), []byte("1"))}
	}
	switch c.store {
	case 3:
		for i := range chunk {
			chunk[i].Value = []byte(pick(r, c10Docs))
		}
	case 5: // values with exactly two separators
		for i := range chunk {
			if c.sep == "" || (c.sep == "," && r.Bool()) {
				chunk[i].Value = []byte(pick(r, []string{"a,b,c", "1,2,3", ",,", "x,,y", "Hello, World,!", "ab,ab,ab"}))
				continue
			}
			ps := make([]string, 3)
			for j := range ps {
				ps[j] = pick(r, []string{"a", "", "héllo", "x y", "键", "1", "the quick brown fox", "😅", "Hello World"})
			}
			chunk[i].Value = []byte(strings.Join(ps, c.sep))
		}
	case 6: // vectors of vecLen numbers
		for i := range chunk {
			chunk[i].Value = []byte(randVec(r, c.vecLen))
		}
	case 7: // long and multi-byte texts
		for i := range chunk {
			if r.Chance(1, 4) {
				chunk[i].Value = []byte(pick(r, evalTexts))
			} else {
				chunk[i].Value = []byte(pick(r, c10WideLits))
			}
		}
	case 8: // integers with ≥ 10 digits, negative with 19 digits, beyond 2^53
		for i := range chunk {
			chunk[i].Value = []byte(pick(r, c10BigInts))
		}
	}
	col.Nontrivial(c.expr + pairsShow(chunk))
	rows, _ := engineRows(target, chunk, "0")
	bv, bc, _ := engineBatch(target, chunk, "0")
	unrew := hasUnrewrittenAlias(target)
	report := func(mode string, i int, got, want string) {
		if unrew {
			// the alias was not rewritten by the checker (checker.go): not a defect of the function
			col.Find(Finding{Kind: "property", Group: "EVAL", Check: "C10-unrewritten-alias",
				Case:   fmt.Sprintf("`%s` (%s) pair %d of %s", c.expr, q, i, pairsShow(chunk)),
				Line:   fmt.Sprintf("EVAL %s 0 %s %s", mode, wireExpr(target), pairsWire(chunk)),
				Engine: got, Model: want, Class: "unrewritten-alias", Seed: e.Seed, Index: idx, Properties: []string{"C05", "C14"}})
			return
		}
		col.Find(Finding{Kind: "property", Group: "EVAL", Check: "C10-" + c.name + ":" + mode,
			Case:   fmt.Sprintf("`%s` (%s) pair %d of %s", c.expr, q, i, pairsShow(chunk)),
			Line:   fmt.Sprintf("EVAL %s 0 %s %s", mode, wireExpr(target), pairsWire(chunk)),
			Engine: got, Model: want, Class: c.name + ":" + mode, Seed: e.Seed, Index: idx, Properties: []string{"C10"}})
	}
	judge := func(mode string, i int, cls string, val any) {
		kv := chunk[i]
		if cls == "panic" {
			report(mode, i, "panic", "no panic")
			return
		}
		if c.noPanic {
			return
		}
		if c.refuse {
			if cls == "ok" {
				report(mode, i, evContent(val), "must be refused")
			}
			return
		}
		want, ok := c.want(kv)
		if !ok {
			return
		}
		if cls != "ok" {
			report(mode, i, cls, want)
			return
		}
		if got := evContent(val); got != want {
			report(mode, i, got, want)
		}
	}
	for i, rr := range rows {
		judge("row", i, rr.class, rr.val)
	}
	if bc != "ok" {
		for i := range chunk {
			judge("batch", i, bc, nil)
			if bc != "panic" {
				break // one report per chunk is enough
			}
			break
		}
	} else if len(bv) != len(chunk) {
		report("batch", 0, fmt.Sprintf("%d results for %d pairs", len(bv), len(chunk)), "one result per pair")
	} else {
		for i := range chunk {
			judge("batch", i, "ok", bv[i])
		}
	}
	// the whole statement through the planner (constant sub-expressions are computed when the plan is built):
	// the same column, pair by pair, in both modes — only when the chunk's keys are distinct (it becomes the store)
	if c.noPanic || c.refuse {
		return
	}
	seen := map[string]int{}
	var kvs []KV
	for i, kv := range chunk {
		if _, dup := seen[string(kv.Key)]; dup {
			return
		}
		seen[string(kv.Key)] = i
		kvs = append(kvs, KV{string(kv.Key), string(kv.Value)})
	}
	order := make([]int, len(chunk))
	for i := range order {
		order[i] = i
	}
	sort.Slice(order, func(a, b int) bool { return string(chunk[order[a]].Key) < string(chunk[order[b]].Key) })
	for _, batch := range []bool{false, true} {
		mode := map[bool]string{false: "plan-row", true: "plan-batch"}[batch]
		res := runStatement(q, NewRefStore(kvs), batch, true)
		if res.Panic != "" {
			judge(mode, order[0], "panic", nil)
			continue
		}
		if res.Err != nil {
			// an evaluation failure on some pair ends the statement: judged by the direct evaluation above
			continue
		}
		if len(res.Rows) != len(chunk) {
			continue
		}
		for j, row := range res.Rows {
			if len(row) > 0 {
				judge(mode, order[j], "ok", row[len(row)-1])
			}
		}
	}
}

func c10Upper(s string) string {
	b := []byte(s)
	for i, c := range b {
		if c >= 'a' && c <= 'z' {
			b[i] = c - 32
		}
	}
	return string(b)
}
func c10Lower(s string) string {
	b := []byte(s)
	for i, c := range b {
		if c >= 'A' && c <= 'Z' {
			b[i] = c + 32
		}
	}
	return string(b)
}

func c10Make(g *c10Gen) c10Case {
	r := g.r
	always := func(f func(kv kvql.KVPair) string) c10Want {
		return func(kv kvql.KVPair) (string, bool) { return f(kv), true }
	}
	switch r.Intn(20) {
	case 17, 18:
		// distances over vectors of 4–9 and 33–40 elements (equal lengths)
		n := g.vecLen()
		a, b := g.listN(n), g.listN(n)
		st := 0
		if a.store == 6 || b.store == 6 {
			st = 6
		}
		fn := pick(r, []string{"l2_distance", "cosine_distance"})
		return c10Case{name: fn, expr: fn + "(" + a.text + ", " + b.text + ")", store: st, vecLen: n, want: distWant(fn, a, b)}
	case 19:
		// len, [first / middle / last] and the list itself for lists of 4–9 and 33–40 elements
		n := g.vecLen()
		l := g.listN(n)
		st := max(l.store, 0)
		switch r.Intn(3) {
		case 0:
			return c10Case{name: "len:" + l.kind, expr: "len(" + l.text + ")", store: st, vecLen: n, want: always(func(kv kvql.KVPair) string { return cInt(int64(len(l.elems(kv)))) })}
		case 1:
			i := pick(r, []int{0, n / 2, n - 1, n - 2})
			return c10Case{name: "index:" + l.kind, expr: fmt.Sprintf("%s[%d]", l.text, i), store: st, vecLen: n, want: always(func(kv kvql.KVPair) string { return l.elems(kv)[i] })}
		default:
			return c10Case{name: "build:" + l.kind, expr: l.text, store: st, vecLen: n, want: always(func(kv kvql.KVPair) string { return cList(l.elems(kv)) })}
		}
	case 0:
		t := g.text()
		return c10Case{name: "upper", expr: "upper(" + t.text + ")", store: 2, want: always(func(kv kvql.KVPair) string { return cText(c10Upper(t.f(kv))) })}
	case 1:
		t := g.text()
		return c10Case{name: "lower", expr: "lower(" + t.text + ")", store: 2, want: always(func(kv kvql.KVPair) string { return cText(c10Lower(t.f(kv))) })}
	case 2:
		t := g.wideText()
		return c10Case{name: "strlen", expr: "strlen(" + t.text + ")", store: pick(r, []int{2, 7}), want: always(func(kv kvql.KVPair) string { return cInt(int64(len(t.f(kv)))) })}
	case 3:
		a := g.integer(false)
		st := pick(r, []int{0, 0, 8})
		if r.Bool() {
			return c10Case{name: "str", expr: "str(" + a.text + ")", store: st, want: always(func(kv kvql.KVPair) string { return cText(strconv.FormatInt(a.f(kv), 10)) })}
		}
		return c10Case{name: "int-str", expr: "int(str(" + a.text + "))", store: st, want: always(func(kv kvql.KVPair) string { return cInt(a.f(kv)) })}
	case 4:
		// int / float read decimal text back
		if r.Bool() {
			return c10Case{name: "int-text", expr: "int(value)", store: pick(r, []int{0, 0, 8}), want: func(kv kvql.KVPair) (string, bool) {
				n, err := strconv.ParseInt(string(kv.Value), 10, 64)
				return cInt(n), err == nil
			}}
		}
		if r.Chance(1, 3) {
			// the same conversions of a CONSTANT text (computed when the plan is built): the value of the numeral, all its digits
			lit := pick(r, []string{"0.1234567", "3.14159265358979", "1e-7", "0.00000005", "123456789.123456789", "2.5", "1e308", "-0.000001234", "7", "9007199254740993"})
			if r.Bool() {
				lit = pick(r, []string{"12345678901", "-9223372036854775807", "0", "42"})
				n, _ := strconv.ParseInt(lit, 10, 64)
				return c10Case{name: "int-const-text", expr: "int(" + quote(lit) + ")", store: 0, want: always(func(kvql.KVPair) string { return cInt(n) })}
			}
			f, _ := strconv.ParseFloat(lit, 64)
			return c10Case{name: "float-const-text", expr: "float(" + quote(lit) + ")", store: 0, want: always(func(kvql.KVPair) string { return cFloat(f) })}
		}
		return c10Case{name: "float-text", expr: "float(value)", store: 1, want: func(kv kvql.KVPair) (string, bool) {
			f, err := strconv.ParseFloat(string(kv.Value), 64)
			return cFloat(f), err == nil
		}}
	case 5:
		t := g.text()
		st := pick(r, []int{0, 1, 2, 4})
		if r.Bool() {
			return c10Case{name: "is_int", expr: "is_int(" + t.text + ")", store: st, want: always(func(kv kvql.KVPair) string {
				s := t.f(kv)
				ok := isDecInt.MatchString(s)
				if ok {
					_, err := strconv.ParseInt(s, 10, 64)
					ok = err == nil
				}
				return cBool(ok)
			})}
		}
		return c10Case{name: "is_float", expr: "is_float(" + t.text + ")", store: st, want: always(func(kv kvql.KVPair) string { return cBool(isDecFloat.MatchString(t.f(kv))) })}
	case 6:
		// split(join(sep, parts…), sep) = parts, separator not occurring in the parts
		// (2- and 3-byte separators included: none occurs in, or overlaps the end of, a text of the pools)
		sep := pick(r, []string{"|", ";", "::", "#", "<>", "—", "#|#"})
		n := 1 + r.Intn(3)
		if r.Chance(1, 6) {
			n = 4 + r.Intn(6)
		}
		ps := make([]tArg, n)
		txt := make([]string, n)
		for i := range ps {
			ps[i] = g.wideText()
			txt[i] = ps[i].text
		}
		return c10Case{name: "split-join", expr: "split(join(" + quote(sep) + ", " + strings.Join(txt, ", ") + "), " + quote(sep) + ")", store: pick(r, []int{2, 7}),
			want: always(func(kv kvql.KVPair) string {
				p := make([]string, n)
				for i, a := range ps {
					p[i] = cText(a.f(kv))
				}
				return cList(p)
			})}
	case 7:
		// join(sep, split(s, sep)[0], …, [k-1]) = s   (every value of the store has exactly two commas)
		s := "value"
		sep := pick(r, []string{",", ",", "::", "—", "<=>"})
		qs := quote(sep)
		return c10Case{name: "join-split", expr: "join(" + qs + ", split(" + s + ", " + qs + ")[0], split(" + s + ", " + qs + ")[1], split(" + s + ", " + qs + ")[2])", store: 5, sep: sep,
			want: always(func(kv kvql.KVPair) string { return cText(string(kv.Value)) })}
	case 8:
		l := g.list(0)
		if r.Chance(1, 3) {
			// the count handed on to a text consumer (it travels as a Go int, unlike every other integer)
			wrap := pick(r, []struct {
				name, tmpl string
				f          func(n int) string
			}{
				{"str(len)", "str(len(%s))", func(n int) string { return cText(strconv.Itoa(n)) }},
				{"join(len)", "join('-', len(%s), 'n')", func(n int) string { return cText(strconv.Itoa(n) + "-n") }},
				{"strlen(len)", "strlen(len(%s))", func(n int) string { return cInt(int64(len(strconv.Itoa(n)))) }},
				{"len+text", "'n=' + str(len(%s))", func(n int) string { return cText("n=" + strconv.Itoa(n)) }},
				{"len*2", "len(%s) * 2 + 1", func(n int) string { return cInt(int64(n*2 + 1)) }},
			})
			return c10Case{name: wrap.name + ":" + l.kind, expr: fmt.Sprintf(wrap.tmpl, l.text), store: l.store, want: func(kv kvql.KVPair) (string, bool) {
				el := l.elems(kv)
				if el == nil && l.kind == "json" {
					return "", false
				}
				return wrap.f(len(el)), true
			}}
		}
		return c10Case{name: "len:" + l.kind, expr: "len(" + l.text + ")", store: l.store, want: func(kv kvql.KVPair) (string, bool) {
			el := l.elems(kv)
			if el == nil && l.kind == "json" {
				return "", false
			}
			return cInt(int64(len(el))), true
		}}
	case 9:
		l := g.list(1)
		if l.kind == "split" || l.kind == "json" {
			l = g.list(1)
		}
		return c10Case{name: "build:" + l.kind, expr: l.text, store: l.store, want: func(kv kvql.KVPair) (string, bool) {
			el := l.elems(kv)
			if el == nil && l.kind == "json" {
				return "", false
			}
			return cList(el), true
		}}
	case 10, 11:
		// distances over numeric lists of equal length
		var a, b lArg
		for {
			a = g.list(1)
			if a.nums != nil {
				break
			}
		}
		for {
			b = g.list(1)
			if b.nums != nil && b.store == a.store {
				break
			}
		}
		fn := pick(r, []string{"l2_distance", "cosine_distance"})
		return c10Case{name: fn, expr: fn + "(" + a.text + ", " + b.text + ")", store: a.store, want: distWant(fn, a, b)}
	case 12:
		// different lengths must be refused
		fn := pick(r, []string{"l2_distance", "cosine_distance"})
		return c10Case{name: fn + "-lengths", expr: fn + "(list(1, 2, 3), " + pick(r, []string{"list(1, 2)", "float_list(1.5)", "int_list(1, 2, 3, 4)"}) + ")", store: 0, refuse: true}
	case 13:
		l := g.list(1)
		n := r.Intn(3)
		return c10Case{name: "index:" + l.kind, expr: fmt.Sprintf("%s[%d]", l.text, n), store: l.store, want: func(kv kvql.KVPair) (string, bool) {
			el := l.elems(kv)
			if n >= len(el) {
				return "", false // beyond the end: not stated by the property
			}
			return el[n], true
		}}
	case 14:
		path := pick(r, [][]string{{"a"}, {"b"}, {"s"}, {"o", "b"}, {"l", "1"}, {"o", "l", "0"}, {"t"}, {"l", "0"}, {"l", "2"}})
		txt := "json(value)"
		for _, p := range path {
			if _, err := strconv.Atoi(p); err == nil {
				txt += "[" + p + "]"
			} else {
				txt += "['" + p + "']"
			}
		}
		return c10Case{name: "json-nav", expr: txt, store: 3, want: func(kv kvql.KVPair) (string, bool) {
			v := jsonNav(kv.Value, path)
			if _, miss := v.(missing); miss {
				return "", false
			}
			return cJSON(v), true
		}}
	default:
		// substr(v, s, e) = bytes [s, min(e, len v)), empty when s is not below that bound
		t := g.wideText()
		s, en := g.integer(true), g.integer(true)
		st := pick(r, []int{2, 7})
		if s.rowInt || en.rowInt {
			st = 0 // int(value) needs decimal integers in the store (negative ones included)
		}
		return c10Case{name: "substr", expr: "substr(" + t.text + ", " + s.text + ", " + en.text + ")", store: st,
			want: func(kv kvql.KVPair) (string, bool) {
				v := t.f(kv)
				a, b := s.f(kv), en.f(kv)
				if a < 0 || b < 0 {
					return "", false // negative positions: only "no panic" is required
				}
				if b > int64(len(v)) {
					b = int64(len(v))
				}
				if a >= b {
					return cText(""), true
				}
				return cText(v[a:b]), true
			}}
	}
}
