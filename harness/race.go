package main

import (
	"fmt"
	"runtime"
	"strings"
	"sync"
	"time"

	"github.com/c4pt0r/kvql"
)

// Group RACE (property C19): statements are parsed, planned and executed concurrently on
// separate goroutines, each with its own plan and ExecuteCtx, over one thread-safe RefStore.
// Every goroutine works on its own key prefix (plus a shared read-only region), so each
// statement's result is determined; it is compared with the result of the same statement
// sequence run alone.  Build the harness with -race: a data race in library state makes the
// race detector print a report (and, with GORACE=halt_on_error=1, kill the process).

// raceFailing: statements that fail, one (or more) per error site of parser.go, checker.go,
// statement.go, optimizer.go and the evaluator; each carries the goroutine's prefix so that no two
// goroutines ever bind the same text.  %[1]s = the prefix.
var raceFailing = []string{
	// optimizer.go (plan time, after a successful parse)
	"select key, count(1) where key ^= '%[1]s'",                                 // Missing group by statement (no position)
	"select key, max(int(value)), min(int(value)) where key > '%[1]s3' limit 5", // the same site, another text
	"select value, sum(strlen(key)) as s where key ^= '%[1]s' order by s",       // the same site, ordered
	"select key, value, count(1) where key ^= '%[1]s' group by key",             // Missing aggregate fields in group by statement
	"select key where key ^= '%[1]s' group by key",                              // No aggregate fields in select statement
	"select key, upper(value) as u where key ^= '%[1]s' group by key, u",        // the same, second site
	"select nosuchfunc(key) where key ^= '%[1]s'",                               // Cannot find function
	"select key where key ^= '%[1]s' & nosuchfunc(value) = 'x'",                 // a call of unknown type compared with a text
	"select upper(key, value) where key ^= '%[1]s'",                             // wrong arity
	"select join() where key ^= '%[1]s'",                                        // require at least
	"select substr(key, 'a', 2) where key ^= '%[1]s'",                           // parameter has wrong type
	"select key, count(sum(1)) where key ^= '%[1]s' group by key",               // aggregate inside aggregate
	"delete where key ^= '%[1]s' & nosuchfunc(key) = 'x'",                       // … in DELETE
	"put ('%[1]sx', nosuchfunc('v'))",                                           // … in PUT
	"remove upper('%[1]sx', 'y')",                                               // arity in REMOVE
	// parser.go
	"select * where key ^= '%[1]s' & value in",                            // Unexpected EOF (after in)
	"select * where key ^= '%[1]s' &",                                     // Unexpected EOF (operand)
	"put ('%[1]sk'",                                                       // Unexpected EOF (put pair)
	"select * where key ^= '%[1]s' limit x",                               // Invalid limit parameters
	"select * where key ^= '%[1]s' limit",                                 // … at the end of input
	"select * where key ^= '%[1]s' limit 1,",                              // Invalid limit parameters after separator
	"select * where key ^= '%[1]s' limit 1, x",                            // … require number
	"select * where key ^= '%[1]s' limit 1, 2, 3",                         // Too many limit parameters
	"select * where key ^= '%[1]s' limit 1 limit 2",                       // Has more expression in limit expression
	"select key where key ^= '%[1]s' order by nosuch",                     // Cannot find field … in select statement
	"select key where key ^= '%[1]s' order by",                            // Require order by fields
	"select key where key ^= '%[1]s' group by",                            // Require group by fields
	"select key where key ^= '%[1]s' order by key order by key",           // Duplicate order by expression
	"select key, count(1) where key ^= '%[1]s' group by key group by key", // Duplicate group by expression
	"select key where (key ^= '%[1]s'",                                    // Expect token ) but got EOF
	"select key where (key ^= '%[1]s' limit 1",                            // Expect token ) bug got …
	"select key where key ^= '%[1]s' value",                               // Missing operator
	"select key where key ^= '%[1]s' )",                                   // Missing operator (a closing bracket)
	"select key where upper(key '%[1]s') = 'A'",                           // Function argument expect `,` or `)`
	"select key where json(value)['%[1]s', 'b'] = 'x'",                    // Field access operator should only have one field name
	"select key as where key ^= '%[1]s'",                                  // Invalid field name / Require field name
	"select key k where key ^= '%[1]s'",                                   // Expect `as` or `,`
	"select where key ^= '%[1]s'",                                         // Empty fields in select statement
	"select , where key ^= '%[1]s'",                                       // Bad Expression (select list)
	"select key",                                                          // Expect where keyword (EOF)
	"select key limit 1",                                                  // Expect `as` or `,` (no where)
	"selec * where key ^= '%[1]s'",                                        // Expect put, delete, select or where keyword
	"select * where",                                                      // Expect where statement
	"put ('%[1]sk' 'v')",                                                  // Put key-value pair expect `,`
	"select * where key ^= '%[1]s' & = 'a'",                               // Bad Expression
	"select * where key ^= '%[1]s' & 1 +* 2 = 3",                          // Expect operator / Bad Expression
	"select unknownaggr(1), key where key ^= '%[1]s' group by key",        // unknown function in an aggregated statement
	// checker.go / statement.go
	"select * where key ^= '%[1]s' & !key",                    // ! operator right expression has wrong type
	"select * where key ^= '%[1]s' & key > 1",                 // left and right type not same
	"select * where key ^= '%[1]s' & key = key",               // two same field
	"select * where key ^= '%[1]s' & value in ('a', 1)",       // in operator element has wrong type
	"select * where key ^= '%[1]s' & value in 'a'",            // in … must be list expression
	"select * where key ^= '%[1]s' & value between 1 and 'b'", // between … wrong type
	"select * where key ^= '%[1]s' & 1 / 0 = 1",               // divide by zero (static)
	"select * where key ^= '%[1]s' & value[0] = 'a'",          // Field access expression left require JSON or List type
	"select * where key ^= '%[1]s' & key in ()",               // Empty list
	"select * where key + '%[1]s'",                            // where statement result type should be boolean
	"select * where '%[1]s'",                                  // the same, other shape
	"select u + '%[1]s' as u where key = 'a'",                 // Field u is defined in terms of itself
	"select * where key ^= '%[1]s' & 'x'(1) = 1",              // Invalid function name
	"put ('%[1]sk', value)",                                   // not allow value keyword in expression
	"put (key = '%[1]s', 'v')",                                // need str or number type
	"remove key = '%[1]s'",                                    // need str or number type
	"put ('%[1]sk', true)",                                    // need str or number type (value)
	"delete where '%[1]s' + key",                              // where statement result type should be boolean (delete)
	"select * where key ^= '%[1]s' & 1 + 'a' = 2",             // + operator has wrong type
	"select * where key ^= '%[1]s' & (value ^= 1)",            // ^= wrong type
	// the evaluator (run time, ExecuteError): the seed store's shared region has non-numeric values
	"select key, 10 / int(value) as d where key ^= 'ro-' & '%[1]s' != key",                       // division by zero at run time
	"select * where key ^= 'ro-' & key between value and '%[1]s'",                                // between: lower boundary above upper boundary
	"select key, strlen(value) / (strlen(value) - 2) where key ^= 'ro-' & '%[1]s' != key",        // division by zero, other site
	"select key, l2_distance(list(1, 2), split(value, ',')) where key ^= 'rv-' & '%[1]s' != key", // vectors of different lengths
}

func raceStatements(r *Rand, g int, n int) []string {
	pfx := fmt.Sprintf("g%02d-", g)
	var out []string
	for i := 0; i < n; i++ {
		k := fmt.Sprintf("%s%d", pfx, r.Intn(6))
		c := r.Intn(19)
		if c >= 14 {
			// a failing statement: the client binds the query text to the error, sets its padding and renders it
			f := pick(r, raceFailing)
			if r.Chance(1, 3) {
				f = raceFailing[r.Intn(6)] // the positionless plan-time errors more often
			}
			q := f
			if strings.Contains(f, "%[1]s") {
				q = fmt.Sprintf(f, pfx)
			}
			if r.Chance(1, 4) {
				q = pick(r, []string{" ", "\n  ", "\t"}) + q
			}
			out = append(out, q)
			continue
		}
		switch c {
		case 0:
			out = append(out, fmt.Sprintf("put ('%s', '%d'), ('%s%d', upper('v' + key))", k, r.Intn(50), pfx, r.Intn(6)))
		case 1:
			out = append(out, fmt.Sprintf("remove '%s'", k))
		case 2:
			out = append(out, fmt.Sprintf("delete where key ^= '%s' & value = '%d'", pfx, r.Intn(50)))
		case 3:
			out = append(out, fmt.Sprintf("delete where key in ('%s', '%s9') limit 1", k, pfx))
		case 4:
			out = append(out, fmt.Sprintf("select * where key ^= '%s'", pfx))
		case 5:
			out = append(out, fmt.Sprintf("select key, int(value) + 1 as n where key ^= '%s' & is_int(value) order by n desc limit 3", pfx))
		case 6:
			out = append(out, fmt.Sprintf("select count(1) as c, sum(int(value)) as s, substr(key, 0, 3) as p where key ^= '%s' & is_int(value) group by p", pfx))
		case 7:
			out = append(out, "select key, upper(value) as u, strlen(value) where key ^= 'ro-' & u ~= '^V' limit 1, 4")
		case 8:
			out = append(out, "select * where key between 'ro-1' and 'ro-5' | key = 'ro-9'")
		case 9:
			out = append(out, "select key, json(value)['a'] as a where key ^= 'rj-'")
		case 10:
			out = append(out, "select key, l2_distance(list(1,2,3), split(value, ',')) as d where key ^= 'rv-' order by d")
		case 11:
			if r.Bool() {
				// a pattern nobody else uses (goroutine prefix, statement number, a random class)
				out = append(out, fmt.Sprintf("select key, value where key ^= '%s' & (key ~= '^%s[%d-9]$' | value ~= '^(x%d|[0-%d]+)$')", pfx, pfx, r.Intn(6), i, 1+r.Intn(9)))
			} else {
				out = append(out, fmt.Sprintf("select key where key ^= '%s' & (value ~= '^[0-9]+$' | value in ('a', 'b'))", pfx))
			}
		case 12:
			if r.Chance(1, 3) {
				// a function name written between back quotes keeps its capitals (the lexer folds bare words only):
				// every goroutine uses spellings of its own, first seen during the concurrent phase
				fn := pick(r, []string{"upper", "lower", "strlen", "is_int", "is_float", "str"})
				b := []byte(fn)
				for j := range b {
					if b[j] >= 'a' && b[j] <= 'z' && (g+i+j)%3 != 0 {
						b[j] -= 32
					}
				}
				out = append(out, fmt.Sprintf("select key, `%s`(value) as f where key ^= '%s'", string(b), pfx))
			} else if r.Chance(1, 2) {
				// a FULL scan (nothing pins the key) that still sees the goroutine's own pairs only; in batch mode whole
				// chunks of accepted pairs travel from the scan to the projection
				out = append(out, fmt.Sprintf("select key, upper(value) as u, strlen(key) + strlen(value) as n where substr(key, 0, 4) = '%s' & value != 'zz%d'", pfx, i))
			} else if r.Bool() {
				// the short form without a select list
				out = append(out, fmt.Sprintf("where key ^= '%s' & value != 'zz' limit %d", pfx, 1+r.Intn(4)))
			} else {
				out = append(out, "where key ^= 'ro-' & key ~= '[0-9]$' order by key desc")
			}
		default:
			switch r.Intn(3) {
			case 0:
				out = append(out, "select * where key > 'ro-' & key <") // syntax error path
			case 1:
				out = append(out, "select nosuchfunc(key) where key ^= 'ro-'") // error path: message formatting
			default:
				out = append(out, fmt.Sprintf("select key, avg(strlen(value)) as a, min(int(value)), group_concat(key, ',') where key ^= '%s' & is_int(value) group by key order by a", pfx))
			}
		}
	}
	return out
}

func raceSeedStore() []KV {
	var kvs []KV
	for i := 0; i < 12; i++ {
		kvs = append(kvs, KV{fmt.Sprintf("ro-%d", i), fmt.Sprintf("v%d", i)})
	}
	kvs = append(kvs, KV{"rj-1", `{"a": "x", "b": 2}`}, KV{"rj-2", `{"a": "y"}`})
	kvs = append(kvs, KV{"rv-1", "1,2,3"}, KV{"rv-2", "3,2,1"}, KV{"rv-3", "0,0,0"})
	return kvs
}

// renderAsClient does with a failed statement what a client does: bind the query text to the error,
// set the padding of its own display, render.  The goroutine yields between the steps (a client does
// other things in between): an error VALUE shared between statements is then written by another
// statement before this one renders it.
func renderAsClient(err error, q string, pad int) string {
	out, _ := safely(func() string {
		if qb, ok := err.(kvql.QueryBinder); ok {
			qb.BindQuery(q)
			runtime.Gosched()
			qb.SetPadding(pad)
			runtime.Gosched()
		}
		return err.Error()
	})
	return out
}

func runSeq(st *RefStore, stmts []string, batch bool, pad int) []string {
	res := make([]string, len(stmts))
	for i, q := range stmts {
		r := runStatement(q, st, batch, true)
		out := r.Outcome()
		res[i] = out + " | " + rowsContent(r.Rows)
		if r.Err != nil {
			res[i] += " | rendered: " + renderAsClient(r.Err, q, pad)
		}
	}
	return res
}

func runRACE(e *Env) (*Summary, error) {
	start := time.Now()
	rounds := e.n(6, 60)
	perG := 200
	if e.Tier == "thorough" {
		perG = 1500
	}
	rule := fmt.Sprintf("%d rounds; each round runs G ∈ {2,4,8,16} goroutines × %d statements (put/remove/delete on the goroutine's own key prefix; plain, ordered, aggregated, JSON, vector selects on it and on a shared read-only region; one statement in four fails at one of "+fmt.Sprint(len(raceFailing))+" error sites of the parser, the checker, the planner and the evaluator, and the goroutine binds its query text to the error, sets its own padding and renders it) over one mutex-protected store with GOMAXPROCS ∈ {1,2,4,16}, in row or batch mode, and compares every statement's outcome, rows and rendered error with the same sequence run alone; the binary must be built with -race; non-trivial = a statement that returned rows or wrote; distinct by statement text", rounds, perG)
	col := NewCollector("RACE", e.Tier, e.Seed, rule)
	saved := kvql.PlanBatchSize
	kvql.PlanBatchSize = 3
	defer func() { kvql.PlanBatchSize = saved }()
	defer runtime.GOMAXPROCS(runtime.GOMAXPROCS(0))
	for round := 0; round < rounds; round++ {
		r := NewRand(e.Seed, "RACE", uint64(round))
		G := []int{2, 4, 8, 16}[round%4]
		runtime.GOMAXPROCS([]int{1, 2, 4, 16}[(round/4)%4])
		batch := round%2 == 1
		all := make([][]string, G)
		want := make([][]string, G)
		for g := 0; g < G; g++ {
			all[g] = raceStatements(NewRand(e.Seed, "RACEG", uint64(round*100+g)), g, perG)
		}
		_ = r
		shared := NewRefStore(raceSeedStore())
		got := make([][]string, G)
		var wg sync.WaitGroup
		for g := 0; g < G; g++ {
			wg.Add(1)
			go func(g int) {
				defer wg.Done()
				got[g] = runSeq(shared, all[g], batch, 2+g)
			}(g)
		}
		wg.Wait()
		// the reference AFTERWARDS (alone, on a private copy of the seed store): whatever process-wide state
		// the library keeps (caches, registries) is first touched by the concurrent phase, not warmed for it
		for g := 0; g < G; g++ {
			want[g] = runSeq(NewRefStore(raceSeedStore()), all[g], batch, 2+g)
		}
		for g := 0; g < G; g++ {
			for i := range all[g] {
				col.Eval(1)
				if !strings.Contains(want[g][i], " | - | rendered: ") && !strings.HasSuffix(want[g][i], "| -") {
					col.Nontrivial(all[g][i])
				}
				col.Hist("outcome:" + strings.SplitN(want[g][i], " | ", 2)[0][:min(9, len(strings.SplitN(want[g][i], " | ", 2)[0]))])
				if strings.Contains(want[g][i], " | rendered: ") {
					col.Hist("failing-statement-rendered")
				}
				if got[g][i] != want[g][i] {
					check := "concurrent-vs-alone"
					if a, b := strings.SplitN(got[g][i], " | rendered: ", 2), strings.SplitN(want[g][i], " | rendered: ", 2); len(a) == 2 && len(b) == 2 && a[0] == b[0] {
						// same outcome and rows, another rendering of the error: the error value was written by another statement
						check = "rendered-error-concurrent-vs-alone"
					}
					col.Find(Finding{Kind: "property", Group: "RACE", Check: check, Case: fmt.Sprintf("goroutine %d/%d stmt %d: %s", g, G, i, all[g][i]),
						Line: "RACE " + hxs(all[g][i]), Engine: got[g][i], Model: want[g][i], Seed: e.Seed, Index: uint64(round), Properties: []string{"C19"}})
				}
			}
		}
		if round < 3 {
			col.Sample(fmt.Sprintf("round %d: %d goroutines, batch=%v, e.g. %q", round, G, batch, all[0][0]))
		}
	}
	return col.Finish(start), nil
}

func init() { groups["RACE"] = runRACE }
