package main

import (
	"fmt"
	"runtime"
	"strings"
	"sync"
	"time"

	"github.com/c4pt0r/kvql"
)

// Group RACE (property C19): statements are parsed, planned and executed concurrently on
// separate goroutines, each with its own plan and ExecuteCtx, over one thread-safe RefStore.
// Every goroutine works on its own key prefix (plus a shared read-only region), so each
// statement's result is determined; it is compared with the result of the same statement
// sequence run alone.  Build the harness with -race: a data race in library state makes the
// race detector print a report (and, with GORACE=halt_on_error=1, kill the process).

func raceStatements(r *Rand, g int, n int) []string {
	pfx := fmt.Sprintf("g%02d-", g)
	var out []string
	for i := 0; i < n; i++ {
		k := fmt.Sprintf("%s%d", pfx, r.Intn(6))
		switch r.Intn(14) {
		case 0:
			out = append(out, fmt.Sprintf("put ('%s', '%d'), ('%s%d', upper('v' + key))", k, r.Intn(50), pfx, r.Intn(6)))
		case 1:
			out = append(out, fmt.Sprintf("remove '%s'", k))
		case 2:
			out = append(out, fmt.Sprintf("delete where key ^= '%s' & value = '%d'", pfx, r.Intn(50)))
		case 3:
			out = append(out, fmt.Sprintf("delete where key in ('%s', '%s9') limit 1", k, pfx))
		case 4:
			out = append(out, fmt.Sprintf("select * where key ^= '%s'", pfx))
		case 5:
			out = append(out, fmt.Sprintf("select key, int(value) + 1 as n where key ^= '%s' & is_int(value) order by n desc limit 3", pfx))
		case 6:
			out = append(out, fmt.Sprintf("select count(1) as c, sum(int(value)) as s, substr(key, 0, 3) as p where key ^= '%s' & is_int(value) group by p", pfx))
		case 7:
			out = append(out, "select key, upper(value) as u, strlen(value) where key ^= 'ro-' & u ~= '^V' limit 1, 4")
		case 8:
			out = append(out, "select * where key between 'ro-1' and 'ro-5' | key = 'ro-9'")
		case 9:
			out = append(out, "select key, json(value)['a'] as a where key ^= 'rj-'")
		case 10:
			out = append(out, "select key, l2_distance(list(1,2,3), split(value, ',')) as d where key ^= 'rv-' order by d")
		case 11:
			if r.Bool() {
				// a pattern nobody else uses (goroutine prefix, statement number, a random class)
				out = append(out, fmt.Sprintf("select key, value where key ^= '%s' & (key ~= '^%s[%d-9]$' | value ~= '^(x%d|[0-%d]+)$')", pfx, pfx, r.Intn(6), i, 1+r.Intn(9)))
			} else {
				out = append(out, fmt.Sprintf("select key where key ^= '%s' & (value ~= '^[0-9]+$' | value in ('a', 'b'))", pfx))
			}
		case 12:
			if r.Bool() {
				// the short form without a select list
				out = append(out, fmt.Sprintf("where key ^= '%s' & value != 'zz' limit %d", pfx, 1+r.Intn(4)))
			} else {
				out = append(out, "where key ^= 'ro-' & key ~= '[0-9]$' order by key desc")
			}
		default:
			switch r.Intn(3) {
			case 0:
				out = append(out, "select * where key > 'ro-' & key <") // syntax error path
			case 1:
				out = append(out, "select nosuchfunc(key) where key ^= 'ro-'") // error path: message formatting
			default:
				out = append(out, fmt.Sprintf("select key, avg(strlen(value)) as a, min(int(value)), group_concat(key, ',') where key ^= '%s' & is_int(value) group by key order by a", pfx))
			}
		}
	}
	return out
}

func raceSeedStore() []KV {
	var kvs []KV
	for i := 0; i < 12; i++ {
		kvs = append(kvs, KV{fmt.Sprintf("ro-%d", i), fmt.Sprintf("v%d", i)})
	}
	kvs = append(kvs, KV{"rj-1", `{"a": "x", "b": 2}`}, KV{"rj-2", `{"a": "y"}`})
	kvs = append(kvs, KV{"rv-1", "1,2,3"}, KV{"rv-2", "3,2,1"}, KV{"rv-3", "0,0,0"})
	return kvs
}

func runSeq(st *RefStore, stmts []string, batch bool) []string {
	res := make([]string, len(stmts))
	for i, q := range stmts {
		r := runStatement(q, st, batch, true)
		out := r.Outcome()
		if r.Err != nil {
			// also exercise error rendering
			if qb, ok := r.Err.(kvql.QueryBinder); ok {
				qb.BindQuery(q)
				_ = r.Err.Error()
			}
		}
		res[i] = out + " | " + rowsContent(r.Rows)
	}
	return res
}

func runRACE(e *Env) (*Summary, error) {
	start := time.Now()
	rounds := e.n(6, 60)
	perG := 200
	if e.Tier == "thorough" {
		perG = 1500
	}
	rule := fmt.Sprintf("%d rounds; each round runs G ∈ {2,4,8,16} goroutines × %d statements (put/remove/delete on the goroutine's own key prefix; plain, ordered, aggregated, JSON, vector and failing selects on it and on a shared read-only region) over one mutex-protected store with GOMAXPROCS ∈ {1,2,4,16}, in row or batch mode, and compares every statement's outcome and rows with the same sequence run alone; the binary must be built with -race; non-trivial = a statement that returned rows or wrote; distinct by statement text", rounds, perG)
	col := NewCollector("RACE", e.Tier, e.Seed, rule)
	saved := kvql.PlanBatchSize
	kvql.PlanBatchSize = 3
	defer func() { kvql.PlanBatchSize = saved }()
	defer runtime.GOMAXPROCS(runtime.GOMAXPROCS(0))
	for round := 0; round < rounds; round++ {
		r := NewRand(e.Seed, "RACE", uint64(round))
		G := []int{2, 4, 8, 16}[round%4]
		runtime.GOMAXPROCS([]int{1, 2, 4, 16}[(round/4)%4])
		batch := round%2 == 1
		all := make([][]string, G)
		want := make([][]string, G)
		for g := 0; g < G; g++ {
			all[g] = raceStatements(NewRand(e.Seed, "RACEG", uint64(round*100+g)), g, perG)
		}
		_ = r
		shared := NewRefStore(raceSeedStore())
		got := make([][]string, G)
		var wg sync.WaitGroup
		for g := 0; g < G; g++ {
			wg.Add(1)
			go func(g int) {
				defer wg.Done()
				got[g] = runSeq(shared, all[g], batch)
			}(g)
		}
		wg.Wait()
		// the reference AFTERWARDS (alone, on a private copy of the seed store): whatever process-wide state
		// the library keeps (caches, registries) is first touched by the concurrent phase, not warmed for it
		for g := 0; g < G; g++ {
			want[g] = runSeq(NewRefStore(raceSeedStore()), all[g], batch)
		}
		for g := 0; g < G; g++ {
			for i := range all[g] {
				col.Eval(1)
				if !strings.HasSuffix(want[g][i], "| -") {
					col.Nontrivial(all[g][i])
				}
				col.Hist("outcome:" + strings.SplitN(want[g][i], " | ", 2)[0][:min(9, len(strings.SplitN(want[g][i], " | ", 2)[0]))])
				if got[g][i] != want[g][i] {
					col.Find(Finding{Kind: "property", Group: "RACE", Check: "concurrent-vs-alone", Case: fmt.Sprintf("goroutine %d/%d stmt %d: %s", g, G, i, all[g][i]),
						Line: "RACE " + hxs(all[g][i]), Engine: got[g][i], Model: want[g][i], Seed: e.Seed, Index: uint64(round), Properties: []string{"C19"}})
				}
			}
		}
		if round < 3 {
			col.Sample(fmt.Sprintf("round %d: %d goroutines, batch=%v, e.g. %q", round, G, batch, all[0][0]))
		}
	}
	return col.Finish(start), nil
}

func init() { groups["RACE"] = runRACE }
