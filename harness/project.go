package main

// Group PROJECT: the code that drives the field cache — the scan plans' filter loops
// (Next / Batch, chooseIdxes, AdjustChunkCache) and ProjectionPlan (Clear, processProjection,
// processProjectionBatch reading the cache by field name) — against the Lean model
// Kvql.Project (Driver.handleProject).
//
//   correspondence  engine = the real plan (`NewOptimizer(q).BuildPlan(RefStore)`, drained with one
//                   ExecuteCtx); model = drainRow / drainBatch over the ASTs the plan holds AFTER
//                   BuildPlan (ProjectionPlan.Fields / FieldNames, the scan's Filter.Ast.Expr) and the
//                   pairs the scan yields (full / prefix / range scans: the store restricted to the
//                   scan's region; MultiGet: the listed keys that exist, its inner chunks being the
//                   keys taken PlanBatchSize at a time; empty plans are skipped).  Rows are compared
//                   exactly (canonical values, kinds included), errors by class.
//   property (C03)  engine only, on the same runs: whenever the batch drain completes, the row drain
//                   completes too and returns the same rows by content (list-typed select fields —
//                   split / list / int_list / float_list, aliased or not, used in the filter through
//                   `in` — included: the row projection used to refuse typed lists).
//   property (C05)  engine only, on the same runs: cache on = cache off (by content), one column per
//                   field.  The model also says whether the statement meets the hypotheses of the C05
//                   theorems (`hyp=1`): a cache-on-vs-off difference on such a statement would contradict
//                   theorem + correspondence; with `hyp=0` it is outside the theorems (e.g. a constant
//                   select field whose root the optimizer replaced by a literal of another kind: C04).
//
// Protocol:  PROJECT <row|batch> <bs> <0|1> <nfields> <hexname>:<wire>… <where wire> <hexk=hexv,…>
//            PROJECT batchc <bs> <0|1> <nfields> <hexname>:<wire>… <where wire> <chunk/chunk/…>

import (
	"bytes"
	"errors"
	"fmt"
	"sort"
	"strconv"
	"strings"
	"time"

	"github.com/c4pt0r/kvql"
)

func init() { groups["PROJECT"] = runPROJECT }

// projClass: error -> class of Kvql.Project.PErr.cls
func projClass(err error) string {
	if err == nil {
		return "ok"
	}
	var ee *kvql.ExecuteError
	if errors.As(err, &ee) {
		if strings.Contains(ee.Message, "where expression result is not boolean") {
			return "where-not-bool"
		}
		if strings.Contains(ee.Message, "Expression result type not support") {
			return "result-type"
		}
	}
	return evalErrClass(err)
}

type projPlan struct {
	plan   kvql.FinalPlan
	fields []string // hexname:wire
	where  string
	yield  []KV     // what the scan yields, in order
	mget   []string // MultiGetPlan: the keys it reads, in order (inner chunks = bs keys at a time)
	skip   string
}

// chunksWire: the inner chunks of a scan's Batch at batch size bs
func (pp *projPlan) chunksWire(bs int, kvs []KV) string {
	if pp.mget == nil {
		return kvsWire(pp.yield)
	}
	have := map[string]string{}
	for _, kv := range kvs {
		have[kv.K] = kv.V
	}
	var chunks []string
	for i := 0; i < len(pp.mget); i += bs {
		var c []KV
		for _, k := range pp.mget[i:min(i+bs, len(pp.mget))] {
			if v, ok := have[k]; ok {
				c = append(c, KV{k, v})
			}
		}
		chunks = append(chunks, kvsWire(c))
	}
	if len(chunks) == 0 {
		return "-"
	}
	return strings.Join(chunks, "/")
}

func projSorted(kvs []KV) []KV {
	s := append([]KV{}, kvs...)
	sort.Slice(s, func(i, j int) bool { return s[i].K < s[j].K })
	return s
}

// projBuild builds the plan and extracts what the model needs from it
func projBuild(q string, kvs []KV) (pp *projPlan) {
	pp = &projPlan{}
	defer func() {
		if r := recover(); r != nil {
			pp.skip = "plan-panic"
		}
	}()
	plan, err := kvql.NewOptimizer(q).BuildPlan(NewRefStore(kvs))
	if err != nil {
		pp.skip = "plan-error"
		return
	}
	pp.plan = plan
	proj, ok := plan.(*kvql.ProjectionPlan)
	if !ok {
		pp.skip = "not-projection"
		return
	}
	if proj.AllFields {
		pp.skip = "select-star"
		return
	}
	all := projSorted(kvs)
	var filter *kvql.FilterExec
	switch sp := proj.ChildPlan.(type) {
	case *kvql.FullScanPlan:
		filter, pp.yield = sp.Filter, all
	case *kvql.PrefixScanPlan:
		filter = sp.Filter
		started := false
		for _, kv := range all {
			if !started && kv.K < sp.Prefix {
				continue
			}
			started = true
			if !strings.HasPrefix(kv.K, sp.Prefix) {
				break
			}
			pp.yield = append(pp.yield, kv)
		}
	case *kvql.RangeScanPlan:
		filter = sp.Filter
		for _, kv := range all {
			if sp.Start != nil && bytes.Compare([]byte(kv.K), sp.Start) < 0 {
				continue
			}
			if sp.End != nil && bytes.Compare([]byte(kv.K), sp.End) > 0 {
				break
			}
			pp.yield = append(pp.yield, kv)
		}
	case *kvql.MultiGetPlan:
		filter = sp.Filter
		pp.mget = append([]string{}, sp.Keys...)
		have := map[string]string{}
		for _, kv := range kvs {
			have[kv.K] = kv.V
		}
		for _, k := range pp.mget {
			if v, ok := have[k]; ok {
				pp.yield = append(pp.yield, KV{k, v})
			}
		}
	default:
		pp.skip = fmt.Sprintf("scan:%T", proj.ChildPlan)
		return
	}
	for i, f := range proj.Fields {
		w := wireExpr(f)
		if strings.Contains(w, "Y") || strings.Contains(w, "?") {
			pp.skip = "cyclic-or-unknown-node"
			return
		}
		pp.fields = append(pp.fields, hxs(proj.FieldNames[i])+":"+w)
	}
	pp.where = wireExpr(filter.Ast.Expr)
	if strings.Contains(pp.where, "Y") || strings.Contains(pp.where, "?") {
		pp.skip = "cyclic-or-unknown-node"
	}
	return
}

// projDrain drains the plan with one context; rows as canonical values
func projDrain(plan kvql.FinalPlan, batch, cache bool) (rows, content [][]string, class string) {
	defer func() {
		if r := recover(); r != nil {
			class = "panic"
		}
	}()
	ctx := kvql.NewExecuteCtx()
	ctx.EnableCache = cache
	add := func(r []kvql.Column) {
		c := make([]string, len(r))
		t := make([]string, len(r))
		for j, v := range r {
			c[j] = evCanon(v)
			t[j] = evContent(v)
		}
		rows = append(rows, c)
		content = append(content, t)
	}
	for i := 0; i < drainCap; i++ {
		if batch {
			rs, err := plan.Batch(ctx)
			if err != nil {
				return rows, content, projClass(err)
			}
			if len(rs) == 0 {
				return rows, content, "ok"
			}
			for _, r := range rs {
				add(r)
			}
		} else {
			r, err := plan.Next(ctx)
			if err != nil {
				return rows, content, projClass(err)
			}
			if r == nil {
				return rows, content, "ok"
			}
			add(r)
		}
	}
	return rows, content, "no-termination"
}

func projShow(rows [][]string, class string) string {
	if len(rows) == 0 {
		return "- ## " + class
	}
	p := make([]string, len(rows))
	for i, r := range rows {
		p[i] = strings.Join(r, "|")
	}
	return strings.Join(p, ";") + " ## " + class
}

func kvsWire(kvs []KV) string {
	if len(kvs) == 0 {
		return "-"
	}
	p := make([]string, len(kvs))
	for i, kv := range kvs {
		p[i] = hxs(kv.K) + "=" + hxs(kv.V)
	}
	return strings.Join(p, ",")
}

// projFixed: statements aimed at the cache's keys and at the lookup by field name
var projFixed = []string{
	"select key, int(value) as n where n > 2",
	"select key as k where k = 'b'",
	"select key as a, value as a where a = 'k1' | a = 'b'",
	"select key as a, value as a where a != 'zz'",
	"select upper(key) as f1, f1 where f1 != 'K2'",
	"select value as f1, f1 where key != 'k2'",
	"select key as a, value as `a-b` where `a-b` = 'b-k1' & a = 'k1'",
	"select key as a, value as `a-b` where a != 'zz' & `a-b` != 'zz'",
	"select key as a, value as `a-b` where `a-b` != 'zz' & a != 'b'",
	"select key as `a-`, value as `a` where `a-` != 'b' & `a` != 'zz'",
	"select upper(key) as u, lower(u) as l where l != 'b' & u != 'K1'",
	"select upper(key) as u, lower(u) as l where u != 'K1' & l != 'b'",
	"select key, upper(key) as `KEY` where `KEY` != 'B'",
	"select upper(key), value where `upper(KEY)` != 'B'",
	"select join('-', key, f1) as j, upper(key) as f1 where f1 != 'K1'",
	"select int(value) as n, n + 1 as m where m > 3 & n < 100",
	"select int(value) as n where n in (1, 3, 7) | !(n < 5)",
	"select int(value) as n, list(n, 1) as l where 1 in l & n != 2",
	"select split(value, ',') as s where key != 'zz'",
	"select is_int(value) as b, int(value) as n where b & n > 1",
	"select is_int(value) as b where b = true | key = 'b'",
	"select 1 + 2 as c, int(value) as n where n > c",
	"select key as k, value as v where k ^= 'k' & v ~= '^[0-9]'",
	"select key as k, int(value) as n where k between 'a' and 'k2' & n between 1 and 7",
	"select upper(key) as f1, lower(f1) where f1 != 'K2'",
	"select upper(key) as f1, lower(f1), f1 + 'x' where f1 != 'AB' & f1 != 'B1'",
	"select (upper('2') + value) as f1, !(f1 < 'a'), substr(f1, 1, 2) where is_int(f1)",
	"select key as f1, f1 as f2 where f2 != 'k2'",
	"select key as f1, f1 as f2, f2 where f2 != 'k2' & f1 != 'a'",
	// a name carried by two fields means the FIRST one, also for later fields and also after the second was computed
	"select key as a, value as a, a as b, upper(a) as c where value != 'zz' & key != 'zz'",
	"select key as a, value as a, a, a + 'x' as d where a != 'zz'",
	"select upper(key) as a, lower(value) as a, a + 'x' as b where b != 'zz'",
	"select int(value) as n, strlen(key) as n, n + 1 as m where is_int(value)",
	// (name, first key of the chunk) must identify a cached column whatever bytes sit in names and keys
	"select key as a, value as `a\x00b` where `a\x00b` != 'zz' & a != 'b'",
	"select key as a, value as `a\x00b` where a != 'zz' & `a\x00b` != 'zz'",
	"select key as a, value as `a:b` where `a:b` != 'zz' & a != 'b'",
	"select key as a, value as `a:b` where a != 'zz' & `a:b` != 'zz'",
	"select key as `a:`, value as `a` where `a:` != 'b' & `a` != 'zz'",
	// list-typed select fields (C03: whatever batch iteration returns, row iteration returns too)
	"select key, split(value, ',') as l where true",
	"select key, split(value, ',') where key != 'zz'",
	"select key, list(1, 2) where true",
	"select int_list(int(value), 7), float_list(1.5) as fl, key where key != 'b'",
	"select split(value, ',') as s, key where 'a' in s | '1' in s",
	"select list(int(value), 3) as l, int_list(1, 2) as il where 3 in l & 2 in il",
	"select float_list(2.5, float(value)) as fl where 2.5 in fl & len(fl) > 1",
}

var projPool = []KV{{"a", "1"}, {"a1", "x"}, {"ab", "2"}, {"abc", "10"}, {"b", ""}, {"b-k1", "7"}, {"b\x00k1", "8"}, {"b:k1", "9"}, {":k1", "6"}, {"b1", "7"}, {"ba", "abc"}, {"k1", "3"}, {"k2", "v"}, {"k3", "-4"}, {"l", "2.5"}, {"m", "0"}, {"n", "a,b"}, {"o", "1,2,3"}, {"p", "+5"}, {"zz", "b-k1"}}

// projCollisionStore: for a statement with the fields `a` and `a<sep>b` a store whose FIRST scan chunk starts
// with the key "b<sep>k1" and whose SECOND chunk starts with "k1" — the two (name, first key) pairs then spell
// the same text when joined by <sep> — with a rejected pair in the first chunk so that one Batch call spans both
func projCollisionStore(q string, bs int) []KV {
	for _, sep := range []string{"-", "\x00", ":"} {
		if strings.Contains(q, "`a"+sep+"b`") {
			kvs := []KV{{"b" + sep + "k1", "zz"}}
			for i := 1; i < bs; i++ {
				kvs = append(kvs, KV{fmt.Sprintf("c%02d", i), "zz"})
			}
			return append(kvs, KV{"k1", "3"}, KV{"k2", "v"}, KV{"k3", "b"})
		}
	}
	return nil
}

func projStore(r *Rand) []KV {
	n := r.Intn(len(projPool) + 1)
	if n < 2 && !r.Chance(1, 6) {
		n = 2 + r.Intn(len(projPool)-1)
	}
	idx := make([]int, len(projPool))
	for i := range idx {
		idx[i] = i
	}
	for i := len(idx) - 1; i > 0; i-- {
		j := r.Intn(i + 1)
		idx[i], idx[j] = idx[j], idx[i]
	}
	var kvs []KV
	for i := 0; i < n; i++ {
		kvs = append(kvs, projPool[idx[i]])
	}
	return kvs
}

// wide scopes.  projWideLits: multi-byte texts WITHOUT letter case (upper/lower and the empty
// separator of split are ASCII-only in the model's library, Lib.lean) for the generated
// statements; the direct cases below use accented letters and invalid UTF-8 as well, on
// statements without case mapping.
var projWideLits = []string{"键", "键2", "😅", "一二"}
var projWidePool = []KV{{"键", "1"}, {"键2", "键"}, {"键值", "9007199254740993"}, {"😅", "2"}, {"一", "x"}, {"一二", "😅"}, {"k键", "7"}}
var projBigInts = []string{"9007199254740993", "-9007199254740993", "1234567890123456789", "9007199254740992", "4611686018427387905"}

// projBigStore: 35–100 pairs (more than one and more than two batches at the default batch size)
func projBigStore(r *Rand, wide bool) []KV {
	n := 35 + r.Intn(66)
	seen := map[string]bool{}
	kvs := append([]KV{}, projPool...)
	prefixes := []string{"a", "b", "k", "k1", "l", "z"}
	vals := []string{"1", "2", "7", "10", "-4", "3", "x", "abc", "a,b", "", "2.5"}
	if wide {
		kvs = append(kvs, projWidePool...)
		prefixes = append(prefixes, "键")
		vals = append(vals, "键")
	}
	for _, kv := range kvs {
		seen[kv.K] = true
	}
	for len(kvs) < n {
		k := pick(r, prefixes) + fmt.Sprintf("%02d", r.Intn(100))
		if seen[k] {
			continue
		}
		seen[k] = true
		v := pick(r, vals)
		if r.Chance(1, 6) {
			v = pick(r, projBigInts)
		}
		kvs = append(kvs, KV{k, v})
	}
	for i := len(kvs) - 1; i > 0; i-- {
		j := r.Intn(i + 1)
		kvs[i], kvs[j] = kvs[j], kvs[i]
	}
	return kvs
}

// projDirect: statements with aliases and projected expressions over wide literals and integers
// beyond 2^53 whose rows this file computes itself (byte comparisons on the literal as written,
// strconv on the stored integers): no parser, no model.
type projDirect struct {
	q    string
	rows func(kvs []KV) [][]string // expected rows by content, in key order
}

func projDirectCase(r *Rand) projDirect {
	lits := []string{"café", "caf", "cafè", "键", "键2", "é", "😅", "k\xff", "naïve"}
	sel := func(q string, keep func(kv KV) bool, cols func(kv KV) []string) projDirect {
		return projDirect{q, func(kvs []KV) [][]string {
			var out [][]string
			for _, kv := range projSorted(kvs) {
				if keep(kv) {
					out = append(out, cols(kv))
				}
			}
			return out
		}}
	}
	atoi := func(s string) (int64, bool) {
		n, err := strconv.ParseInt(s, 10, 64)
		return n, err == nil
	}
	switch r.Intn(7) {
	case 0:
		l := pick(r, lits)
		return sel("select key as k, value as v where k = "+quote(l), func(kv KV) bool { return kv.K == l },
			func(kv KV) []string { return []string{cText(kv.K), cText(kv.V)} })
	case 1:
		l := pick(r, lits)
		return sel("select key, strlen(key) as n where key ^= "+quote(l)+" & n >= 0", func(kv KV) bool { return strings.HasPrefix(kv.K, l) },
			func(kv KV) []string { return []string{cText(kv.K), cInt(int64(len(kv.K)))} })
	case 2:
		a, b := pick(r, lits), pick(r, lits)
		return sel("select value as v, key where v in ("+quote(a)+", "+quote(b)+") | key = "+quote(a), func(kv KV) bool { return kv.V == a || kv.V == b || kv.K == a },
			func(kv KV) []string { return []string{cText(kv.V), cText(kv.K)} })
	case 3:
		l, m := pick(r, lits), pick(r, lits)
		return sel("select key + "+quote(l)+" as f1, f1 where f1 != "+quote(m+l), func(kv KV) bool { return kv.K != m },
			func(kv KV) []string { return []string{cText(kv.K + l), cText(kv.K + l)} })
	case 4:
		n := strings.TrimPrefix(pick(r, projBigInts), "-")
		return sel("select key, int(value) as n where n = "+n, func(kv KV) bool { v, ok := atoi(kv.V); return ok && fmt.Sprint(v) == n },
			func(kv KV) []string { v, _ := atoi(kv.V); return []string{cText(kv.K), cInt(v)} })
	case 5:
		return sel("select key, int(value) as n where is_int(value) & key >= ''", func(kv KV) bool { _, ok := atoi(kv.V); return ok },
			func(kv KV) []string { v, _ := atoi(kv.V); return []string{cText(kv.K), cInt(v)} })
	default:
		return sel("select int(value) as n, n + 1 as m, key where is_int(value) & n > 9007199254740992", func(kv KV) bool { v, ok := atoi(kv.V); return ok && v > 9007199254740992 },
			func(kv KV) []string { v, _ := atoi(kv.V); return []string{cInt(v), cInt(v + 1), cText(kv.K)} })
	}
}

// projDirectStore: the wide literals, their neighbours, integers beyond 2^53
func projDirectStore(r *Rand, big bool) []KV {
	pool := []KV{{"caf", "1"}, {"café", "café"}, {"cafè", "2"}, {"cafés", "9007199254740993"}, {"键", "键"}, {"键2", "-9007199254740993"}, {"键值", "x"},
		{"é", "1234567890123456789"}, {"😅", "é"}, {"k\xff", "7"}, {"k\xff1", "naïve"}, {"naïve", "9007199254740992"}, {"naï", "3"}, {"k", "4611686018427387905"},
		{"a", "10"}, {"b", "café"}, {"zz", "-4"}, {"\xc3", "😅"}, {"caf\xc3", "5"}, {"m", "+5"}, {"n", "1.5"}}
	kvs := append([]KV{}, pool...)
	if big {
		seen := map[string]bool{}
		for _, kv := range kvs {
			seen[kv.K] = true
		}
		for n := 40 + r.Intn(60); len(kvs) < n; {
			k := pick(r, []string{"caf", "café", "键", "k", "z"}) + fmt.Sprintf("%02d", r.Intn(100))
			if !seen[k] {
				seen[k] = true
				kvs = append(kvs, KV{k, pick(r, append([]string{"1", "7", "café", "x", "键"}, projBigInts...))})
			}
		}
	}
	for i := len(kvs) - 1; i > 0; i-- {
		j := r.Intn(i + 1)
		kvs[i], kvs[j] = kvs[j], kvs[i]
	}
	if !big {
		kvs = kvs[:3+r.Intn(len(kvs)-2)]
	}
	return kvs
}

// projWideSafe: the statement applies no case mapping (substr can cut a UTF-8 sequence, and Go's
// upper/lower replace the invalid bytes by U+FFFD: the model's library domain is ASCII there) and
// no split (the empty separator cuts after each UTF-8 sequence in Go, after each byte in the model)
func projWideSafe(q string) bool {
	l := strings.ToLower(q)
	return !strings.Contains(l, "upper(") && !strings.Contains(l, "lower(") && !strings.Contains(l, "split(")
}

// projListStatement: 1–3 select fields of which at least one is list-typed (split / list / int_list /
// float_list over constants and over the pair), aliased or not; the filter uses a list alias through
// `in` and `len`, or is independent of the fields
func projListStatement(r *Rand) string {
	type lf struct{ expr, elem string }
	lists := []lf{
		{"split(value, ',')", "str"}, {"split(key, 'k')", "str"}, {"split(value, '')", "str"}, {"split('a,b', ',')", "str"},
		{"list(1, 2)", "int"}, {"list(int(value), 1)", "int"}, {"list(2.5, float(value))", "float"}, {"list(strlen(key))", "int"},
		{"int_list(int(value), 7)", "int"}, {"int_list(1, 2, 3)", "int"}, {"int_list(strlen(value))", "int"},
		{"float_list(1.5, float(value))", "float"}, {"float_list(1)", "float"}, {"float_list(int(value), 2.5)", "float"},
	}
	scalars := []string{"key", "value", "int(value)", "upper(key)", "strlen(value)", "is_int(value)", "key + value"}
	n := 1 + r.Intn(3)
	li := r.Intn(n) // this field is a list for sure
	var fs, conds []string
	for i := 0; i < n; i++ {
		if i == li || r.Chance(1, 3) {
			l := pick(r, lists)
			if r.Chance(2, 3) {
				name := fmt.Sprintf("l%d", i+1)
				fs = append(fs, l.expr+" as "+name)
				probe := map[string][]string{"str": {"'a'", "'1'", "key", "''"}, "int": {"1", "3", "int(value)", "7"}, "float": {"2.5", "1.5", "float(value)", "1"}}[l.elem]
				switch r.Intn(4) {
				case 0:
					conds = append(conds, pick(r, probe)+" in "+name)
				case 1:
					conds = append(conds, "len("+name+") > "+fmt.Sprint(r.Intn(3)))
				case 2:
					conds = append(conds, "!("+pick(r, probe)+" in "+name+")")
				}
			} else {
				fs = append(fs, l.expr)
			}
		} else {
			e := pick(r, scalars)
			if r.Bool() {
				e += fmt.Sprintf(" as s%d", i+1)
			}
			fs = append(fs, e)
		}
	}
	if len(conds) == 0 || r.Chance(1, 4) {
		conds = append(conds, pick(r, []string{"true", "key != 'zz'", "key > 'a'", "is_int(value)", "value ~= '[0-9]'", "key ^= 'k' | key ^= 'a'"}))
	}
	return "select " + strings.Join(fs, ", ") + " where " + strings.Join(conds, pick(r, []string{" & ", " | "}))
}

// projStatement: the statement of case ix
func projStatement(r *Rand, ix uint64) string {
	if ix < uint64(4*len(projFixed)) {
		return projFixed[ix%uint64(len(projFixed))]
	}
	o := defaultOpts()
	o.Json = false
	if ix%9 == 4 {
		// the wide slice: caseless multi-byte literals (the generator of MODES only: no empty separator)
		o.KeyLits = append(append([]string{}, o.KeyLits...), projWideLits...)
		o.ValLits = append(append([]string{}, o.ValLits...), projWideLits...)
		for try := 0; try < 6; try++ {
			if q := NewGen(r, o).Select(); projWideSafe(q) {
				return q
			}
		}
		o = defaultOpts()
		o.Json = false
	}
	switch r.Intn(4) {
	case 0: // the generator of MODES (aliases in the filter, plain fields too)
		g := NewGen(r, o)
		return g.Select()
	case 1: // list-typed select fields, aliased or not, used in the filter through `in` / len
		return projListStatement(r)
	default: // the generator of EVAL: every field aliased, aliases at any position, list-typed fields
		g := NewXGen(r, o)
		if r.Chance(1, 4) {
			g.Wild = 10
		}
		fields := g.XFields(1 + r.Intn(3))
		return "select " + strings.Join(fields, ", ") + " where " + g.XBool(2)
	}
}

func runPROJECT(e *Env) (*Summary, error) {
	start := time.Now()
	n := e.n(6000, 120000)
	bss := []int{1, 2, 3, 5, 32}
	rule := fmt.Sprintf("(a thin slice also at the default batch size 32 on stores of 35–100 pairs, with caseless multi-byte keys and literals, and statements over accented / invalid-UTF-8 literals and integers beyond 2^53 whose rows are computed by the harness itself) %d statements (%d fixed ones aimed at the cache keys and the lookup by field name, each on 4 stores; the rest from the typed generators of MODES and EVAL and a generator of list-typed select fields — split/list/int_list/float_list, aliased or not, used in the filter through `in` and len —: 1–3 fields, aliases referenced in the filter, in function arguments, in other fields, under !, in IN lists) over shuffled stores of 0–17 pairs in which some rows fail the filter between accepted ones; each drained through the real plan in row mode and in batch mode at batch sizes %v with the field cache on and off, against Kvql.Project on the plan's own ASTs, and row mode against batch mode (batch completes => row completes with the same rows); non-trivial when a row is returned and a pair is rejected; distinct by (statement, store, mode, bs, cache)", n, len(projFixed), bss)
	col := NewCollector("PROJECT", e.Tier, e.Seed, rule)
	saved := kvql.PlanBatchSize
	defer func() { kvql.PlanBatchSize = saved }()
	for phase, bs := range bss {
		kvql.PlanBatchSize = bs
		err := e.parallel(func(w int, d *Driver) error {
			// the direct cases: expected rows computed here
			for ix := uint64(w); ix < uint64(n/12+1); ix += uint64(e.Workers) {
				r := NewRand(e.Seed, "PROJECT-direct", ix*64+uint64(bs))
				projDirectRun(e, col, r, bs, ix)
			}
			for ix := uint64(w); ix < uint64(n); ix += uint64(e.Workers) {
				if bs == 32 && ix%8 != 4 {
					continue // a thin slice at the default batch size
				}
				r := NewRand(e.Seed, "PROJECT", ix)
				q := projStatement(r, ix)
				kvs := projStore(r)
				if cs := projCollisionStore(q, bs); cs != nil && ix/uint64(len(projFixed)) == 3 {
					kvs = cs
				} else if bs == 32 {
					kvs = projBigStore(r, projWideSafe(q))
				} else if ix%9 == 4 && projWideSafe(q) {
					kvs = append(kvs, projWidePool[:r.Intn(len(projWidePool)+1)]...)
				}
				probe := projBuild(q, kvs)
				if probe.skip != "" {
					if phase == 0 {
						col.Hist("skip:" + probe.skip)
					}
					continue
				}
				if phase == 0 {
					col.Hist(fmt.Sprintf("scan:%T", probe.plan.(*kvql.ProjectionPlan).ChildPlan), fmt.Sprintf("fields:%d", len(probe.fields)))
				}
				nf := len(probe.fields)
				cs := fmt.Sprintf("%s  [store %v]", q, projSorted(kvs))
				type run struct {
					rows  [][]string // by content: the Go kind of a text (string / []byte) is not compared
					class string
				}
				res := map[string]run{}
				hyp := "hyp=?"
				for _, batch := range []bool{false, true} {
					if !batch && phase != 0 && bs != 32 {
						// row mode does not depend on the batch size (the stores of the bs=32 phase are its own):
						// no correspondence query, only the engine's rows for the row-vs-batch oracle below
						for _, cache := range []bool{false, true} {
							if pp := projBuild(q, kvs); pp.skip == "" {
								_, content, class := projDrain(pp.plan, false, cache)
								res["row"+map[bool]string{false: "0", true: "1"}[cache]] = run{content, class}
							}
						}
						continue
					}
					mode := "row"
					if batch {
						mode = "batch"
					}
					for _, cache := range []bool{false, true} {
						pp := projBuild(q, kvs) // plans are stateful: one per drain
						if pp.skip != "" {
							continue
						}
						rows, content, class := projDrain(pp.plan, batch, cache)
						cbit := "0"
						if cache {
							cbit = "1"
						}
						res[mode+cbit] = run{content, class}
						eng := projShow(rows, class)
						line := fmt.Sprintf("PROJECT %s %d %s %d %s %s %s", mode, bs, cbit, nf, strings.Join(pp.fields, " "), pp.where, kvsWire(pp.yield))
						if batch && pp.mget != nil {
							line = fmt.Sprintf("PROJECT batchc %d %s %d %s %s %s", bs, cbit, nf, strings.Join(pp.fields, " "), pp.where, pp.chunksWire(bs, kvs))
						}
						ans, err := d.Ask(line)
						if err != nil {
							return err
						}
						// the model's answer ends in ` ## hyp=<0|1>`: do the hypotheses of the C05 theorems hold?
						mod := ans
						if i := strings.LastIndex(ans, " ## hyp="); i >= 0 {
							mod = ans[:i]
							hyp = ans[i+4:]
						}
						col.Eval(1)
						col.Hist(mode + ":" + class)
						if class == "ok" && len(rows) > 0 && len(rows) < len(pp.yield) {
							col.Nontrivial(fmt.Sprintf("%s|%v|%s|%d|%s", q, kvs, mode, bs, cbit))
						}
						if class == "panic" {
							col.Find(Finding{Kind: "crash", Group: "PROJECT", Check: "engine-panics", Case: fmt.Sprintf("%s bs=%d cache=%s mode=%s", cs, bs, cbit, mode), Line: line,
								Engine: eng, Model: "no panic", Seed: e.Seed, Index: ix, Properties: []string{"C06"}, Class: projDefectClass(q)})
						}
						if eng != mod {
							col.Find(Finding{Kind: "correspondence", Group: "PROJECT", Check: mode, Case: fmt.Sprintf("%s bs=%d cache=%s", cs, bs, cbit), Line: line,
								Engine: eng, Model: mod, Seed: e.Seed, Index: ix, Properties: []string{"C05", "C03"}})
						}
						if class == "ok" {
							for _, rr := range rows {
								if len(rr) != nf {
									col.Find(Finding{Kind: "property", Group: "PROJECT", Check: "row-shape", Case: fmt.Sprintf("%s bs=%d cache=%s mode=%s", cs, bs, cbit, mode), Line: line,
										Engine: fmt.Sprintf("%d columns", len(rr)), Model: fmt.Sprintf("%d announced fields", nf), Seed: e.Seed, Index: ix, Properties: []string{"C05"}})
									break
								}
							}
						}
					}
					if phase == 0 && !batch {
						col.Hist("theorem-hypotheses:" + hyp)
					}
					if bs == 32 && batch {
						col.Hist(fmt.Sprintf("bs32-store:%d", len(kvs)/32*32))
					}
					on, off := res[mode+"1"], res[mode+"0"]
					if a, b := projShow(on.rows, on.class), projShow(off.rows, off.class); a != b {
						col.Hist("cache-visible:" + hyp)
						col.Find(Finding{Kind: "property", Group: "PROJECT", Check: "cache-on-vs-off-" + mode, Case: fmt.Sprintf("%s bs=%d", cs, bs), Line: "MODES " + hxs(q),
							Engine: "cache on: " + a, Model: "cache off: " + b, Seed: e.Seed, Index: ix, Properties: []string{"C05"}, Class: strings.TrimSpace(projDefectClass(q) + " " + hyp)})
					}
				}
				// C03, engine only: whenever batch iteration completes, row iteration completes too, with the
				// same rows (by content; these statements have no ORDER BY: same order)
				for _, cbit := range []string{"0", "1"} {
					b, okb := res["batch"+cbit]
					rw, okr := res["row"+cbit]
					if !okb || !okr || b.class != "ok" {
						continue
					}
					col.Hist("c03:judged")
					cls := ""
					if rw.class == "result-type" {
						cls = "typed-list-column"
					}
					if rw.class != "ok" {
						col.Find(Finding{Kind: "property", Group: "PROJECT", Check: "batch-ok-but-row-fails", Case: fmt.Sprintf("%s bs=%d cache=%s", cs, bs, cbit), Line: "MODES " + hxs(q),
							Engine: "batch: " + projShow(b.rows, b.class) + "  row: " + projShow(rw.rows, rw.class), Model: "row iteration completes too, with the same rows",
							Seed: e.Seed, Index: ix, Properties: []string{"C03"}, Class: cls})
					} else if x, y := projShow(b.rows, b.class), projShow(rw.rows, rw.class); x != y {
						col.Find(Finding{Kind: "property", Group: "PROJECT", Check: "row-vs-batch-rows", Case: fmt.Sprintf("%s bs=%d cache=%s", cs, bs, cbit), Line: "MODES " + hxs(q),
							Engine: "batch: " + x, Model: "row: " + y, Seed: e.Seed, Index: ix, Properties: []string{"C03"}})
					}
				}
				if ix%499 == 7 && phase == 0 {
					col.Sample(q)
				}
			}
			return nil
		})
		if err != nil {
			return nil, err
		}
	}
	return col.Finish(start), nil
}

// projDirectRun: one direct case, row and batch mode, cache on and off
func projDirectRun(e *Env, col *Collector, r *Rand, bs int, ix uint64) {
	dc := projDirectCase(r)
	kvs := projDirectStore(r, bs == 32 && r.Bool())
	want := dc.rows(kvs)
	wants := projShow(want, "ok")
	col.Hist("direct:judged")
	if len(want) > 0 {
		col.Nontrivial(fmt.Sprintf("direct|%s|%v|%d", dc.q, kvs, bs))
	}
	for _, batch := range []bool{false, true} {
		for _, cache := range []bool{false, true} {
			pp := projBuild(dc.q, kvs)
			mode := map[bool]string{false: "row", true: "batch"}[batch]
			cs := fmt.Sprintf("%s  [store %s] bs=%d cache=%v mode=%s", visible(dc.q), showKVs(projSorted(kvs)), bs, cache, mode)
			if pp.skip != "" {
				col.Find(Finding{Kind: "property", Group: "PROJECT", Check: "direct-rejected", Case: cs, Line: "MODES " + hxs(dc.q), Engine: pp.skip, Model: wants,
					Seed: e.Seed, Index: ix, Properties: []string{"C01"}})
				return
			}
			_, content, class := projDrain(pp.plan, batch, cache)
			col.Eval(1)
			if got := projShow(content, class); got != wants {
				props := []string{"C01", "C05"}
				if strings.Contains(dc.q, "int(value)") {
					props = []string{"C03", "C01"}
				}
				col.Find(Finding{Kind: "property", Group: "PROJECT", Check: "direct-rows-" + mode, Case: cs, Line: "MODES " + hxs(dc.q), Engine: got, Model: wants + " (computed by the harness from the statement as written)",
					Seed: e.Seed, Index: ix, Properties: props})
			}
		}
	}
}

// projDefectClass: coarse reason labels for the known shapes (only to group findings)
func projDefectClass(q string) string {
	lw := strings.Index(strings.ToLower(q), " where ")
	if lw < 0 {
		return ""
	}
	head := q[:lw]
	names := map[string]int{}
	var c []string
	for _, f := range strings.Split(head[len("select "):], ", ") {
		f = strings.TrimSpace(f)
		if i := strings.LastIndex(strings.ToLower(f), " as "); i >= 0 {
			names[strings.Trim(f[i+4:], "` ")]++
		}
	}
	for _, f := range strings.Split(head[len("select "):], ", ") {
		f = strings.TrimSpace(f)
		if names[strings.Trim(f, "` ")] > 0 && !strings.Contains(strings.ToLower(f), " as ") {
			c = append(c, "bare-alias-field")
			break
		}
	}
	for _, k := range names {
		if k > 1 {
			c = append(c, "duplicate-alias")
			break
		}
	}
	for nm := range names {
		if strings.Contains(nm, "-") {
			c = append(c, "dash-in-alias")
			break
		}
	}
	return strings.Join(c, "+")
}
