// kvharness: correspondence and spec-differential harness between the real kvql
// engine (linked in-process from /repo) and the Lean model/spec (driven through
// the compiled `kvqlmodel` line protocol).
package main

import (
	"bufio"
	"encoding/hex"
	"encoding/json"
	"fmt"
	"io"
	"os"
	"os/exec"
	"sort"
	"strings"
	"sync"
	"time"
)

// ---------------------------------------------------------------- PRNG

// Rand is splitmix64; every random choice of a case derives from (seed, group, index).
type Rand struct{ s uint64 }

func NewRand(seed uint64, salt string, idx uint64) *Rand {
	h := seed*0x9E3779B97F4A7C15 + 0x1234567
	for _, c := range []byte(salt) {
		h = (h ^ uint64(c)) * 0x100000001B3
	}
	h ^= idx * 0xD6E8FEB86659FD93
	r := &Rand{s: h}
	r.Next()
	return r
}

func (r *Rand) Next() uint64 {
	r.s += 0x9E3779B97F4A7C15
	z := r.s
	z = (z ^ (z >> 30)) * 0xBF58476D1CE4E5B9
	z = (z ^ (z >> 27)) * 0x94D049BB133111EB
	return z ^ (z >> 31)
}

func (r *Rand) Intn(n int) int {
	if n <= 0 {
		return 0
	}
	return int(r.Next() % uint64(n))
}

func (r *Rand) Bool() bool { return r.Next()&1 == 1 }

// Chance returns true with probability num/den.
func (r *Rand) Chance(num, den int) bool { return r.Intn(den) < num }

func pick[T any](r *Rand, xs []T) T { return xs[r.Intn(len(xs))] }

// ---------------------------------------------------------------- wire helpers

func hx(b []byte) string {
	if len(b) == 0 {
		return "-"
	}
	return hex.EncodeToString(b)
}

func hxs(s string) string { return hx([]byte(s)) }

func unhx(s string) []byte {
	if s == "-" {
		return nil
	}
	b, err := hex.DecodeString(s)
	if err != nil {
		return []byte("<bad-hex:" + s + ">")
	}
	return b
}

// ---------------------------------------------------------------- driver

type Driver struct {
	cmd *exec.Cmd
	in  *bufio.Writer
	out *bufio.Reader
	w   io.WriteCloser
}

func StartDriver(path string) (*Driver, error) {
	cmd := exec.Command(path)
	w, err := cmd.StdinPipe()
	if err != nil {
		return nil, err
	}
	r, err := cmd.StdoutPipe()
	if err != nil {
		return nil, err
	}
	cmd.Stderr = os.Stderr
	if err := cmd.Start(); err != nil {
		return nil, err
	}
	return &Driver{cmd: cmd, in: bufio.NewWriterSize(w, 1<<16), out: bufio.NewReaderSize(r, 1<<16), w: w}, nil
}

// Ask sends one line and reads one line.
func (d *Driver) Ask(line string) (string, error) {
	if strings.ContainsAny(line, "\n\r") {
		return "", fmt.Errorf("line contains newline: %q", line)
	}
	if _, err := d.in.WriteString(line); err != nil {
		return "", err
	}
	d.in.WriteByte('\n')
	if err := d.in.Flush(); err != nil {
		return "", err
	}
	resp, err := d.out.ReadString('\n')
	if err != nil {
		return "", fmt.Errorf("driver died on %q: %v", line, err)
	}
	return strings.TrimRight(resp, "\n"), nil
}

func (d *Driver) Close() {
	d.w.Close()
	d.cmd.Wait()
}

// ---------------------------------------------------------------- results

// Finding is one disagreement.
type Finding struct {
	Kind   string `json:"kind"`   // "correspondence" (engine vs model) or "property" (engine vs spec) or "crash"
	Group  string `json:"group"`  // LEX, ERRFMT, ...
	Check  string `json:"check"`  // which comparison failed
	Case   string `json:"case"`   // human-readable case
	Line   string `json:"line"`   // the protocol line (replayable)
	Engine string `json:"engine"` // engine output
	Model  string `json:"model"`  // model or spec output
	Class  string `json:"class"`  // classification for known findings (may be empty)
	Seed   uint64 `json:"seed"`
	Index  uint64 `json:"index"`
	Detail string `json:"detail,omitempty"`
	// Properties this finding speaks about (empty: every property served by the group)
	Properties []string `json:"properties,omitempty"`
}

type Summary struct {
	Group       string         `json:"group"`
	Tier        string         `json:"tier"`
	Seed        uint64         `json:"seed"`
	Evaluations int64          `json:"evaluations"`
	Nontrivial  int64          `json:"distinct_nontrivial"`
	Rule        string         `json:"rule"`
	Exhaustive  bool           `json:"exhaustive"`
	Histogram   map[string]int `json:"histogram"`
	Samples     []string       `json:"samples"`
	Findings    []Finding      `json:"findings"`
	NumFindings int            `json:"num_findings"`
	WallS       float64        `json:"wall_s"`
	Notes       []string       `json:"notes,omitempty"`
}

// Collector is shared by the workers of one group run.
type Collector struct {
	mu       sync.Mutex
	sum      *Summary
	distinct map[string]struct{}
	seenFind map[string]struct{}
	maxFind  int
}

func NewCollector(group, tier string, seed uint64, rule string) *Collector {
	return &Collector{
		sum:      &Summary{Group: group, Tier: tier, Seed: seed, Rule: rule, Histogram: map[string]int{}},
		distinct: map[string]struct{}{},
		seenFind: map[string]struct{}{},
		maxFind:  25,
	}
}

func (c *Collector) Eval(n int64) {
	c.mu.Lock()
	c.sum.Evaluations += n
	c.mu.Unlock()
}

// Nontrivial records a canonical key of a non-trivial case; distinct keys are counted.
func (c *Collector) Nontrivial(key string) {
	c.mu.Lock()
	if len(c.distinct) < 5_000_000 {
		c.distinct[key] = struct{}{}
	}
	c.mu.Unlock()
}

func (c *Collector) Hist(keys ...string) {
	c.mu.Lock()
	for _, k := range keys {
		c.sum.Histogram[k]++
	}
	c.mu.Unlock()
}

func (c *Collector) Sample(s string) {
	c.mu.Lock()
	if len(c.sum.Samples) < 12 {
		c.sum.Samples = append(c.sum.Samples, s)
	}
	c.mu.Unlock()
}

func (c *Collector) Note(s string) {
	c.mu.Lock()
	c.sum.Notes = append(c.sum.Notes, s)
	c.mu.Unlock()
}

func (c *Collector) Find(f Finding) {
	c.mu.Lock()
	c.sum.Histogram["finding:"+f.Kind+"/"+f.Check+"/"+f.Class]++
	key := "F:" + f.Check + ":" + f.Case
	if _, dup := c.seenFind[key]; dup {
		c.mu.Unlock()
		return
	}
	if len(c.seenFind) < 1_000_000 {
		c.seenFind[key] = struct{}{}
	}
	c.sum.NumFindings++
	nk := 0
	for _, g := range c.sum.Findings {
		if g.Kind == f.Kind && g.Check == f.Check {
			nk++
		}
	}
	if nk < c.maxFind {
		c.sum.Findings = append(c.sum.Findings, f)
	} else {
		// keep shortest cases per (kind, check): replace the longest if this one is shorter
		li, ll := -1, len(f.Case)
		for i, g := range c.sum.Findings {
			if g.Kind == f.Kind && g.Check == f.Check && len(g.Case) > ll {
				li, ll = i, len(g.Case)
			}
		}
		if li >= 0 {
			c.sum.Findings[li] = f
		}
	}
	c.mu.Unlock()
}

func (c *Collector) Finish(start time.Time) *Summary {
	c.sum.Nontrivial = int64(len(c.distinct))
	c.sum.WallS = time.Since(start).Seconds()
	sort.SliceStable(c.sum.Findings, func(i, j int) bool { return len(c.sum.Findings[i].Case) < len(c.sum.Findings[j].Case) })
	return c.sum
}

// ---------------------------------------------------------------- runner

type Env struct {
	DriverPath string
	Tier       string
	Seed       uint64
	Workers    int
	Budget     float64 // multiplies case counts
}

// parallel runs fn(worker, driver) on Workers goroutines, each with its own driver process.
func (e *Env) parallel(fn func(w int, d *Driver) error) error {
	var wg sync.WaitGroup
	errs := make([]error, e.Workers)
	for w := 0; w < e.Workers; w++ {
		wg.Add(1)
		go func(w int) {
			defer wg.Done()
			d, err := StartDriver(e.DriverPath)
			if err != nil {
				errs[w] = err
				return
			}
			defer d.Close()
			errs[w] = fn(w, d)
		}(w)
	}
	wg.Wait()
	for _, err := range errs {
		if err != nil {
			return err
		}
	}
	return nil
}

func (e *Env) n(quick, thorough int) int {
	n := quick
	if e.Tier == "thorough" {
		n = thorough
	}
	if e.Budget > 0 {
		n = int(float64(n) * e.Budget)
	}
	if n < 1 {
		n = 1
	}
	return n
}

func writeSummary(path string, s *Summary) error {
	b, err := json.MarshalIndent(s, "", " ")
	if err != nil {
		return err
	}
	return os.WriteFile(path, b, 0o644)
}

// safely runs f, turning a panic into ("panic: …", true).
func safely(f func() string) (out string, panicked bool) {
	defer func() {
		if r := recover(); r != nil {
			out = fmt.Sprintf("panic: %v", r)
			panicked = true
		}
	}()
	return f(), false
}
