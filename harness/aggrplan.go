package main

import (
	"encoding/json"
	"fmt"
	"math"
	"strconv"
	"strings"
	"time"

	"github.com/c4pt0r/kvql"
)

// Group AGGRPLAN (property C09): correspondence of the Lean model of aggregate_plan.go /
// aggr_func.go (Kvql.Aggr, driver lines AGGRPLAN / AGGRFMT / AGGRNUM, see lean/Driver/Aggr.lean)
// with the real kvql.AggregatePlan, plus the independent fold of aggr.go (aggrExpect) as oracle.
//
// The model is parametric in expression evaluation: what the model is told about a statement is,
// per arriving pair, the value of every GROUP BY expression, of every key field and of the first
// argument of every aggregate call, computed here with the real evaluator on a fresh parse of the
// statement (Execute(kv, nil)).  The plan is the real one: either the *kvql.AggregatePlan that
// kvql.NewOptimizer(q).BuildPlan(store) returns (its child wrapped by a recorder, so that the
// pairs and chunks that really arrived are known), or an AggregatePlan built by hand over a stub
// child that hands out prescribed pairs (any order, duplicates) in prescribed chunks.

// ---- children

type kvStub struct {
	chunks [][]KV
	flat   []KV
}

func (s *kvStub) String() string    { return "kvstub" }
func (s *kvStub) Explain() []string { return []string{"kvstub"} }
func (s *kvStub) Init() error       { return nil }
func (s *kvStub) Next(ctx *kvql.ExecuteCtx) ([]byte, []byte, error) {
	if len(s.flat) == 0 {
		return nil, nil, nil
	}
	p := s.flat[0]
	s.flat = s.flat[1:]
	return []byte(p.K), []byte(p.V), nil
}
func (s *kvStub) Batch(ctx *kvql.ExecuteCtx) ([]kvql.KVPair, error) {
	if len(s.chunks) == 0 {
		return nil, nil
	}
	c := s.chunks[0]
	s.chunks = s.chunks[1:]
	ret := make([]kvql.KVPair, len(c))
	for i, p := range c {
		ret[i] = kvql.NewKVP([]byte(p.K), []byte(p.V))
	}
	return ret, nil
}

// recPlan forwards to the real child and records what it handed out
type recPlan struct {
	inner  kvql.Plan
	chunks [][]KV
}

func (s *recPlan) String() string    { return s.inner.String() }
func (s *recPlan) Explain() []string { return s.inner.Explain() }
func (s *recPlan) Init() error       { return s.inner.Init() }
func (s *recPlan) Next(ctx *kvql.ExecuteCtx) ([]byte, []byte, error) {
	k, v, err := s.inner.Next(ctx)
	if err == nil && !(k == nil && v == nil) {
		s.chunks = append(s.chunks, []KV{{string(k), string(v)}})
	}
	return k, v, err
}
func (s *recPlan) Batch(ctx *kvql.ExecuteCtx) ([]kvql.KVPair, error) {
	rows, err := s.inner.Batch(ctx)
	if err == nil && len(rows) > 0 {
		c := make([]KV, len(rows))
		for i, r := range rows {
			c[i] = KV{string(r.Key), string(r.Value)}
		}
		s.chunks = append(s.chunks, c)
	}
	return rows, err
}

// ---- statement analysis (what AggregatePlan.Init does, on the exported AST)

type apField struct {
	isKey bool
	expr  kvql.Expression
	calls []*kvql.FunctionCallExpr
	tok   string
}

func isAggrCall(e kvql.Expression) bool {
	fc, ok := e.(*kvql.FunctionCallExpr)
	if !ok {
		return false
	}
	name, err := kvql.GetFuncNameFromExpr(fc)
	return err == nil && kvql.IsAggrFunc(name)
}

// listAggrFuncs of aggregate_plan.go
func apListCalls(e kvql.Expression) []*kvql.FunctionCallExpr {
	switch x := e.(type) {
	case *kvql.BinaryOpExpr:
		return append(apListCalls(x.Left), apListCalls(x.Right)...)
	case *kvql.FunctionCallExpr:
		if isAggrCall(x) {
			return []*kvql.FunctionCallExpr{x}
		}
	}
	return nil
}

// does an aggregate call hide where listAggrFuncs does not look?
func apDeepAggr(e kvql.Expression) bool {
	switch x := e.(type) {
	case *kvql.BinaryOpExpr:
		return apDeepAggr(x.Left) || apDeepAggr(x.Right)
	case *kvql.FunctionCallExpr:
		if isAggrCall(x) {
			return true
		}
		for _, a := range x.Args {
			if apDeepAggr(a) {
				return true
			}
		}
	case *kvql.NotExpr:
		return apDeepAggr(x.Right)
	case *kvql.FieldReferenceExpr:
		return apDeepAggr(x.FieldExpr)
	}
	return false
}

func valTok(v any, err error) string {
	if err != nil {
		return "!" + errClass(err)
	}
	if f, ok := v.(float64); ok && f != f {
		return "f:7ff8000000000000" // NaN payloads are not compared
	}
	s := canonValue(v)
	if s == "t" || s == "F" || s == "n" {
		return s
	}
	for _, p := range []string{"b:", "s:", "i:", "I:", "f:"} {
		if strings.HasPrefix(s, p) {
			return s
		}
	}
	return "o"
}

func evalTok(e kvql.Expression, kv kvql.KVPair) (tok string, val any) {
	out, panicked := safely(func() string {
		v, err := e.Execute(kv, nil)
		val = v
		if err != nil {
			val = err
		}
		return valTok(v, err)
	})
	if panicked {
		return "!panic", fmt.Errorf("panic")
	}
	return out, val
}

var apOps = map[kvql.Operator]string{kvql.Add: "a", kvql.Sub: "s", kvql.Mul: "m", kvql.Div: "d"}

// the expression around the aggregate calls, in the driver's prefix code
func apExprTok(e kvql.Expression, next *int) (string, bool) {
	switch x := e.(type) {
	case *kvql.BinaryOpExpr:
		if len(apListCalls(x)) > 0 {
			op, ok := apOps[x.Op]
			if !ok {
				return "", false
			}
			l, lok := apExprTok(x.Left, next)
			r, rok := apExprTok(x.Right, next)
			if !lok || !rok {
				return "", false
			}
			if x.Op == kvql.Add && x.Left.ReturnType() == kvql.TSTR {
				return "s," + l + "," + r, true
			}
			return fmt.Sprintf("m,%s,%d,%s,%s", op, x.Right.GetPos(), l, r), true
		}
	case *kvql.FunctionCallExpr:
		if isAggrCall(x) {
			i := *next
			*next++
			return fmt.Sprintf("c,%d", i), true
		}
	}
	if apDeepAggr(e) {
		return "", false
	}
	tok, _ := evalTok(e, kvql.NewKVP(nil, nil))
	return "k," + tok, true
}

func apKindTok(fc *kvql.FunctionCallExpr) (string, bool) {
	name, _ := kvql.GetFuncNameFromExpr(fc)
	switch name {
	case "count", "sum", "avg", "min", "max":
		if len(fc.Args) != 1 {
			return "", false
		}
		return name, true
	case "json_arrayagg":
		if len(fc.Args) != 1 {
			return "", false
		}
		return "arrayagg", true
	case "group_concat":
		if len(fc.Args) != 2 || fc.Args[1].ReturnType() != kvql.TSTR {
			return "", false
		}
		v, err := fc.Args[1].Execute(kvql.NewKVP(nil, nil), nil)
		if err != nil {
			return "", false
		}
		return "concat:" + hxs(toStr(v)), true
	}
	return "", false
}

// apAnalyse describes the statement to the model; ok=false: outside the modelled fragment
func apAnalyse(stmt *kvql.SelectStmt) (plan string, fields []apField, ok bool) {
	var toks []string
	for _, f := range stmt.Fields {
		af := apField{isKey: true, expr: f}
		switch f.(type) {
		case *kvql.FunctionCallExpr, *kvql.BinaryOpExpr:
			af.calls = apListCalls(f)
			af.isKey = len(af.calls) == 0
		}
		if af.isKey {
			af.tok = "K"
		} else {
			var kinds []string
			for _, c := range af.calls {
				k, ok := apKindTok(c)
				if !ok {
					return "", nil, false
				}
				kinds = append(kinds, k)
			}
			n := 0
			ex, ok := apExprTok(f, &n)
			if !ok {
				return "", nil, false
			}
			af.tok = "A" + strings.Join(kinds, "~") + "=" + ex
		}
		fields = append(fields, af)
		toks = append(toks, af.tok)
	}
	all, ng := "1", 0
	if stmt.GroupBy != nil {
		all, ng = "0", len(stmt.GroupBy.Fields)
	}
	ft := "-"
	if len(toks) > 0 {
		ft = strings.Join(toks, ";")
	}
	return fmt.Sprintf("%s/%d/%s", all, ng, ft), fields, true
}

// pairTable evaluates everything the plan evaluates on one pair; vals keeps the raw values:
// first the group values, then per field the key value or the call arguments
func apPairTable(stmt *kvql.SelectStmt, fields []apField, p KV) (tok string, gvals []any, fvals [][]any) {
	kv := kvql.NewKVP([]byte(p.K), []byte(p.V))
	g := "-"
	if stmt.GroupBy != nil && len(stmt.GroupBy.Fields) > 0 {
		gt := make([]string, len(stmt.GroupBy.Fields))
		for j, gf := range stmt.GroupBy.Fields {
			var v any
			gt[j], v = evalTok(gf.Expr, kv)
			gvals = append(gvals, v)
		}
		g = strings.Join(gt, ",")
	}
	f := "-"
	if len(fields) > 0 {
		ft := make([]string, len(fields))
		for i, af := range fields {
			if af.isKey {
				var v any
				ft[i], v = evalTok(af.expr, kv)
				fvals = append(fvals, []any{v})
			} else {
				at := make([]string, len(af.calls))
				vs := make([]any, len(af.calls))
				for c, call := range af.calls {
					at[c], vs[c] = evalTok(call.Args[0], kv)
				}
				ft[i] = strings.Join(at, ",")
				fvals = append(fvals, vs)
			}
		}
		f = strings.Join(ft, ";")
	}
	return g + "/" + f, gvals, fvals
}

// ---- running the real plan

func apRowTok(r []kvql.Column) string {
	c := make([]string, len(r))
	for i, v := range r {
		c[i] = valTok(v, nil)
	}
	return strings.Join(c, ",")
}

// apDrain drains an initialised plan; the text has the driver's answer format
func apDrain(p kvql.FinalPlan, batch bool, cache bool) (text string, rows [][]any) {
	out, _ := safely(func() string {
		ctx := kvql.NewExecuteCtx()
		ctx.EnableCache = cache
		var parts []string
		fin := func(sep string, err error) string {
			s := "-"
			if len(parts) > 0 {
				s = strings.Join(parts, sep)
			}
			if err != nil {
				s += " ! " + errClass(err)
			}
			return s
		}
		for i := 0; i < drainCap; i++ {
			if batch {
				rs, err := p.Batch(ctx)
				if err != nil {
					return fin("|", err)
				}
				if len(rs) == 0 {
					return fin("|", nil)
				}
				bt := make([]string, len(rs))
				for j, r := range rs {
					bt[j] = apRowTok(r)
					rows = append(rows, colsToAny(r))
				}
				parts = append(parts, strings.Join(bt, ";"))
			} else {
				r, err := p.Next(ctx)
				if err != nil {
					return fin(";", err)
				}
				if r == nil {
					return fin(";", nil)
				}
				parts = append(parts, apRowTok(r))
				rows = append(rows, colsToAny(r))
			}
		}
		return "no-termination"
	})
	if strings.HasPrefix(out, "panic: ") {
		out = "panic"
	}
	return out, rows
}

func colsToAny(r []kvql.Column) []any {
	out := make([]any, len(r))
	for i, c := range r {
		out[i] = c
	}
	return out
}

// ---- statements

type apCase struct {
	q      string
	family string
	gs     []orderField // for the oracle: the select list is gs followed by specs
	specs  []aggrSpec
	oracle bool
	raw    bool // store with numeric-looking texts
	store  []KV // the family's own pairs (nil: apStore)
}

var apRawPool = []KV{{"a", "1"}, {"ab", "1.5"}, {"abc", "-0.25"}, {"a1", "2e3"}, {"a12", "007"}, {"b", "+5"}, {"b1", "9223372036854775808"},
	{"ba", "1e400"}, {"k1", "nan"}, {"k12", "inf"}, {"k2", ""}, {"k21", "c"}, {"l", " 1"}, {"m", "-3"}, {"n", "2.5"}, {"o", "10"}, {"p", ".5"}, {"q", "-Infinity"},
	{"r", "1e-400"}, {"s", "12345678901234567890.5"}, {"t", "0.1"}, {"u", "<\"&\\>\x01\n\t\x7f"}}

func apStore(r *Rand, raw bool) []KV {
	if !raw {
		return aggrStore(r)
	}
	pool := append(append([]KV{}, apRawPool...), KV{"v", "3"}, KV{"w", "3.0"}, KV{"x", "-7"}, KV{"y", "-7.0"}, KV{"z", "1e1"})
	for i := len(pool) - 1; i > 0; i-- {
		j := r.Intn(i + 1)
		pool[i], pool[j] = pool[j], pool[i]
	}
	return pool[:r.Intn(len(pool)+1)]
}

// the statement shape of group AGGR (same tables, same choices)
func apGenBase(r *Rand) apCase {
	ng := r.Intn(4)
	var gs []orderField
	used := map[string]bool{}
	for len(gs) < ng {
		g := pick(r, aggrGroupExprs)
		if !used[g.name] {
			used[g.name] = true
			gs = append(gs, g)
		}
	}
	needInt, needFloat := false, false
	na := 1 + r.Intn(3)
	var specs []aggrSpec
	for i := 0; i < na; i++ {
		a := pick(r, aggrArgs)
		kind := pick(r, []string{"count", "sum", "min", "max", "avg", "concat", "arrayagg"})
		if a.typ == "mixed" {
			// raw text that reads as an integer for some pairs and as a float for others: the
			// oracle speaks about sum and avg only (min/max over a mixed group: see the free family)
			kind = pick(r, []string{"sum", "avg", "sum"})
			needFloat = true
		}
		if strings.Contains(a.expr, "(value)") && (strings.HasPrefix(a.expr, "int") || strings.HasPrefix(a.expr, "float")) {
			needInt = true
		}
		sp := aggrSpec{kind: kind, arg: a.expr}
		switch kind {
		case "count":
			sp.call, sp.arg = "count(1)", ""
		case "sum", "min", "max", "avg":
			sp.call = kind + "(" + a.expr + ")"
		case "concat":
			sp.arg = pick(r, []string{"key", "value", a.expr})
			sp.call = "group_concat(" + sp.arg + ", " + quote(pick(r, []string{",", "", "--"})) + ")"
		case "arrayagg":
			sp.arg = pick(r, []string{"key", a.expr, "value"})
			sp.call = "json_arrayagg(" + sp.arg + ")"
		}
		if (kind == "sum" || kind == "count" || kind == "max") && r.Chance(1, 3) {
			sp.post = pick(r, aggrPosts)
		}
		specs = append(specs, sp)
	}
	where := pick(r, []string{"key >= ''", "key ^= 'a' | key ^= 'b' | key ^= 'k'", "value != 'c'"})
	if needInt {
		where = "is_int(value)"
	}
	if needFloat {
		where = "is_float(value)"
	}
	return apCase{q: apSelect(gs, specs, where), family: "base", gs: gs, specs: specs, oracle: true}
}

func apSelect(gs []orderField, specs []aggrSpec, where string) string {
	var sel, grp []string
	for _, g := range gs {
		if g.expr == "key" || g.expr == "value" {
			sel = append(sel, g.expr)
			grp = append(grp, g.expr)
		} else {
			sel = append(sel, g.expr+" as "+g.name)
			grp = append(grp, g.name)
		}
	}
	for i, sp := range specs {
		if sp.post == "" {
			sel = append(sel, sp.call+fmt.Sprintf(" as a%d", i))
		} else {
			sel = append(sel, "("+sp.call+sp.post+")"+fmt.Sprintf(" as a%d", i))
		}
	}
	q := "select " + strings.Join(sel, ", ") + " where " + where
	if len(gs) > 0 {
		q += " group by " + strings.Join(grp, ", ")
	}
	return q
}

// apGenCollide: 2–3 GROUP BY fields over group values of ≥ 10 bytes, values that begin with
// decimal digits and values that contain ':' — DIFFERENT value tuples whose length-prefixed or
// separator-joined concatenations are byte-equal as soon as the group key loses a piece of its
// encoding:  ("0", X+"1"+c) and ("10"+X, c) are both 1·0·10·X·1·c when the ':' after a length
// is dropped (|X| = 8);  ("a:b", "c") / ("a", "b:c") coincide under a bare ':' join;  ("1", "23")
// / ("12", "3") under plain concatenation.  The oracle partitions by the value tuples themselves.
func apGenCollide(r *Rand) apCase {
	alpha := []byte("abcdefgh01:z")
	x := make([]byte, 8)
	for i := range x {
		x[i] = pick(r, alpha)
	}
	X, c := string(x), string([]byte{pick(r, []byte("zq7:"))})
	tuples := [][2]string{
		{"0", X + "1" + c}, {"10" + X, c},
		{"a:b", "c"}, {"a", "b:c"}, {"1", "23"}, {"12", "3"}, {"1:a", "b"}, {"1", ":ab"},
		{"2", "10:" + X}, {"210", ":" + X}, {"10" + X, c + c}, {"0", X + "1"}, {"00", X + "1" + c},
		{"10:" + X, "1:" + c}, {X + X, "0123456789"}, {X + X + "0", "123456789"},
	}
	// the colliding pair always, the others at random; shuffled
	kvs := []KV{{tuples[0][0], tuples[0][1]}, {tuples[1][0], tuples[1][1]}}
	for _, t := range tuples[2:] {
		if r.Chance(1, 2) {
			kvs = append(kvs, KV{t[0], t[1]})
		}
	}
	for i := len(kvs) - 1; i > 0; i-- {
		j := r.Intn(i + 1)
		kvs[i], kvs[j] = kvs[j], kvs[i]
	}
	key, val := orderField{"key", "KEY", "str"}, orderField{"value", "VALUE", "str"}
	empty := orderField{"substr(value, 0, 0)", "e", "str"}
	var gs []orderField
	switch r.Intn(6) {
	case 0, 1:
		gs = []orderField{key, val}
	case 2:
		gs = []orderField{val, key}
	case 3:
		gs = []orderField{empty, key, val}
	case 4:
		gs = []orderField{key, val, empty}
	default:
		gs = []orderField{key, val, {"strlen(key) > 0", "b", "bool"}}
	}
	specs := []aggrSpec{{call: "count(1)", kind: "count"}}
	if r.Bool() {
		specs = append(specs, aggrSpec{call: "group_concat(key, ',')", arg: "key", kind: "concat"})
	}
	if r.Chance(1, 3) {
		specs = append(specs, aggrSpec{call: "sum(strlen(value))", arg: "strlen(value)", kind: "sum"})
	}
	return apCase{q: apSelect(gs, specs, pick(r, []string{"true", "key >= ''", "value != ''"})), family: "collide", gs: gs, specs: specs, oracle: true, store: kvs}
}

// apManyGroups (thorough tier): more than 256 groups in one statement — ~300 distinct group values
// over ~700 pairs, one and two GROUP BY fields
func apManyGroups(r *Rand) []apCase {
	var kvs []KV
	nv := 290 + r.Intn(40)
	for i := 0; i < 700; i++ {
		kvs = append(kvs, KV{fmt.Sprintf("k%04d", i), fmt.Sprintf("g%03d", r.Intn(nv))})
	}
	val, k1 := orderField{"value", "VALUE", "str"}, orderField{"substr(key, 0, 4)", "k4", "str"}
	specs := []aggrSpec{{call: "count(1)", kind: "count"}, {call: "sum(strlen(key))", arg: "strlen(key)", kind: "sum"}}
	return []apCase{
		{q: apSelect([]orderField{val}, specs, "true"), family: "many-groups", gs: []orderField{val}, specs: specs, oracle: true, store: kvs},
		{q: apSelect([]orderField{k1, val}, specs[:1], "key >= 'k0100'"), family: "many-groups", gs: []orderField{k1, val}, specs: specs[:1], oracle: true, store: kvs},
	}
}

// aggregate arguments and key fields that go through an alias of the select list
func apGenRefs(r *Rand) apCase {
	aliased := []orderField{{"substr(key, 0, 1)", "k1", "str"}, {"substr(value, 0, 1)", "v1", "str"}, {"upper(value)", "uv", "str"}, {"strlen(value)", "lv", "num"}, {"key", "k", "str"}}
	ng := 1 + r.Intn(2)
	var gs []orderField
	used := map[string]bool{}
	for len(gs) < ng {
		g := pick(r, aliased)
		if !used[g.name] {
			used[g.name] = true
			gs = append(gs, g)
		}
	}
	switch r.Intn(6) {
	case 0, 1:
		// a key field computed from another alias
		gs = append(gs, orderField{"upper(" + gs[0].name + ")", "ug", "str"})
		if gs[0].typ == "num" {
			gs[len(gs)-1] = orderField{gs[0].name + " * 2", "ug", "num"}
		}
	case 2, 3:
		// … through the user-registered function that has no vector form (userfunc.go): the batch
		// evaluator computes the GROUP BY values of a chunk, so the function sees every pair of it
		gs = append(gs, orderField{"vmark(" + gs[0].name + ")", "ug", "str"})
		if gs[0].typ == "num" {
			gs[len(gs)-1] = orderField{"vmark(str(" + gs[0].name + "))", "ug", "str"}
		}
	}
	var specs []aggrSpec
	for i, n := 0, 1+r.Intn(2); i < n; i++ {
		g := pick(r, gs)
		var arg string
		if g.typ == "num" {
			arg = pick(r, []string{g.name, g.name + " + strlen(key)"})
		} else {
			arg = pick(r, []string{"strlen(" + g.name + ")", "strlen(" + g.name + ") + strlen(value)"})
		}
		kind := pick(r, []string{"sum", "min", "max", "avg", "concat", "arrayagg"})
		sp := aggrSpec{kind: kind, arg: arg}
		switch kind {
		case "sum", "min", "max", "avg":
			sp.call = kind + "(" + arg + ")"
		case "concat":
			sp.arg = pick(r, []string{g.name, arg})
			sp.call = "group_concat(" + sp.arg + ", " + quote(pick(r, []string{",", ""})) + ")"
		case "arrayagg":
			sp.arg = pick(r, []string{g.name, arg})
			sp.call = "json_arrayagg(" + sp.arg + ")"
		}
		specs = append(specs, sp)
	}
	var sel, grp []string
	for _, g := range gs {
		sel = append(sel, g.expr+" as "+g.name)
		grp = append(grp, g.name)
	}
	for i, sp := range specs {
		sel = append(sel, sp.call+fmt.Sprintf(" as a%d", i))
	}
	// the filter may use an alias too (in batch mode it leaves its chunk results in the field cache)
	wheres := []string{"true", "value != 'c'"}
	if gs[0].typ == "num" {
		wheres = append(wheres, gs[0].name+" > 1", gs[0].name+" != 2")
	} else {
		wheres = append(wheres, gs[0].name+" != 'b'", gs[0].name+" != 'ab' & "+gs[0].name+" != '1'")
	}
	q := "select " + strings.Join(sel, ", ") + " where " + pick(r, wheres) + " group by " + strings.Join(grp, ", ")
	return apCase{q: q, family: "refs", gs: gs, specs: specs, oracle: true}
}

// everything the oracle does not speak about: raw text arguments (mixed int / float / not a
// number), evaluation errors, arithmetic between several aggregates, key fields that are not
// grouped by
func apGenFree(r *Rand) apCase {
	args := []string{"value", "key", "strlen(value)", "float(value)", "10 / strlen(value)", "strlen(value) * 0.5", "int(value)"}
	groups := []string{"", "", " group by key", " group by value", " group by k1", " group by k1, value", " group by d", " group by iv"}
	grp := pick(r, groups)
	var sel []string
	switch {
	case strings.Contains(grp, "k1"):
		sel = append(sel, "substr(key, 0, 1) as k1")
		if strings.Contains(grp, "value") {
			sel = append(sel, "value")
		}
	case strings.HasSuffix(grp, " d"):
		sel = append(sel, "10 / strlen(value) as d")
	case strings.HasSuffix(grp, " iv"):
		sel = append(sel, "is_int(value) as iv")
	case strings.HasSuffix(grp, " key"):
		sel = append(sel, pick(r, []string{"key", "value", "upper(key) as uk"}))
	case strings.HasSuffix(grp, " value"):
		sel = append(sel, pick(r, []string{"value", "key", "strlen(value) as lv"}))
	}
	numCall := func() string {
		a := pick(r, args)
		switch r.Intn(6) {
		case 0:
			return "count(" + pick(r, []string{"1", a}) + ")"
		case 1:
			return "sum(" + a + ")"
		case 2:
			return "min(" + a + ")"
		case 3:
			return "max(" + a + ")"
		case 4:
			return "avg(" + a + ")"
		}
		return "count(1)"
	}
	strCall := func() string {
		a := pick(r, args)
		if r.Bool() {
			return "group_concat(" + a + ", " + quote(pick(r, []string{",", "", "\"", "<"})) + ")"
		}
		return "json_arrayagg(" + a + ")"
	}
	for i, n := 0, 1+r.Intn(3); i < n; i++ {
		var f string
		switch r.Intn(9) {
		case 0, 1:
			f = numCall()
		case 2:
			f = strCall()
		case 3:
			f = numCall() + pick(r, []string{" + ", " - ", " * ", " / "}) + numCall()
		case 4:
			f = numCall() + pick(r, []string{" + 1", " * 2", " / 2", " - 0.5", " * 1.5", " / 0.5"})
		case 5:
			f = numCall() + " / (count(1) - " + pick(r, []string{"1", "2"}) + ")"
		case 6:
			f = pick(r, []string{"2 * ", "1.5 + ", "100 / "}) + numCall()
		case 7:
			f = strCall() + pick(r, []string{" + 'x'", " + " + strCall(), " + '' + 'y'"})
		case 8:
			f = numCall() + " * (" + numCall() + " - " + numCall() + ") + 1"
		}
		sel = append(sel, fmt.Sprintf("(%s) as a%d", f, i))
	}
	// the engine wants the grouped fields in front; shuffle only the aggregates' place sometimes
	if len(sel) > 1 && grp != "" && r.Chance(1, 4) {
		sel[0], sel[len(sel)-1] = sel[len(sel)-1], sel[0]
	}
	where := pick(r, []string{"true", "key >= 'a'", "value != ''", "is_int(value)"})
	return apCase{q: "select " + strings.Join(sel, ", ") + " where " + where + grp, family: "free", raw: r.Bool()}
}

// ---- one case

func apChunkToks(stmt *kvql.SelectStmt, fields []apField, chunks [][]KV) (toks []string, gvals [][]any, fvals [][][]any, clean bool) {
	clean = true
	for _, c := range chunks {
		pt := make([]string, len(c))
		for i, p := range c {
			var g []any
			var f [][]any
			pt[i], g, f = apPairTable(stmt, fields, p)
			if strings.Contains(pt[i], "!") || strings.Contains(pt[i], "o") {
				clean = false
			}
			gvals = append(gvals, g)
			fvals = append(fvals, f)
		}
		toks = append(toks, strings.Join(pt, "|"))
	}
	return
}

// the independent fold: partition by group values in order of first occurrence, every aggregate
// from its definition (aggrExpect of aggr.go)
func apOracle(c apCase, gvals [][]any, fvals [][][]any) []string {
	type group struct {
		gvals []any
		rows  [][]any
	}
	var groups []*group
	index := map[string]*group{}
	ng := len(c.gs)
	for p := range gvals {
		row := append([]any{}, gvals[p]...)
		// with a GROUP BY the first ng fields are the grouped fields (key fields), then one call per field
		for i := ng; i < len(fvals[p]); i++ {
			row = append(row, fvals[p][i][0])
		}
		parts := make([]string, ng)
		for i := 0; i < ng; i++ {
			parts[i] = contentValue(row[i])
		}
		k := strings.Join(parts, "\x00|\x00")
		g, ok := index[k]
		if !ok {
			g = &group{gvals: row[:ng]}
			index[k] = g
			groups = append(groups, g)
		}
		g.rows = append(g.rows, row)
	}
	var want []string
	for _, g := range groups {
		var cols []string
		for i := 0; i < ng; i++ {
			cols = append(cols, "x:"+hxs(toStr(g.gvals[i])))
		}
		for i, sp := range c.specs {
			cols = append(cols, aggrExpect(sp, g.rows, ng+i))
		}
		want = append(want, strings.Join(cols, " "))
	}
	return want
}

func apRowsContent(rows [][]any) []string {
	out := make([]string, len(rows))
	for i, r := range rows {
		c := make([]string, len(r))
		for j, v := range r {
			c[j] = contentValue(v)
		}
		out[i] = strings.Join(c, " ")
	}
	return out
}

type apRun struct {
	via    string // "optimizer" or "stub"
	kvs    []KV
	chunks [][]KV // stub: the prescribed chunking
}

func apOne(col *Collector, d *Driver, c apCase, run apRun, bs int, seed, idx uint64) error {
	for _, mode := range []string{"next", "batch"} {
		batch := mode == "batch"
		// build the engine's plan (fresh for every run: the plan writes into its AST)
		build := func() (*kvql.AggregatePlan, *recPlan, string) {
			if run.via == "optimizer" {
				plan, err := kvql.NewOptimizer(c.q).BuildPlan(NewRefStore(run.kvs))
				if err != nil {
					return nil, nil, "plan:" + errClass(err)
				}
				ap, ok := plan.(*kvql.AggregatePlan)
				if !ok || ap.Limit >= 0 {
					return nil, nil, "not-aggregate"
				}
				rec := &recPlan{inner: ap.ChildPlan}
				ap.ChildPlan = rec
				return ap, rec, ""
			}
			st, err := kvql.NewParser(c.q).Parse()
			if err != nil {
				return nil, nil, "plan:" + errClass(err)
			}
			stmt := st.(*kvql.SelectStmt)
			var flat []KV
			for _, ch := range run.chunks {
				flat = append(flat, ch...)
			}
			ap := &kvql.AggregatePlan{ChildPlan: &kvStub{chunks: append([][]KV{}, run.chunks...), flat: flat}, FieldNames: stmt.FieldNames,
				FieldTypes: stmt.FieldTypes, Fields: stmt.Fields, AggrAll: stmt.GroupBy == nil, Limit: -1}
			if stmt.GroupBy != nil {
				ap.GroupByFields = stmt.GroupBy.Fields
			}
			if err := ap.Init(); err != nil {
				return nil, nil, "init:" + errClass(err)
			}
			return ap, nil, ""
		}
		ap, _, why := build()
		if ap == nil {
			col.Hist("skip-" + strings.SplitN(why, "@", 2)[0])
			return nil
		}
		// runEngine drains a fresh plan and says what arrived at the AggregatePlan
		runEngine := func(cache bool) (string, [][]any, [][]KV) {
			ap, rec, _ := build()
			eng, rows := apDrain(ap, batch, cache)
			chunks := run.chunks
			if rec != nil {
				chunks = rec.chunks
			} else if !batch {
				// row mode over the stub: the pairs one by one
				chunks = nil
				for _, ch := range run.chunks {
					for _, p := range ch {
						chunks = append(chunks, []KV{p})
					}
				}
			}
			return eng, rows, chunks
		}
		eng, rows, chunks := runEngine(true)
		cacheOff := false
		if eng == "panic" {
			// reported below, once the protocol line is known; go on with the field cache switched off
			eng, rows, chunks = runEngine(false)
			cacheOff = true
		}
		// describe statement and pairs to the model, from a fresh parse
		st, err := kvql.NewParser(c.q).Parse()
		if err != nil {
			return fmt.Errorf("statement %q planned but does not parse: %v", c.q, err)
		}
		stmt := st.(*kvql.SelectStmt)
		plan, fields, ok := apAnalyse(stmt)
		if !ok {
			col.Hist("skip-outside-fragment")
			return nil
		}
		toks, gvals, fvals, clean := apChunkToks(stmt, fields, chunks)
		line := fmt.Sprintf("AGGRPLAN %s %d %s", mode, bs, plan)
		if len(toks) > 0 {
			line += " " + strings.Join(toks, " ")
		}
		model, err := d.Ask(line)
		if err != nil {
			return err
		}
		col.Eval(1)
		col.Hist("family-" + c.family + "-" + run.via)
		if strings.Contains(eng, " ! ") {
			col.Hist("engine-error")
		}
		cs := fmt.Sprintf("%s  [%s child, pairs %v, batch size %d, mode %s]", c.q, run.via, chunks, bs, mode)
		if len(rows) >= 2 {
			col.Nontrivial(c.q + fmt.Sprint(chunks) + mode)
		}
		if cacheOff {
			col.Find(Finding{Kind: "crash", Group: "AGGRPLAN", Check: "aggregate-panics", Case: cs, Line: line, Engine: "panic (with the field cache off: " + eng + ")", Model: model, Seed: seed, Index: idx,
				Properties: []string{"C09", "C06"}})
		}
		if eng != model {
			// does the engine agree once its field cache is off?  Then the engine evaluated a
			// pair with what it had cached for an earlier one: a defect of the engine (C09/C05),
			// not a difference between AggregatePlan and its model
			kind, check := "correspondence", "AggregatePlan-vs-model"
			var props []string
			if !cacheOff {
				if eng2, _, chunks2 := runEngine(false); eng2 == model && fmt.Sprint(chunks2) == fmt.Sprint(chunks) {
					kind, check, props = "property", "stale-field-cache", []string{"C09", "C05"}
				}
			}
			col.Find(Finding{Kind: kind, Group: "AGGRPLAN", Check: check, Case: cs, Line: line, Engine: eng, Model: model, Seed: seed, Index: idx, Properties: props})
		}
		if c.oracle && clean && !strings.Contains(eng, " ! ") {
			want := apOracle(c, gvals, fvals)
			have := apRowsContent(rows)
			if strings.Join(have, " ; ") != strings.Join(want, " ; ") {
				col.Find(Finding{Kind: "property", Group: "AGGRPLAN", Check: "aggregate-result", Case: cs, Line: line, Engine: strings.Join(have, " ; "),
					Model: strings.Join(want, " ; "), Seed: seed, Index: idx, Properties: []string{"C09"}})
			}
		} else if c.oracle && clean {
			col.Find(Finding{Kind: "property", Group: "AGGRPLAN", Check: "aggregate-statement-fails", Case: cs, Line: line, Engine: eng, Model: "ok", Seed: seed, Index: idx,
				Properties: []string{"C09"}})
		}
	}
	return nil
}

// ---- number formatting and parsing on their own

func apFloatCases(r *Rand) float64 {
	switch r.Intn(8) {
	case 0:
		return math.Float64frombits(r.Next())
	case 1:
		return float64(int64(r.Next()%2000)-1000) / float64(pick(r, []int{1, 2, 4, 8, 10, 100, 1000, 3, 7}))
	case 2:
		return math.Float64frombits(r.Next() % (1 << 53)) // subnormal and small
	case 3:
		return pick(r, []float64{0, math.Copysign(0, -1), math.Inf(1), math.Inf(-1), math.NaN(), 1e21, 1e-6, 9.999999999999999e20, 1e-7, 5e-324, math.MaxFloat64,
			0.5, 0.0000005, 0.0000015, 2.5e-7, 1e15, 1e16, 123456789012345680, 9223372036854775807, 9223372036854775808, -9223372036854775808, -9223372036854777856})
	case 4:
		f, _ := strconv.ParseFloat(fmt.Sprintf("%de%d", r.Intn(100000), r.Intn(60)-30), 64)
		return f
	case 5:
		return float64(int64(r.Next())) // around the int64 range
	case 6:
		return math.Float64frombits(0x3EB0C6F7A0B5ED8D + uint64(r.Intn(5)) - 2)
	}
	return math.Float64frombits(0x444B1AE4D6E2EF50 + uint64(r.Intn(5)) - 2)
}

func apNumText(r *Rand) string {
	digits := func(n int) string {
		b := make([]byte, n)
		for i := range b {
			b[i] = byte('0' + r.Intn(10))
		}
		return string(b)
	}
	switch r.Intn(7) {
	case 0:
		return pick(r, []string{"", "+", "-"}) + digits(1+r.Intn(20))
	case 1:
		return pick(r, []string{"", "+", "-"}) + digits(r.Intn(4)) + "." + digits(r.Intn(8))
	case 2:
		return pick(r, []string{"", "-"}) + digits(1+r.Intn(5)) + pick(r, []string{"e", "E"}) + pick(r, []string{"", "+", "-"}) + digits(1+r.Intn(3))
	case 3:
		return pick(r, []string{"", "-"}) + digits(r.Intn(3)) + "." + digits(1+r.Intn(25)) + "e" + pick(r, []string{"", "-"}) + digits(1+r.Intn(3))
	case 4:
		return pick(r, []string{"inf", "-Inf", "+INF", "Infinity", "nan", "NaN", "-nan", "infinit", "1e", "e1", ".", "-", "1.2.3", "1 ", " 1", "1_0", "0x10", "9223372036854775807",
			"9223372036854775808", "-9223372036854775808", "-9223372036854775809", "1e308", "1.8e308", "1.7976931348623157e308", "1.7976931348623159e308", "4.9e-324", "2.4e-324", "2.5e-324", "1e-400",
			"2.2250738585072011e-308", "0.000", "-0", "-0.0", "1e23", "8.41e21", "9007199254740993", "4.35", "0.1"})
	case 5:
		return digits(17+r.Intn(30)) + "." + digits(r.Intn(30))
	}
	return digits(1+r.Intn(3)) + pick(r, []string{"a", " ", "-", "e", "..", "x1"}) + digits(r.Intn(3))
}

func apNumGo(s string) string {
	// aggr_func.go convertToNumber on a string
	if i, err := strconv.ParseInt(s, 10, 64); err == nil {
		return fmt.Sprintf("%d %s 0", i, canonFloat(float64(i)))
	}
	if f, err := strconv.ParseFloat(s, 64); err == nil {
		if f != f {
			return fmt.Sprintf("%d 7ff8000000000000 1", int64(f))
		}
		return fmt.Sprintf("%d %s 1", int64(f), canonFloat(f))
	}
	return fmt.Sprintf("0 %s 0", canonFloat(0))
}

func runAGGRPLAN(e *Env) (*Summary, error) {
	start := time.Now()
	n := e.n(4000, 120000)
	nf := e.n(20000, 600000)
	rule := fmt.Sprintf("%d aggregate statements (one half of the shape of group AGGR: 0–3 grouping expressions whose concatenated values collide, 1–3 aggregates over int- or float-valued arguments; one quarter with aggregate arguments and key fields that go through select-list aliases; one quarter free form: raw text arguments mixing integers, floats and non-numbers, arguments and group expressions that fail on some pairs, arithmetic between several aggregates incl. division by zero, string concatenation, key fields that are not grouped by), each run on the real kvql.AggregatePlan four times: planned by the optimizer over a reference store (child wrapped by a recorder) and built by hand over a stub child handing out pairs in arbitrary order with duplicates in random chunkings (chunk sizes 1..2bs+1), each in row and batch mode, batch sizes {1,2,3,5}; the model gets the per-pair evaluation tables computed with the real evaluator and must return the same rows, batches and error; the oracle (independent fold aggrExpect) judges the first two families; a directed corpus (every sequence of up to 3 values from {1, 1.0, 1.5, 2, 2.0, -1, x, empty} followed by its reverse, ungrouped and in two interleaved groups, through min/max/sum/avg/count/group_concat/json_arrayagg); plus %d float64 values (%%f, JSON number, int64 conversion) and %d texts (convertToNumber) compared with the Go standard library; non-trivial when at least two rows come out; distinct by (statement, pairs, mode)", n, nf, nf/2)
	col := NewCollector("AGGRPLAN", e.Tier, e.Seed, rule)
	// phase 0: formatting and parsing
	err := e.parallel(func(w int, d *Driver) error {
		for ix := uint64(w); ix < uint64(nf); ix += uint64(e.Workers) {
			r := NewRand(e.Seed, "AGGRFMT", ix)
			f := apFloatCases(r)
			line := "AGGRFMT " + canonFloat(f)
			js := "!"
			if b, err := json.Marshal(f); err == nil {
				js = hx(b)
			}
			eng := hxs(fmt.Sprintf("%f", f)) + " " + js + " " + fmt.Sprintf("%d", int64(f))
			model, err := d.Ask(line)
			if err != nil {
				return err
			}
			col.Eval(1)
			if eng != model {
				col.Find(Finding{Kind: "correspondence", Group: "AGGRPLAN", Check: "float-formatting", Case: fmt.Sprintf("float64 bits %s (%v)", canonFloat(f), f), Line: line, Engine: eng, Model: model, Seed: e.Seed, Index: ix})
			}
			if ix%2 == 0 {
				s := apNumText(r)
				line := "AGGRNUM " + hxs(s)
				eng := apNumGo(s)
				model, err := d.Ask(line)
				if err != nil {
					return err
				}
				col.Eval(1)
				if eng != model {
					col.Find(Finding{Kind: "correspondence", Group: "AGGRPLAN", Check: "convertToNumber-text", Case: fmt.Sprintf("text %q", s), Line: line, Engine: eng, Model: model, Seed: e.Seed, Index: ix})
				}
			}
		}
		return nil
	})
	if err != nil {
		return nil, err
	}
	saved := kvql.PlanBatchSize
	defer func() { kvql.PlanBatchSize = saved }()
	// phase 1: directed — every sequence of up to 3 values from an alphabet mixing equal and
	// different integers, floats and non-numbers, through min/max/sum/avg/count/concat/arrayagg,
	// ungrouped and in two interleaved groups
	alpha := []string{"1", "1.0", "1.5", "2", "-1", "x", "", "2.0"}
	var seqs [][]string
	for l, lim := 0, 3; l <= lim; l++ {
		idx := make([]int, l)
		for {
			sq := make([]string, l)
			for i, j := range idx {
				sq[i] = alpha[j]
			}
			seqs = append(seqs, sq)
			i := l - 1
			for i >= 0 {
				idx[i]++
				if idx[i] < len(alpha) {
					break
				}
				idx[i] = 0
				i--
			}
			if i < 0 {
				break
			}
		}
	}
	directed := []string{
		"select min(value) as a0, max(value) as a1, sum(value) as a2, avg(value) as a3 where true",
		"select substr(key, 0, 1) as k1, min(value) as a0, max(value) as a1, count(value) as a2, group_concat(value, ',') as a3, json_arrayagg(value) as a4 where true group by k1",
	}
	kvql.PlanBatchSize = 2
	err = e.parallel(func(w int, d *Driver) error {
		for i := w; i < len(seqs); i += e.Workers {
			for qi, q := range directed {
				var one, two []KV
				for j, v := range seqs[i] {
					one = append(one, KV{fmt.Sprintf("%c%d", 'a'+byte(j%2), j), v})
				}
				for j := len(seqs[i]) - 1; j >= 0; j-- { // the same values again in reverse, other keys
					two = append(two, KV{fmt.Sprintf("%c%d", 'b'-byte(j%2), j+5), seqs[i][j]})
				}
				var chunks [][]KV
				if len(one) > 0 {
					chunks = [][]KV{one, two}
				}
				if err := apOne(col, d, apCase{q: q, family: "directed"}, apRun{via: "stub", chunks: chunks}, 2, e.Seed, uint64(i*2+qi)); err != nil {
					return err
				}
			}
		}
		return nil
	})
	if err != nil {
		return nil, err
	}
	for _, bs := range []int{1, 2, 3, 5} {
		kvql.PlanBatchSize = bs
		err := e.parallel(func(w int, d *Driver) error {
			for ix := uint64(w); ix < uint64(n/4); ix += uint64(e.Workers) {
				r := NewRand(e.Seed, "AGGRPLAN", ix*8+uint64(bs))
				var c apCase
				switch ix % 4 {
				case 0, 1:
					c = apGenBase(r)
				case 2:
					c = apGenRefs(r)
				default:
					c = apGenFree(r)
				}
				if ix%16 == 9 {
					c = apGenCollide(r)
				}
				kvs := apStore(r, c.raw)
				if c.store != nil {
					kvs = c.store
				}
				if err := apOne(col, d, c, apRun{via: "optimizer", kvs: kvs}, bs, e.Seed, ix); err != nil {
					return err
				}
				// the stub child: pairs in any order, with duplicates, in any chunking
				pool := apStore(r, c.raw)
				if c.store != nil {
					pool = c.store
				}
				var chunks [][]KV
				if len(pool) > 0 {
					for tot, want := 0, r.Intn(15); tot < want; {
						sz := 1 + r.Intn(2*bs+1)
						ch := make([]KV, sz)
						for i := range ch {
							ch[i] = pick(r, pool)
						}
						chunks = append(chunks, ch)
						tot += sz
					}
				}
				if err := apOne(col, d, c, apRun{via: "stub", chunks: chunks}, bs, e.Seed, ix); err != nil {
					return err
				}
				if ix%397 == 3 {
					col.Sample(c.q)
				}
			}
			return nil
		})
		if err != nil {
			return nil, err
		}
	}
	if e.Tier == "thorough" {
		// more than 256 groups, at the default batch size
		kvql.PlanBatchSize = 32
		d, err := StartDriver(e.DriverPath)
		if err != nil {
			return nil, err
		}
		defer d.Close()
		for i, c := range apManyGroups(NewRand(e.Seed, "AGGRPLAN-many", 0)) {
			if err := apOne(col, d, c, apRun{via: "optimizer", kvs: c.store}, 32, e.Seed, uint64(900_000_000+i)); err != nil {
				return nil, err
			}
		}
	}
	return col.Finish(start), nil
}

func init() { groups["AGGRPLAN"] = runAGGRPLAN }
