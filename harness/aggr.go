package main

import (
	"encoding/json"
	"fmt"
	"strconv"
	"strings"
	"time"

	"github.com/c4pt0r/kvql"
)

// Group AGGR (property C09): engine-only oracle.  The non-aggregated statement
// `select <group exprs>, <aggregate arguments> where P` gives, per pair, the values being grouped
// and aggregated (expression evaluation itself is C10/C01's business); partitioning, order of
// groups and every aggregate are then recomputed here from their definitions and compared with
// the aggregated statement, in both modes.

type aggrSpec struct {
	call string // as written in the select list, using %s for the argument
	arg  string // argument expression ("" for count(1))
	kind string // count sum min max avg concat arrayagg
	post string // arithmetic around it: "", "+1", "*2"
}

var aggrGroupExprs = []orderField{
	{"key", "KEY", "str"}, {"value", "VALUE", "str"},
	{"substr(key, 0, 1)", "k1", "str"}, {"substr(value, 0, 1)", "v1", "str"},
	{"upper(value)", "uv", "str"}, {"strlen(value)", "lv", "num"}, {"is_int(value)", "iv", "bool"},
}

// arithmetic written around an aggregate call (two constants in a row: an engine that regroups
// `(x op c1) op c2` as `x op (c1 op c2)` changes float results)
var aggrPosts = []string{" + 1", " * 2", " * 3 * 7", " + 1 + 2", " * 3 * 3", " + 9007199254740992 + 1"}

var aggrArgs = []struct{ expr, typ string }{
	{"strlen(value)", "int"}, {"strlen(key) * 2", "int"}, {"int(value)", "int"}, {"float(value)", "float"}, {"strlen(value) * 0.5", "float"},
	// text that reads as an integer for some pairs and as a float for others (sum/avg/count only:
	// the property speaks of integer- or float-valued arguments; min/max over a MIXED group is left out)
	{"value", "mixed"},
}

func aggrStore(r *Rand) []KV {
	pool := []KV{{"a", "bc"}, {"ab", "c"}, {"abc", ""}, {"a1", "2"}, {"a12", "2"}, {"b", "12"}, {"b1", "2"}, {"ba", "12"}, {"k1", "1"}, {"k12", "21"}, {"k2", "1"}, {"k21", "c"}, {"l", "7"}, {"m", "-3"}, {"p1", "0.5"}, {"p2", "1.5"}, {"p3", "-0.25"},
		// floats that are not dyadic: every arithmetic step rounds, so the ORDER of the steps shows
		{"q1", "0.1"}, {"q2", "1.2"}, {"q3", "0.7"},
		// the empty key is a key like any other (it sorts first in every scan)
		{"", "5"},
		// values of 10 and more bytes, digit-leading keys, ':' inside: the group key must stay injective
		{"0", "abcdefgh1z"}, {"10abcdefgh", "z"}, {"1", "0:a"}, {"11:0", "a"}, {"3:abc", "2"}, {"3", "abc2"}}
	n := r.Intn(len(pool) + 1)
	perm := make([]int, len(pool))
	for i := range perm {
		perm[i] = i
	}
	for i := len(perm) - 1; i > 0; i-- {
		j := r.Intn(i + 1)
		perm[i], perm[j] = perm[j], perm[i]
	}
	var kvs []KV
	for i := 0; i < n; i++ {
		kvs = append(kvs, pool[perm[i]])
	}
	return kvs
}

func toStr(v any) string {
	switch x := v.(type) {
	case []byte:
		return string(x)
	case string:
		return x
	case int64:
		return fmt.Sprintf("%d", x)
	case int:
		return fmt.Sprintf("%d", x)
	case float64:
		return fmt.Sprintf("%f", x)
	case bool:
		if x {
			return "true"
		}
		return "false"
	}
	return fmt.Sprint(v)
}

func runAGGR(e *Env) (*Summary, error) {
	start := time.Now()
	n := e.n(4000, 150000)
	rule := fmt.Sprintf("%d random aggregate statements: 0–3 grouping expressions (key, value, aliased functions of them, chosen so that concatenated group values collide: ('a','bc') vs ('ab','c'), ('1','12') vs ('11','2')), 1–3 aggregates from count/sum/min/max/avg/group_concat/json_arrayagg over integer- or float-valued arguments with optional arithmetic around them, over shuffled stores of 0–14 pairs, in row and batch mode at batch sizes {1,2,3,5}; non-trivial when at least two groups exist; distinct by (statement, store)", n)
	col := NewCollector("AGGR", e.Tier, e.Seed, rule)
	saved := kvql.PlanBatchSize
	defer func() { kvql.PlanBatchSize = saved }()
	for _, bs := range []int{1, 2, 3, 5} {
		kvql.PlanBatchSize = bs
		err := e.parallel(func(w int, d *Driver) error {
			for ix := uint64(w); ix < uint64(n/4); ix += uint64(e.Workers) {
				r := NewRand(e.Seed, "AGGR", ix*8+uint64(bs))
				ng := r.Intn(4)
				var gs []orderField
				used := map[string]bool{}
				for len(gs) < ng {
					g := pick(r, aggrGroupExprs)
					if !used[g.name] {
						used[g.name] = true
						gs = append(gs, g)
					}
				}
				needInt := false
				needFloat := false
				na := 1 + r.Intn(3)
				var specs []aggrSpec
				for i := 0; i < na; i++ {
					a := pick(r, aggrArgs)
					kind := pick(r, []string{"count", "sum", "min", "max", "avg", "concat", "arrayagg"})
					if a.typ == "mixed" {
						kind = pick(r, []string{"sum", "avg", "sum"})
						needFloat = true
					}
					if strings.Contains(a.expr, "(value)") && (strings.HasPrefix(a.expr, "int") || strings.HasPrefix(a.expr, "float")) {
						needInt = true
					}
					sp := aggrSpec{kind: kind, arg: a.expr}
					switch kind {
					case "count":
						sp.call, sp.arg = "count(1)", ""
					case "sum", "min", "max", "avg":
						sp.call = kind + "(" + a.expr + ")"
					case "concat":
						sp.arg = pick(r, []string{"key", "value", a.expr})
						sp.call = "group_concat(" + sp.arg + ", " + quote(pick(r, []string{",", "", "--"})) + ")"
					case "arrayagg":
						sp.arg = pick(r, []string{"key", a.expr, "value"})
						sp.call = "json_arrayagg(" + sp.arg + ")"
					}
					if (kind == "sum" || kind == "count" || kind == "max") && r.Chance(1, 3) {
						sp.post = pick(r, aggrPosts)
					}
					specs = append(specs, sp)
				}
				where := pick(r, []string{"key >= ''", "key ^= 'a' | key ^= 'b' | key ^= 'k'", "value != 'c'"})
				if needFloat {
					where = "is_float(value)"
				}
				if needInt {
					where = "is_int(value)"
				}
				// the aggregated statement
				var sel, grp, baseSel []string
				for _, g := range gs {
					if g.expr == "key" || g.expr == "value" {
						sel = append(sel, g.expr)
						grp = append(grp, g.expr)
					} else {
						sel = append(sel, g.expr+" as "+g.name)
						grp = append(grp, g.name)
					}
					baseSel = append(baseSel, g.expr)
				}
				for i, sp := range specs {
					sel = append(sel, "("+sp.call+sp.post+")"+fmt.Sprintf(" as a%d", i))
					if sp.arg != "" {
						baseSel = append(baseSel, sp.arg)
					} else {
						baseSel = append(baseSel, "key")
					}
				}
				for i := range specs {
					if specs[i].post == "" {
						sel[len(gs)+i] = specs[i].call + fmt.Sprintf(" as a%d", i)
					}
				}
				q := "select " + strings.Join(sel, ", ") + " where " + where
				if len(gs) > 0 {
					q += " group by " + strings.Join(grp, ", ")
				}
				base := "select " + strings.Join(baseSel, ", ") + " where " + where
				kvs := aggrStore(r)
				for _, batch := range []bool{false, true} {
					b := runStatement(base, NewRefStore(kvs), batch, true)
					a := runStatement(q, NewRefStore(kvs), batch, true)
					col.Eval(1)
					if b.Outcome() != "ok" {
						col.Hist("base-" + b.Outcome())
						continue
					}
					cs := fmt.Sprintf("%s  [store %v, batch size %d, batch=%v]", q, kvs, bs, batch)
					mk := func(check, eng, want string) {
						col.Find(Finding{Kind: "property", Group: "AGGR", Check: check, Case: cs, Line: "AGGR " + hxs(q), Engine: eng, Model: want, Seed: e.Seed, Index: ix, Properties: []string{"C09"}})
					}
					if a.Outcome() != "ok" {
						mk("aggregate-statement-fails", a.Outcome(), "ok")
						continue
					}
					// expected: partition by group tuple in first-occurrence order
					type group struct {
						gvals []any
						rows  [][]any
					}
					var groups []*group
					index := map[string]*group{}
					for _, row := range b.Rows {
						parts := make([]string, len(gs))
						for i := range gs {
							parts[i] = contentValue(row[i])
						}
						k := strings.Join(parts, "\x00|\x00")
						g, ok := index[k]
						if !ok {
							g = &group{gvals: row[:len(gs)]}
							index[k] = g
							groups = append(groups, g)
						}
						g.rows = append(g.rows, row)
					}
					if len(groups) >= 2 {
						col.Nontrivial(q + fmt.Sprint(kvs))
					}
					var want []string
					for _, g := range groups {
						var cols []string
						for i := range gs {
							// group columns are shown as text (the engine converts them with convertToBytes)
							cols = append(cols, "x:"+hxs(toStr(g.gvals[i])))
						}
						for i, sp := range specs {
							cols = append(cols, aggrExpect(sp, g.rows, len(gs)+i))
						}
						want = append(want, strings.Join(cols, " "))
					}
					have := rowsList(a)
					if strings.Join(have, " ; ") != strings.Join(want, " ; ") {
						mk("aggregate-result", strings.Join(have, " ; "), strings.Join(want, " ; "))
					}
				}
				if ix%499 == 3 {
					col.Sample(q)
				}
			}
			return nil
		})
		if err != nil {
			return nil, err
		}
	}
	return col.Finish(start), nil
}

// aggrExpect computes one aggregate from its definition over the group's rows (argument in column c)
func aggrExpect(sp aggrSpec, rows [][]any, c int) string {
	isFloat := false
	var isum int64
	var fsum float64
	var imin, imax int64
	var fmin, fmax float64
	var strs []string
	var items []any
	for i, row := range rows {
		v := row[c]
		switch x := v.(type) {
		case int64:
			isum += x
			fsum += float64(x)
			if i == 0 || x < imin {
				imin = x
			}
			if i == 0 || x > imax {
				imax = x
			}
			if i == 0 || float64(x) < fmin {
				fmin = float64(x)
			}
			if i == 0 || float64(x) > fmax {
				fmax = float64(x)
			}
			items = append(items, x)
		case int:
			isum += int64(x)
			fsum += float64(x)
			items = append(items, x)
		case float64:
			isFloat = true
			fsum += x
			if i == 0 || x < fmin {
				fmin = x
			}
			if i == 0 || x > fmax {
				fmax = x
			}
			items = append(items, x)
		case []byte:
			items = append(items, string(x))
			if sp.kind == "sum" || sp.kind == "avg" {
				// text argument: an integer if it reads as one, otherwise a float (documented conversion)
				if iv, err := strconv.ParseInt(string(x), 10, 64); err == nil {
					isum += iv
					fsum += float64(iv)
				} else if fv, err := strconv.ParseFloat(string(x), 64); err == nil {
					isFloat = true
					fsum += fv
				}
			}
		default:
			items = append(items, toStr(v))
		}
		strs = append(strs, toStr(v))
	}
	num := func(i int64, f float64) string {
		// the arithmetic written around the call, applied left to right as written
		pt := strings.Fields(sp.post)
		for k := 0; k+1 < len(pt); k += 2 {
			c, _ := strconv.ParseInt(pt[k+1], 10, 64)
			if pt[k] == "+" {
				i, f = i+c, f+float64(c)
			} else {
				i, f = i*c, f*float64(c)
			}
		}
		if isFloat {
			return "f:" + canonFloat(f)
		}
		return fmt.Sprintf("i:%d", i)
	}
	switch sp.kind {
	case "count":
		isFloat = false
		return num(int64(len(rows)), 0)
	case "sum":
		return num(isum, fsum)
	case "min":
		return num(imin, fmin)
	case "max":
		return num(imax, fmax)
	case "avg":
		if isFloat {
			return "f:" + canonFloat(fsum/float64(len(rows)))
		}
		return "f:" + canonFloat(float64(isum)/float64(len(rows)))
	case "concat":
		sep := sp.call[strings.LastIndex(sp.call, ", ")+2 : len(sp.call)-1]
		sep = strings.Trim(sep, "'")
		return "x:" + hxs(strings.Join(strs, sep))
	case "arrayagg":
		b, _ := json.Marshal(items)
		return "x:" + hxs(string(b))
	}
	return "?"
}

func init() { groups["AGGR"] = runAGGR }
