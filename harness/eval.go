package main

// Group EVAL: the two expression evaluators (Execute / ExecuteBatch), every scalar function in
// both forms, and the ExecuteCtx field cache they thread.
//
//   correspondence  engine vs Lean model (Driver.handleEval), value by value, error class by
//                   error class, plus the context the evaluation leaves behind
//   property        spec-differential oracles, independent of the model:
//                     C10  documented function values (eval_c10.go)
//                     C03  batch result = row results by content; batch ok => every row ok
//                     C14  well-typed accepted expressions never fail with an operand-type error
//
// Protocol:  EVAL <row|batch> <0|1|n> <wire-expr> <hexk=hexv,…>

import (
	"errors"
	"fmt"
	"regexp"
	"regexp/syntax"
	"sort"
	"strconv"
	"strings"
	"time"

	"github.com/c4pt0r/kvql"
)

func init() { groups["EVAL"] = runEVAL }

// ---------------------------------------------------------------- canonical values for this group

// Every NaN is rendered `f:nan`: sign and payload of a NaN are not observable through kvql and
// differ between the hardware (0/0 = fff8…) and the Lean run time (7ff8…).
var nanRe = regexp.MustCompile(`f:[7f]ff[0-9a-f]{13}`)

func canonNaN(s string) string {
	return nanRe.ReplaceAllStringFunc(s, func(m string) string {
		if m[5:] == "0000000000000" { // ±Inf
			return m
		}
		return "f:nan"
	})
}

func evCanon(v any) string   { return canonNaN(canonValue(v)) }
func evContent(v any) string { return canonNaN(contentValue(v)) }

// ---------------------------------------------------------------- error classes

// evalErrPatterns: message pattern -> class, first match wins (never the message itself is compared)
var evalErrPatterns = []struct{ pat, class string }{
	{"Cannot find function", "unknown-func"},
	{"arguments but got", "arity"},
	{"Unknown operator", "unknown-op"},
	{"Divide by zero", "data"},
	{"boundary is greater", "data"},
	{"length must equals", "data"},
	{"has wrong type", "operand-type"},
	{"Invalid operator", "operand-type"}, // "Invalid operator %v left or right parameter type"
	{"parameter require", "operand-type"},
	{"expression invalid", "operand-type"},
	{"Cannot convert to", "operand-type"},
	{"invalid type", "operand-type"},
	{"where expression result is not boolean", "operand-type"},
}

func evalErrClass(err error) string {
	if err == nil {
		return "ok"
	}
	var se *kvql.SyntaxError
	if errors.As(err, &se) {
		if strings.Contains(se.Message, "Cannot find function") {
			return "unknown-func"
		}
		return "syntax"
	}
	var re *syntax.Error
	if errors.As(err, &re) {
		return "data"
	}
	var ne *strconv.NumError
	if errors.As(err, &ne) {
		return "data"
	}
	msg := err.Error()
	var ee *kvql.ExecuteError
	if errors.As(err, &ee) {
		msg = ee.Message
	}
	for _, p := range evalErrPatterns {
		if strings.Contains(msg, p.pat) {
			return p.class
		}
	}
	return "other-error"
}

// ---------------------------------------------------------------- engine side

func mkCtx(cache string) *kvql.ExecuteCtx {
	if cache == "n" {
		return nil
	}
	ctx := kvql.NewExecuteCtx()
	ctx.EnableCache = cache == "1"
	return ctx
}

func ctxCanon(ctx *kvql.ExecuteCtx) string {
	if ctx == nil {
		return "nil"
	}
	sortedKeys := func(m map[string][]any) []string {
		ks := make([]string, 0, len(m))
		for k := range m {
			ks = append(ks, k)
		}
		sort.Strings(ks)
		return ks
	}
	lists := func(m map[string][]any) string {
		var p []string
		for _, k := range sortedKeys(m) {
			p = append(p, hxs(k)+"="+evCanon(m[k]))
		}
		return strings.Join(p, " ")
	}
	var fk []string
	for k := range ctx.FieldCaches {
		fk = append(fk, k)
	}
	sort.Strings(fk)
	fc := make([]string, len(fk))
	for i, k := range fk {
		fc[i] = hxs(k) + ":" + evCanon(ctx.FieldCaches[k])
	}
	return fmt.Sprintf("hit=%d fc=[%s] ck=[%s] cc=[%s]", ctx.Hit, strings.Join(fc, " "), lists(ctx.FieldChunkKeyCaches), lists(ctx.FieldChunkCaches))
}

type rowRes struct {
	val   any
	class string // "ok" or an error class or "panic"
}

// engineRows evaluates e on each pair in turn with ONE context
func engineRows(e kvql.Expression, chunk []kvql.KVPair, cache string) ([]rowRes, string) {
	ctx := mkCtx(cache)
	res := make([]rowRes, len(chunk))
	for i, kv := range chunk {
		func() {
			defer func() {
				if r := recover(); r != nil {
					res[i] = rowRes{nil, "panic"}
				}
			}()
			v, err := e.Execute(kv, ctx)
			if err != nil {
				res[i] = rowRes{nil, evalErrClass(err)}
			} else {
				res[i] = rowRes{v, "ok"}
			}
		}()
	}
	return res, ctxCanon(ctx)
}

// engineBatch evaluates e on the chunk
func engineBatch(e kvql.Expression, chunk []kvql.KVPair, cache string) (vals []any, class string, cc string) {
	ctx := mkCtx(cache)
	func() {
		defer func() {
			if r := recover(); r != nil {
				vals, class = nil, "panic"
			}
		}()
		v, err := e.ExecuteBatch(chunk, ctx)
		if err != nil {
			vals, class = nil, evalErrClass(err)
		} else {
			vals, class = v, "ok"
		}
	}()
	return vals, class, ctxCanon(ctx)
}

func rowsLine(rs []rowRes, cc string) string {
	if len(rs) == 0 {
		return "- ## " + cc
	}
	p := make([]string, len(rs))
	for i, r := range rs {
		if r.class == "ok" {
			p[i] = evCanon(r.val)
		} else {
			p[i] = r.class
		}
	}
	return strings.Join(p, ";") + " ## " + cc
}

func batchLine(vals []any, class string, cc string) string {
	if class != "ok" {
		return class + " ## " + cc
	}
	if len(vals) == 0 {
		return "- ## " + cc
	}
	p := make([]string, len(vals))
	for i, v := range vals {
		p[i] = evCanon(v)
	}
	return strings.Join(p, ";") + " ## " + cc
}

func pairsWire(chunk []kvql.KVPair) string {
	if len(chunk) == 0 {
		return "-"
	}
	p := make([]string, len(chunk))
	for i, kv := range chunk {
		p[i] = hx(kv.Key) + "=" + hx(kv.Value)
	}
	return strings.Join(p, ",")
}

func pairsShow(chunk []kvql.KVPair) string {
	p := make([]string, len(chunk))
	for i, kv := range chunk {
		p[i] = fmt.Sprintf("%q=%q", kv.Key, kv.Value)
	}
	return "{" + strings.Join(p, ", ") + "}"
}

// ---------------------------------------------------------------- stores

var (
	evalKeys   = []string{"", "K", "a", "ab", "b", "k1", "k2", "k3"}
	evalInts   = []string{"1", "2", "10", "-3", "0", "7", "+5", "100", "9007199254740993", "-1234567890123456789", "1234567890"}
	evalFloats = []string{"1.5", "0.25", "2.0", "-0.5", "1e3", "10", "3.75"}
	evalTexts  = []string{"abc", "a,b,c", "x-y", "Hello World", "a", "", "1,2,3", "1.5,2", "k1", "Abc,DEF", "1,x", "aXbXc", "3,4", "1,2,3,4,5", "4,3,2,1", "the quick brown fox, the lazy dog"}
	evalJsons  = []string{
		`{"a":1,"b":"x","s":"str","l":[1,"s",2.5,true],"o":{"b":"deep","l":[10,20]},"n":null,"t":true}`,
		`{"a":"A","b":2.5,"l":[],"o":{"b":7}}`,
		`{"a":{"b":"v"},"l":["p","q"],"s":""}`,
		` {"a" : 2 , "a" : 3, "o":{"l":[1]}} `,
		`[1,2]`, `{"a":`, `{"a":01}`, `null`, `{}`, `"s"`, `{"a":1e2,"b":-0.5,"l":[{"x":1}]}`,
	}
)

// genChunk draws 0..5 pairs with distinct keys in key order; kind selects the value pool
func genChunk(r *Rand, kind int) []kvql.KVPair {
	n := r.Intn(6)
	if n == 0 && !r.Chance(1, 4) {
		n = 1 + r.Intn(4)
	}
	idx := map[int]bool{}
	for len(idx) < n {
		idx[r.Intn(len(evalKeys))] = true
	}
	var ks []int
	for i := range idx {
		ks = append(ks, i)
	}
	sort.Ints(ks)
	chunk := make([]kvql.KVPair, 0, n)
	for _, ki := range ks {
		var v string
		k := kind
		if kind == 4 { // mixed
			k = r.Intn(4)
		}
		switch k {
		case 0:
			v = pick(r, evalInts)
		case 1:
			v = pick(r, evalFloats)
		case 2:
			v = pick(r, evalTexts)
		default:
			v = pick(r, evalJsons)
		}
		chunk = append(chunk, kvql.NewKVP([]byte(evalKeys[ki]), []byte(v)))
	}
	return chunk
}

var chunkKindNames = []string{"ints", "floats", "texts", "jsons", "mixed"}

// ---------------------------------------------------------------- the group

type evalTarget struct {
	name string
	expr kvql.Expression
	text string
	wild bool
	fa   bool
}

func parseTargets(q string) (*kvql.SelectStmt, error) {
	var stmt *kvql.SelectStmt
	var perr error
	out, panicked := safely(func() string {
		p := kvql.NewParser(q)
		st, err := p.Parse()
		if err != nil {
			perr = err
			return ""
		}
		s, ok := st.(*kvql.SelectStmt)
		if !ok {
			perr = errors.New("not a select")
			return ""
		}
		stmt = s
		return ""
	})
	if panicked {
		return nil, errors.New(out)
	}
	return stmt, perr
}

// hasUnrewrittenAlias: a NameExpr that is not the name of a call survived Check (the checker
// rewrites alias names only directly below binary operators and in call arguments it visits)
func hasUnrewrittenAlias(e kvql.Expression) bool {
	found := false
	var walk func(e kvql.Expression, depth int)
	walk = func(e kvql.Expression, depth int) {
		if found || depth > 50 {
			return
		}
		if _, ok := e.(*kvql.NameExpr); ok {
			found = true
			return
		}
		for _, c := range exprChildren(e) {
			walk(c, depth+1)
		}
	}
	walk(e, 0)
	return found
}

func containsFieldAccess(e kvql.Expression) bool {
	found := false
	var walk func(e kvql.Expression, depth int)
	walk = func(e kvql.Expression, depth int) {
		if found || depth > 50 {
			return
		}
		switch x := e.(type) {
		case *kvql.FieldAccessExpr:
			found = true
		case *kvql.BinaryOpExpr:
			walk(x.Left, depth+1)
			walk(x.Right, depth+1)
		case *kvql.NotExpr:
			walk(x.Right, depth+1)
		case *kvql.FunctionCallExpr:
			for _, a := range x.Args {
				walk(a, depth+1)
			}
		case *kvql.ListExpr:
			for _, a := range x.List {
				walk(a, depth+1)
			}
		case *kvql.FieldReferenceExpr:
			walk(x.FieldExpr, depth+1)
		}
	}
	walk(e, 0)
	return found
}

func runEVAL(e *Env) (*Summary, error) {
	start := time.Now()
	col := NewCollector("EVAL", e.Tier, e.Seed,
		"correspondence: Execute per pair and ExecuteBatch per chunk vs the Lean evaluators (canonical values, error classes, final ExecuteCtx) for ctx nil / cache off / cache on; oracles: C10 function values, C03 batch=row by content and batch ok => row ok, C14 no operand-type error on well-typed expressions")
	nCases := e.n(30000, 300000)
	err := e.parallel(func(w int, d *Driver) error {
		for idx := w; idx < nCases; idx += e.Workers {
			if err := evalCase(e, col, d, uint64(idx)); err != nil {
				return err
			}
		}
		nLib := e.n(40000, 400000)
		for idx := w; idx < nLib; idx += e.Workers {
			if err := evalLibCase(e, col, d, uint64(idx)); err != nil {
				return err
			}
		}
		return runC10(e, col, d, w)
	})
	if err != nil {
		return nil, err
	}
	return col.Finish(start), nil
}

func evalCase(e *Env, col *Collector, d *Driver, idx uint64) error {
	r := NewRand(e.Seed, "EVAL", idx)
	o := defaultOpts()
	o.UpperCase = r.Chance(1, 8)
	g := NewXGen(r, o)
	g.Wide = true
	if idx%3 == 0 {
		g.Wild = 12
	}
	fields := g.XFields(1 + r.Intn(3))
	where := g.XBool(2)
	q := "select " + strings.Join(fields, ", ") + " where " + where
	stmt, perr := parseTargets(q)
	if perr != nil {
		col.Hist("parse:rejected")
		if g.Wild == 0 {
			col.Hist("parse:rejected-welltyped")
			col.Sample("rejected: " + q)
		}
		return nil
	}
	col.Hist("parse:accepted")
	for k, n := range g.used {
		col.Hist("gen:" + k)
		_ = n
	}
	var targets []evalTarget
	for i, f := range stmt.Fields {
		targets = append(targets, evalTarget{fmt.Sprintf("field%d", i), f, q, g.Wild > 0, false})
	}
	targets = append(targets, evalTarget{"where", stmt.Where.Expr, q, g.Wild > 0, false})
	kind := r.Intn(len(chunkKindNames))
	chunk := genChunk(r, kind)
	col.Hist("store:"+chunkKindNames[kind], fmt.Sprintf("chunk-len:%d", len(chunk)))
	for _, t := range targets {
		t.fa = containsFieldAccess(t.expr)
		if err := evalTargetCheck(e, col, d, idx, t, chunk); err != nil {
			return err
		}
	}
	return nil
}

func evalTargetCheck(e *Env, col *Collector, d *Driver, idx uint64, t evalTarget, chunk []kvql.KVPair) error {
	wire := wireExpr(t.expr)
	if strings.Contains(wire, "Y") || strings.Contains(wire, "?") {
		col.Hist("skip:cyclic-or-unknown-node")
		return nil
	}
	pw := pairsWire(chunk)
	caseStr := fmt.Sprintf("%s of `%s` on %s", t.name, t.text, pairsShow(chunk))
	type modeRes struct {
		rows  []rowRes
		bvals []any
		bcls  string
	}
	res := map[string]*modeRes{}
	for _, cache := range []string{"0", "1", "n"} {
		mr := &modeRes{}
		res[cache] = mr
		// row
		rs, cc := engineRows(t.expr, chunk, cache)
		mr.rows = rs
		line := fmt.Sprintf("EVAL row %s %s %s", cache, wire, pw)
		eng := rowsLine(rs, cc)
		mod, err := d.Ask(line)
		if err != nil {
			return err
		}
		col.Eval(1)
		if eng != mod {
			col.Find(Finding{Kind: "correspondence", Group: "EVAL", Check: "row", Case: caseStr + " cache=" + cache, Line: line,
				Engine: eng, Model: mod, Seed: e.Seed, Index: idx, Properties: []string{"C10", "C03", "C14", "C05"}})
		}
		for _, r := range rs {
			col.Hist("row:" + r.class)
			if r.class == "panic" {
				col.Hist("engine-panic:row")
			}
		}
		// batch
		bv, bc, cc2 := engineBatch(t.expr, chunk, cache)
		mr.bvals, mr.bcls = bv, bc
		line = fmt.Sprintf("EVAL batch %s %s %s", cache, wire, pw)
		eng = batchLine(bv, bc, cc2)
		mod, err = d.Ask(line)
		if err != nil {
			return err
		}
		col.Eval(1)
		if eng != mod {
			col.Find(Finding{Kind: "correspondence", Group: "EVAL", Check: "batch", Case: caseStr + " cache=" + cache, Line: line,
				Engine: eng, Model: mod, Seed: e.Seed, Index: idx, Properties: []string{"C10", "C03", "C14", "C05"}})
		}
		col.Hist("batch:" + bc)
		col.Nontrivial(eng + "|" + wire[:min(len(wire), 60)])
	}
	// ---- C03 (cache off and nil context: the cache is C05's concern)
	for _, cache := range []string{"0", "n"} {
		mr := res[cache]
		judgeC03(e, col, idx, caseStr+" cache="+cache, cache, pw, t.expr, chunk, mr.rows, mr.bvals, mr.bcls)
	}
	// ---- C14 (well-typed, accepted, no dynamically typed field access)
	if !t.wild && !t.fa {
		mr := res["0"]
		bad := ""
		for i, r := range mr.rows {
			if r.class == "operand-type" {
				bad = fmt.Sprintf("row mode, pair %d: operand-type error", i)
				break
			}
		}
		if bad == "" && mr.bcls == "operand-type" {
			bad = "batch mode: operand-type error"
		}
		col.Hist("c14:judged")
		if bad != "" {
			cul := shrinkExpr(t.expr, func(x kvql.Expression) bool { return c14Fails(x, chunk) })
			col.Find(Finding{Kind: "property", Group: "EVAL", Check: "C14-operand-type:" + mechLabel(cul), Case: "`" + cul.String() + "` in " + caseStr, Line: fmt.Sprintf("EVAL row 0 %s %s", wireExpr(cul), pw),
				Engine: bad, Model: "a well-typed accepted expression must not fail with an operand-type error", Class: c14Class(t.expr, mr.rows, mr.bcls) + " " + mechLabel(cul),
				Seed: e.Seed, Index: idx, Properties: []string{"C14"}})
		}
	}
	return nil
}

// judgeC03: batch result = row results pair by pair (by content); batch ok => every row ok.
// A failing case is shrunk to the smallest sub-expression that still fails.
func judgeC03(e *Env, col *Collector, idx uint64, caseStr, cache, pw string, expr kvql.Expression, chunk []kvql.KVPair, rows []rowRes, bvals []any, bcls string) {
	col.Hist("c03:judged")
	show := func(x kvql.Expression) string {
		rs, _ := engineRows(x, chunk, cache)
		bv, bc, _ := engineBatch(x, chunk, cache)
		p := make([]string, len(rs))
		for i, r := range rs {
			if r.class == "ok" {
				p[i] = evContent(r.val)
			} else {
				p[i] = r.class
			}
		}
		b := bc
		if bc == "ok" {
			q := make([]string, len(bv))
			for i, v := range bv {
				q[i] = evContent(v)
			}
			b = strings.Join(q, ";")
		}
		return "batch: " + b + " | rows: " + strings.Join(p, ";")
	}
	rowPanic := false
	for _, r := range rows {
		if r.class == "panic" {
			rowPanic = true
		}
	}
	if bcls == "panic" || rowPanic {
		cul := shrinkExpr(expr, func(x kvql.Expression) bool { return panics(x, chunk) })
		label := mechLabel(cul)
		if _, isRef := cul.(*kvql.FieldReferenceExpr); isRef && len(chunk) == 0 {
			label = "alias-on-empty-chunk"
			// not a finding: no plan of the library ever evaluates an EMPTY chunk with a context (scans and
			// projections return before), so this public-method corner is outside C06/C03 as stated
			// (DESIGN.md §14.3); counted only
			col.Hist("outside-domain:alias-on-empty-chunk")
			return
		}
		col.Find(Finding{Kind: "crash", Group: "EVAL", Check: "panic:" + label, Case: "`" + cul.String() + "` in " + caseStr, Line: fmt.Sprintf("EVAL batch %s %s %s", cache, wireExpr(cul), pw),
			Engine: show(cul), Model: "no panic", Class: label, Seed: e.Seed, Index: idx, Properties: []string{"C06", "C10", "C03"}})
	}
	if tag := c03FailsRes(rows, bvals, bcls); tag != "" {
		cul := shrinkExpr(expr, func(x kvql.Expression) bool { return c03Fails(x, chunk) != "" })
		col.Find(Finding{Kind: "property", Group: "EVAL", Check: "C03-" + c03Fails(cul, chunk) + ":" + mechLabel(cul), Case: "`" + cul.String() + "` in " + caseStr, Line: fmt.Sprintf("EVAL batch %s %s %s", cache, wireExpr(cul), pw),
			Engine: show(cul), Model: "batch result = row results by content; batch ok => every row ok", Class: mechLabel(cul), Seed: e.Seed, Index: idx, Properties: []string{"C03"}})
	}
}

func c03FailsRes(rows []rowRes, bvals []any, bcls string) string {
	if bcls != "ok" {
		return ""
	}
	for _, r := range rows {
		if r.class != "ok" {
			return "batch-ok-row-" + r.class
		}
	}
	if len(bvals) != len(rows) {
		return "length"
	}
	for i := range rows {
		if evContent(rows[i].val) != evContent(bvals[i]) {
			return "value"
		}
	}
	return ""
}

func firstBadClass(rows []rowRes) string {
	for _, r := range rows {
		if r.class != "ok" {
			return "row-" + r.class
		}
	}
	return ""
}

// c14Class names the mechanism of an operand-type failure (for narrow known-finding classes)
func c14Class(e kvql.Expression, rows []rowRes, bcls string) string {
	rowBad := false
	for _, r := range rows {
		if r.class == "operand-type" {
			rowBad = true
		}
	}
	switch {
	case rowBad && bcls == "operand-type":
		return "both-modes"
	case rowBad:
		return "row-only"
	default:
		return "batch-only"
	}
}

// ---------------------------------------------------------------- library-facing cases
//
// Fixed expression templates over random data: decimal texts with many digits and exponents,
// ASCII texts, JSON documents from a small grammar, regular expressions of the modelled class.
// They exercise the pieces of the Go library the model re-implements (Lib.lean).

func randDigits(r *Rand, lo, hi int) string {
	n := lo + r.Intn(hi-lo+1)
	b := make([]byte, n)
	for i := range b {
		b[i] = byte('0' + r.Intn(10))
	}
	return string(b)
}

func randDecimal(r *Rand, jsonOnly bool) string {
	if !jsonOnly && r.Chance(1, 12) {
		return pick(r, []string{"9223372036854775807", "-9223372036854775808", "9223372036854775808", "-9223372036854775809",
			"inf", "-Inf", "NaN", "+infinity", "1e309", "1.7976931348623157e308", "4.9e-324", "2e-324", "1e-400", ".5", "5.", "+.5e1", "1e", "e1", "--1", "1.2.3", "", "-", "+", "0x10", "1e+", "00012", "-0", "-0.0", "1E5", "1_000", "1_", "_1", "1__0", "1_0.5_0e1_0", "-1_1", "1_.5", "1._5", "+_1", "0_1"})
	}
	s := ""
	if r.Chance(1, 3) {
		s = "-"
	} else if !jsonOnly && r.Chance(1, 10) {
		s = "+"
	}
	ip := randDigits(r, 1, pick(r, []int{1, 2, 4, 9, 17, 19, 22}))
	if jsonOnly {
		ip = strings.TrimLeft(ip, "0")
		if ip == "" {
			ip = "0"
		}
	}
	s += ip
	if r.Chance(1, 2) {
		s += "." + randDigits(r, 1, pick(r, []int{1, 2, 3, 6, 7, 12, 20}))
	}
	if r.Chance(1, 4) {
		s += pick(r, []string{"e", "E"}) + pick(r, []string{"", "+", "-"}) + fmt.Sprint(r.Intn(pick(r, []int{3, 10, 25, 320})))
	}
	return s
}

func randText(r *Rand) string {
	const alpha = "aAbBzZ019 ,-_.xX"
	n := r.Intn(9)
	b := make([]byte, n)
	for i := range b {
		b[i] = alpha[r.Intn(len(alpha))]
	}
	return string(b)
}

func randJSON(r *Rand, d int) string {
	ws := func() string { return pick(r, []string{"", "", "", " ", "\t", "  "}) }
	if d <= 0 || r.Chance(1, 3) {
		switch r.Intn(6) {
		case 0:
			return randDecimal(r, true)
		case 1:
			return `"` + randText(r) + `"`
		case 2:
			return pick(r, []string{"true", "false", "null"})
		case 3:
			return fmt.Sprint(r.Intn(100))
		case 4:
			return pick(r, []string{"1.5", "-0.25", "1e2", "0", "-0", "12.0"})
		default:
			return `"v"`
		}
	}
	if r.Bool() {
		n := r.Intn(4)
		p := make([]string, n)
		for i := range p {
			p[i] = ws() + randJSON(r, d-1) + ws()
		}
		return "[" + strings.Join(p, ",") + "]"
	}
	n := r.Intn(5)
	p := make([]string, n)
	for i := range p {
		p[i] = ws() + `"` + pick(r, []string{"a", "b", "l", "o", "s", "a"}) + `"` + ws() + ":" + ws() + randJSON(r, d-1) + ws()
	}
	return "{" + strings.Join(p, ",") + "}"
}

var libTemplates = []string{
	"float(value)", "int(value)", "is_int(value)", "is_float(value)", "str(float(value))", "str(float(value) / 3)", "str(float(value) * 1.1)",
	"int(float(value))", "str(int(value))", "float(value) + int(key)", "float(value) / float(key)", "float(value) * float(key)", "float(value) - float(key)",
	"int(value) / int(key)", "int(value) * int(key)", "int(value) - int(key)", "int(value) + int(key)",
	"float(value) < float(key)", "float(value) <= float(key)", "int(value) > float(key)", "float(value) >= int(key)",
	"float(value) between float(key) and 10.5", "float(value) in (1.5, float(key), 10)", "int(value) in (1, int(key))",
	"list(value, key)", "float_list(value, key, 1)", "int_list(value, key, 2.5)", "join(',', float(value), int(key), value)",
	"l2_distance(split(value, ','), split(key, ','))", "cosine_distance(split(value, ','), split(key, ','))",
	"l2_distance(list(value, key), float_list(1, 2.5))", "cosine_distance(int_list(value, key), list(0.5, 3))",
	"len(float_list(value))", "len(value)", "strlen(float(value))", "str(float(value)) + 'x'", "float(value) = float(value)",
}

var libTextTemplates = []string{
	"upper(value)", "lower(value)", "split(value, ',')", "split(value, 'ab')", "split(value, '')", "split(value, key)", "strlen(value)",
	"substr(value, 0, 3)", "substr(value, 2, 5)", "substr(value, 1, 1)", "substr(value, 3, 2)", "substr(value, strlen(key), strlen(value))", "substr(value, int(key), 4)",
	"value + key", "join(key, value, value)", "value in split(key, ',')", "value between key and 'b'", "value < key", "value >= key", "value ^= key",
	"value ~= '^a'", "value ~= 'b$'", "value ~= 'a.b'", "value ~= '[0-9]'", "value ~= '^[0-9][0-9]$'", "value ~= ''", "value ~= '^$'", "value ~= ' '", "value ~= 'X,'", "value ~= '.'", "value ~= key",
	"is_int(value)", "len(split(value, ','))", "split(value, ',')[1]", "list(value, key)", "lower(upper(value))",
}

var libJsonTemplates = []string{
	"json(value)", "json(value)['a']", "json(value)['b']", "json(value)['l']", "json(value)['l'][0]", "json(value)['l'][2]", "json(value)['o']['a']", "json(value)['o']['l'][1]",
	"str(json(value)['a'])", "json(value)['a'] = 'v'", "len(json(value)['l'])", "json(value)['a']['b']", "strlen(json(value)['s'])", "upper(json(value)['s'])", "json(value)['a'][0]",
	"is_float(json(value)['a'])", "float(json(value)['a'])", "json(json(value)['s'])",
}

// libWideTemplates: byte-exact functions over texts with multi-byte UTF-8 and of up to ~100 bytes.
// No upper/lower, no empty separator, no regular expression: the model's ASCII-only domains (Lib.lean).
var libWideTemplates = []string{
	"strlen(value)", "substr(value, 0, 3)", "substr(value, 2, 5)", "substr(value, 4, 40)", "substr(value, 1, 2)", "substr(value, strlen(key), strlen(value))",
	"split(value, ',')", "split(value, '::')", "split(value, 'é')", "split(value, key)", "join('::', value, key)", "join('键', key, value, value)", "join(key, value, value)",
	"value + key", "len(split(value, ','))", "split(value, ',')[1]", "split(value, '::')[0]", "value < key", "value >= key", "value ^= key", "value in split(key, ',')",
	"value between key and 'é'", "list(value, key)", "strlen(value + key)", "substr(value + value, 3, 30)", "value = 'café'", "value ^= 'caf'", "key in ('café', '键', value)",
}

// libVecTemplates: the stored key and value are vectors of one common length n (4–9 or 33–40)
var libVecTemplates = []string{
	"l2_distance(split(value, ','), split(key, ','))", "cosine_distance(split(value, ','), split(key, ','))",
	"l2_distance(split(key, ','), split(value, ','))", "len(split(value, ','))", "split(value, ',')[0]", "split(value, ',')[3]", "split(value, ',')[32]", "split(value, ',')[4]",
	"join(',', split(value, ',')[0], split(value, ',')[3])", "l2_distance(split(value, ','), split(value, ','))",
}

func randWideText(r *Rand) string {
	pieces := []string{"é", "键", "😅", "a", "B", " ", ",", "::", "x", "0", "caf", "ï", "z"}
	n := r.Intn(9)
	if r.Chance(1, 8) {
		n = 30 + r.Intn(20)
	}
	var b strings.Builder
	for i := 0; i < n; i++ {
		b.WriteString(pick(r, pieces))
	}
	return b.String()
}

func evalLibCase(e *Env, col *Collector, d *Driver, idx uint64) error {
	r := NewRand(e.Seed, "EVALLIB", idx)
	var tmpl string
	var mk func() string
	family := r.Intn(3)
	if idx%5 == 4 {
		family = 3 + r.Intn(2)
	}
	switch family {
	case 3:
		tmpl = pick(r, libWideTemplates)
		mk = func() string { return randWideText(r) }
	case 4:
		tmpl = pick(r, libVecTemplates)
		n := 4 + r.Intn(6)
		if r.Chance(1, 4) {
			n = 33 + r.Intn(8)
		}
		mk = func() string {
			p := make([]string, n)
			for i := range p {
				if r.Chance(1, 3) {
					p[i] = randDecimal(r, true)
				} else {
					p[i] = pick(r, c10VecNums)
				}
			}
			return strings.Join(p, ",")
		}
	case 0:
		tmpl = pick(r, libTemplates)
		mk = func() string { return randDecimal(r, false) }
	case 1:
		tmpl = pick(r, libTextTemplates)
		mk = func() string { return randText(r) }
	default:
		tmpl = pick(r, libJsonTemplates)
		mk = func() string {
			s := randJSON(r, 3)
			if r.Chance(1, 10) && len(s) > 1 {
				s = s[:len(s)-1]
			}
			return s
		}
	}
	q := "select " + tmpl + " as f1 where is_int(key)"
	stmt, perr := parseTargets(q)
	if perr != nil {
		col.Hist("lib:rejected:" + tmpl)
		return nil
	}
	n := 1 + r.Intn(3)
	chunk := make([]kvql.KVPair, n)
	for i := range chunk {
		k := fmt.Sprintf("k%d", i)
		if family == 4 || (family != 2 && r.Chance(2, 3)) {
			k = mk()
			if (family == 1 || family == 3) && r.Chance(1, 2) {
				k = pick(r, []string{",", "a", "-", "", "ab", "."})
			}
		}
		if family == 3 && k == "" {
			k = "," // split(value, '') cuts after each UTF-8 sequence in Go and after each byte in the model: ASCII-only domain
		}
		chunk[i] = kvql.NewKVP([]byte(k), []byte(mk()))
	}
	col.Hist(fmt.Sprintf("lib:family%d", family))
	t := evalTarget{"field0", stmt.Fields[0], q, true, true}
	return evalTargetCheck(e, col, d, idx, t, chunk)
}

// ---------------------------------------------------------------- shrinking to the culprit sub-expression

func exprChildren(e kvql.Expression) []kvql.Expression {
	switch x := e.(type) {
	case *kvql.BinaryOpExpr:
		return []kvql.Expression{x.Left, x.Right}
	case *kvql.NotExpr:
		return []kvql.Expression{x.Right}
	case *kvql.FunctionCallExpr:
		return x.Args
	case *kvql.ListExpr:
		return x.List
	case *kvql.FieldAccessExpr:
		return []kvql.Expression{x.Left}
	case *kvql.FieldReferenceExpr:
		return []kvql.Expression{x.FieldExpr}
	}
	return nil
}

// shrinkExpr descends into a sub-expression as long as one still satisfies pred
func shrinkExpr(e kvql.Expression, pred func(kvql.Expression) bool) kvql.Expression {
	for depth := 0; depth < 40; depth++ {
		var next kvql.Expression
		for _, c := range exprChildren(e) {
			if _, isList := c.(*kvql.ListExpr); isList {
				// a bare list is not evaluable on its own; look at its items
				for _, it := range exprChildren(c) {
					if pred(it) {
						next = it
						break
					}
				}
				if next != nil {
					break
				}
				continue
			}
			if pred(c) {
				next = c
				break
			}
		}
		if next == nil {
			return e
		}
		e = next
	}
	return e
}

func nodeKind(e kvql.Expression) string {
	switch x := e.(type) {
	case *kvql.BinaryOpExpr:
		return "(" + kvql.OperatorToString[x.Op] + ")"
	case *kvql.NotExpr:
		return "!"
	case *kvql.FunctionCallExpr:
		if n, ok := x.Name.(*kvql.NameExpr); ok {
			return strings.ToLower(n.Data) + "()"
		}
		return "?()"
	case *kvql.ListExpr:
		return "(..)"
	case *kvql.FieldAccessExpr:
		if _, ok := x.FieldName.(*kvql.NumberExpr); ok {
			return nodeKind(x.Left) + "[n]"
		}
		return nodeKind(x.Left) + "['f']"
	case *kvql.FieldReferenceExpr:
		return "alias"
	case *kvql.FieldExpr:
		return "kv"
	case *kvql.StringExpr:
		return "str"
	case *kvql.NumberExpr:
		return "int"
	case *kvql.FloatExpr:
		return "float"
	case *kvql.BoolExpr:
		return "bool"
	case *kvql.NameExpr:
		return "name"
	}
	return "?"
}

// mechLabel describes the root of a culprit: node kind with the kinds of its children
func mechLabel(e kvql.Expression) string {
	if hasUnrewrittenAlias(e) {
		return "unrewritten-alias"
	}
	cs := exprChildren(e)
	for _, c := range cs {
		if _, isName := c.(*kvql.NameExpr); isName {
			// an alias the checker did not rewrite (under `!`, inside a list, a bare select field)
			return "unrewritten-alias"
		}
		if l, isList := c.(*kvql.ListExpr); isList {
			for _, it := range l.List {
				if _, isName := it.(*kvql.NameExpr); isName {
					return "unrewritten-alias"
				}
			}
		}
	}
	if r, isRef := e.(*kvql.FieldReferenceExpr); isRef {
		if _, isName := r.FieldExpr.(*kvql.NameExpr); isName {
			return "unrewritten-alias"
		}
	}
	if _, isRef := e.(*kvql.FieldReferenceExpr); isRef {
		return "alias->" + nodeKind(cs[0])
	}
	if _, isCall := e.(*kvql.FunctionCallExpr); isCall {
		return nodeKind(e)
	}
	if _, isFA := e.(*kvql.FieldAccessExpr); isFA {
		return nodeKind(e)
	}
	if b, isBin := e.(*kvql.BinaryOpExpr); isBin && b.Op == kvql.In {
		switch b.Right.(type) {
		case *kvql.FunctionCallExpr:
			return "(in)<call>"
		case *kvql.FieldReferenceExpr:
			return "(in)<alias>"
		default:
			return "(in)<(..)>"
		}
	}
	return nodeKind(e)
}

// c03Fails: does e violate C03 on the chunk (cache off)?  returns a tag or ""
func c03Fails(e kvql.Expression, chunk []kvql.KVPair) string {
	rs, _ := engineRows(e, chunk, "0")
	bv, bc, _ := engineBatch(e, chunk, "0")
	if bc != "ok" {
		return ""
	}
	for _, r := range rs {
		if r.class != "ok" {
			return "batch-ok-row-" + r.class
		}
	}
	if len(bv) != len(rs) {
		return "length"
	}
	for i := range rs {
		if evContent(rs[i].val) != evContent(bv[i]) {
			return "value"
		}
	}
	return ""
}

// c14Fails: operand-type error in either mode
func c14Fails(e kvql.Expression, chunk []kvql.KVPair) bool {
	rs, _ := engineRows(e, chunk, "0")
	for _, r := range rs {
		if r.class == "operand-type" {
			return true
		}
	}
	_, bc, _ := engineBatch(e, chunk, "0")
	return bc == "operand-type"
}

func panics(e kvql.Expression, chunk []kvql.KVPair) bool {
	rs, _ := engineRows(e, chunk, "0")
	for _, r := range rs {
		if r.class == "panic" {
			return true
		}
	}
	_, bc, _ := engineBatch(e, chunk, "0")
	return bc == "panic"
}
