package main

import (
	"bytes"
	"fmt"
	"sort"
	"strings"
	"time"

	"github.com/c4pt0r/kvql"
)

// Group ORDER (property C07): engine-only oracle.  With ORDER BY the rows are a permutation of
// the rows without it and adjacent rows are non-decreasing under the requested keys
// (lexicographic over the fields, asc/desc as written; text byte-wise, numbers numerically,
// false before true); `order by key asc` alone leaves the natural order unchanged.

type orderField struct {
	expr, name, typ string
}

// orderNeeds: another select field a field (by name) refers to; appended at the END of the list, so column numbers stay
var orderNeeds = map[string]string{"kx": "key as kq", "vv": "value as vq", "n2": "strlen(value) as nq"}

var orderFields = []orderField{
	{"key", "KEY", "str"},
	{"value", "VALUE", "str"},
	{"upper(value)", "u", "str"},
	{"substr(key, 0, 2)", "p", "str"},
	{"int(value)", "n", "num"},
	{"strlen(value)", "ln", "num"},
	{"int(value) * 0.5", "h", "num"},
	{"is_int(value)", "isi", "bool"},
	{"key ^= 'a'", "ka", "bool"},
	{"value + key", "vk", "str"},
	// fields defined through ANOTHER field's name: their type is only known once that name is resolved
	{"kq + '-x'", "kx", "str"},
	{"vq + vq", "vv", "str"},
	{"nq * 2 + 1", "n2", "num"},
	// texts built AROUND the key: a constant suffix does not preserve the key order when one key is a prefix of another
	{"key + ':id'", "ksfx", "str"},
	{"'<' + key + '>'", "kbr", "str"},
	{"'id:' + key", "kpfx", "str"},
}

func orderStore(r *Rand, size int) []KV {
	keys := []string{"a", "a1", "ab", "b", "b1", "ba", "c", "k1", "k2", "k3", "l", "m"}
	vals := []string{"1", "2", "2", "10", "3", "x", "x", "", "07", "2", "-4", "1"}
	perm := make([]int, len(keys))
	for i := range perm {
		perm[i] = i
	}
	for i := len(perm) - 1; i > 0; i-- {
		j := r.Intn(i + 1)
		perm[i], perm[j] = perm[j], perm[i]
	}
	var kvs []KV
	for i := 0; i < size && i < len(keys); i++ {
		kvs = append(kvs, KV{keys[perm[i]], pick(r, vals)})
	}
	return kvs
}

// cmpCol compares two column values of the same declared type; ok=false when the kinds are
// not comparable (then the oracle does not judge this pair)
func cmpCol(a, b any, typ string) (int, bool) {
	switch typ {
	case "str":
		ab, ok1 := asBytes(a)
		bb, ok2 := asBytes(b)
		if !ok1 || !ok2 {
			return 0, false
		}
		return bytes.Compare(ab, bb), true
	case "num":
		af, ok1 := asFloat(a)
		bf, ok2 := asFloat(b)
		if !ok1 || !ok2 {
			return 0, false
		}
		if ai, ok := a.(int64); ok {
			if bi, ok := b.(int64); ok {
				switch {
				case ai < bi:
					return -1, true
				case ai > bi:
					return 1, true
				}
				return 0, true
			}
		}
		switch {
		case af < bf:
			return -1, true
		case af > bf:
			return 1, true
		}
		return 0, true
	case "bool":
		ab, ok1 := a.(bool)
		bb, ok2 := b.(bool)
		if !ok1 || !ok2 {
			return 0, false
		}
		if ab == bb {
			return 0, true
		}
		if !ab {
			return -1, true
		}
		return 1, true
	}
	return 0, false
}

func asBytes(v any) ([]byte, bool) {
	switch x := v.(type) {
	case []byte:
		return x, true
	case string:
		return []byte(x), true
	}
	return nil, false
}

func asFloat(v any) (float64, bool) {
	switch x := v.(type) {
	case int64:
		return float64(x), true
	case int:
		return float64(x), true
	case float64:
		return x, true
	}
	return 0, false
}

func runORDER(e *Env) (*Summary, error) {
	start := time.Now()
	n := e.n(4000, 150000)
	rule := fmt.Sprintf("%d random statements `select <2–4 fields from a pool of key/value/text/number/Boolean expressions, aliased> where <filter> order by <1–3 of the fields, asc/desc/default>` over shuffled stores of 0–12 pairs with duplicate values and ties, in row and batch mode at batch sizes {1,2,3,5}; plus aggregated statements ordered by an aggregate; non-trivial when the ordered result differs from the unordered one; distinct by (statement, store)", n)
	col := NewCollector("ORDER", e.Tier, e.Seed, rule)
	saved := kvql.PlanBatchSize
	defer func() { kvql.PlanBatchSize = saved }()
	for _, bs := range []int{1, 2, 3, 5} {
		kvql.PlanBatchSize = bs
		err := e.parallel(func(w int, d *Driver) error {
			for ix := uint64(w); ix < uint64(n/4); ix += uint64(e.Workers) {
				r := NewRand(e.Seed, "ORDER", ix*8+uint64(bs))
				nf := 2 + r.Intn(3)
				var fs []orderField
				used := map[string]bool{}
				for len(fs) < nf {
					f := pick(r, orderFields)
					if !used[f.name] {
						used[f.name] = true
						fs = append(fs, f)
					}
				}
				var sel []string
				for _, f := range fs {
					if f.expr == "key" || f.expr == "value" {
						sel = append(sel, f.expr)
					} else {
						sel = append(sel, f.expr+" as "+f.name)
					}
				}
				for _, f := range fs {
					if nd := orderNeeds[f.name]; nd != "" {
						sel = append(sel, nd)
					}
				}
				where := pick(r, []string{"key >= ''", "key ^= 'a' | key ^= 'b' | key ^= 'k'", "is_int(value)", "value != 'x'", "key in ('a', 'b', 'k1', 'k2', 'zz')"})
				if r.Chance(1, 4) {
					// point reads over a listed key set: shuffled, with repeated keys and absent keys, as an
					// IN list or a chain of equalities (the scan order of such plans is what `order by key asc`
					// relies on when the planner drops the sort)
					pool := []string{"a", "a1", "ab", "b", "b1", "ba", "c", "k1", "k2", "k3", "l", "m", "zz", ""}
					nk := 2 + r.Intn(7)
					var ks []string
					for i := 0; i < nk; i++ {
						if i > 0 && r.Chance(1, 3) {
							ks = append(ks, ks[r.Intn(len(ks))]) // a repeated key
						} else {
							ks = append(ks, pick(r, pool))
						}
					}
					if r.Bool() {
						q := make([]string, len(ks))
						for i, k := range ks {
							q[i] = "'" + k + "'"
						}
						where = "key in (" + strings.Join(q, ", ") + ")"
					} else {
						q := make([]string, len(ks))
						for i, k := range ks {
							q[i] = "key = '" + k + "'"
						}
						where = strings.Join(q, " | ")
					}
				}
				if strings.Contains(strings.Join(sel, ","), "int(value)") {
					where = "(" + where + ") & is_int(value)"
				}
				no := 1 + r.Intn(min(3, len(fs)))
				type ord struct {
					idx  int
					desc bool
				}
				var ords []ord
				var ordTxt []string
				seen := map[int]bool{}
				for len(ords) < no {
					i := r.Intn(len(fs))
					if seen[i] {
						continue
					}
					seen[i] = true
					o := ord{i, false}
					t := fs[i].name
					if fs[i].expr == "key" {
						t = "key"
					} else if fs[i].expr == "value" {
						t = "value"
					}
					switch r.Intn(3) {
					case 0:
						t += " desc"
						o.desc = true
					case 1:
						t += " asc"
					}
					ords = append(ords, o)
					ordTxt = append(ordTxt, t)
				}
				base := "select " + strings.Join(sel, ", ") + " where " + where
				q := base + " order by " + strings.Join(ordTxt, ", ")
				kvs := orderStore(r, r.Intn(13))
				for _, batch := range []bool{false, true} {
					b := runStatement(base, NewRefStore(kvs), batch, true)
					o := runStatement(q, NewRefStore(kvs), batch, true)
					col.Eval(1)
					if b.Outcome() != "ok" {
						col.Hist("base-" + b.Outcome())
						continue
					}
					cs := fmt.Sprintf("%s  [store %v, batch size %d, batch=%v]", q, kvs, bs, batch)
					mk := func(check, eng, want string) {
						col.Find(Finding{Kind: "property", Group: "ORDER", Check: check, Case: cs, Line: "ORDER " + hxs(q), Engine: eng, Model: want, Seed: e.Seed, Index: ix, Properties: []string{"C07"}})
					}
					if o.Outcome() != "ok" {
						mk("ordered-statement-fails", o.Outcome(), "ok")
						continue
					}
					bl, ol := rowsList(b), rowsList(o)
					if strings.Join(bl, ";") != strings.Join(ol, ";") {
						col.Nontrivial(q + fmt.Sprint(kvs))
					}
					sb := append([]string{}, bl...)
					so := append([]string{}, ol...)
					sort.Strings(sb)
					sort.Strings(so)
					if strings.Join(sb, ";") != strings.Join(so, ";") {
						mk("not-a-permutation", strings.Join(ol, " ; "), "a permutation of: "+strings.Join(bl, " ; "))
						continue
					}
					// adjacent pairs non-decreasing
					for i := 0; i+1 < len(o.Rows); i++ {
						verdict := 0
						judged := true
						for _, od := range ords {
							c, ok := cmpCol(o.Rows[i][od.idx], o.Rows[i+1][od.idx], fs[od.idx].typ)
							if !ok {
								judged = false
								break
							}
							if od.desc {
								c = -c
							}
							if c != 0 {
								verdict = c
								break
							}
						}
						if judged && verdict > 0 {
							mk("adjacent-rows-out-of-order", fmt.Sprintf("row %d: %s  then  %s", i, ol[i], ol[i+1]), "non-decreasing under "+strings.Join(ordTxt, ", "))
							break
						}
					}
					if len(ords) == 1 && fs[ords[0].idx].expr == "key" && !ords[0].desc {
						if strings.Join(bl, ";") != strings.Join(ol, ";") {
							mk("order-by-key-asc-changes-order", strings.Join(ol, " ; "), strings.Join(bl, " ; "))
						}
					}
				}
				if ix%499 == 3 {
					col.Sample(q)
				}
			}
			return nil
		})
		if err != nil {
			return nil, err
		}
	}
	return col.Finish(start), nil
}

func init() { groups["ORDER"] = runORDER }
