package main

import (
	"errors"
	"fmt"
	"strings"
	"time"

	"github.com/c4pt0r/kvql"
)

func smallStore() []KV {
	return []KV{{"a", "1"}, {"ab", "x"}, {"b", "10"}, {"k1", "2"}, {"k2", "abc"}, {"l", ""}}
}

func tokenStarts(q string) map[int]bool {
	m := map[int]bool{}
	safely(func() string {
		for _, t := range kvql.NewLexer(q).Split() {
			m[t.Pos] = true
		}
		return ""
	})
	return m
}

// errposCheck examines one error returned for query q
func errposCheck(col *Collector, q string, err error, stage string, seed, idx uint64) {
	if err == nil {
		return
	}
	var pos int
	var positional bool
	var se *kvql.SyntaxError
	var ee *kvql.ExecuteError
	kind := ""
	if errors.As(err, &se) {
		pos, positional, kind = se.Pos, true, "syntax"
	} else if errors.As(err, &ee) {
		pos, positional, kind = ee.Pos, true, "execute"
	}
	if !positional {
		col.Hist("non-positional-error")
		return
	}
	col.Hist("positional-" + kind + "-" + stage)
	cs := fmt.Sprintf("%q", q)
	mk := func(check, msg string) Finding {
		return Finding{Kind: "property", Group: "ERRPOS", Check: check, Case: cs, Line: "ERRPOS " + hxs(q), Engine: fmt.Sprintf("%s error at %d: %s", kind, pos, firstLine(err)),
			Model: msg, Seed: seed, Index: idx, Properties: []string{"C17"}}
	}
	if pos != -1 && (pos < 0 || pos >= len(q)) {
		col.Find(mk("position-inside-query", fmt.Sprintf("offset %d is not -1 and not inside the query of length %d", pos, len(q))))
		return
	}
	if stage == "plan" && pos > 0 {
		if !tokenStarts(q)[pos] {
			col.Find(mk("position-is-token-start", fmt.Sprintf("offset %d is neither 0 nor the start of a token", pos)))
			return
		}
	}
	// end to end: bind and render
	rendered, panicked := safely(func() string {
		qb := err.(kvql.QueryBinder)
		qb.BindQuery(q)
		return err.Error()
	})
	if panicked {
		f := mk("render-panics", rendered)
		f.Kind = "crash"
		f.Properties = []string{"C17", "C06"}
		col.Find(f)
		return
	}
	if strings.TrimSpace(q) == "" {
		return
	}
	// cut the message trailer: the last line is the padded message
	i := strings.LastIndex(rendered, "\n")
	if i < 0 {
		col.Find(mk("render-shape", "bound error has no query line: "+rendered))
		return
	}
	p := pos
	if msg := errfmtOracle(q, p, kvql.DefaultErrorPadding, rendered[:i+1]); msg != "" {
		if pos >= 0 && pos < len(q) && isASCIISpace(q[pos]) && pos != 0 {
			msg += " (offset points at a blank)"
		}
		col.Find(mk("bound-error-caret", msg))
	}
}

func firstLine(err error) string {
	s := err.Error()
	if i := strings.IndexByte(s, '\n'); i >= 0 {
		s = s[:i]
	}
	if len(s) > 100 {
		s = s[:100]
	}
	return s
}

func runERRPOS(e *Env) (*Summary, error) {
	start := time.Now()
	n := e.n(6000, 200000)
	rule := fmt.Sprintf("%d generated statements (typed grammar: select/put/remove/delete with aliases, functions, order/group/limit), each also as single-edit corruptions (token/character delete, insert, replace, truncate) with random leading/trailing blanks and >70-byte variants; every error returned by Parse, BuildPlan or draining in either mode is examined; non-trivial when a positional error was returned; distinct by query text", n)
	col := NewCollector("ERRPOS", e.Tier, e.Seed, rule)
	saved := kvql.PlanBatchSize
	kvql.PlanBatchSize = 2
	defer func() { kvql.PlanBatchSize = saved }()
	err := e.parallel(func(w int, d *Driver) error {
		for ix := uint64(w); ix < uint64(n); ix += uint64(e.Workers) {
			r := NewRand(e.Seed, "ERRPOS", ix)
			o := defaultOpts()
			o.UpperCase = true
			g := NewGen(r, o)
			q := genStatement(g)
			if r.Chance(1, 4) {
				// make it long, with the fault late
				q = strings.Replace(q, " where ", " where key != 'a long literal that pushes the rest of the statement beyond seventy bytes' & ", 1)
			}
			variants := []string{q}
			for k := 0; k < 3; k++ {
				variants = append(variants, mutate(r, q))
			}
			for _, v := range variants {
				if r.Chance(1, 3) {
					v = strings.Repeat(" ", r.Intn(5)) + v + strings.Repeat(" ", r.Intn(4))
				}
				if strings.Contains(v, "`") && selfRefAlias(v) {
					continue
				}
				col.Eval(1)
				for _, batch := range []bool{false, true} {
					st := NewRefStore(smallStore())
					res := runStatement(v, st, batch, true)
					if res.Panic != "" {
						col.Hist("engine-panic")
						continue // C06's business
					}
					if res.Err != nil {
						col.Nontrivial(v)
						errposCheck(col, v, res.Err, res.ErrStage, e.Seed, ix)
					}
				}
				if ix%997 == 1 {
					col.Sample(v)
				}
			}
		}
		return nil
	})
	if err != nil {
		return nil, err
	}
	return col.Finish(start), nil
}

func selfRefAlias(q string) bool { return false }

// genStatement produces one statement of any kind
func genStatement(g *Gen) string {
	r := g.r
	switch r.Intn(10) {
	case 0:
		// put
		n := 1 + r.Intn(3)
		var ps []string
		for i := 0; i < n; i++ {
			k := quote(pick(r, []string{"a", "n1", "n2", "k1"}))
			if r.Chance(1, 4) {
				k = "'p' + " + k
			}
			v := pick(r, []string{"'v'", "upper(key)", "'x' + key", "str(1 + 2)", "7", "lower('AB')"})
			ps = append(ps, "("+k+", "+v+")")
		}
		return g.kw("put") + " " + strings.Join(ps, ", ")
	case 1:
		n := 1 + r.Intn(3)
		var ks []string
		for i := 0; i < n; i++ {
			ks = append(ks, pick(r, []string{"'a'", "'k1'", "'zz'", "'k' + '2'", "lower('AB')"}))
		}
		return g.kw("remove") + " " + strings.Join(ks, ", ")
	case 2:
		q := g.kw("delete") + " " + g.kw("where") + " " + g.Bool(2)
		if r.Bool() {
			q += fmt.Sprintf(" limit %d", r.Intn(4))
		}
		return q
	}
	q := g.Select()
	if r.Chance(1, 4) && len(g.aliases) > 0 {
		a := pick(r, g.aliases)
		if a.typ != "list" {
			q += " " + g.kw("order") + " " + g.kw("by") + " " + a.name
			if r.Bool() {
				q += " " + g.kw("desc")
			}
		}
	}
	if r.Chance(1, 4) {
		if r.Bool() {
			q += fmt.Sprintf(" limit %d, %d", r.Intn(4), r.Intn(5))
		} else {
			q += fmt.Sprintf(" limit %d", r.Intn(5))
		}
	}
	return q
}

func init() { groups["ERRPOS"] = runERRPOS }
