package main

import (
	"errors"
	"fmt"
	"regexp"
	"sort"
	"strings"
	"sync"
	"time"

	"github.com/c4pt0r/kvql"
)

func smallStore() []KV {
	return []KV{{"a", "1"}, {"ab", "x"}, {"b", "10"}, {"k1", "2"}, {"k2", "abc"}, {"l", ""}}
}

func tokenStarts(q string) map[int]bool {
	m := map[int]bool{}
	safely(func() string {
		for _, t := range kvql.NewLexer(q).Split() {
			// a token start only if the text of the query AT that offset is this token (the lexer's own offsets
			// are not taken on trust: C16 is a different property): words case-insensitively, literals by their quote
			if t.Pos < 0 || t.Pos >= len(q) {
				continue
			}
			rest := q[t.Pos:]
			ok := false
			switch c := rest[0]; {
			case c == '\'' || c == '"' || c == '`':
				ok = true // a literal or quoted name (terminated or not) starts at its quote
			default:
				ok = len(rest) >= len(t.Data) && strings.EqualFold(rest[:len(t.Data)], t.Data)
				if !ok && len(t.Data) > 0 {
					// operators and keywords may be stored in a canonical spelling: accept the same first byte
					ok = rest[0] == t.Data[0] || strings.EqualFold(rest[:1], t.Data[:1])
				}
			}
			if ok {
				m[t.Pos] = true
			}
		}
		return ""
	})
	return m
}

// errposCheck examines one error returned for query q
func errposCheck(col *Collector, q string, err error, stage string, seed, idx uint64) {
	if err == nil {
		return
	}
	var pos int
	var positional bool
	var se *kvql.SyntaxError
	var ee *kvql.ExecuteError
	kind := ""
	if errors.As(err, &se) {
		pos, positional, kind = se.Pos, true, "syntax"
	} else if errors.As(err, &ee) {
		pos, positional, kind = ee.Pos, true, "execute"
	}
	if !positional {
		col.Hist("non-positional-error")
		return
	}
	col.Hist("positional-" + kind + "-" + stage)
	cs := fmt.Sprintf("%q", q)
	mk := func(check, msg string) Finding {
		return Finding{Kind: "property", Group: "ERRPOS", Check: check, Case: cs, Line: "ERRPOS " + hxs(q), Engine: fmt.Sprintf("%s error at %d: %s", kind, pos, firstLine(err)),
			Model: msg, Seed: seed, Index: idx, Properties: []string{"C17"}}
	}
	if pos != -1 && (pos < 0 || pos >= len(q)) {
		col.Find(mk("position-inside-query", fmt.Sprintf("offset %d is not -1 and not inside the query of length %d", pos, len(q))))
		return
	}
	if stage == "plan" && pos > 0 {
		if !tokenStarts(q)[pos] {
			col.Find(mk("position-is-token-start", fmt.Sprintf("offset %d is neither 0 nor the start of a token", pos)))
			return
		}
	}
	// end to end: bind and render
	rendered, panicked := safely(func() string {
		qb := err.(kvql.QueryBinder)
		qb.BindQuery(q)
		return err.Error()
	})
	if panicked {
		f := mk("render-panics", rendered)
		f.Kind = "crash"
		f.Properties = []string{"C17", "C06"}
		col.Find(f)
		return
	}
	if strings.TrimSpace(q) == "" {
		return
	}
	// cut the message trailer: the last line is the padded message
	i := strings.LastIndex(rendered, "\n")
	if i < 0 {
		col.Find(mk("render-shape", "bound error has no query line: "+rendered))
		return
	}
	p := pos
	if msg := errfmtOracle(q, p, kvql.DefaultErrorPadding, rendered[:i+1]); msg != "" {
		if pos >= 0 && pos < len(q) && isASCIISpace(q[pos]) && pos != 0 {
			msg += " (offset points at a blank)"
		}
		col.Find(mk("bound-error-caret", msg))
	}
}

func firstLine(err error) string {
	s := err.Error()
	if i := strings.IndexByte(s, '\n'); i >= 0 {
		s = s[:i]
	}
	if len(s) > 100 {
		s = s[:100]
	}
	return s
}

func runERRPOS(e *Env) (*Summary, error) {
	start := time.Now()
	n := e.n(6000, 200000)
	rule := fmt.Sprintf("%d generated statements (typed grammar: select/put/remove/delete with aliases, functions, order/group/limit), each also as single-edit corruptions (token/character delete, insert, replace, truncate) with random leading/trailing blanks and >70-byte variants; every error returned by Parse, BuildPlan or draining in either mode is examined; non-trivial when a positional error was returned; distinct by query text", n)
	col := NewCollector("ERRPOS", e.Tier, e.Seed, rule)
	saved := kvql.PlanBatchSize
	kvql.PlanBatchSize = 2
	defer func() { kvql.PlanBatchSize = saved }()
	sites := map[string]bool{}
	var sitesMu sync.Mutex
	for ci, cq := range errposCorpus {
		long := strings.Replace(cq, "where ", "where key != 'a long literal that pushes the rest of the statement beyond seventy bytes' & ", 1)
		// (a byte order mark in front of the text is part of the text: offsets count its three bytes)
		for vi, v := range []string{cq, "   " + cq + "  ", "\n\t" + cq, long, strings.Repeat(" ", 40) + long, "\ufeff" + cq, "\ufeff " + cq} {
			if vi >= 3 && !strings.Contains(cq, "where ") {
				continue
			}
			col.Eval(1)
			for _, batch := range []bool{false, true} {
				res := runStatement(v, NewRefStore(smallStore()), batch, true)
				if res.Panic != "" {
					col.Hist("engine-panic")
					continue
				}
				if res.Err != nil {
					col.Nontrivial(v)
					sitesMu.Lock()
					sites[errSite(res.Err)] = true
					sitesMu.Unlock()
					errposCheck(col, v, res.Err, res.ErrStage, e.Seed, uint64(ci))
				}
			}
		}
	}
	err := e.parallel(func(w int, d *Driver) error {
		for ix := uint64(w); ix < uint64(n); ix += uint64(e.Workers) {
			r := NewRand(e.Seed, "ERRPOS", ix)
			o := defaultOpts()
			o.UpperCase = true
			g := NewGen(r, o)
			q := genStatement(g)
			if r.Chance(1, 4) {
				// make it long, with the fault late
				q = strings.Replace(q, " where ", " where key != 'a long literal that pushes the rest of the statement beyond seventy bytes' & ", 1)
			}
			variants := []string{q}
			for k := 0; k < 3; k++ {
				variants = append(variants, mutate(r, q))
			}
			for _, v := range variants {
				if r.Chance(1, 3) {
					v = strings.Repeat(" ", r.Intn(5)) + v + strings.Repeat(" ", r.Intn(4))
				}
				if strings.Contains(v, "`") && selfRefAlias(v) {
					continue
				}
				col.Eval(1)
				for _, batch := range []bool{false, true} {
					st := NewRefStore(smallStore())
					res := runStatement(v, st, batch, true)
					if res.Panic != "" {
						col.Hist("engine-panic")
						continue // C06's business
					}
					if res.Err != nil {
						col.Nontrivial(v)
						sitesMu.Lock()
						sites[errSite(res.Err)] = true
						sitesMu.Unlock()
						errposCheck(col, v, res.Err, res.ErrStage, e.Seed, ix)
					}
				}
				if ix%997 == 1 {
					col.Sample(v)
				}
			}
		}
		return nil
	})
	if err != nil {
		return nil, err
	}
	var sl []string
	for k := range sites {
		sl = append(sl, k)
	}
	sort.Strings(sl)
	joined := strings.Join(sl, " | ")
	if len(joined) > 2500 {
		joined = joined[:2500] + " …"
	}
	col.Note(fmt.Sprintf("%d distinct error message shapes (digits and quoted parts removed, cut at 30 bytes) were reached: %s", len(sl), joined))
	col.Hist("distinct-error-messages")
	col.sum.Histogram["distinct-error-messages"] = len(sl)
	return col.Finish(start), nil
}

var errSiteRe = regexp.MustCompile("[0-9]+|'[^']*'|`[^`]*`|\"[^\"]*\"")

// errSite reduces an error to its message shape (used only to report which error sites were reached)
func errSite(err error) string {
	msg := ""
	var se *kvql.SyntaxError
	var ee *kvql.ExecuteError
	if errors.As(err, &se) {
		msg = "S:" + se.Message
	} else if errors.As(err, &ee) {
		msg = "E:" + ee.Message
	} else {
		msg = "O:" + err.Error()
	}
	msg = errSiteRe.ReplaceAllString(msg, "#")
	if len(msg) > 30 {
		msg = msg[:30]
	}
	return msg
}

// errposCorpus: hand-written erroneous statements aimed at every error site of parser.go,
// checker.go, statement.go and optimizer.go (plan building), so that a wrong offset on ONE
// error path is exercised on every run.
var errposCorpus = []string{
	"", ";", ";;", "foo", "foo bar", "select", "select *", "select * where", "select *, key where key = 'a'", "select key, * where key = 'a'",
	"select * from where key = 'a'", "select key as where key = 'a'", "select key as", "select key as 'x' where key = 'a'", "select key value where key = 'a'",
	"select where key = 'a'", "select key, where key = 'a'", "select key", "select key,", "select key where",
	"where key = 'a' order by key order by key", "select key where key = 'a' order by key order by key desc", "select key, value where key ^= 'k' order by value asc order by key",
	"select key, count(1) where key = 'a' group by key group by key", "where key = 'a' limit 1 limit 2", "where key = 'a' limit 1, 2 limit 3",
	"where key = 'a' limit", "where key = 'a' limit x", "where key = 'a' limit 1,", "where key = 'a' limit 1, x", "where key = 'a' limit 1, 2, 3", "where key = 'a' limit 1 2 3", "where key = 'a' limit 1, 2 key",
	"where key = 'a' order by", "where key = 'a' order", "where key = 'a' order key", "select key where key = 'a' order by nosuch", "select key where key = 'a' order by key,", "select key where key = 'a' order by key desc asc",
	"select key where key = 'a' group by", "select key where key = 'a' group", "select key, count(1) where key = 'a' group by nosuch", "select key, count(1) where key = 'a' group by upper(key)",
	"select key, count(1) as c where key = 'a' group by c", "select key, count(1) where key = 'a' group by count(1)", "select key where key = 'a' group by key",
	"select key, value, count(1) where key = 'a' group by key", "select key, count(1) where key ^= 'a'", "select sum(count(1)) where key = 'a'", "select sum(int(value) + count(1)) where key = 'a'",
	"select split(key, 'a') as l where key = 'a' order by l", "select json(value) as j where key = 'a' order by j", "select key where key = 'a' order by value",
	"where key = 'a' foo", "where key = 'a' 'b'", "where (key = 'a'", "where key = 'a')", "where ((key = 'a')", "where key in", "where key in (", "where key in ('a'", "where key in ('a',", "where key in 'a'", "where key in ()", "where key in ('a', 1)", "where key in (1, 2)",
	"where key between", "where key between 'a'", "where key between 'a' and", "where key between 'a' or 'b'", "where key between 'a', 'b'", "where key between 1 and 2", "where key between 'a' and 2",
	"where upper(key value) = 'A'", "where upper(key = 'A'", "where upper(key, = 'A'", "where upper( = 'A'", "where 'x'(key) = 'A'", "where 1(key) = 2",
	"where json(value)['a' 'b'] = 'x'", "where json(value)[] = 'x'", "where json(value)['a' = 'x'", "where json(value)[key] = 'x'", "where key['a'] = 'x'", "where upper(key)[1] = 'x'", "where json(value)[1.5] = 'x'",
	"where !", "where ! !", "where key =", "where = 'a'", "where key = = 'a'", "where and key = 'a'", "where key = 'a' and", "where key = 'a' &", "where | key = 'a'", "where key", "where 'a'", "where 1", "where key + 'a'",
	"where !key", "where !1", "where !(key + 'a')", "where key = 1", "where 1 = key", "where key & value", "where key = 'a' & value", "where 1 & 2", "where true & key = 'a'", "where key = 'a' | false",
	"where 1 + 'a' = 2", "where 'a' - 'b' = 'c'", "where key * 2 = 2", "where key ^= 1", "where 1 ^= 2", "where key ~= 2", "where true > false", "where (key = 'a') > (key = 'b')", "where key = key", "where value != value",
	"where 1 / 0 = 1", "where 1 / 0.0 = 1", "where int(value) / 0 > 1", "where (key = 'a') + 1 = 2", "where nosuch = 'a'", "where key = nosuch", "where nosuch(key) = 'a'", "where upper() = 'a'", "where upper(key, key) = 'a'", "where substr(key, 'a', 2) = 'a'",
	"where split(key) = 'a'", "where join() = 'a'", "where list()[0] = 1", "where key in split(key)", "where l2_distance(list(1,2), list(1)) > 0", "where cosine_distance(list(1), split('a,b', ',')) > 0",
	"select key, int(value) as n where n = 'a'", "select key as k where k > 1", "select key as k, value as k where k = 'a'", "select upper(key) as u where u", "select key, n where key = 'a'",
	"put", "put (", "put ('a'", "put ('a')", "put ('a',", "put ('a' 'b')", "put ('a', 'b'", "put ('a', 'b') ('c', 'd')", "put ('a', 'b'),", "put ('a', 'b'), 'c'", "put ('a', value)", "put (value, 'a')", "put ('a', 'b' = 'c')", "put (key = 'a', 'b')", "put ('a', split('a', ','))", "put ('a', json('{}'))", "put 'a', 'b'", "put ('a', 'b', 'c')", "put ('a', nosuch('b'))", "put ('a', upper())", "put ('a', 1/0)",
	"remove", "remove key", "remove value", "remove 'a' 'b'", "remove 'a',", "remove ,", "remove 'a' = 'b'", "remove split('a', ',')", "remove upper(key)", "remove nosuch('a')", "remove ('a'",
	"delete", "delete key = 'a'", "delete where", "delete where key", "delete where key = 'a' limit", "delete where key = 'a' limit 1 limit 2", "delete where key = 'a' foo", "delete where key = 'a' limit 1 x", "delete where key = 'a' limit 1,", "delete where key = 1", "delete from where key = 'a'", "delete where key = 'a' order by key",
	"select * where key = 'abc", "select * where key = \"abc", "select `a b where key = 'a'", "select * where key ^ 'a'", "select * where key ~ 'a'", "select * where key == 'a'", "select * where key <> 'a'", "select * where key =! 'a'",
}

func selfRefAlias(q string) bool { return false }

// genStatement produces one statement of any kind
func genStatement(g *Gen) string {
	r := g.r
	switch r.Intn(10) {
	case 0:
		// put
		n := 1 + r.Intn(3)
		var ps []string
		for i := 0; i < n; i++ {
			k := quote(pick(r, []string{"a", "n1", "n2", "k1"}))
			if r.Chance(1, 4) {
				k = "'p' + " + k
			}
			v := pick(r, []string{"'v'", "upper(key)", "'x' + key", "str(1 + 2)", "7", "lower('AB')"})
			ps = append(ps, "("+k+", "+v+")")
		}
		return g.kw("put") + " " + strings.Join(ps, ", ")
	case 1:
		n := 1 + r.Intn(3)
		var ks []string
		for i := 0; i < n; i++ {
			ks = append(ks, pick(r, []string{"'a'", "'k1'", "'zz'", "'k' + '2'", "lower('AB')"}))
		}
		return g.kw("remove") + " " + strings.Join(ks, ", ")
	case 2:
		q := g.kw("delete") + " " + g.kw("where") + " " + g.Bool(2)
		if r.Bool() {
			q += fmt.Sprintf(" limit %d", r.Intn(4))
		}
		return q
	}
	q := g.Select()
	if r.Chance(1, 4) && len(g.aliases) > 0 {
		a := pick(r, g.aliases)
		if a.typ != "list" {
			q += " " + g.kw("order") + " " + g.kw("by") + " " + a.name
			if r.Bool() {
				q += " " + g.kw("desc")
			}
		}
	}
	if r.Chance(1, 4) {
		if r.Bool() {
			q += fmt.Sprintf(" limit %d, %d", r.Intn(4), r.Intn(5))
		} else {
			q += fmt.Sprintf(" limit %d", r.Intn(5))
		}
	}
	return q
}

func init() { groups["ERRPOS"] = runERRPOS }
