package main

import (
	"fmt"
	"strings"
)

// Typed statement generator. Every random choice comes from the Rand passed in.
// Features are switched per group so that each property's domain can be respected.

type GenOpts struct {
	KeyLits    []string // literals compared with key
	ValLits    []string // other text literals
	Aliases    bool     // select fields with aliases used in where
	Funcs      bool     // scalar functions
	Floats     bool     // float literals and float()
	Json       bool     // json(value)[..]
	Lists      bool     // split/list/in <list-valued>
	Regex      bool
	Between    bool
	In         bool
	Arith      bool
	Not        bool
	KWOps      bool // and / or spelled as words
	LitLeft    bool // literal on the left of a comparison with key
	MaxDepth   int
	NumericVal bool // values in the store are decimal integers (int(value) meaningful)
	UpperCase  bool // random letter case for keywords
	// OrderedBetween: literal BETWEEN bounds are strictly ascending (lower >= upper is a run-time error of
	// the engine, i.e. outside the domain of properties that speak about evaluable statements)
	OrderedBetween bool
	// ListFields: select fields may be list-valued (split/list/int_list/float_list)
	ListFields bool
	// UserFunc: text expressions may call vmark(text), the scalar function userfunc.go registers
	// without a vector form
	UserFunc bool
}

func defaultOpts() GenOpts {
	return GenOpts{
		KeyLits: []string{"", "a", "ab", "b", "ba", "k1", "k2", "k", "l"},
		ValLits: []string{"", "x", "1", "2", "10", "v", "abc"},
		Aliases: true, Funcs: true, Floats: true, Json: false, Lists: true, Regex: true, Between: true, In: true, Arith: true, Not: true, KWOps: true, LitLeft: true,
		MaxDepth: 3, NumericVal: true,
	}
}

type aliasInfo struct {
	name string
	typ  string // "str" | "num" | "bool" | "list"
	expr string
}

type Gen struct {
	r       *Rand
	o       GenOpts
	aliases []aliasInfo
	// histogram hooks
	used map[string]int
}

func NewGen(r *Rand, o GenOpts) *Gen { return &Gen{r: r, o: o, used: map[string]int{}} }

func (g *Gen) note(s string) { g.used[s]++ }

func (g *Gen) kw(s string) string {
	if g.o.UpperCase && g.r.Chance(1, 3) {
		if g.r.Bool() {
			return strings.ToUpper(s)
		}
		b := []byte(s)
		for i := range b {
			if g.r.Bool() && b[i] >= 'a' && b[i] <= 'z' {
				b[i] -= 32
			}
		}
		return string(b)
	}
	return s
}

func quote(s string) string {
	if !strings.Contains(s, "'") {
		return "'" + s + "'"
	}
	return "\"" + s + "\""
}

func (g *Gen) strLit(keyish bool) string {
	if keyish {
		return quote(pick(g.r, g.o.KeyLits))
	}
	return quote(pick(g.r, g.o.ValLits))
}

func (g *Gen) aliasOf(typ string) (string, bool) {
	if !g.o.Aliases {
		return "", false
	}
	var c []string
	for _, a := range g.aliases {
		if a.typ == typ {
			c = append(c, a.name)
		}
	}
	if len(c) == 0 {
		return "", false
	}
	g.note("alias-ref")
	return pick(g.r, c), true
}

// Str generates a text-typed expression
func (g *Gen) Str(d int) string {
	if d <= 0 || g.r.Chance(2, 5) {
		switch g.r.Intn(6) {
		case 0, 1:
			return g.kw("key")
		case 2, 3:
			return g.kw("value")
		case 4:
			if a, ok := g.aliasOf("str"); ok {
				return a
			}
			return g.strLit(false)
		default:
			return g.strLit(g.r.Bool())
		}
	}
	if !g.o.Funcs {
		if g.o.Arith && g.r.Chance(1, 3) {
			g.note("concat")
			return "(" + g.Str(d-1) + " + " + g.Str(d-1) + ")"
		}
		return g.Str(0)
	}
	switch g.r.Intn(8) {
	case 0:
		g.note("lower")
		return g.kw("lower") + "(" + g.Str(d-1) + ")"
	case 1:
		g.note("upper")
		return "upper(" + g.Str(d-1) + ")"
	case 2:
		g.note("str")
		return "str(" + g.Num(d-1) + ")"
	case 3:
		g.note("substr")
		a := g.r.Intn(3)
		return fmt.Sprintf("substr(%s, %d, %d)", g.Str(d-1), a, a+g.r.Intn(3))
	case 4:
		if g.o.Arith {
			g.note("concat")
			return "(" + g.Str(d-1) + " + " + g.Str(d-1) + ")"
		}
		return g.Str(0)
	case 5:
		g.note("join")
		return "join(" + quote(pick(g.r, []string{",", "-", ""})) + ", " + g.Str(d-1) + ", " + g.Str(d-1) + ")"
	case 6:
		if g.o.Json {
			g.note("json")
			return "json(value)[" + quote(pick(g.r, []string{"a", "b", "s"})) + "]"
		}
		return g.Str(0)
	default:
		if g.o.UserFunc {
			g.note("vmark")
			return "vmark(" + g.Str(d-1) + ")"
		}
		return g.Str(0)
	}
}

func (g *Gen) intLit() string {
	return pick(g.r, []string{"0", "1", "2", "3", "10", "7", "100"})
}

func (g *Gen) Num(d int) string {
	if d <= 0 || g.r.Chance(2, 5) {
		switch g.r.Intn(5) {
		case 0, 1:
			return g.intLit()
		case 2:
			if g.o.Floats {
				g.note("float-lit")
				return pick(g.r, []string{"0.5", "1.5", "2.0", "0.25", "10.0"})
			}
			return g.intLit()
		case 3:
			if a, ok := g.aliasOf("num"); ok {
				return a
			}
			return g.intLit()
		default:
			if g.o.Funcs && g.o.NumericVal {
				g.note("int(value)")
				return "int(value)"
			}
			return g.intLit()
		}
	}
	switch g.r.Intn(8) {
	case 0:
		if g.o.Funcs {
			g.note("int")
			return "int(" + g.NumText(d-1) + ")"
		}
	case 1:
		if g.o.Funcs && g.o.Floats {
			g.note("float")
			return "float(" + g.NumText(d-1) + ")"
		}
	case 2:
		if g.o.Funcs {
			g.note("strlen")
			return "strlen(" + g.Str(d-1) + ")"
		}
	case 3:
		if g.o.Funcs && g.o.Lists {
			g.note("len")
			return "len(" + g.List(d-1) + ")"
		}
	case 4, 5, 6:
		if g.o.Arith {
			op := pick(g.r, []string{"+", "-", "*", "/"})
			g.note("arith" + op)
			r := g.Num(d - 1)
			if op == "/" {
				r = pick(g.r, []string{"1", "2", "3"})
			}
			return "(" + g.Num(d-1) + " " + op + " " + r + ")"
		}
	}
	return g.Num(0)
}

// NumText: a text expression that reads as a number
func (g *Gen) NumText(d int) string {
	switch g.r.Intn(4) {
	case 0:
		return quote(pick(g.r, []string{"1", "2", "10", "-3", "7"}))
	case 1:
		if g.o.Floats {
			return quote(pick(g.r, []string{"1.5", "0.25", "2"}))
		}
		return "'4'"
	default:
		if g.o.NumericVal {
			return g.kw("value")
		}
		return "'5'"
	}
}

func (g *Gen) List(d int) string {
	switch g.r.Intn(4) {
	case 0:
		g.note("split")
		return "split(" + g.Str(d-1) + ", " + quote(pick(g.r, []string{",", "-", "a"})) + ")"
	case 1:
		g.note("int_list")
		return "int_list(" + g.Num(0) + ", " + g.Num(0) + ")"
	case 2:
		if g.o.Floats {
			g.note("float_list")
			return "float_list(" + g.Num(0) + ", 1.5)"
		}
		fallthrough
	default:
		g.note("list")
		return "list(" + g.intLit() + ", " + g.intLit() + ", " + g.intLit() + ")"
	}
}

func (g *Gen) and() string {
	if g.o.KWOps && g.r.Chance(1, 3) {
		return g.kw("and")
	}
	return "&"
}
func (g *Gen) or() string {
	if g.o.KWOps && g.r.Chance(1, 3) {
		return g.kw("or")
	}
	return "|"
}

// KeyAtom: an atom that constrains the key
func (g *Gen) KeyAtom() string {
	lit := g.strLit(true)
	k := g.kw("key")
	choices := []string{"=", "^=", ">", ">=", "<", "<="}
	n := len(choices)
	if g.o.In {
		n++
	}
	if g.o.Between {
		n++
	}
	c := g.r.Intn(n)
	if c < len(choices) {
		op := choices[c]
		g.note("key" + op)
		if g.o.LitLeft && op != "^=" && g.r.Chance(1, 4) {
			g.note("lit-left")
			return lit + " " + op + " " + k
		}
		return k + " " + op + " " + lit
	}
	if c == len(choices) && g.o.In {
		g.note("key-in")
		m := 1 + g.r.Intn(3)
		items := make([]string, m)
		for i := range items {
			items[i] = g.strLit(true)
		}
		return k + " " + g.kw("in") + " (" + strings.Join(items, ", ") + ")"
	}
	g.note("key-between")
	if g.o.OrderedBetween {
		a, b := pick(g.r, g.o.KeyLits), pick(g.r, g.o.KeyLits)
		for tries := 0; a == b && tries < 8; tries++ {
			b = pick(g.r, g.o.KeyLits)
		}
		if a == b {
			b = a + "z"
		}
		if a > b {
			a, b = b, a
		}
		return k + " " + g.kw("between") + " " + quote(a) + " " + g.kw("and") + " " + quote(b)
	}
	return k + " " + g.kw("between") + " " + lit + " " + g.kw("and") + " " + g.strLit(true)
}

func (g *Gen) Bool(d int) string {
	if d <= 0 || g.r.Chance(1, 3) {
		switch g.r.Intn(7) {
		case 0, 1, 2:
			return g.KeyAtom()
		case 3:
			op := pick(g.r, []string{"=", "!=", "^=", "<", ">=", ">", "<="})
			g.note("str" + op)
			return g.Str(d-1) + " " + op + " " + g.Str(d-1)
		case 4:
			op := pick(g.r, []string{"=", "!=", "<", ">=", ">", "<="})
			g.note("num" + op)
			return g.Num(d-1) + " " + op + " " + g.Num(d-1)
		case 5:
			if g.o.Funcs {
				g.note("is_int")
				return pick(g.r, []string{"is_int", "is_float"}) + "(" + g.Str(d-1) + ")"
			}
			return g.KeyAtom()
		default:
			if a, ok := g.aliasOf("bool"); ok && d > 0 {
				// a Boolean alias may only stand as an operand of & | (the checker requires an expression there)
				return "(" + a + " " + g.and() + " " + g.KeyAtom() + ")"
			}
			if g.o.Regex {
				g.note("regex")
				return g.Str(0) + " ~= " + quote(pick(g.r, []string{"^a", "b$", "1", "^k[0-9]$", "."}))
			}
			return g.KeyAtom()
		}
	}
	switch g.r.Intn(8) {
	case 0, 1, 2:
		g.note("and")
		return "(" + g.Bool(d-1) + " " + g.and() + " " + g.Bool(d-1) + ")"
	case 3, 4:
		g.note("or")
		return "(" + g.Bool(d-1) + " " + g.or() + " " + g.Bool(d-1) + ")"
	case 5:
		if g.o.Not {
			g.note("not")
			return "!(" + g.Bool(d-1) + ")"
		}
	case 6:
		if g.o.In {
			g.note("in")
			if g.r.Bool() {
				return g.Str(d-1) + " " + g.kw("in") + " (" + g.strLit(false) + ", " + g.strLit(false) + ")"
			}
			return g.Num(d-1) + " in (" + g.intLit() + ", " + g.intLit() + ")"
		}
	case 7:
		if g.o.Between {
			g.note("between")
			if g.r.Bool() {
				return g.Str(d-1) + " between 'a' and 'l'"
			}
			return g.Num(d-1) + " between 1 and 10"
		}
	}
	return g.Bool(0)
}

// Fields generates a select list, registering aliases
func (g *Gen) Fields() string {
	if g.r.Chance(1, 3) {
		return "*"
	}
	n := 1 + g.r.Intn(3)
	var fs []string
	for i := 0; i < n; i++ {
		var e, typ string
		switch g.r.Intn(5) {
		case 0, 1:
			e, typ = g.Str(2), "str"
		case 2:
			e, typ = g.Num(2), "num"
		case 3:
			if g.o.Lists && g.o.ListFields {
				e, typ = g.List(1), "list"
			} else {
				e, typ = g.Str(1), "str"
			}
		default:
			if g.r.Bool() {
				e, typ = g.Str(1), "str"
			} else {
				e, typ = g.Bool(1), "bool"
			}
		}
		if g.o.Aliases && g.r.Chance(2, 3) {
			name := fmt.Sprintf("f%d", len(g.aliases)+1)
			g.aliases = append(g.aliases, aliasInfo{name, typ, e})
			fs = append(fs, e+" "+g.kw("as")+" "+name)
			g.note("alias-def")
		} else {
			fs = append(fs, e)
		}
	}
	return strings.Join(fs, ", ")
}

// Select generates `select … where …`
func (g *Gen) Select() string {
	f := g.Fields()
	w := g.Bool(g.o.MaxDepth)
	return g.kw("select") + " " + f + " " + g.kw("where") + " " + w
}

// mutate applies one single-edit corruption to a query (token- or character-level)
func mutate(r *Rand, q string) string {
	junk := []string{"(", ")", ",", "'", "\"", "=", "!", "&", "|", "and", "key", "1", "x", "[", "]", "in", "between", "limit", ";", "+", " ", "^", "order by", "as", "`"}
	toks := strings.Fields(q)
	switch r.Intn(6) {
	case 0: // delete a token
		if len(toks) > 1 {
			i := r.Intn(len(toks))
			return strings.Join(append(append([]string{}, toks[:i]...), toks[i+1:]...), " ")
		}
	case 1: // insert junk token
		i := r.Intn(len(toks) + 1)
		n := append(append(append([]string{}, toks[:i]...), pick(r, junk)), toks[i:]...)
		return strings.Join(n, " ")
	case 2: // replace a token
		if len(toks) > 0 {
			i := r.Intn(len(toks))
			n := append([]string{}, toks...)
			n[i] = pick(r, junk)
			return strings.Join(n, " ")
		}
	case 3: // delete a character
		if len(q) > 1 {
			i := r.Intn(len(q))
			return q[:i] + q[i+1:]
		}
	case 4: // insert a character
		i := r.Intn(len(q) + 1)
		return q[:i] + pick(r, junk) + q[i:]
	case 5: // truncate
		if len(q) > 1 {
			return q[:1+r.Intn(len(q)-1)]
		}
	}
	return q + " " + pick(r, junk)
}

// ---------------------------------------------------------------- extended expression generator (EVAL)
//
// X* methods generate expressions for the evaluator groups: every scalar function with
// arguments of its documented types, constant and row-dependent arguments, aliases at any
// position (function arguments included), `in` over literal lists / list-valued calls / list
// aliases, `[n]` on every list kind and JSON navigation.  With g.Wild > 0 an argument is
// drawn, with probability Wild/100, from ANY type (Check does not type function arguments, so
// such statements are accepted and fail - or not - at execution): correspondence only.

type XGen struct {
	*Gen
	Wild     int  // percent of ill-typed/odd constructions
	JsonVals bool // values of the store are JSON documents
	hasFA    bool // a field access was generated (C14 exempts those)
	numStr   []string
	// Wide (EVAL only): vectors of 4–9 and 33–40 elements of a common length for the distance
	// functions, long lists under len / [n], integer literals with ≥ 10 digits and beyond 2^53
	Wide bool
}

func NewXGen(r *Rand, o GenOpts) *XGen {
	return &XGen{Gen: NewGen(r, o), numStr: []string{"1", "2", "10", "-3", "7", "1.5", "0.25", "2.0"}}
}

// xIntLit: an integer literal; with Wide one in ten has ≥ 10 digits
func (g *XGen) xIntLit() string {
	if g.Wide && g.r.Chance(1, 10) {
		return pick(g.r, []string{"1234567890", "4294967296", "9007199254740993", "1234567890123456789", "9223372036854775807", "2147483648"})
	}
	return g.intLit()
}

// xVecN: a numeric list of exactly n elements
func (g *XGen) xVecN(n int) string {
	p := make([]string, n)
	fl := g.r.Bool()
	for i := range p {
		if fl {
			p[i] = g.xFloatLit()
		} else {
			p[i] = g.xIntLit()
		}
	}
	if g.r.Chance(1, 3) {
		p[g.r.Intn(n)] = g.XNum(0)
	}
	name := "list"
	if fl {
		name = pick(g.r, []string{"list", "float_list", "flist"})
	} else {
		name = pick(g.r, []string{"list", "int_list", "ilist", "float_list"})
	}
	return name + "(" + strings.Join(p, ", ") + ")"
}

func (g *XGen) xWideLen() int {
	if g.r.Chance(1, 5) {
		return 33 + g.r.Intn(8)
	}
	return 4 + g.r.Intn(6)
}

func (g *XGen) wild() bool { return g.Wild > 0 && g.r.Intn(100) < g.Wild }

// XAny: an expression of any scalar type
func (g *XGen) XAny(d int) string {
	switch g.r.Intn(4) {
	case 0:
		return g.XNum(d)
	case 1:
		if g.wild() {
			return g.XBool(d)
		}
		return g.XStr(d)
	default:
		return g.XStr(d)
	}
}

func (g *XGen) xTextArg(d int) string {
	if g.wild() {
		switch g.r.Intn(4) {
		case 0:
			return g.XNum(d)
		case 1:
			return g.XBool(d)
		case 2:
			return g.XList(d)
		default:
			return "json(value)"
		}
	}
	return g.XStr(d)
}

func (g *XGen) xNumArg(d int) string {
	if g.wild() {
		switch g.r.Intn(3) {
		case 0:
			return g.XStr(d)
		case 1:
			return g.XBool(d)
		default:
			return g.XList(d)
		}
	}
	return g.XNum(d)
}

func (g *XGen) xSep() string {
	return quote(pick(g.r, []string{",", "-", "a", "", ", ", "ab"}))
}

func (g *XGen) XStr(d int) string {
	if d <= 0 || g.r.Chance(1, 3) {
		switch g.r.Intn(7) {
		case 0, 1:
			return g.kw("key")
		case 2, 3:
			return g.kw("value")
		case 4:
			if a, ok := g.aliasOf("str"); ok {
				return a
			}
			return g.strLit(false)
		default:
			return g.strLit(g.r.Bool())
		}
	}
	switch g.r.Intn(12) {
	case 0:
		g.note("lower")
		return g.kw("lower") + "(" + g.xTextArg(d-1) + ")"
	case 1:
		g.note("upper")
		return "upper(" + g.xTextArg(d-1) + ")"
	case 2:
		g.note("str")
		return "str(" + g.XAny(d-1) + ")"
	case 3:
		g.note("substr")
		var s, e string
		if g.r.Chance(1, 3) {
			s, e = g.xNumArg(d-1), g.xNumArg(d-1)
		} else {
			a := g.r.Intn(4)
			s, e = fmt.Sprint(a), fmt.Sprint(a+g.r.Intn(4)-1)
			if e == "-1" {
				e = "0"
			}
		}
		return "substr(" + g.xTextArg(d-1) + ", " + s + ", " + e + ")"
	case 4, 5:
		g.note("concat")
		return "(" + g.XStr(d-1) + " + " + g.XStr(d-1) + ")"
	case 6:
		g.note("join")
		n := 1 + g.r.Intn(3)
		if g.wild() {
			n = g.r.Intn(2)
		}
		sep := g.xSep()
		if g.r.Chance(1, 5) {
			sep = g.XStr(0)
		}
		if g.wild() {
			sep = g.XNum(0)
		}
		p := []string{sep}
		for i := 0; i < n; i++ {
			p = append(p, g.XAny(d-1))
		}
		if g.wild() && g.r.Chance(1, 3) {
			p = nil
		}
		return "join(" + strings.Join(p, ", ") + ")"
	case 7:
		g.note("json-nav")
		g.hasFA = true
		src := "value"
		if g.r.Chance(1, 4) {
			src = g.XStr(d - 1)
		}
		switch g.r.Intn(6) {
		case 0:
			return "json(" + src + ")['a']"
		case 1:
			return "json(" + src + ")['o']['b']"
		case 2:
			return fmt.Sprintf("json("+src+")['l'][%d]", g.r.Intn(4))
		case 3:
			return "json(" + src + ")['s']"
		case 4:
			return fmt.Sprintf("json("+src+")['o']['l'][%d]", g.r.Intn(3))
		default:
			return "json(" + src + ")[" + quote(pick(g.r, []string{"a", "b", "zz", "n", "t"})) + "]"
		}
	case 8:
		g.note("list-index")
		g.hasFA = true
		if g.Wide && g.r.Chance(1, 4) {
			n := g.xWideLen()
			return fmt.Sprintf("%s[%d]", g.xVecN(n), pick(g.r, []int{0, n / 2, n - 1, n}))
		}
		return fmt.Sprintf("%s[%d]", g.XList(d-1), g.r.Intn(4))
	case 9:
		if g.wild() {
			// constructions Check lets through: odd field names after a field access, unknown functions, wrong arity
			g.hasFA = true
			switch g.r.Intn(5) {
			case 0:
				return "json(value)['a'][key]"
			case 1:
				return pick(g.r, []string{"foo", "uper", "count"}) + "(" + g.XStr(d-1) + ")"
			case 2:
				return "upper(" + g.XStr(d-1) + ", " + g.XStr(d-1) + ")"
			case 3:
				return "lower()"
			default:
				return "json(value)['l']['x']"
			}
		}
		return g.XStr(d - 1)
	default:
		return g.XStr(0)
	}
}

func (g *XGen) xFloatLit() string {
	return pick(g.r, []string{"0.5", "1.5", "2.0", "0.25", "10.0", "3.75"})
}

func (g *XGen) XNum(d int) string {
	if d <= 0 || g.r.Chance(1, 3) {
		switch g.r.Intn(6) {
		case 0, 1:
			return g.xIntLit()
		case 2:
			g.note("float-lit")
			return g.xFloatLit()
		case 3:
			if a, ok := g.aliasOf("num"); ok {
				return a
			}
			return g.xIntLit()
		case 4:
			g.note("int(value)")
			return "int(value)"
		default:
			g.note("float(value)")
			return "float(value)"
		}
	}
	switch g.r.Intn(11) {
	case 0:
		g.note("int")
		return "int(" + g.xNumText(d-1) + ")"
	case 1:
		g.note("float")
		return "float(" + g.xNumText(d-1) + ")"
	case 2:
		g.note("strlen")
		return "strlen(" + g.XAny(d-1) + ")"
	case 3:
		g.note("len")
		if g.wild() {
			return "len(" + g.XAny(d-1) + ")"
		}
		if g.Wide && g.r.Chance(1, 4) {
			return "len(" + g.xVecN(g.xWideLen()) + ")"
		}
		return "len(" + g.XList(d-1) + ")"
	case 4, 5, 6:
		op := pick(g.r, []string{"+", "-", "*", "/"})
		g.note("arith" + op)
		r := g.XNum(d - 1)
		if op == "/" && !g.r.Chance(1, 4) {
			r = pick(g.r, []string{"1", "2", "3", "0.5"})
		}
		return "(" + g.XNum(d-1) + " " + op + " " + r + ")"
	case 7:
		g.note("l2_distance")
		if g.Wide && g.r.Chance(1, 3) {
			n := g.xWideLen()
			return "l2_distance(" + g.xVecN(n) + ", " + g.xVecN(n) + ")"
		}
		return "l2_distance(" + g.xVec(d-1) + ", " + g.xVec(d-1) + ")"
	case 8:
		g.note("cosine_distance")
		if g.Wide && g.r.Chance(1, 3) {
			n := g.xWideLen()
			return "cosine_distance(" + g.xVecN(n) + ", " + g.xVecN(n) + ")"
		}
		return "cosine_distance(" + g.xVec(d-1) + ", " + g.xVec(d-1) + ")"
	case 9:
		if g.wild() {
			return pick(g.r, []string{"int()", "len(key, key)", "float(key, 1)", "sum(int(value))"})
		}
		return g.XNum(d - 1)
	default:
		return g.XNum(0)
	}
}

// a list-typed argument for the distance functions (mostly length 2-3 so that lengths agree often)
func (g *XGen) xVec(d int) string {
	if g.wild() {
		return g.XAny(d)
	}
	switch g.r.Intn(6) {
	case 0:
		return "split(value, ',')"
	case 1:
		if a, ok := g.aliasOf("list:num"); ok {
			return a
		}
		fallthrough
	case 2:
		return "list(" + g.XNum(0) + ", " + g.XNum(0) + ")"
	case 3:
		return "float_list(" + g.XNum(0) + ", " + g.xFloatLit() + ")"
	case 4:
		return "int_list(" + g.intLit() + ", " + g.XNum(0) + ", " + g.intLit() + ")"
	default:
		return "flist(" + g.xFloatLit() + ", " + g.xFloatLit() + ", " + g.XNum(0) + ")"
	}
}

// a text or number expression that reads as a number
func (g *XGen) xNumText(d int) string {
	if g.wild() {
		return g.XAny(d)
	}
	switch g.r.Intn(6) {
	case 0:
		return quote(pick(g.r, g.numStr))
	case 1:
		return g.XNum(d)
	case 2:
		return "str(" + g.XNum(d) + ")"
	case 3:
		return g.kw("key")
	default:
		return g.kw("value")
	}
}

// XList: a list-valued expression of any element type
func (g *XGen) XList(d int) string {
	if g.r.Chance(1, 3) {
		return g.XListOf(d, "str")
	}
	return g.XListOf(d, "num")
}

// XListOf: a list-valued expression whose elements are texts ("str": split) or numbers ("num")
func (g *XGen) XListOf(d int, elem string) string {
	if a, ok := g.aliasOf("list:" + elem); ok && g.r.Chance(1, 4) {
		return a
	}
	if elem == "str" {
		g.note("split")
		sep := g.xSep()
		if g.wild() {
			sep = g.XNum(0)
		}
		return "split(" + g.xTextArg(d-1) + ", " + sep + ")"
	}
	switch g.r.Intn(7) {
	case 0, 1:
		g.note("int_list")
		a := g.XNum(d - 1)
		if g.r.Chance(1, 4) {
			a = g.xNumText(d - 1)
		}
		return pick(g.r, []string{"int_list", "ilist"}) + "(" + a + ", " + g.XNum(0) + ")"
	case 2:
		g.note("float_list")
		return pick(g.r, []string{"float_list", "flist"}) + "(" + g.XNum(d-1) + ", " + g.xFloatLit() + ")"
	case 3:
		g.note("list-int")
		return "list(" + g.intLit() + ", " + g.XNum(0) + ", " + g.intLit() + ")"
	case 4:
		g.note("list-float")
		return "list(" + g.xFloatLit() + ", " + g.XNum(0) + ")"
	case 5:
		if g.wild() {
			g.note("list-text")
			return "list(" + g.xNumText(0) + ", " + quote(pick(g.r, g.numStr)) + ")"
		}
		fallthrough
	default:
		if g.wild() {
			return pick(g.r, []string{"list()", "int_list()", "flist()", "split(key)", "list(key, 1)"})
		}
		g.note("list-int")
		return "list(" + g.XNum(0) + ")"
	}
}

func (g *XGen) xItems(typ string, d int) string {
	n := 1 + g.r.Intn(3)
	it := make([]string, n)
	for i := range it {
		switch {
		case g.wild():
			it[i] = g.XAny(0)
		case typ == "str":
			if g.r.Chance(1, 3) {
				it[i] = g.XStr(d)
			} else {
				it[i] = g.strLit(g.r.Bool())
			}
		default:
			if g.r.Chance(1, 3) {
				it[i] = g.XNum(d)
			} else {
				it[i] = g.intLit()
			}
		}
	}
	return "(" + strings.Join(it, ", ") + ")"
}

func (g *XGen) XBool(d int) string {
	if d <= 0 || g.r.Chance(1, 4) {
		switch g.r.Intn(8) {
		case 0:
			return g.KeyAtom()
		case 1, 2:
			op := pick(g.r, []string{"=", "!=", "^=", "<", ">=", ">", "<="})
			g.note("str" + op)
			return g.XStr(d-1) + " " + op + " " + g.XStr(d-1)
		case 3, 4:
			op := pick(g.r, []string{"=", "!=", "<", ">=", ">", "<="})
			g.note("num" + op)
			return g.XNum(d-1) + " " + op + " " + g.XNum(d-1)
		case 5:
			g.note("is_int")
			return pick(g.r, []string{"is_int", "is_float"}) + "(" + g.XAny(d-1) + ")"
		case 6:
			if a, ok := g.aliasOf("bool"); ok {
				return "(" + a + " " + pick(g.r, []string{"&", "|", "and", "or"}) + " " + g.KeyAtom() + ")"
			}
			fallthrough
		default:
			g.note("regex")
			pat := pick(g.r, []string{"^a", "b$", "1", "^k[0-9]$", ".", "^$", "", "a.c", "[0-9][0-9]", "^1.5$"})
			if g.wild() {
				pat = pick(g.r, []string{"(", "[", "*a", "?", ")"})
			}
			return g.XStr(d-1) + " ~= " + quote(pat)
		}
	}
	switch g.r.Intn(10) {
	case 0, 1:
		g.note("and")
		return "(" + g.XBool(d-1) + " " + g.and() + " " + g.XBool(d-1) + ")"
	case 2, 3:
		g.note("or")
		return "(" + g.XBool(d-1) + " " + g.or() + " " + g.XBool(d-1) + ")"
	case 4:
		g.note("not")
		if g.wild() {
			return "!(" + pick(g.r, []string{"key ^= 1", "key(1)", "f1 = 'a'", "key", "1 + 'a'", "'x'('y')"}) + ")"
		}
		return "!(" + g.XBool(d-1) + ")"
	case 5, 6:
		g.note("in")
		switch g.r.Intn(6) {
		case 5:
			// the element kind of a list-valued call / alias is dynamic: the checker accepts the test
			// whatever the elements turn out to be (`1 in split(value, ',')`, `key in list(1, 2)`);
			// an element of another kind than the left operand simply does not match
			g.note("in-dyn-elem")
			if g.r.Bool() {
				if a, ok := g.aliasOf("list:str"); ok && g.r.Bool() {
					return g.XNum(d-1) + " in " + a
				}
				return g.XNum(d-1) + " in " + g.XListOf(d-1, "str")
			}
			if a, ok := g.aliasOf("list:num"); ok && g.r.Bool() {
				return g.XStr(d-1) + " in " + a
			}
			return g.XStr(d-1) + " in " + g.XListOf(d-1, "num")
		case 0:
			return g.XStr(d-1) + " " + g.kw("in") + " " + g.xItems("str", d-1)
		case 1:
			return g.XNum(d-1) + " in " + g.xItems("num", d-1)
		case 2:
			return g.XStr(d-1) + " in " + g.XListOf(d-1, "str")
		case 3:
			return g.XNum(d-1) + " in " + g.XListOf(d-1, "num")
		default:
			if a, ok := g.aliasOf("list:str"); ok && g.r.Bool() {
				return g.XStr(d-1) + " in " + a
			}
			if a, ok := g.aliasOf("list:num"); ok {
				return g.XNum(d-1) + " in " + a
			}
			return g.XStr(d-1) + " in split(value, ',')"
		}
	case 7, 8:
		g.note("between")
		if g.r.Bool() {
			lo, hi := g.strLit(true), g.strLit(true)
			if g.r.Chance(1, 3) {
				lo, hi = g.XStr(d-1), g.XStr(d-1)
			}
			return g.XStr(d-1) + " between " + lo + " and " + hi
		}
		lo, hi := g.intLit(), g.intLit()
		if g.r.Chance(1, 3) {
			lo, hi = g.XNum(d-1), g.XNum(d-1)
		}
		return g.XNum(d-1) + " between " + lo + " and " + hi
	default:
		return g.XBool(0)
	}
}

// XFields: `E1 as f1, E2 as f2, …` with every field named, of mixed types (list-typed included)
func (g *XGen) XFields(n int) []string {
	var fs []string
	for i := 0; i < n; i++ {
		var e, typ string
		switch g.r.Intn(6) {
		case 0, 1:
			e, typ = g.XStr(2), "str"
		case 2, 3:
			e, typ = g.XNum(2), "num"
		case 4:
			if g.r.Chance(1, 3) {
				e, typ = g.XListOf(2, "str"), "list:str"
			} else {
				e, typ = g.XListOf(2, "num"), "list:num"
			}
		default:
			e, typ = g.XBool(1), "bool"
		}
		name := fmt.Sprintf("f%d", len(g.aliases)+1)
		fs = append(fs, e+" "+g.kw("as")+" "+name)
		g.aliases = append(g.aliases, aliasInfo{name, typ, e})
		g.note("alias-def")
	}
	return fs
}
