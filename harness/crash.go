package main

import (
	"bufio"
	"fmt"
	"os"
	"os/exec"
	"runtime/debug"
	"strings"
	"sync"
	"time"

	"github.com/c4pt0r/kvql"
)

// Group CRASH (property C06): no query text and no data can crash the library.
// Cases run in ISOLATED WORKER PROCESSES (this binary re-executed with KVH_CRASH_WORKER=1):
// a Go fatal error (stack overflow, out of memory) bypasses recover and would otherwise kill the
// harness.  A worker prints one line per case; when a worker dies the parent knows which case
// it was working on from the last line and continues with a fresh worker behind it.

func crashStores() [][]KV {
	return [][]KV{
		{},
		smallStore(),
		{{"", ""}, {"a", "x"}, {"b", "\xff\xfe"}, {"c", "9223372036854775807"}, {"d", "-9223372036854775808"}, {"e", "1e308"}, {"f", "nan"}, {"g", "{\"a\": [1, \"x\", {\"b\": null}], \"s\": \"t\"}"}, {"h", "[1,2"}, {"i", "1,2,,3"}, {"j", strings.Repeat("z", 300)}},
		{{"k1", "1"}, {"k2", "x"}, {"k3", "2.5"}, {"k4", "true"}, {"k5", "{\"a\": 1}"}, {"k6", "{\"a\": \"s\"}"}, {"k7", ""}},
	}
}

func crashQuery(r *Rand, ix uint64) string {
	o := defaultOpts()
	o.Json = true
	o.UpperCase = true
	o.MaxDepth = 4
	g := NewGen(r, o)
	switch r.Intn(12) {
	case 0:
		// raw token soup
		var b strings.Builder
		for n := 1 + r.Intn(14); n > 0; n-- {
			b.WriteString(pick(r, lexPool))
			if r.Bool() {
				b.WriteByte(' ')
			}
		}
		return b.String()
	case 1:
		// deep nesting
		d := 1 + r.Intn(400)
		if r.Chance(1, 10) {
			d = 2000
		}
		switch r.Intn(4) {
		case 0:
			return "select * where " + strings.Repeat("(", d) + "key = 'a'" + strings.Repeat(")", d)
		case 1:
			return "select * where " + strings.Repeat("!", d) + "(key = 'a')"
		case 2:
			return "select * where " + strings.Repeat("upper(", d) + "key" + strings.Repeat(")", d) + " = 'A'"
		default:
			return "select * where key = 'a'" + strings.Repeat(" & key = 'a'", d)
		}
	case 2:
		// adversarial expression forms
		return pick(r, []string{
			"select substr(key, 2, 1) where key ^= ''", "select substr(value, 5, 0) where true", "select substr(key, 0 - 1, 2) where true", "select join() where true", "select list() where true",
			"select join(',') where true", "select list()[0] where true", "select int_list() where true", "select len(split(value, ',')) where true", "select split(value, '')[5] where true",
			"select json(value)['a']['b']['c'] where true", "select json(value)['a'][1] where true", "select json(value)[1] where true", "select key where json(value)['a'] > 1", "select l2_distance(json(value)['a'], list(1)) where true",
			"select key, value where key = 'a' order by value", "select key, int(value) as n where true order by n", "select key, json(value)['a'] as a where true order by a", "select key, is_int(value) as b where true order by b desc, key",
			"select upper(u) as u where true", "select key as k, upper(k) as k where true", "select f2 + 'x' as f1, f1 + 'y' as f2 where true", "select key where key in ('a') & key in ('a','a')",
			"select count(1), sum(value), avg(key), min(json(value)), max(split(value, ',')) where true", "select group_concat(key) where true", "select quantile(int(value), 2) where true", "select quantile(int(value), 'x') where true",
			"select json_arrayagg(json(value)) where true", "select key, count(1) where true group by key limit 0", "select 1/0 where true", "select int(value) / (int(value) - 1) where true", "select 9223372036854775807 + 1, 0 - 9223372036854775807 - 2 where true",
			"select cosine_distance(list(0,0), list(0,0)) where true", "select l2_distance(split(value, ','), list(1,2,3)) where true", "select key where value ~= '('", "select key where value ~= '[a-'", "select key where key between 'b' and 'a'",
			"put ('a', 'b'), (upper(key), key)", "remove 'a', 'a', 'a'", "delete where true limit 0", "delete where key in ('a', 'a') limit 1, 1", "select * where key in ('a', 'a', 'b') limit 1, 1",
		})
	}
	if r.Chance(1, 40) {
		// rings of select-field names: n fields, each defined through the next (the last through the first),
		// through a call argument, an operator operand or a bare name; entered from WHERE or not at all
		n := 1 + r.Intn(5)
		names := []string{"a", "b", "c", "d", "e"}[:n]
		var fs []string
		for i, nm := range names {
			next := names[(i+1)%n]
			switch r.Intn(4) {
			case 0:
				fs = append(fs, "upper("+next+") as "+nm)
			case 1:
				fs = append(fs, next+" + 'x' as "+nm)
			case 2:
				fs = append(fs, "int("+next+") + 1 as "+nm)
			default:
				fs = append(fs, next+" as "+nm)
			}
		}
		// sometimes a chain that is NOT a ring (legal): break the last link
		if r.Chance(1, 4) {
			fs[n-1] = "upper(key) as " + names[n-1]
		}
		for i := len(fs) - 1; i > 0; i-- {
			j := r.Intn(i + 1)
			fs[i], fs[j] = fs[j], fs[i]
		}
		return "select " + strings.Join(fs, ", ") + " where " + pick(r, []string{"true", "key ^= 'k'", names[0] + " != 'zz'", "strlen(" + names[n-1] + ") > 0"})
	}
	q := genStatement(g)
	for k := r.Intn(3); k > 0; k-- {
		q = mutate(r, q)
	}
	return q
}

// crashWorker: runs cases [from,to) and prints one line per case
func crashWorker() int {
	var seed, from, to uint64
	debug.SetMaxStack(48 << 20) // a runaway recursion dies quickly instead of eating 1 GB of stack
	fmt.Sscan(os.Getenv("KVH_CRASH_RANGE"), &seed, &from, &to)
	w := bufio.NewWriter(os.Stdout)
	defer w.Flush()
	stores := crashStores()
	for ix := from; ix < to; ix++ {
		r := NewRand(seed, "CRASH", ix)
		q := crashQuery(r, ix)
		fmt.Fprintf(w, "START %d %s\n", ix, hxs(q))
		w.Flush()
		verdict := "ok"
		for si, kvs := range stores {
			for _, bs := range []int{1, 3, 32} {
				kvql.PlanBatchSize = bs
				for _, batch := range []bool{false, true} {
					res := runStatement(q, NewRefStore(kvs), batch, true)
					if res.Panic != "" {
						verdict = fmt.Sprintf("panic store=%d bs=%d batch=%v %s", si, bs, batch, hxs(res.Panic))
					} else if res.Err != nil {
						// rendering the bound error must not crash either
						msg, pan := safely(func() string {
							if qb, ok := res.Err.(kvql.QueryBinder); ok {
								qb.BindQuery(q)
							}
							return res.Err.Error()
						})
						if pan {
							verdict = fmt.Sprintf("panic-render store=%d %s", si, hxs(msg))
						}
					}
				}
			}
		}
		fmt.Fprintf(w, "DONE %d %s\n", ix, verdict)
		w.Flush()
	}
	return 0
}

func runCRASH(e *Env) (*Summary, error) {
	start := time.Now()
	n := uint64(e.n(8000, 400000))
	rule := fmt.Sprintf("%d query texts (grammar-generated statements of every kind, 0–2 single-edit corruptions of them, raw token soup, nesting up to 2000 levels, a directed list of adversarial expressions) × 4 stores (empty; small; non-UTF-8/extreme numbers/mixed JSON/long values; mixed-type) × batch sizes {1,3,32} × {row, batch}, each plan drained to exhaustion and every error bound to the query and rendered; cases run in isolated worker processes so that fatal runtime errors are attributed; non-trivial = a query that parses; distinct by query text", n)
	col := NewCollector("CRASH", e.Tier, e.Seed, rule)
	self, err := os.Executable()
	if err != nil {
		return nil, err
	}
	chunk := uint64(250)
	var mu sync.Mutex
	next := uint64(0)
	take := func() (uint64, uint64, bool) {
		mu.Lock()
		defer mu.Unlock()
		if next >= n {
			return 0, 0, false
		}
		a := next
		next = min(n, next+chunk)
		return a, next, true
	}
	var wg sync.WaitGroup
	for w := 0; w < e.Workers; w++ {
		wg.Add(1)
		go func() {
			defer wg.Done()
			for {
				from, to, ok := take()
				if !ok {
					return
				}
				for from < to {
					cmd := exec.Command(self)
					cmd.Env = append(os.Environ(), "KVH_CRASH_WORKER=1", fmt.Sprintf("KVH_CRASH_RANGE=%d %d %d", e.Seed, from, to), "GOMEMLIMIT=2GiB", "GOMAXPROCS=2")
					out, _ := cmd.StdoutPipe()
					cmd.Stderr = nil
					if err := cmd.Start(); err != nil {
						col.Note("cannot start worker: " + err.Error())
						return
					}
					done := make(chan struct{})
					// the watchdog bounds ONE statement (it is re-armed by every START/DONE line), not the range
					timer := time.AfterFunc(crashStmtTimeout, func() { cmd.Process.Kill() })
					rearm := func() { timer.Reset(crashStmtTimeout) }
					var last uint64
					var lastQ string
					inFlight := false
					go func() {
						sc := bufio.NewScanner(out)
						sc.Buffer(make([]byte, 1<<20), 1<<24)
						for sc.Scan() {
							f := strings.SplitN(sc.Text(), " ", 3)
							if len(f) < 3 {
								continue
							}
							var ix uint64
							fmt.Sscan(f[1], &ix)
							rearm()
							if f[0] == "START" {
								last, lastQ, inFlight = ix, string(unhx(f[2])), true
							} else if f[0] == "DONE" {
								inFlight = false
								col.Eval(1)
								q := lastQ
								if _, perr := kvql.NewParser(q).Parse(); perr == nil {
									col.Nontrivial(q)
								}
								if strings.HasPrefix(f[2], "panic") {
									col.Hist("panic")
									col.Find(Finding{Kind: "crash", Group: "CRASH", Check: "panic", Case: fmt.Sprintf("%q", q), Line: "CRASH " + hxs(q), Engine: crashDecode(f[2]), Model: "returns rows or an error",
										Seed: e.Seed, Index: ix, Properties: []string{"C06"}, Class: crashClass(crashDecode(f[2]))})
								} else {
									col.Hist("ok")
								}
								if ix%1999 == 0 {
									col.Sample(q)
								}
							}
						}
						close(done)
					}()
					<-done
					werr := cmd.Wait()
					timer.Stop()
					if inFlight {
						// the worker died (fatal error, kill on timeout) while working on `last`
						kind := "fatal"
						if werr != nil && strings.Contains(werr.Error(), "killed") {
							kind = "timeout-or-killed"
							// a loaded machine can make a heavy statement slow: run it again ALONE with a generous
							// limit before calling it a hang
							if crashSolo(self, e.Seed, last) {
								col.Eval(1)
								col.Hist("slow-under-load-completes-alone")
								from = last + 1
								continue
							}
						}
						col.Eval(1)
						col.Hist(kind)
						col.Find(Finding{Kind: "crash", Group: "CRASH", Check: kind, Case: fmt.Sprintf("%q", lastQ), Line: "CRASH " + hxs(lastQ), Engine: fmt.Sprintf("worker process died: %v", werr), Model: "returns rows or an error",
							Seed: e.Seed, Index: last, Properties: []string{"C06"}, Class: kind})
						from = last + 1
					} else {
						from = to
					}
				}
			}
		}()
	}
	wg.Wait()
	return col.Finish(start), nil
}

const crashStmtTimeout = 120 * time.Second

// crashSolo runs one statement index alone in a worker of its own with a generous limit; true = it completed
func crashSolo(self string, seed, ix uint64) bool {
	cmd := exec.Command(self)
	cmd.Env = append(os.Environ(), "KVH_CRASH_WORKER=1", fmt.Sprintf("KVH_CRASH_RANGE=%d %d %d", seed, ix, ix+1), "GOMEMLIMIT=2GiB", "GOMAXPROCS=2")
	out, err := cmd.StdoutPipe()
	if err != nil || cmd.Start() != nil {
		return false
	}
	timer := time.AfterFunc(600*time.Second, func() { cmd.Process.Kill() })
	defer timer.Stop()
	completed := false
	sc := bufio.NewScanner(out)
	sc.Buffer(make([]byte, 1<<20), 1<<24)
	for sc.Scan() {
		if strings.HasPrefix(sc.Text(), "DONE ") && !strings.Contains(sc.Text(), " panic") {
			completed = true
		}
	}
	return cmd.Wait() == nil && completed
}

func crashDecode(s string) string {
	f := strings.Fields(s)
	if len(f) > 0 {
		f[len(f)-1] = string(unhx(f[len(f)-1]))
	}
	return strings.Join(f, " ")
}

// crashClass: the panic message shape (used to group findings)
func crashClass(msg string) string {
	switch {
	case strings.Contains(msg, "slice bounds out of range"):
		return "slice-bounds"
	case strings.Contains(msg, "index out of range"):
		return "index-range"
	case strings.Contains(msg, "interface conversion"):
		return "type-assertion"
	case strings.Contains(msg, "nil pointer"):
		return "nil-deref"
	case strings.Contains(msg, "no-termination"):
		return "no-termination"
	}
	return "other"
}

func init() { groups["CRASH"] = runCRASH }
