package main

import (
	"fmt"
	"strings"
	"time"

	"github.com/c4pt0r/kvql"
)

// Group EXPLAIN (property C15, second half: "the printed form re-parses identically, so the filter
// shown by EXPLAIN is the filter executed"); engine-only metamorphic oracle.
//
// For a SELECT statement `<head> where <W> <tail>` the library prints its filter in two places:
//   - stmt.Where.Expr.String() of the parsed statement (kvql.NewParser(q).Parse()),
//   - the scan line of plan.Explain(): `…Filter = '<printed expression>'}` (after constant folding).
// Each printed text P is put in the place of W; `<head> where <P> <tail>` must have the outcome and
// the rows of the statement itself over the same store (row mode).  The text on the Explain line must
// also be, byte for byte, the String() of the filter expression the scan node holds.
//
// Statements: the typed generator of gen.go (aliases referenced in WHERE, functions, lists, IN,
// BETWEEN, arithmetic that folds), statements whose select fields are named, between back quotes,
// like words of the language and referenced by those names (genQuotedNameParts of parse.go), and
// directed statements over literals and names with runs of blanks, tabs and line breaks (white
// space inside a literal is significant: the language has no escape syntax).  Literals with a
// quote character are outside the property (they have no printed form that reads back).

var explainWsLits = []string{"a  b", "a b", "a\tb", "a \tb", "x\ny", "x y", " a", "a ", "  ", " ", "\n", "a   b", "a\r\nb", "\t", "k  1", "k 1"}

func explainStore(r *Rand) []KV {
	var kvs []KV
	n := 4 + r.Intn(12)
	for i := 0; i < n; i++ {
		var v string
		switch r.Intn(4) {
		case 0:
			v = pick(r, []string{"1", "2", "5", "9", "10", "x", "", "abc"})
		default:
			v = pick(r, explainWsLits)
		}
		k := fmt.Sprintf("k%d", i)
		if r.Chance(1, 5) {
			k = pick(r, explainWsLits)
		} else if r.Chance(1, 6) {
			k = strings.ToUpper(k)
		}
		kvs = append(kvs, KV{k, v})
	}
	return kvs
}

// explainWsParts: a directed statement over white-space literals, in three pieces
func explainWsParts(r *Rand) (string, string, string) {
	l := func() string { return "'" + pick(r, explainWsLits) + "'" }
	head := pick(r, []string{"select key, value where ", "select * where ", "select value, key where "})
	var w string
	switch r.Intn(10) {
	case 0:
		w = "value = " + l()
	case 1:
		w = "key ^= 'k' & (value = " + l() + " | value = " + l() + ")"
	case 2:
		w = "key in ('k2', 'k3', " + l() + ") & value ^= " + l()
	case 3:
		w = "key between 'k1' and 'k9' and value = " + l()
	case 4:
		w = "value in (" + l() + ", " + l() + ")"
	case 5:
		w = "key = " + l() + " | value != " + l()
	case 6:
		w = "key ^= " + l()
	case 7:
		w = "key >= " + l() + " & value + 'x' != " + l()
	case 8:
		// a back-quoted name with a run of blanks, referenced in the filter
		n := pick(r, []string{"w  x", "w\tx", " w", "w\nx", "a   b"})
		head = "select key, value + " + l() + " as `" + n + "` where "
		w = "`" + n + "` ^= " + l() + " | `" + n + "` = value + " + l()
	default:
		w = "upper(value) = upper(" + l() + ") | split(value, " + l() + ")[0] = 'a'"
	}
	tail := ""
	if r.Chance(1, 6) {
		tail = " limit 5"
	}
	return head, w, tail
}

// explainFilterText: the text between `Filter = '` and the closing `'}` of the scan line
func explainFilterText(lines []string) (string, bool) {
	for i := len(lines) - 1; i >= 0; i-- {
		ln := lines[i]
		a := strings.Index(ln, "Filter = '")
		b := strings.LastIndex(ln, "'}")
		if a >= 0 && b >= a+len("Filter = '") {
			return ln[a+len("Filter = '") : b], true
		}
	}
	return "", false
}

// sourcelessLiteral: the tree holds a number literal the parser cannot produce (constant folding of
// `0 - 3` leaves a NumberExpr "-3", the language has no signed literals; `1 / 0.0` a FloatExpr "+Inf")
// or a text literal with a quote character.  Such a tree is not one "the parser can build": C15's
// print -> re-parse clause does not speak about its printed form.
func sourcelessLiteral(e kvql.Expression) string {
	found := ""
	seen := map[kvql.Expression]bool{}
	e.Walk(func(x kvql.Expression) bool {
		if seen[x] || found != "" {
			return false
		}
		seen[x] = true
		var data string
		var tp kvql.TokenType
		switch v := x.(type) {
		case *kvql.NumberExpr:
			data, tp = v.Data, kvql.NUMBER
		case *kvql.FloatExpr:
			data, tp = v.Data, kvql.FLOAT
		case *kvql.StringExpr:
			if strings.ContainsAny(v.Data, "'") {
				found = "'" + v.Data + "'"
			}
			return found == ""
		default:
			return true
		}
		toks := kvql.NewLexer(data).Split()
		if len(toks) != 1 || toks[0].Tp != tp || toks[0].Data != data {
			found = data
		}
		return found == ""
	})
	return found
}

func coarseOutcome(o string) string { return strings.SplitN(o, "@", 2)[0] }

func runEXPLAIN(e *Env) (*Summary, error) {
	start := time.Now()
	n := e.n(9000, 200000)
	rule := fmt.Sprintf("%d SELECT statements (one third from the typed generator, one third with back-quoted field names that are words of the language defined and referenced, one third over literals/names with runs of blanks, tabs and line breaks) over stores of 4–15 pairs whose keys and values differ only in white space: the printed WHERE of the parsed statement and the filter text of the plan's Explain() line, each substituted for the WHERE text, give the outcome and rows of the statement itself (row mode); the Explain() filter text equals String() of the scan node's filter expression; non-trivial when the statement returns a row and rejects one; distinct by (statement, store)", n)
	col := NewCollector("EXPLAIN", e.Tier, e.Seed, rule)
	err := e.parallel(func(w int, d *Driver) error {
		for ix := uint64(w); ix < uint64(n); ix += uint64(e.Workers) {
			r := NewRand(e.Seed, "EXPLAIN", ix)
			var head, where, tail, kind string
			switch ix % 3 {
			case 0:
				kind = "typed"
				o := defaultOpts()
				o.OrderedBetween = true
				g := NewGen(r, o)
				head = "select " + g.Fields() + " where "
				where = g.Bool(o.MaxDepth)
				if r.Chance(1, 5) && len(g.aliases) > 0 {
					if a := pick(r, g.aliases); a.typ != "list" {
						tail = " order by " + a.name
					}
				}
				if r.Chance(1, 6) {
					tail += fmt.Sprintf(" limit %d, %d", r.Intn(2), 1+r.Intn(5))
				}
			case 1:
				kind = "quoted-name"
				head, where, tail = genQuotedNameParts(r)
			default:
				kind = "white-space"
				head, where, tail = explainWsParts(r)
			}
			q := head + where + tail
			kvs := explainStore(r)
			if kind == "typed" {
				kvs = modesStore(r)
			}
			col.Eval(1)
			base := runStatement(q, NewRefStore(kvs), false, true)
			if base.Panic != "" {
				col.Find(Finding{Kind: "crash", Group: "EXPLAIN", Check: "engine-panics", Case: fmt.Sprintf("%q  [store %q]", q, kvs), Line: "EXPLAIN " + hxs(q), Engine: base.Panic, Model: "no panic", Seed: e.Seed, Index: ix, Properties: []string{"C06"}})
				continue
			}
			col.Hist(kind + ":" + coarseOutcome(base.Outcome()))
			if base.ErrStage == "plan" {
				continue
			}
			if base.Outcome() == "ok" && len(base.Rows) > 0 && len(base.Rows) < len(kvs) {
				col.Nontrivial(q + fmt.Sprint(kvs))
			}
			cs := fmt.Sprintf("%q  [store %q]", q, kvs)
			mk := func(check, eng, want string) {
				col.Find(Finding{Kind: "property", Group: "EXPLAIN", Check: check, Case: cs, Line: "EXPLAIN " + hxs(q), Engine: eng, Model: want, Seed: e.Seed, Index: ix, Properties: []string{"C15"}, Class: kind})
			}
			// the printed forms
			type printed struct{ src, text string }
			var ps []printed
			var quoteLit bool
			msg, panicked := safely(func() string {
				stmt, err := kvql.NewParser(q).Parse()
				if err != nil {
					return ""
				}
				sel, ok := stmt.(*kvql.SelectStmt)
				if !ok || sel.Where == nil || sel.Where.Expr == nil {
					return ""
				}
				quoteLit = hasQuoteLiteral(sel.Where.Expr)
				ps = append(ps, printed{"Where.Expr.String()", sel.Where.Expr.String()})
				return ""
			})
			if panicked {
				col.Find(Finding{Kind: "crash", Group: "EXPLAIN", Check: "printing-panics", Case: cs, Line: "EXPLAIN " + hxs(q), Engine: msg, Model: "no panic", Seed: e.Seed, Index: ix, Properties: []string{"C06"}})
				continue
			}
			if quoteLit {
				col.Hist("skipped:literal-with-quote")
				continue
			}
			if shown, ok := explainFilterText(base.Explain); ok {
				sourceless := ""
				// the text on the Explain line is the String() of the expression the scan node filters with
				_, _ = safely(func() string {
					plan, err := kvql.NewOptimizer(q).BuildPlan(NewRefStore(kvs))
					if err != nil {
						return ""
					}
					if _, leaf := planChain(plan); leaf != nil {
						if _, fe, ok := nodeOfPlan(leaf); ok && fe != nil && fe.Ast != nil && fe.Ast.Expr != nil {
							col.Hist("explain-text-vs-filter-expression")
							if own := fe.Ast.Expr.String(); own != shown {
								mk("explain-filter-text", fmt.Sprintf("Explain() shows %q", shown), fmt.Sprintf("the filter expression of the scan node prints %q", own))
							}
							sourceless = sourcelessLiteral(fe.Ast.Expr)
						}
					}
					return ""
				})
				if sourceless == "" {
					ps = append(ps, printed{"Explain()", shown})
				} else {
					// (reported in the notes, not judged: see sourcelessLiteral)
					col.Hist("skipped:folded-filter-holds-a-literal-without-source-form")
				}
			} else if len(base.Explain) > 0 {
				col.Hist("no-filter-on-explain-line")
			}
			want := coarseOutcome(base.Outcome()) + " | " + strings.Join(rowsList(base), " ; ")
			for _, p := range ps {
				q2 := head + p.text + tail
				res := runStatement(q2, NewRefStore(kvs), false, true)
				col.Eval(1)
				got := coarseOutcome(res.Outcome()) + " | " + strings.Join(rowsList(res), " ; ")
				if res.Panic != "" {
					got = "panic: " + res.Panic
				}
				col.Hist("substituted:" + p.src)
				if got != want {
					mk("printed-filter-substituted:"+p.src, fmt.Sprintf("%q gives %s", q2, got), "the statement itself gives "+want)
				}
			}
			if ix%997 == 1 {
				col.Sample(q)
			}
		}
		return nil
	})
	if err != nil {
		return nil, err
	}
	return col.Finish(start), nil
}

func init() { groups["EXPLAIN"] = runEXPLAIN }
