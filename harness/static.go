package main

import (
	"errors"
	"fmt"
	"strings"
	"time"

	"github.com/c4pt0r/kvql"
)

// Group STATIC (property C14, engine-only oracle):
//  * a statement containing ONE statically detectable fault — an operator applied to operand
//    types it does not support, a non-Boolean WHERE or `!` operand, key/value where the statement
//    form forbids them, an unknown function, a wrong argument count — placed at every kind of
//    syntactic position (top level, under `!`, under &/|/and/or, inside function arguments, IN
//    lists, BETWEEN bounds, field access, select fields, put/remove operands) must be rejected by
//    BuildPlan with ZERO storage calls, whatever the store contains;
//  * the same contexts filled with well-typed operands must be accepted and must not fail with
//    an operand-type error when executed.

type staticFiller struct {
	expr string
	typ  string // nominal type: str num bool
}

// faulty operands, each with the type it pretends to have
var staticFaults = []staticFiller{
	{"(key + 1)", "num"}, {"('a' - 'b')", "num"}, {"(value * 2)", "num"}, {"(1 + (key = 'a'))", "num"}, {"(1 / 0)", "num"},
	{"(key ^= 1)", "bool"}, {"(1 ~= 'a')", "bool"}, {"(key = 1)", "bool"}, {"(key > 1)", "bool"}, {"(1 & key = 'a')", "bool"}, {"(key | value)", "bool"},
	{"!key", "bool"}, {"!1", "bool"}, {"!!'a'", "bool"}, {"(key in (1, 2))", "bool"}, {"(1 in ('a'))", "bool"}, {"(key between 1 and 2)", "bool"}, {"(key between 'a' and 2)", "bool"},
	{"(true > false)", "bool"}, {"(key = key)", "bool"}, {"(key in ('a', 1))", "bool"},
	{"nosuch(key)", "str"}, {"upper()", "str"}, {"upper(key, key)", "str"}, {"substr(key, 1)", "str"}, {"join(',')", "str"}, {"lower(nosuch(value))", "str"}, {"str()", "str"},
	{"int()", "num"}, {"strlen(key, value)", "num"}, {"nosuchnum(key)", "num"}, {"len()", "num"}, {"int(nosuch(key))", "num"}, {"l2_distance(list(1))", "num"},
	{"is_int()", "bool"}, {"is_float(key, key)", "bool"}, {"nosuchbool(key)", "bool"},
	{"count(1)", "num"}, // an aggregate where only scalars are allowed (filters, arguments of scalar functions in filters)
	// `=` / `!=` on lists and JSON values; `in` with a left operand that is not a text or a number
	{"(split(key, ',') = split(key, ','))", "bool"}, {"(json(value) != json(value))", "bool"}, {"(list(1) = list(1))", "bool"},
	{"(true in (true, false))", "bool"}, {"((key = 'a') in (true))", "bool"}, {"(nosuchname in (a, b))", "bool"}, {"(json(value) in (json(value)))", "bool"},
	// static argument types the function bodies themselves test (on every evaluation)
	{"substr(key, 'a', 1)", "str"}, {"substr(key, 0, 'b')", "str"}, {"substr(key, 0, key)", "str"}, {"join(1, key)", "str"}, {"join(strlen(key), key)", "str"}, {"split(key, 1)[0]", "str"},
	{"len(split(key, 1))", "num"}, {"strlen(substr(key, 1, 'x'))", "num"}, {"is_int(join(2, key))", "bool"},
}

var staticGood = []staticFiller{
	{"key", "str"}, {"upper(value)", "str"}, {"'lit'", "str"}, {"(key + 'x')", "str"}, {"str(strlen(key))", "str"},
	{"1", "num"}, {"strlen(value)", "num"}, {"(strlen(key) + 2)", "num"}, {"1.5", "num"}, {"int('7')", "num"},
	// variadic functions called with exactly their minimum number of arguments
	{"join(',', key)", "str"}, {"join('-', 'a')", "str"}, {"len(list(strlen(key)))", "num"}, {"len(int_list(1))", "num"}, {"len(float_list(1.5))", "num"}, {"len(ilist(2))", "num"}, {"len(flist(2))", "num"},
	{"(key = 'a')", "bool"}, {"is_int(value)", "bool"}, {"(strlen(key) > 1)", "bool"}, {"!(key ^= 'a')", "bool"}, {"(value in ('1', 'x'))", "bool"},
}

// contexts: %s is the hole; typ is the type the hole must have
var staticContexts = []struct{ tmpl, typ string }{
	{"select * where %s", "bool"}, {"select * where !%s", "bool"}, {"select * where !(!%s)", "bool"},
	{"select * where key = 'a' & %s", "bool"}, {"select * where %s | value = 'x'", "bool"}, {"select * where (%s and key ^= 'a') or value = 'x'", "bool"},
	{"select * where key > 'a' or !(%s and true)", "bool"}, {"delete where %s", "bool"}, {"delete where key ^= 'a' & !%s limit 2", "bool"},
	{"select key where upper(%s) = 'A'", "str"}, {"select key where %s in ('a', 'b')", "str"}, {"select key where 'a' in (%s, 'b')", "str"}, {"select key where 'a' in ('b', %s)", "str"},
	{"select key where key between %s and 'z'", "str"}, {"select key where key between 'a' and %s", "str"}, {"select key where %s between 'a' and 'z'", "str"},
	{"select key where substr(%s, 0, 1) = 'a'", "str"}, {"select key where json(%s)['a'] = 'x'", "str"}, {"select key where split(%s, ',')[0] = 'a'", "str"}, {"select key where join(',', key, %s) = 'a'", "str"},
	{"select key where !(%s ^= 'a')", "str"}, {"select key where key = 'a' | %s ~= 'x'", "str"}, {"select %s as f where key = 'a'", "str"}, {"select key, upper(%s) where key = 'a'", "str"},
	{"select key, %s as f where f = 'a'", "str"}, {"select key where (%s + 'x') = 'ax'", "str"}, {"put ('k', %s)", "str"}, {"put (%s, 'v')", "str"}, {"put ('a', 'b'), ('k', upper(%s))", "str"}, {"remove 'a', %s", "str"},
	{"select key where %s + 1 > 2", "num"}, {"select key where len(int_list(%s, 2)) = 2", "num"}, {"select key where %s in (1, 2)", "num"}, {"select key where 1 in (2, %s)", "num"},
	{"select key where %s between 1 and 5", "num"}, {"select key where 1 between %s and 5", "num"}, {"select key where 1 between 0 and %s", "num"}, {"select key where str(%s) = '1'", "num"},
	{"select key where !(%s > 1)", "num"}, {"select %s as n where key = 'a'", "num"}, {"select key, %s * 2 as n where n > 1", "num"}, {"select key where substr(key, 0, %s) = 'a'", "num"},
	{"select key, sum(%s) where key ^= 'a' group by key", "num"}, {"select key where l2_distance(list(1, 2), list(%s, 2)) > 0", "num"},
	// the fault next to a constant that absorbs it (`false & x`, `true | x`): a planner that validates after
	// simplifying the filter never sees the fault
	{"select * where false & %s", "bool"}, {"select * where %s & false", "bool"}, {"select * where true | %s", "bool"}, {"select * where %s | true", "bool"},
	{"select * where %s and false", "bool"}, {"select * where true or %s", "bool"}, {"select * where (1 = 2) & %s", "bool"}, {"delete where false & %s", "bool"},
	{"select key, true | %s where key = 'a'", "bool"}, {"select key, false & %s as b where key = 'a'", "bool"}, {"select * where key = 'a' & (false & %s)", "bool"},
	{"select * where false & upper(%s) = 'A'", "str"}, {"select * where true | %s = 'a'", "str"}, {"select * where false & %s > 1", "num"}, {"select key, true | %s > 1 where key = 'a'", "num"},
	// places of a select field where the aggregation plan does not look for aggregates: an aggregate there is a fault
	{"select key, str(%s) where key ^= 'a'", "num"}, {"select !(%s > 1) as b where key ^= 'a'", "num"}, {"select key, 1 between %s and 5 where key ^= 'a'", "num"},
	{"select key, 2 in (%s, 3) where key ^= 'a'", "num"}, {"select key, sum(int(str(%s))) where key ^= 'a' group by key", "num"},
}

// statement-form faults that are not operand substitutions
var staticForms = []string{
	"put ('a', value)", "put ('a', upper(value))", "put ('a', 'b'), ('c', value + 'x')", "remove key", "remove upper(key)", "remove value", "remove 'a', key + 'x'",
	"select * where key", "select * where 1", "select * where upper(key)", "select * where key + 'a'", "delete where value", "delete where strlen(key)",
	"select key, sum(count(1)) where key = 'a'", "select key where key = 'a' order by nosuch", "select split(key, ',') as l where key = 'a' order by l",
	// an aggregate behind a field name used in WHERE (aggregates are not functions there)
	"select count(1) as c where c > 0", "select key, sum(int(value)) as s where key ^= 'k' & s > 10 group by key", "select count(1) as c, c + 1 as d where d > 0",
	"select key, count(1) as c where upper(str(c)) = '1' group by key",
	// the type of a select field that uses a field name is only final once that name is resolved
	"select key as a, a + 'x' as s where s > 1", "select a + 'x' as s, key as a where s = 1", "select key as a, a + 'x' as s where s + 1 > 2",
	"select b + 1 as s, a + 'y' as b, key as a where key = 'k'", "select key as a, a + 'x' as s, s * 2 as t where key = 'k'",
}

// well-typed statements that are not operand substitutions: must be accepted and run without an operand-type error
var staticGoodForms = []string{
	"select key as a, a + 'x' as s where s > 'b'", "select a + 'x' as s, key as a where s ^= 'b'", "select value as f1, (f1 + (f1 + value)) as f2 where f2 ~= '^a'",
	"select key as a, a + 'x' as s, upper(s) as t where t = 'AX'", "select strlen(key) as n, n + 1 as m where m > 2", "select n + 1 as m, strlen(key) as n where m > 2",
}

func errIsOperandType(err error) bool {
	if err == nil {
		return false
	}
	msg := err.Error()
	for _, p := range []string{"has wrong type", "Invalid operator", "parameter type", "not boolean", "is not boolean"} {
		if strings.Contains(msg, p) {
			return true
		}
	}
	return false
}

func runSTATIC(e *Env) (*Summary, error) {
	start := time.Now()
	rule := fmt.Sprintf("template product: %d contexts (hole at top level, under !, under &/|/and/or, in function arguments, IN lists, BETWEEN bounds, field access, select fields, aliases, put/remove operands, aggregate arguments) × %d faulty operands of the hole's nominal type (operator/operand-type faults, non-Boolean ! operands, unknown functions, wrong argument counts, aggregates in scalar position) — each must be rejected by BuildPlan with zero storage calls on 3 different stores; × %d well-typed operands — each must be accepted and run without an operand-type error; plus %d statement-form faults and %d well-typed statement forms (field names whose type depends on other field names); exhaustive over the product; non-trivial = a faulty statement; distinct by statement text",
		len(staticContexts), len(staticFaults), len(staticGood), len(staticForms), len(staticGoodForms))
	col := NewCollector("STATIC", e.Tier, e.Seed, rule)
	col.sum.Exhaustive = true
	saved := kvql.PlanBatchSize
	kvql.PlanBatchSize = 3
	defer func() { kvql.PlanBatchSize = saved }()
	stores := [][]KV{{}, smallStore(), {{"a", "x"}, {"ax", "1,2"}, {"k", "{\"a\": \"x\"}"}, {"lit", "7"}}}
	type job struct {
		q      string
		faulty bool
	}
	var jobs []job
	for _, c := range staticContexts {
		for _, f := range staticFaults {
			if f.typ == c.typ {
				if f.expr == "count(1)" && (strings.Contains(c.tmpl, "sum(%s)") || strings.HasPrefix(c.tmpl, "select %s") || strings.HasPrefix(c.tmpl, "select key, %s") || strings.HasPrefix(c.tmpl, "select key, true | %s")) {
					continue // covered by the nested-aggregate form below with its own message
				}
				jobs = append(jobs, job{fmt.Sprintf(c.tmpl, f.expr), true})
			}
		}
		for _, g := range staticGood {
			if g.typ == c.typ {
				q := fmt.Sprintf(c.tmpl, g.expr)
				if strings.HasPrefix(q, "put") && strings.Contains(g.expr, "value") || strings.HasPrefix(q, "remove") && (strings.Contains(g.expr, "value") || strings.Contains(g.expr, "key")) {
					continue // value (and key in remove) is forbidden there: that would be a fault
				}
				if strings.HasPrefix(q, "put (") && strings.Contains(q, "put ("+g.expr) && strings.Contains(g.expr, "key") {
					continue // the key expression of put cannot refer to key meaningfully; keep it out of the accepted set
				}
				jobs = append(jobs, job{q, false})
			}
		}
	}
	for _, q := range staticForms {
		jobs = append(jobs, job{q, true})
	}
	for _, q := range staticGoodForms {
		jobs = append(jobs, job{q, false})
	}
	err := e.parallel(func(w int, d *Driver) error {
		for ji := w; ji < len(jobs); ji += e.Workers {
			j := jobs[ji]
			for si, kvs := range stores {
				for _, batch := range []bool{false, true} {
					st := NewRefStore(kvs)
					var plan kvql.FinalPlan
					var perr error
					out, panicked := safely(func() string {
						plan, perr = kvql.NewOptimizer(j.q).BuildPlan(st)
						return ""
					})
					col.Eval(1)
					cs := fmt.Sprintf("%s  [store %d, batch=%v]", j.q, si, batch)
					mk := func(check, eng, want string) {
						col.Find(Finding{Kind: "property", Group: "STATIC", Check: check, Case: cs, Line: "STATIC " + hxs(j.q), Engine: eng, Model: want, Seed: e.Seed, Index: uint64(ji), Properties: []string{"C14"}})
					}
					if panicked {
						col.Find(Finding{Kind: "crash", Group: "STATIC", Check: "buildplan-panics", Case: cs, Line: "STATIC " + hxs(j.q), Engine: out, Model: "an error value", Seed: e.Seed, Index: uint64(ji), Properties: []string{"C06", "C14"}})
						continue
					}
					if j.faulty {
						col.Nontrivial(j.q)
						if perr == nil {
							// accepted: where does it fail, and how much storage did it touch?
							res := runStatement(j.q, NewRefStore(kvs), batch, true)
							mk("faulty-statement-accepted", fmt.Sprintf("BuildPlan ok after %d storage calls; execution: %s", st.Calls, res.Outcome()), "rejected when the plan is built")
							continue
						}
						if st.Calls != 0 {
							mk("rejected-after-storage-access", fmt.Sprintf("%d storage calls before the rejection: %v", st.Calls, st.Log), "zero storage calls")
						}
						var se *kvql.SyntaxError
						if !errors.As(perr, &se) {
							col.Hist("rejected-with-non-syntax-error")
						}
						continue
					}
					if perr != nil {
						mk("well-typed-statement-rejected", firstLine(perr), "accepted")
						continue
					}
					_ = plan
					res := runStatement(j.q, NewRefStore(kvs), batch, true)
					if res.Panic != "" {
						col.Find(Finding{Kind: "crash", Group: "STATIC", Check: "execution-panics", Case: cs, Line: "STATIC " + hxs(j.q), Engine: res.Panic, Model: "rows or an error", Seed: e.Seed, Index: uint64(ji), Properties: []string{"C06"}})
					} else if errIsOperandType(res.Err) {
						mk("operand-type-error-at-execution", firstLine(res.Err), "no operand-type error for an accepted well-typed statement")
					}
				}
			}
			if ji%97 == 1 {
				col.Sample(j.q)
			}
		}
		return nil
	})
	if err != nil {
		return nil, err
	}
	return col.Finish(start), nil
}

func init() { groups["STATIC"] = runSTATIC }
