package main

import (
	"fmt"
	"regexp"
	"sort"
	"strings"
	"time"

	"github.com/c4pt0r/kvql"
)

// Group MODES — engine-only metamorphic oracles for
//   C03: row-at-a-time and batch iteration give the same rows (by content) at every batch size;
//        whenever batch iteration completes, row iteration completes too;
//   C05: switching the field cache on or off changes nothing; replacing every use of an alias by
//        its defining expression changes nothing; every row has one column per announced field.

func modesStore(r *Rand) []KV {
	pool := []KV{{"a", "1"}, {"a1", "x"}, {"ab", "2"}, {"abc", "10"}, {"b", ""}, {"b1", "7"}, {"ba", "abc"}, {"k1", "3"}, {"k2", "v"}, {"k3", "-4"}, {"l", "2.5"}, {"m", "0"}, {"n", "a,b"}, {"o", "1,2,3"}, {"p", "p"}, {"q1", "^q"}, {"r", "[0-9]"}, {"s5", "5$"}, {"ab1", "b"}, {"ab2", "^a"}, {"ab3", "3"}}
	n := r.Intn(len(pool) + 1)
	idx := make([]int, len(pool))
	for i := range idx {
		idx[i] = i
	}
	for i := len(idx) - 1; i > 0; i-- {
		j := r.Intn(i + 1)
		idx[i], idx[j] = idx[j], idx[i]
	}
	var kvs []KV
	for i := 0; i < n; i++ {
		kvs = append(kvs, pool[idx[i]])
	}
	return kvs
}

var identRe = regexp.MustCompile(`\b(f[0-9]+)\b`)

// expandAliases replaces alias names in the text after `where` by their definitions
func expandAliases(q string, aliases []aliasInfo) (string, bool) {
	lw := strings.Index(strings.ToLower(q), " where ")
	if lw < 0 || len(aliases) == 0 {
		return q, false
	}
	head, tail := q[:lw+7], q[lw+7:]
	// order by / group by refer to select fields by name: keep them
	cut := len(tail)
	for _, kw := range []string{" order by ", " group by ", " limit "} {
		if i := strings.Index(strings.ToLower(tail), kw); i >= 0 && i < cut {
			cut = i
		}
	}
	where, rest := tail[:cut], tail[cut:]
	def := map[string]string{}
	for _, a := range aliases {
		def[a.name] = a.expr
	}
	changed := false
	for round := 0; round < 4; round++ {
		where = identRe.ReplaceAllStringFunc(where, func(m string) string {
			if d, ok := def[m]; ok {
				changed = true
				return "(" + d + ")"
			}
			return m
		})
	}
	return head + where + rest, changed
}

func multiset(rows []string) string {
	s := append([]string{}, rows...)
	sort.Strings(s)
	return strings.Join(s, " ; ")
}

func runMODES(e *Env) (*Summary, error) {
	start := time.Now()
	n := e.n(6000, 250000)
	bss := []int{1, 2, 3, 5, 32}
	rule := fmt.Sprintf("%d random statements of the full language (typed generator: scalar functions incl. a user-registered one without a vector form, lists, aliases referenced in WHERE and inside function arguments, IN/BETWEEN/regex, arithmetic; optional ORDER BY on an alias, LIMIT) over shuffled stores of 0–14 pairs in which some rows fail the filter between accepted ones; each statement runs in row mode and in batch mode at batch sizes %v, with the field cache on and off, and with every alias use replaced by its definition; non-trivial when the statement returns at least one row and rejects at least one; distinct by (statement, store)", n, bss)
	col := NewCollector("MODES", e.Tier, e.Seed, rule)
	saved := kvql.PlanBatchSize
	defer func() { kvql.PlanBatchSize = saved }()
	for _, bs := range bss {
		kvql.PlanBatchSize = bs
		err := e.parallel(func(w int, d *Driver) error {
			for ix := uint64(w); ix < uint64(n/len(bss)); ix += uint64(e.Workers) {
				r := NewRand(e.Seed, "MODES", ix*64+uint64(bs))
				o := defaultOpts()
				o.Json = false
				o.OrderedBetween = true
				o.ListFields = true
				o.UserFunc = true
				g := NewGen(r, o)
				q := g.Select()
				if r.Chance(1, 10) {
					// the user-registered function without a vector form over an alias, in the filter and in a
					// later field (the batch evaluator has to evaluate it pair by pair)
					q = pick(r, []string{
						"select key, value as v where vmark(v) != '<x>'", "select value as v, vmark(v) as m where m != '<1>' & key >= 'a'",
						"select upper(value) as u, key where vmark(u) ^= '<A' | vmark(u) = '<3>'", "select key as k, vmark(k) as mk, value where mk ^= '<a' & vmark(value) != '<x>'",
						"select strlen(value) as n, key where vmark(str(n)) = '<1>' | vmark(key) ^= '<k'", "select value as v, key where vmark(lower(v)) in ('<b>', '<x>', '<2>')",
					})
					g.aliases = nil
				}
				if r.Chance(1, 12) {
					// operators whose right operand depends on the row (the vector forms cache per chunk)
					q = pick(r, []string{
						"select * where key ~= value", "select key, value where value ~= key | key ~= value", "select * where upper(key) ^= upper(value)",
						"select key where key between value and 'z'", "select * where value in (key, 'x', '1')", "select key, key ~= value as m where strlen(value) > 0",
					})
				}
				ordered := false
				if r.Chance(1, 4) && len(g.aliases) > 0 {
					a := pick(r, g.aliases)
					if a.typ != "list" {
						q += " order by " + a.name
						if r.Bool() {
							q += " desc"
						}
						ordered = true
					}
				}
				if r.Chance(1, 5) {
					q += fmt.Sprintf(" limit %d, %d", r.Intn(3), 1+r.Intn(4))
				}
				kvs := modesStore(r)
				row := runStatement(q, NewRefStore(kvs), false, true)
				bat := runStatement(q, NewRefStore(kvs), true, true)
				col.Eval(1)
				cs := fmt.Sprintf("%s  [store %v, batch size %d]", q, kvs, bs)
				mk := func(props []string, check, eng, want string) {
					col.Find(Finding{Kind: "property", Group: "MODES", Check: check, Case: cs, Line: "MODES " + hxs(q), Engine: eng, Model: want, Seed: e.Seed, Index: ix, Properties: props, Class: modesClass(q)})
				}
				if row.Panic != "" || bat.Panic != "" {
					col.Hist("panic")
					col.Find(Finding{Kind: "crash", Group: "MODES", Check: "engine-panics", Case: cs, Line: "MODES " + hxs(q), Engine: "row: " + row.Panic + " / batch: " + bat.Panic, Model: "no panic",
						Seed: e.Seed, Index: ix, Properties: []string{"C06"}, Class: modesClass(q)})
					continue
				}
				col.Hist("row:" + strings.SplitN(row.Outcome(), "@", 2)[0])
				rl, bl := rowsList(row), rowsList(bat)
				if row.Outcome() == "ok" && len(rl) > 0 && len(rl) < len(kvs) {
					col.Nontrivial(q + fmt.Sprint(kvs))
				}
				// C03
				if bat.Outcome() == "ok" {
					if row.Outcome() != "ok" {
						mk([]string{"C03"}, "batch-ok-but-row-fails", "batch: "+strings.Join(bl, " ; ")+"  row: "+row.Outcome(), "row mode completes too")
					} else {
						same := strings.Join(rl, " ; ") == strings.Join(bl, " ; ")
						if ordered {
							same = multiset(rl) == multiset(bl)
						}
						if !same {
							props := []string{"C03"}
							if strings.HasPrefix(strings.ToLower(q), "select *") && !ordered && !strings.Contains(q, " limit ") {
								props = append(props, "C01") // C01: the same rows in both iteration modes
							}
							mk(props, "row-vs-batch-rows", "batch: "+strings.Join(bl, " ; "), "row: "+strings.Join(rl, " ; "))
						}
					}
				}
				// C05: cache on vs off, both modes
				for _, batch := range []bool{false, true} {
					on := row
					if batch {
						on = bat
					}
					off := runStatement(q, NewRefStore(kvs), batch, false)
					if off.Panic != "" {
						continue
					}
					a, b := on.Outcome()+" | "+strings.Join(rowsList(on), " ; "), off.Outcome()+" | "+strings.Join(rowsList(off), " ; ")
					if ordered && on.Outcome() == "ok" && off.Outcome() == "ok" {
						a, b = multiset(rowsList(on)), multiset(rowsList(off))
					}
					if a != b {
						mk([]string{"C05"}, fmt.Sprintf("cache-on-vs-off-batch=%v", batch), "cache on: "+a, "cache off: "+b)
					}
					// row shape
					if on.Outcome() == "ok" {
						for _, rr := range on.Rows {
							if len(rr) != len(on.Fields) {
								mk([]string{"C05"}, "row-shape", fmt.Sprintf("%d columns", len(rr)), fmt.Sprintf("%d announced fields %v", len(on.Fields), on.Fields))
								break
							}
						}
					}
				}
				// C05: alias expansion (cache off on both sides so that only the abbreviation is compared)
				if qx, changed := expandAliases(q, g.aliases); changed {
					for _, batch := range []bool{false, true} {
						a := runStatement(q, NewRefStore(kvs), batch, false)
						b := runStatement(qx, NewRefStore(kvs), batch, false)
						if a.Panic != "" || b.Panic != "" {
							continue
						}
						if b.Outcome() != "ok" {
							continue // the expanded text may trip a checker restriction the alias form does not: not this property
						}
						if strings.HasPrefix(a.Outcome(), "plan:") {
							// C05 speaks about ACCEPTED queries; a rejected alias form (e.g. an alias defined through another
							// alias and used in WHERE, which the checker types before the fields are resolved) is C14's subject
							col.Hist("alias-form-rejected-at-plan-time")
							continue
						}
						x, y := a.Outcome()+" | "+strings.Join(rowsList(a), " ; "), b.Outcome()+" | "+strings.Join(rowsList(b), " ; ")
						if ordered && a.Outcome() == "ok" {
							x, y = multiset(rowsList(a)), multiset(rowsList(b))
						}
						if x != y {
							mk([]string{"C05"}, fmt.Sprintf("alias-vs-expanded-batch=%v", batch), "with alias: "+x, "expanded ("+qx+"): "+y)
						}
					}
				}
				if ix%997 == 5 {
					col.Sample(q)
				}
			}
			return nil
		})
		if err != nil {
			return nil, err
		}
	}
	return col.Finish(start), nil
}

// modesClass: coarse syntactic features of the statement (only to group findings)
func modesClass(q string) string {
	var c []string
	for _, f := range []string{"split(", "list(", "int_list(", "float_list(", "len(", "join(", "substr(", " in ", "float(", " between ", "~=", "order by", "limit"} {
		if strings.Contains(q, f) {
			c = append(c, strings.Trim(f, " ("))
		}
	}
	if identRe.MatchString(q[strings.Index(strings.ToLower(q), " where ")+1:]) {
		c = append(c, "alias-use")
	}
	return strings.Join(c, "+")
}

func init() { groups["MODES"] = runMODES }
