package main

import (
	"fmt"
	"strings"
	"time"

	"github.com/c4pt0r/kvql"
)

// engineErrfmt renders a positional error bound to the query and returns the part of the
// message before the "<pad>Syntax Error: m" trailer, hex encoded.
func engineErrfmt(q string, pos, pad int, exec bool) string {
	out, _ := safely(func() string {
		var err error
		trailer := ""
		if exec {
			err = kvql.NewExecuteError(pos, "m")
			trailer = strings.Repeat(" ", pad) + "Execute Error: m"
		} else {
			err = kvql.NewSyntaxError(pos, "m")
			trailer = strings.Repeat(" ", pad) + "Syntax Error: m"
		}
		qb := err.(kvql.QueryBinder)
		// the rendered text is a function of (query, offset, padding): the order of the calls and an
		// earlier rendering of the still unbound error (a log line, say) do not matter
		switch (pos + pad + len(q) + 8) % 4 {
		case 0:
			qb.BindQuery(q)
			qb.SetPadding(pad)
		case 1:
			_ = err.Error()
			qb.BindQuery(q)
			qb.SetPadding(pad)
		case 2:
			qb.SetPadding(pad)
			qb.BindQuery(q)
		default:
			qb.SetPadding(pad)
			_ = err.Error()
			qb.BindQuery(q)
		}
		msg := err.Error()
		if !strings.HasSuffix(msg, trailer) {
			return "bad-trailer:" + hxs(msg)
		}
		return hxs(strings.TrimSuffix(msg, trailer))
	})
	return out
}

func isASCIISpace(c byte) bool { return c == ' ' || (c >= 9 && c <= 13) }

// errfmtOracle: independent statement of the property on the rendered text.
// Returns "" when fine.
func errfmtOracle(q string, pos, pad int, rendered string) string {
	if strings.HasPrefix(rendered, "panic") {
		return rendered
	}
	lines := strings.Split(rendered, "\n")
	if len(lines) != 3 || lines[2] != "" {
		return fmt.Sprintf("expected two lines, got %d", len(lines)-1)
	}
	line1, line2 := lines[0], lines[1]
	col := strings.IndexByte(line2, '^')
	if col < 0 || line2 != strings.Repeat(" ", col)+"^--" {
		return fmt.Sprintf("caret line malformed: %q", line2)
	}
	k := col - pad // index into line1 of the character above the caret
	lead := 0
	for lead < len(q) && isASCIISpace(q[lead]) {
		lead++
	}
	end := len(q)
	for end > lead && isASCIISpace(q[end-1]) {
		end--
	}
	if k < 0 || k > len(line1) {
		return fmt.Sprintf("caret column %d (minus padding %d) is outside the query line of length %d", col, pad, len(line1))
	}
	target := pos
	if pos == -1 {
		target = end // one past the last character of the text
	}
	if target < lead {
		target = lead // offset inside the trimmed leading blanks: the first shown character
	}
	if target > end {
		target = end
	}
	off := target - k
	okDecor := false
	for _, dl := range []int{0, 4} {
		for _, dr := range []int{0, 4} {
			if dl+dr > len(line1) {
				continue
			}
			if dl == 4 && !strings.HasPrefix(line1, "... ") {
				continue
			}
			if dr == 4 && !strings.HasSuffix(line1, " ...") {
				continue
			}
			lo, hi := off+dl, off+len(line1)-dr
			if lo < lead || hi > end || lo > hi {
				continue
			}
			if q[lo:hi] != line1[dl:len(line1)-dr] {
				continue
			}
			if k < dl || k > len(line1)-dr {
				continue
			}
			// the window must really surround the offset: everything up to 35 bytes left of it and
			// (when the text is cut on the right) at least the character itself
			if dl == 0 && lo != lead {
				continue
			}
			if dr == 0 && hi != end {
				continue
			}
			okDecor = true
		}
	}
	if !okDecor {
		above := ""
		if k < len(line1) {
			above = line1[k : k+1]
		}
		want := ""
		if target < len(q) {
			want = q[target : target+1]
		}
		return fmt.Sprintf("caret is under %q (column %d of %q) but offset %d of the query is %q", above, k, line1, pos, want)
	}
	return ""
}

func errfmtQuery(n, lead, trail int, r *Rand) string {
	b := make([]byte, 0, n+lead+trail)
	blanks := []byte{' ', ' ', ' ', '\t', '\n'}
	for i := 0; i < lead; i++ {
		b = append(b, pick(r, blanks))
	}
	for i := 0; i < n; i++ {
		c := byte(33 + (i*7)%89)
		if r.Chance(1, 9) && i > 0 && i < n-1 {
			c = ' ' // inner blanks are not trimmed
		}
		b = append(b, c)
	}
	for i := 0; i < trail; i++ {
		b = append(b, pick(r, blanks))
	}
	return string(b)
}

func errfmtOne(col *Collector, d *Driver, q string, pos, pad int, exec bool, seed, idx uint64, inProperty bool) error {
	eng := engineErrfmt(q, pos, pad, exec)
	line := fmt.Sprintf("ERRFMT %s %d %d", hxs(q), pos, pad)
	model, err := d.Ask(line)
	if err != nil {
		return err
	}
	col.Eval(1)
	cs := fmt.Sprintf("len=%d pos=%d pad=%d q=%q", len(q), pos, pad, q)
	key := fmt.Sprintf("%d/%d/%d/%d", len(q), pos, pad, len(q)-len(strings.TrimLeft(q, " \t\n")))
	if len(strings.TrimSpace(q)) > 70 || len(q) != len(strings.TrimSpace(q)) {
		col.Nontrivial(key)
	}
	if q == "" {
		// Error() falls back to the one-line form for an empty query: nothing is rendered
		return nil
	}
	if strings.HasPrefix(eng, "panic") {
		col.Find(Finding{Kind: "crash", Group: "ERRFMT", Check: "render-panics", Case: cs, Line: line, Engine: eng, Model: model, Seed: seed, Index: idx,
			Properties: []string{"C17", "C06"}})
		return nil
	}
	if eng != model {
		col.Find(Finding{Kind: "correspondence", Group: "ERRFMT", Check: "engine-vs-model", Case: cs, Line: line, Engine: eng, Model: model, Seed: seed, Index: idx})
	}
	if inProperty {
		if msg := errfmtOracle(q, pos, pad, string(unhx(eng))); msg != "" {
			col.Find(Finding{Kind: "property", Group: "ERRFMT", Check: "caret-oracle", Case: cs, Line: line, Engine: string(unhx(eng)), Model: msg, Seed: seed, Index: idx,
				Properties: []string{"C17"}})
		}
	}
	return nil
}

func runERRFMT(e *Env) (*Summary, error) {
	start := time.Now()
	maxLen := 90
	if e.Tier == "thorough" {
		maxLen = 150
	}
	leads := []int{0, 1, 3, 40, 80}
	pads := []int{0, 7, 11, 45}
	if e.Tier == "thorough" {
		pads = []int{0, 1, 7, 11, 45, 90}
	}
	rule := fmt.Sprintf("grid: text length 0..%d × every offset −1..len+1 of the padded query × leading/trailing blanks ∈ %v × padding ∈ %v × {SyntaxError, ExecuteError}; texts have position-dependent characters (period 89 > window 70) so a misaligned window is visible; non-trivial when the text is longer than the 70-byte window or has blanks to trim; distinct by (length, offset, padding, leading blanks)", maxLen, leads, pads)
	col := NewCollector("ERRFMT", e.Tier, e.Seed, rule)
	col.sum.Exhaustive = true
	type job struct{ n, lead, trail int }
	var jobs []job
	for n := 0; n <= maxLen; n++ {
		for _, l := range leads {
			for _, t := range leads {
				if e.Tier != "thorough" && (n%3 != 0 && n < 60) && (l > 3 || t > 3) {
					continue
				}
				jobs = append(jobs, job{n, l, t})
			}
		}
	}
	err := e.parallel(func(w int, d *Driver) error {
		for ji := w; ji < len(jobs); ji += e.Workers {
			j := jobs[ji]
			r := NewRand(e.Seed, "ERRFMT", uint64(ji))
			q := errfmtQuery(j.n, j.lead, j.trail, r)
			for pos := -1; pos <= len(q)+1; pos++ {
				for _, pad := range pads {
					// the property speaks about offsets inside the query; one and two past the end only feed
					// the correspondence and the no-panic check
					inProp := pos < len(q) || pos == -1
					if pos >= 0 && pos < len(q) && isASCIISpace(q[pos]) && (pos < j.lead || pos >= j.lead+j.n) && pos != 0 {
						inProp = false // offsets of trimmed blanks other than 0 are never reported (C17 part 1)
					}
					if err := errfmtOne(col, d, q, pos, pad, (pos+pad)%2 == 0, e.Seed, uint64(ji), inProp); err != nil {
						return err
					}
				}
			}
			if ji%97 == 5 {
				p := len(q) / 2
				col.Sample(fmt.Sprintf("q=%q pos=%d pad=7 -> %q", q, p, string(unhx(engineErrfmt(q, p, 7, false)))))
			}
		}
		return nil
	})
	if err != nil {
		return nil, err
	}
	return col.Finish(start), nil
}

func init() { groups["ERRFMT"] = runERRFMT }
