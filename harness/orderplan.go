package main

import (
	"bytes"
	"fmt"
	"math"
	"sort"
	"strconv"
	"strings"
	"time"

	"github.com/c4pt0r/kvql"
)

// Group ORDERPLAN (property C07, crashes also C06): the sorting machinery of order_plan.go
// (FinalOrderPlan + container/heap + the row comparison) against its Lean model
// (lean/Kvql/Model/Order.lean, protocol in lean/Driver/Order.lean):
//
//	ORDERPLAN <mode> <bs> <orderspec> <types> <rows> [<chunks>]
//
// A real kvql.FinalOrderPlan runs over a stub child that hands out prescribed rows of mixed
// column kinds in prescribed chunks; the exact output sequence (ties included: the heap is
// deterministic) and the batch boundaries are compared with the model ("correspondence").
// Oracle ("property"): the output is a permutation of the child's rows and adjacent rows are
// non-decreasing under the requested order, judged with a comparison written here (text
// byte-wise, numbers numerically, false < true) on columns whose values have one kind that
// fits the declared type.  A panic of the engine is a "crash" finding.

type opKey struct {
	col  int
	desc bool
}

type opCase struct {
	rows   [][]kvql.Column
	ftypes []kvql.Type // declared type per column
	keys   []opKey
	chunks []int // batch mode: sizes of the child's chunks; nil = chunks of PlanBatchSize
	quirk  bool  // contains an empty chunk: not a well-behaved child, correspondence only
}

// a third of the engine runs (chosen by the shape of the case, so that a replay does the same) read
// part of the result, call Init() again (which every plan of the library implements as "start
// over") and only then drain: the drained result must be the same

// opStub is the child plan
type opStub struct {
	rows   [][]kvql.Column
	chunks []int
	orig   []int
	pos    int
}

func (s *opStub) String() string    { return "stub" }
func (s *opStub) Explain() []string { return []string{"stub"} }
func (s *opStub) Init() error {
	s.pos = 0
	s.chunks = append([]int{}, s.orig...)
	return nil
}
func (s *opStub) FieldNameList() []string    { return nil }
func (s *opStub) FieldTypeList() []kvql.Type { return nil }
func (s *opStub) Next(ctx *kvql.ExecuteCtx) ([]kvql.Column, error) {
	if s.pos >= len(s.rows) {
		return nil, nil
	}
	r := s.rows[s.pos]
	s.pos++
	return r, nil
}
func (s *opStub) Batch(ctx *kvql.ExecuteCtx) ([][]kvql.Column, error) {
	if len(s.chunks) == 0 {
		return nil, nil
	}
	n := s.chunks[0]
	s.chunks = s.chunks[1:]
	if s.pos+n > len(s.rows) {
		n = len(s.rows) - s.pos
	}
	ret := s.rows[s.pos : s.pos+n]
	s.pos += n
	return ret, nil
}

func opCanon(v any) string {
	switch v.(type) {
	case nil, []byte, string, int64, int, float64, bool:
		return canonValue(v)
	}
	return "?"
}

func opRowText(r []kvql.Column) string {
	p := make([]string, len(r))
	for i, c := range r {
		p[i] = opCanon(c)
	}
	return strings.Join(p, ",")
}

func opRowsText(rows [][]kvql.Column) string {
	if len(rows) == 0 {
		return "-"
	}
	p := make([]string, len(rows))
	for i, r := range rows {
		p[i] = opRowText(r)
	}
	return strings.Join(p, ";")
}

func (c *opCase) specText() (spec, types string) {
	var s, t []string
	for _, k := range c.keys {
		d := "asc"
		if k.desc {
			d = "desc"
		}
		s = append(s, fmt.Sprintf("%d:%s", k.col, d))
		t = append(t, strconv.Itoa(int(c.ftypes[k.col])))
	}
	return strings.Join(s, ","), strings.Join(t, ",")
}

func (c *opCase) line(mode string, bs int) string {
	spec, types := c.specText()
	l := fmt.Sprintf("ORDERPLAN %s %d %s %s %s", mode, bs, spec, types, opRowsText(c.rows))
	if mode == "batch" && c.chunks != nil {
		p := make([]string, len(c.chunks))
		for i, n := range c.chunks {
			p[i] = strconv.Itoa(n)
		}
		if len(p) == 0 {
			l += " -"
		} else {
			l += " " + strings.Join(p, ",")
		}
	}
	return l
}

// engine runs the real FinalOrderPlan; out is the canonical output, rows the flat row sequence
func (c *opCase) engine(batch bool, bs int) (out string, panicked bool, got [][]kvql.Column) {
	names := make([]string, len(c.ftypes))
	for i := range names {
		names[i] = fmt.Sprintf("c%d", i)
	}
	orders := make([]kvql.OrderField, len(c.keys))
	for i, k := range c.keys {
		o := kvql.ASC
		if k.desc {
			o = kvql.DESC
		}
		orders[i] = kvql.OrderField{Name: names[k.col], Field: &kvql.NameExpr{}, Order: o}
	}
	chunks := c.chunks
	if chunks == nil {
		step := max(bs, 1)
		for r := len(c.rows); r > 0; r -= step {
			chunks = append(chunks, min(r, step))
		}
	}
	stub := &opStub{rows: c.rows, chunks: append([]int{}, chunks...), orig: append([]int{}, chunks...)}
	restart := len(c.rows) >= 2 && !c.quirk && (len(c.rows)*7+len(c.keys)+bs)%3 == 0
	p := &kvql.FinalOrderPlan{Orders: orders, FieldNames: names, FieldTypes: c.ftypes, ChildPlan: stub}
	out, panicked = safely(func() string {
		if err := p.Init(); err != nil {
			return "init-error"
		}
		ctx := kvql.NewExecuteCtx()
		if restart {
			// a partial read, then start over
			if batch {
				if _, err := p.Batch(ctx); err != nil {
					return "error"
				}
			} else {
				for i := 0; i < 1+len(c.rows)/3; i++ {
					if _, err := p.Next(ctx); err != nil {
						return "error"
					}
				}
			}
			if err := p.Init(); err != nil {
				return "init-error"
			}
		}
		if batch {
			var bss []string
			for i := 0; i < drainCap; i++ {
				rows, err := p.Batch(ctx)
				if err != nil {
					return "error"
				}
				if len(rows) == 0 {
					if len(bss) == 0 {
						return "-"
					}
					return strings.Join(bss, "|")
				}
				got = append(got, rows...)
				bss = append(bss, opRowsText(rows))
			}
			return "no-termination"
		}
		for i := 0; i < drainCap; i++ {
			row, err := p.Next(ctx)
			if err != nil {
				return "error"
			}
			if row == nil {
				return opRowsText(got)
			}
			got = append(got, row)
		}
		return "no-termination"
	})
	if panicked {
		out = "panic"
	}
	return
}

// ---- the oracle's own comparison

// opFit reports whether the documented order is defined on column col: every value has a kind
// that fits the declared type (TSTR: []byte or string; TNUMBER: int64, int or float64 without
// NaN, and when integers and floats are mixed the integers are below 2^53 in magnitude, where
// float64 is exact; TBOOL: bool).  (Before patches 01/02 a column mixing two of these kinds
// makes the engine panic, which is reported as a crash before the order is judged.)
func opFit(rows [][]kvql.Column, col int, tp kvql.Type) bool {
	seen := map[string]bool{}
	bigInt := false
	for _, r := range rows {
		if col >= len(r) {
			return false
		}
		switch v := r[col].(type) {
		case []byte, string:
			seen["text"] = true
		case int64:
			seen["int"] = true
			bigInt = bigInt || v <= -(1<<53) || v >= 1<<53
		case int:
			seen["int"] = true
			bigInt = bigInt || v <= -(1<<53) || v >= 1<<53
		case float64:
			if math.IsNaN(v) {
				return false
			}
			seen["float"] = true
		case bool:
			seen["bool"] = true
		default:
			return false
		}
	}
	if len(seen) == 0 {
		return true
	}
	switch tp {
	case kvql.TSTR:
		return len(seen) == 1 && seen["text"]
	case kvql.TNUMBER:
		if seen["text"] || seen["bool"] {
			return false
		}
		return !(seen["int"] && seen["float"] && bigInt)
	case kvql.TBOOL:
		return len(seen) == 1 && seen["bool"]
	}
	return false
}

func opText(v any) []byte {
	if b, ok := v.([]byte); ok {
		return b
	}
	return []byte(v.(string))
}

func opInt(v any) (int64, bool) {
	switch x := v.(type) {
	case int64:
		return x, true
	case int:
		return int64(x), true
	}
	return 0, false
}

// opSpecCmp compares two values of fitting kinds: -1, 0, 1
func opSpecCmp(a, b any) int {
	sgn := func(lt, gt bool) int {
		if lt {
			return -1
		}
		if gt {
			return 1
		}
		return 0
	}
	switch x := a.(type) {
	case []byte, string:
		return bytes.Compare(opText(a), opText(b)) // byte-wise
	case bool:
		y := b.(bool)
		return sgn(!x && y, x && !y)
	}
	ai, aInt := opInt(a)
	bi, bInt := opInt(b)
	if aInt && bInt {
		return sgn(ai < bi, ai > bi)
	}
	// a float is involved; integers are below 2^53 here, so the conversion is exact
	af, bf := float64(ai), float64(bi)
	if !aInt {
		af = a.(float64)
	}
	if !bInt {
		bf = b.(float64)
	}
	return sgn(af < bf, af > bf)
}

// opSpecRowCmp: lexicographic over the order fields, asc/desc as written
func (c *opCase) opSpecRowCmp(l, r []kvql.Column) int {
	for _, k := range c.keys {
		v := opSpecCmp(l[k.col], r[k.col])
		if k.desc {
			v = -v
		}
		if v != 0 {
			return v
		}
	}
	return 0
}

func (c *opCase) judged() bool {
	if c.quirk {
		return false
	}
	for _, k := range c.keys {
		if !opFit(c.rows, k.col, c.ftypes[k.col]) {
			return false
		}
	}
	return true
}

// mixClass names the kind mix that made the engine panic
func (c *opCase) mixClass() string {
	for _, k := range c.keys {
		seen := map[string]bool{}
		for _, r := range c.rows {
			seen[fmt.Sprintf("%T", r[k.col])] = true
		}
		if len(seen) > 1 {
			if c.ftypes[k.col] == kvql.TNUMBER && len(seen) == 2 && seen["int64"] && seen["float64"] {
				return "int64-float64-in-number-column"
			}
			ks := make([]string, 0, len(seen))
			for s := range seen {
				ks = append(ks, s)
			}
			sort.Strings(ks)
			return "mixed-kinds"
		}
	}
	return "uniform-kinds"
}

func (c *opCase) describe(mode string, bs int) string {
	spec, types := c.specText()
	return fmt.Sprintf("order %s types %s mode=%s bs=%d chunks=%v rows=%s", spec, types, mode, bs, c.chunks, opRowsText(c.rows))
}

// opCheck runs one case in both modes at the current PlanBatchSize
func opCheck(col *Collector, d *Driver, c *opCase, bs int, seed, idx uint64) error {
	for _, mode := range []string{"next", "batch"} {
		line := c.line(mode, bs)
		model, err := d.Ask(line)
		if err != nil {
			return err
		}
		eng, panicked, got := c.engine(mode == "batch", bs)
		col.Eval(1)
		cs := c.describe(mode, bs)
		if eng != model {
			col.Find(Finding{Kind: "correspondence", Group: "ORDERPLAN", Check: "FinalOrderPlan-vs-model", Case: cs, Line: line, Engine: eng, Model: model, Seed: seed, Index: idx, Properties: []string{"C07"}})
		}
		if panicked {
			col.Hist("engine-panic")
			if !c.quirk {
				col.Find(Finding{Kind: "crash", Group: "ORDERPLAN", Check: "panic-" + c.mixClass(), Case: cs, Line: line, Engine: "panic", Model: "a sorted permutation of the rows", Seed: seed, Index: idx, Properties: []string{"C06", "C07"}})
			}
			continue
		}
		if c.quirk {
			continue
		}
		// permutation of the child's rows (always)
		in := make([]string, len(c.rows))
		for i, r := range c.rows {
			in[i] = opRowText(r)
		}
		out := make([]string, len(got))
		for i, r := range got {
			out[i] = opRowText(r)
		}
		sort.Strings(in)
		sort.Strings(out)
		if strings.Join(in, ";") != strings.Join(out, ";") {
			col.Find(Finding{Kind: "property", Group: "ORDERPLAN", Check: "not-a-permutation", Case: cs, Line: line, Engine: eng, Model: "a permutation of the rows", Seed: seed, Index: idx, Properties: []string{"C07"}})
			continue
		}
		if !c.judged() {
			col.Hist("not-judged")
			continue
		}
		col.Hist("judged")
		for i := 0; i+1 < len(got); i++ {
			if c.opSpecRowCmp(got[i], got[i+1]) > 0 {
				col.Find(Finding{Kind: "property", Group: "ORDERPLAN", Check: "adjacent-rows-out-of-order", Case: cs, Line: line,
					Engine: fmt.Sprintf("row %d: %s then %s", i, opRowText(got[i]), opRowText(got[i+1])), Model: "non-decreasing", Seed: seed, Index: idx, Properties: []string{"C07"}})
				break
			}
		}
		if mode == "batch" && bs >= 1 {
			// batches are full except the last
			parts := strings.Split(eng, "|")
			for i, p := range parts {
				n := strings.Count(p, ";") + 1
				if eng != "-" && (n > bs || (i+1 < len(parts) && n != bs)) {
					col.Find(Finding{Kind: "property", Group: "ORDERPLAN", Check: "batch-size", Case: cs, Line: line, Engine: eng, Model: fmt.Sprintf("batches of %d", bs), Seed: seed, Index: idx, Properties: []string{"C07", "C03"}})
					break
				}
			}
		}
		if len(got) > 1 && opRowsText(got) != opRowsText(c.rows) {
			col.Nontrivial(line)
		}
	}
	return nil
}

// ---- case construction

// opVal renders the abstract value v ∈ {0,1,2} in a column kind
func opVal(kind int, v int) (kvql.Column, kvql.Type) {
	switch kind % 6 {
	case 0:
		return int64(v - 1), kvql.TNUMBER
	case 1:
		return v * 7, kvql.TNUMBER
	case 2:
		return []float64{-1.5, 0, 2.25}[v], kvql.TNUMBER
	case 3:
		return [][]byte{[]byte(""), []byte("a"), []byte("ab")}[v], kvql.TSTR
	case 4:
		return []string{"A", "a", "\xff"}[v], kvql.TSTR
	}
	return v >= 1, kvql.TBOOL
}

// exhaustive small scope: value tuples for nf order fields, a unique id in the last column
func opSmallCase(seq []int, nf int, dirs int, kind int) *opCase {
	c := &opCase{}
	for f := 0; f < nf; f++ {
		_, tp := opVal(kind+f, 0)
		c.ftypes = append(c.ftypes, tp)
		c.keys = append(c.keys, opKey{col: f, desc: dirs>>f&1 == 1})
	}
	c.ftypes = append(c.ftypes, kvql.TNUMBER)
	for id, code := range seq {
		var r []kvql.Column
		for f := 0; f < nf; f++ {
			v, _ := opVal(kind+f, code%3)
			code /= 3
			r = append(r, v)
		}
		r = append(r, int64(id))
		c.rows = append(c.rows, r)
	}
	return c
}

var opTextNums = []string{"1", "2", "10", "-3", "+7", "007", "1.5", "0.1", ".5", "5.", "1e2", "1E-2", "-0", "0.0", "abc", "", "1e400", "-1e400", "1e-400",
	"9007199254740993", "9007199254740993.0", "9007199254740992.5", "123456789012345678901234567890", "9223372036854775807", "9223372036854775808", "-9223372036854775808",
	"4.9e-324", "2.5e-324", "2.4703282292062328e-324", "1.7976931348623157e308", "1.7976931348623159e308", "0.1000000000000000055511151231257827", "2.2250738585072011e-308",
	"inf", "-Inf", "nan", " 1", "1 ", "--1", "1e", "e1", ".", "+", "1.2.3", "3.14159", "100", "99.99", "1e22", "1e23", "8.41e21"}

var opFloats = []float64{0, math.Copysign(0, -1), 1, -1, 1.5, -1.5, 2.25, 1e300, -1e300, math.Inf(1), math.Inf(-1), math.SmallestNonzeroFloat64, -math.SmallestNonzeroFloat64, math.MaxFloat64, 3, 0.1}

type opColGen func(r *Rand) kvql.Column

// opColumn picks a declared type and a value generator for one column
func opColumn(r *Rand) (kvql.Type, opColGen, string) {
	strs := []string{"", "a", "ab", "b", "A", "\xff", "a\x00", "true", "false", "10", "9"}
	small := 1 + r.Intn(4)
	ints := []int64{-3, -2, -1, 0, 1, 2, 3, math.MaxInt64, math.MinInt64, 1 << 53, 1<<53 + 1}
	bytesGen := func(r *Rand) kvql.Column { return []byte(strs[r.Intn(min(len(strs), small+3))]) }
	strGen := func(r *Rand) kvql.Column { return strs[r.Intn(min(len(strs), small+3))] }
	intGen := func(r *Rand) kvql.Column { return ints[r.Intn(min(len(ints), small+5))] }
	// integers near ±2^63 and of opposite sign: their difference leaves int64
	bigs := []int64{math.MaxInt64, math.MinInt64, math.MaxInt64 - 1, math.MinInt64 + 1, 9000000000000000000, -9000000000000000000, 5000000000000000000, -5000000000000000000,
		4611686018427387904, -4611686018427387905, 5, -1, 0, 1 << 62, -(1 << 62)}
	bigIntGen := func(r *Rand) kvql.Column { return bigs[r.Intn(min(len(bigs), 3*small+3))] }
	goIntGen := func(r *Rand) kvql.Column { return int(ints[r.Intn(min(len(ints), small+5))]) }
	floatGen := func(r *Rand) kvql.Column { return opFloats[r.Intn(min(len(opFloats), 2*small+4))] }
	nanGen := func(r *Rand) kvql.Column {
		if r.Chance(1, 4) {
			return math.NaN()
		}
		return opFloats[r.Intn(6)]
	}
	boolGen := func(r *Rand) kvql.Column { return r.Bool() }
	txtB := func(r *Rand) kvql.Column { return []byte(pick(r, opTextNums)) }
	txtS := func(r *Rand) kvql.Column { return pick(r, opTextNums) }
	boolTxtS := func(r *Rand) kvql.Column { return pick(r, []string{"true", "false", "x", "TRUE", ""}) }
	boolTxtB := func(r *Rand) kvql.Column { return []byte(pick(r, []string{"true", "false", "x", "TRUE", ""})) }
	nilGen := func(r *Rand) kvql.Column { return nil }
	otherGen := func(r *Rand) kvql.Column { return []string{"x"} }
	all := []opColGen{bytesGen, strGen, intGen, goIntGen, floatGen, boolGen, nilGen, otherGen, txtB, txtS}
	mix := func(a, b opColGen, num, den int) opColGen {
		return func(r *Rand) kvql.Column {
			if r.Chance(num, den) {
				return b(r)
			}
			return a(r)
		}
	}
	switch n := r.Intn(100); {
	case n < 12:
		return kvql.TSTR, bytesGen, "str/bytes"
	case n < 22:
		return kvql.TSTR, strGen, "str/string"
	case n < 30:
		return kvql.TNUMBER, intGen, "num/int64"
	case n < 34:
		return kvql.TNUMBER, bigIntGen, "num/int64-near-2^63"
	case n < 42:
		return kvql.TNUMBER, goIntGen, "num/int"
	case n < 54:
		return kvql.TNUMBER, floatGen, "num/float64"
	case n < 62:
		return kvql.TBOOL, boolGen, "bool/bool"
	case n < 67:
		return kvql.TNUMBER, nanGen, "num/float64+NaN"
	case n < 73:
		return kvql.TNUMBER, txtB, "num/text-bytes"
	case n < 79:
		return kvql.TNUMBER, txtS, "num/text-string"
	case n < 82:
		return kvql.TBOOL, boolTxtS, "bool/text-string"
	case n < 85:
		return kvql.TBOOL, boolTxtB, "bool/text-bytes"
	case n < 89:
		// the mix an aggregate produces: sum/avg is int64 for one group and float64 for another
		return kvql.TNUMBER, mix(intGen, floatGen, 1, 3), "num/int64+float64"
	case n < 95:
		// any two kinds under any of the three types
		tp := pick(r, []kvql.Type{kvql.TSTR, kvql.TNUMBER, kvql.TBOOL})
		return tp, mix(pick(r, all), pick(r, all), 1, 4), "mixed"
	case n < 98:
		// a kind that no case of the type's switch lists
		tp := pick(r, []kvql.Type{kvql.TSTR, kvql.TNUMBER, kvql.TBOOL})
		return tp, pick(r, all), "any-kind"
	}
	// a declared type without comparison: `default: return 0`
	return pick(r, []kvql.Type{kvql.TUNKNOWN, kvql.TIDENT, kvql.TLIST, kvql.TJSON}), pick(r, all), "untyped"
}

func opRandomCase(r *Rand, col *Collector) *opCase {
	c := &opCase{}
	ncols := 1 + r.Intn(3)
	if r.Chance(1, 8) {
		ncols = 4
	}
	gens := make([]opColGen, ncols)
	for i := 0; i < ncols; i++ {
		tp, g, name := opColumn(r)
		c.ftypes = append(c.ftypes, tp)
		gens[i] = g
		col.Hist("column:" + name)
	}
	c.ftypes = append(c.ftypes, kvql.TNUMBER) // id column
	n := r.Intn(41)
	if r.Chance(1, 4) {
		n = r.Intn(6)
	}
	for id := 0; id < n; id++ {
		row := make([]kvql.Column, 0, ncols+1)
		for i := 0; i < ncols; i++ {
			row = append(row, gens[i](r))
		}
		row = append(row, int64(id))
		c.rows = append(c.rows, row)
	}
	nk := 1 + r.Intn(3)
	if r.Chance(1, 8) {
		nk = 4
	}
	for i := 0; i < nk; i++ {
		k := opKey{col: r.Intn(ncols), desc: r.Bool()}
		if r.Chance(1, 10) {
			k.col = ncols // the unique id
		}
		if i > 0 && r.Chance(1, 10) {
			k.col = c.keys[r.Intn(i)].col // the same field again (either direction)
		}
		c.keys = append(c.keys, k)
	}
	col.Hist(fmt.Sprintf("order-fields:%d", nk))
	if r.Chance(1, 2) {
		// the child hands its rows out in its own chunk sizes
		for left := n; left > 0; {
			s := 1 + r.Intn(7)
			if s > left {
				s = left
			}
			c.chunks = append(c.chunks, s)
			left -= s
		}
		if c.chunks == nil {
			c.chunks = []int{}
		}
		if r.Chance(1, 25) && len(c.chunks) > 0 {
			// an empty answer in the middle: the plan stops asking (and asks again on the next
			// call while nothing was pushed)
			at := r.Intn(len(c.chunks))
			c.chunks = append(c.chunks[:at], append([]int{0}, c.chunks[at:]...)...)
			c.quirk = true
		}
	}
	return c
}

// opSQLWitness: the int64/float64 mix is reachable from a statement (sum is int64 for one
// group and float64 for another); engine only: no panic, rows sorted by the aggregate
func opSQLWitness(col *Collector, seed uint64) {
	kvs := []KV{{"a1", "1"}, {"a2", "2"}, {"b1", "1.5"}, {"b2", "2"}, {"c1", "7"}}
	for _, q := range []string{
		"select substr(key, 0, 1) as g, sum(value) as s where key >= '' group by g order by s",
		"select substr(key, 0, 1) as g, min(value) as s where key >= '' group by g order by s desc",
		"select substr(key, 0, 1) as g, max(value) as s where key >= '' group by g order by s, g",
		"select substr(key, 0, 1) as g, avg(value) as s where key >= '' group by g order by s",
	} {
		for _, batch := range []bool{false, true} {
			res := runStatement(q, NewRefStore(kvs), batch, true)
			col.Eval(1)
			cs := fmt.Sprintf("%s  [store %v, batch=%v]", q, kvs, batch)
			if res.Outcome() == "panic" {
				col.Find(Finding{Kind: "crash", Group: "ORDERPLAN", Check: "panic-statement-int64-float64", Case: cs,
					Line: "ORDER " + hxs(q), Engine: "panic: " + res.Panic, Model: "rows sorted by the aggregate", Seed: seed, Properties: []string{"C06", "C07"}})
				continue
			}
			col.Hist("statement-" + res.Outcome())
			if res.Outcome() != "ok" {
				continue
			}
			desc := strings.Contains(q, "order by s desc")
			for i := 0; i+1 < len(res.Rows); i++ {
				c := opSpecCmp(res.Rows[i][1], res.Rows[i+1][1])
				if desc {
					c = -c
				}
				if c > 0 {
					col.Find(Finding{Kind: "property", Group: "ORDERPLAN", Check: "statement-rows-out-of-order", Case: cs,
						Line: "ORDER " + hxs(q), Engine: rowsContent(res.Rows), Model: "rows sorted by the aggregate", Seed: seed, Properties: []string{"C07"}})
					break
				}
			}
		}
	}
}

func runORDERPLAN(e *Env) (*Summary, error) {
	start := time.Now()
	seqMax, msMax := 4, 5
	if e.Tier == "thorough" {
		seqMax, msMax = 5, 7
	}
	nRandom := e.n(6000, 200000)
	rule := fmt.Sprintf("real FinalOrderPlan over a stub child vs the Lean model, both modes, batch sizes {1,2,3,5}: exhaustive small scope = every row sequence of length ≤ %d over a 3-value column for 1 order field (asc, desc) and over 3×3 values for 2 order fields (4 asc/desc combinations), every row multiset of size ≤ %d in 2 seeded arrangements, column kinds rotating over int64/int/float64/[]byte/string/bool, a unique id column making ties visible; plus %d random cases of 0–40 rows with duplicates, 1–4 order fields (a field may repeat) over 1–4 columns of kinds int64 (also near ±2^63 with opposite signs), int, float64 (±0, ±Inf, NaN), []byte, string, bool, numbers and Booleans as text, nil, mixed kinds and undeclared types, child chunk sizes 1–7; non-trivial when the output order differs from the input order; distinct by protocol line", seqMax, msMax, nRandom)
	col := NewCollector("ORDERPLAN", e.Tier, e.Seed, rule)
	col.sum.Exhaustive = true
	saved := kvql.PlanBatchSize
	defer func() { kvql.PlanBatchSize = saved }()

	// the exhaustive cases
	var small []*opCase
	kind := 0
	for nf := 1; nf <= 2; nf++ {
		vals := 3
		if nf == 2 {
			vals = 9
		}
		// all sequences of length ≤ seqMax
		for n := 0; n <= seqMax; n++ {
			total := 1
			for i := 0; i < n; i++ {
				total *= vals
			}
			for code := 0; code < total; code++ {
				seq := make([]int, n)
				x := code
				for i := range seq {
					seq[i] = x % vals
					x /= vals
				}
				for dirs := 0; dirs < 1<<nf; dirs++ {
					small = append(small, opSmallCase(seq, nf, dirs, kind))
					kind++
				}
			}
		}
		// all multisets of size seqMax+1 … msMax, two seeded arrangements each
		for n := seqMax + 1; n <= msMax; n++ {
			ms := make([]int, n)
			var rec func(pos, lo int)
			rec = func(pos, lo int) {
				if pos == n {
					for arr := 0; arr < 2; arr++ {
						r := NewRand(e.Seed, "ORDERPLAN-ms", uint64(len(small)))
						seq := append([]int{}, ms...)
						for i := len(seq) - 1; i > 0; i-- {
							j := r.Intn(i + 1)
							seq[i], seq[j] = seq[j], seq[i]
						}
						for dirs := 0; dirs < 1<<nf; dirs++ {
							small = append(small, opSmallCase(seq, nf, dirs, kind))
							kind++
						}
					}
					return
				}
				for v := lo; v < vals; v++ {
					ms[pos] = v
					rec(pos+1, v)
				}
			}
			rec(0, 0)
		}
	}
	col.Note(fmt.Sprintf("%d exhaustive small-scope cases per batch size", len(small)))
	opSQLWitness(col, e.Seed)

	for _, bs := range []int{1, 2, 3, 5} {
		kvql.PlanBatchSize = bs
		err := e.parallel(func(w int, d *Driver) error {
			for i := w; i < len(small); i += e.Workers {
				if err := opCheck(col, d, small[i], bs, e.Seed, uint64(i)); err != nil {
					return err
				}
			}
			for ix := uint64(w); ix < uint64(nRandom/4); ix += uint64(e.Workers) {
				r := NewRand(e.Seed, "ORDERPLAN", ix*8+uint64(bs))
				c := opRandomCase(r, col)
				if err := opCheck(col, d, c, bs, e.Seed, ix); err != nil {
					return err
				}
				if ix%997 == 5 {
					col.Sample(c.describe("both", bs))
				}
			}
			return nil
		})
		if err != nil {
			return nil, err
		}
	}
	return col.Finish(start), nil
}

func init() { groups["ORDERPLAN"] = runORDERPLAN }
