package main

import (
	"errors"
	"fmt"
	"math"
	"strings"
	"sync/atomic"
	"time"

	"github.com/c4pt0r/kvql"
)

func canonFloat(x float64) string { return fmt.Sprintf("%016x", math.Float64bits(x)) }

type RunResult struct {
	Fields   []string
	Rows     [][]any
	Batches  []int // sizes of the batches (batch mode)
	Err      error
	ErrStage string // "plan" or "exec"
	Panic    string
	Explain  []string
}

// errClass maps an error to a small enum: never message text
func errClass(err error) string {
	if err == nil {
		return "ok"
	}
	if errors.Is(err, errInjected) {
		return "storage-fault"
	}
	var se *kvql.SyntaxError
	if errors.As(err, &se) {
		return fmt.Sprintf("syntax@%d", se.Pos)
	}
	var ee *kvql.ExecuteError
	if errors.As(err, &ee) {
		return fmt.Sprintf("exec@%d", ee.Pos)
	}
	return "other-error"
}

// runStatement plans and drains one statement.  PlanBatchSize is a global of the library and must
// be set by the caller for the whole phase.
// statementTimeout bounds one statement: a plan that loops for ever inside a single Next/Batch call
// must not hang the harness (the goroutine is abandoned; the process ends with the group).
const statementTimeout = 20 * time.Second

var abandonedStatements int32

func runStatement(q string, st kvql.Storage, batch bool, cache bool) *RunResult {
	if atomic.LoadInt32(&abandonedStatements) >= 8 {
		// several statements already hang: do not start more spinning goroutines
		return &RunResult{Panic: "no-termination (not run: earlier statements did not terminate)"}
	}
	done := make(chan *RunResult, 1)
	go func() { done <- runStatementInline(q, st, batch, cache) }()
	select {
	case r := <-done:
		return r
	case <-time.After(statementTimeout):
		atomic.AddInt32(&abandonedStatements, 1)
		return &RunResult{Panic: fmt.Sprintf("no-termination: still running after %s", statementTimeout)}
	}
}

func runStatementInline(q string, st kvql.Storage, batch bool, cache bool) (res *RunResult) {
	res = &RunResult{}
	defer func() {
		if r := recover(); r != nil {
			res.Panic = fmt.Sprintf("%v", r)
		}
	}()
	opt := kvql.NewOptimizer(q)
	plan, err := opt.BuildPlan(st)
	if err != nil {
		res.Err, res.ErrStage = err, "plan"
		return
	}
	res.Fields = plan.FieldNameList()
	res.Explain = plan.Explain()
	ctx := kvql.NewExecuteCtx()
	ctx.EnableCache = cache
	if batch {
		for i := 0; i < drainCap; i++ {
			rows, err := plan.Batch(ctx)
			if err != nil {
				res.Err, res.ErrStage = err, "exec"
				return
			}
			if len(rows) == 0 {
				return
			}
			res.Batches = append(res.Batches, len(rows))
			for _, r := range rows {
				rr := make([]any, len(r))
				for j, c := range r {
					rr[j] = c
				}
				res.Rows = append(res.Rows, rr)
			}
		}
		res.Panic = "no-termination"
		return
	}
	for i := 0; i < drainCap; i++ {
		row, err := plan.Next(ctx)
		if err != nil {
			res.Err, res.ErrStage = err, "exec"
			return
		}
		if row == nil {
			return
		}
		rr := make([]any, len(row))
		for j, c := range row {
			rr[j] = c
		}
		res.Rows = append(res.Rows, rr)
	}
	res.Panic = "no-termination"
	return
}

// rowsContent renders rows by content (what C03 compares)
func rowsContent(rows [][]any) string {
	if len(rows) == 0 {
		return "-"
	}
	p := make([]string, len(rows))
	for i, r := range rows {
		c := make([]string, len(r))
		for j, v := range r {
			c[j] = contentValue(v)
		}
		p[i] = strings.Join(c, " ")
	}
	return strings.Join(p, " ; ")
}

func (r *RunResult) Outcome() string {
	if r.Panic != "" {
		return "panic"
	}
	if r.Err != nil {
		return r.ErrStage + ":" + errClass(r.Err)
	}
	return "ok"
}
