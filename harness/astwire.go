package main

import (
	"fmt"
	"math"
	"strings"

	"github.com/c4pt0r/kvql"
)

// wireExpr serialises a Go AST into the flat prefix encoding read by Kvql.Expr.ofWire
// (see lean/Kvql/Model/Expr.lean).  An alias reference carries a copy of its target; a
// reference whose target is already being expanded (a cyclic alias) is the marker Y.
func wireExpr(e kvql.Expression) string {
	var toks []string
	var walk func(e kvql.Expression, onPath map[kvql.Expression]bool)
	walk = func(e kvql.Expression, onPath map[kvql.Expression]bool) {
		switch x := e.(type) {
		case *kvql.BinaryOpExpr:
			toks = append(toks, "B", fmt.Sprint(x.Pos), fmt.Sprint(int(x.Op)))
			walk(x.Left, onPath)
			walk(x.Right, onPath)
		case *kvql.FieldExpr:
			toks = append(toks, "F", fmt.Sprint(x.Pos), fmt.Sprint(int(x.Field)))
		case *kvql.StringExpr:
			toks = append(toks, "S", fmt.Sprint(x.Pos), hxs(x.Data))
		case *kvql.NotExpr:
			toks = append(toks, "N", fmt.Sprint(x.Pos))
			walk(x.Right, onPath)
		case *kvql.FunctionCallExpr:
			toks = append(toks, "C", fmt.Sprint(x.Pos))
			walk(x.Name, onPath)
			toks = append(toks, fmt.Sprint(len(x.Args)))
			for _, a := range x.Args {
				walk(a, onPath)
			}
		case *kvql.NameExpr:
			toks = append(toks, "I", fmt.Sprint(x.Pos), hxs(x.Data))
		case *kvql.FieldReferenceExpr:
			// a cycle is detected by the identity of the *target* node (the select field the
			// reference points at): entering a target that is already being expanded is Y
			if onPath[x.FieldExpr] || len(onPath) > 64 {
				toks = append(toks, "Y")
				return
			}
			np := map[kvql.Expression]bool{x.FieldExpr: true}
			for k := range onPath {
				np[k] = true
			}
			toks = append(toks, "R", fmt.Sprint(x.Name.Pos), hxs(x.Name.Data))
			walk(x.FieldExpr, np)
		case *kvql.NumberExpr:
			toks = append(toks, "M", fmt.Sprint(x.Pos), hxs(x.Data), fmt.Sprint(x.Int))
		case *kvql.FloatExpr:
			toks = append(toks, "D", fmt.Sprint(x.Pos), hxs(x.Data), fmt.Sprint(math.Float64bits(x.Float)))
		case *kvql.BoolExpr:
			b := "0"
			if x.Bool {
				b = "1"
			}
			toks = append(toks, "T", fmt.Sprint(x.Pos), hxs(x.Data), b)
		case *kvql.ListExpr:
			toks = append(toks, "L", fmt.Sprint(x.Pos), fmt.Sprint(len(x.List)))
			for _, it := range x.List {
				walk(it, onPath)
			}
		case *kvql.FieldAccessExpr:
			toks = append(toks, "A", fmt.Sprint(x.Pos))
			walk(x.Left, onPath)
			walk(x.FieldName, onPath)
		default:
			toks = append(toks, fmt.Sprintf("?%T", e))
		}
	}
	walk(e, map[kvql.Expression]bool{})
	return strings.Join(toks, ",")
}
