package main

import (
	"fmt"
	"math"
	"strings"

	"github.com/c4pt0r/kvql"
)

// wireExpr serialises a Go AST into the flat prefix encoding read by Kvql.Expr.ofWire
// (see lean/Kvql/Model/Expr.lean).  An alias reference carries a copy of its target; a
// reference whose target is already being expanded (a cyclic alias) is the marker Y.
func wireExpr(e kvql.Expression) string {
	var toks []string
	var walk func(e kvql.Expression, onPath map[kvql.Expression]bool)
	walk = func(e kvql.Expression, onPath map[kvql.Expression]bool) {
		switch x := e.(type) {
		case *kvql.BinaryOpExpr:
			toks = append(toks, "B", fmt.Sprint(x.Pos), fmt.Sprint(int(x.Op)))
			walk(x.Left, onPath)
			walk(x.Right, onPath)
		case *kvql.FieldExpr:
			toks = append(toks, "F", fmt.Sprint(x.Pos), fmt.Sprint(int(x.Field)))
		case *kvql.StringExpr:
			toks = append(toks, "S", fmt.Sprint(x.Pos), hxs(x.Data))
		case *kvql.NotExpr:
			toks = append(toks, "N", fmt.Sprint(x.Pos))
			walk(x.Right, onPath)
		case *kvql.FunctionCallExpr:
			toks = append(toks, "C", fmt.Sprint(x.Pos))
			walk(x.Name, onPath)
			toks = append(toks, fmt.Sprint(len(x.Args)))
			for _, a := range x.Args {
				walk(a, onPath)
			}
		case *kvql.NameExpr:
			toks = append(toks, "I", fmt.Sprint(x.Pos), hxs(x.Data))
		case *kvql.FieldReferenceExpr:
			// a cycle is detected by the identity of the *target* node (the select field the
			// reference points at): entering a target that is already being expanded is Y
			if onPath[x.FieldExpr] || len(onPath) > 64 {
				toks = append(toks, "Y")
				return
			}
			np := map[kvql.Expression]bool{x.FieldExpr: true}
			for k := range onPath {
				np[k] = true
			}
			toks = append(toks, "R", fmt.Sprint(x.Name.Pos), hxs(x.Name.Data))
			walk(x.FieldExpr, np)
		case *kvql.NumberExpr:
			toks = append(toks, "M", fmt.Sprint(x.Pos), hxs(x.Data), fmt.Sprint(x.Int))
		case *kvql.FloatExpr:
			toks = append(toks, "D", fmt.Sprint(x.Pos), hxs(x.Data), fmt.Sprint(math.Float64bits(x.Float)))
		case *kvql.BoolExpr:
			b := "0"
			if x.Bool {
				b = "1"
			}
			toks = append(toks, "T", fmt.Sprint(x.Pos), hxs(x.Data), b)
		case *kvql.ListExpr:
			toks = append(toks, "L", fmt.Sprint(x.Pos), fmt.Sprint(len(x.List)))
			for _, it := range x.List {
				walk(it, onPath)
			}
		case *kvql.FieldAccessExpr:
			toks = append(toks, "A", fmt.Sprint(x.Pos))
			walk(x.Left, onPath)
			walk(x.FieldName, onPath)
		default:
			toks = append(toks, fmt.Sprintf("?%T", e))
		}
	}
	walk(e, map[kvql.Expression]bool{})
	return strings.Join(toks, ",")
}

// wireStmt serialises what Parser.Parse returns into the flat encoding of Kvql.Stmt.toWire
// (see lean/Kvql/Model/Stmt.lean):
//
//	SEL,pos,all,nf,FIELD…,nn,hexname…,nt,type…,wpos,WHERE,ORDER,GROUP,LIMIT
//	PUT,pos,n,(KEY,VALUE)…    REM,pos,n,KEY…    DEL,pos,wpos,WHERE,LIMIT
//	ORDER = 0 | 1,pos,n,(hexname,order)…   GROUP = 0 | 1,pos,n,(hexname,EXPR)…   LIMIT = 0 | 1,pos,start,count
func wireStmt(s kvql.Statement) string {
	var toks []string
	add := func(xs ...string) { toks = append(toks, xs...) }
	limit := func(l *kvql.LimitStmt) {
		if l == nil {
			add("0")
			return
		}
		add("1", fmt.Sprint(l.Pos), fmt.Sprint(l.Start), fmt.Sprint(l.Count))
	}
	switch x := s.(type) {
	case *kvql.SelectStmt:
		all := "0"
		if x.AllFields {
			all = "1"
		}
		add("SEL", fmt.Sprint(x.Pos), all, fmt.Sprint(len(x.Fields)))
		for _, f := range x.Fields {
			add(wireExpr(f))
		}
		add(fmt.Sprint(len(x.FieldNames)))
		for _, n := range x.FieldNames {
			add(hxs(n))
		}
		add(fmt.Sprint(len(x.FieldTypes)))
		for _, t := range x.FieldTypes {
			add(fmt.Sprint(int(t)))
		}
		if x.Where == nil {
			add("?nil-where")
		} else {
			add(fmt.Sprint(x.Where.Pos), wireExpr(x.Where.Expr))
		}
		if x.Order == nil {
			add("0")
		} else {
			add("1", fmt.Sprint(x.Order.Pos), fmt.Sprint(len(x.Order.Orders)))
			for _, o := range x.Order.Orders {
				add(hxs(o.Name), fmt.Sprint(int(o.Order)))
			}
		}
		if x.GroupBy == nil {
			add("0")
		} else {
			add("1", fmt.Sprint(x.GroupBy.Pos), fmt.Sprint(len(x.GroupBy.Fields)))
			for _, g := range x.GroupBy.Fields {
				add(hxs(g.Name), wireExpr(g.Expr))
			}
		}
		limit(x.Limit)
	case *kvql.PutStmt:
		add("PUT", fmt.Sprint(x.Pos), fmt.Sprint(len(x.KVPairs)))
		for _, kv := range x.KVPairs {
			add(wireExpr(kv.Key), wireExpr(kv.Value))
		}
	case *kvql.RemoveStmt:
		add("REM", fmt.Sprint(x.Pos), fmt.Sprint(len(x.Keys)))
		for _, k := range x.Keys {
			add(wireExpr(k))
		}
	case *kvql.DeleteStmt:
		add("DEL", fmt.Sprint(x.Pos))
		if x.Where == nil {
			add("?nil-where")
		} else {
			add(fmt.Sprint(x.Where.Pos), wireExpr(x.Where.Expr))
		}
		limit(x.Limit)
	default:
		add(fmt.Sprintf("?%T", s))
	}
	return strings.Join(toks, ",")
}
