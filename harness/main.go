package main

import (
	"flag"
	"fmt"
	"os"
	"runtime"
	"strings"
)

type groupFn func(e *Env) (*Summary, error)

var groups = map[string]groupFn{}

func main() {
	if os.Getenv("KVH_CRASH_WORKER") == "1" {
		os.Exit(crashWorker())
	}
	group := flag.String("group", "", "operation group (LEX, ERRFMT, …)")
	tier := flag.String("tier", "quick", "quick | thorough")
	seed := flag.Uint64("seed", 1, "PRNG seed")
	driver := flag.String("driver", "/verif/lean/.lake/build/bin/kvqlmodel", "path of the compiled Lean model driver")
	out := flag.String("out", "", "summary JSON path")
	workers := flag.Int("workers", runtime.NumCPU(), "parallel workers")
	budget := flag.Float64("budget", 1, "multiplier for random case counts")
	replay := flag.String("replay", "", "replay one protocol line (prints engine and model outputs)")
	flag.Parse()
	registerGroups()
	e := &Env{DriverPath: *driver, Tier: *tier, Seed: *seed, Workers: *workers, Budget: *budget}
	if *replay != "" {
		os.Exit(doReplay(e, *replay))
	}
	fn, ok := groups[*group]
	if !ok {
		var names []string
		for k := range groups {
			names = append(names, k)
		}
		fmt.Fprintf(os.Stderr, "unknown group %q (have %s)\n", *group, strings.Join(names, ", "))
		os.Exit(2)
	}
	s, err := fn(e)
	if err != nil {
		fmt.Fprintln(os.Stderr, "kvharness:", err)
		os.Exit(2)
	}
	if *out != "" {
		if err := writeSummary(*out, s); err != nil {
			fmt.Fprintln(os.Stderr, "kvharness:", err)
			os.Exit(2)
		}
	}
	fmt.Printf("group=%s tier=%s seed=%d evaluations=%d distinct_nontrivial=%d findings=%d wall=%.1fs\n",
		s.Group, s.Tier, s.Seed, s.Evaluations, s.Nontrivial, s.NumFindings, s.WallS)
	for i, f := range s.Findings {
		if i >= 8 {
			break
		}
		fmt.Printf("  [%s/%s] %s\n      engine: %s\n      other:  %s\n", f.Kind, f.Check, f.Case, f.Engine, f.Model)
	}
}

func registerGroups() {}

func doReplay(e *Env, line string) int {
	d, err := StartDriver(e.DriverPath)
	if err != nil {
		fmt.Fprintln(os.Stderr, err)
		return 2
	}
	defer d.Close()
	resp, err := d.Ask(line)
	if err != nil {
		fmt.Fprintln(os.Stderr, err)
		return 2
	}
	fmt.Println("model:", resp)
	f := strings.Fields(line)
	if len(f) >= 2 && strings.HasPrefix(f[0], "LEX") {
		fmt.Println("engine:", engineLex(string(unhx(f[1]))))
	}
	if eng, ok := replayRunqLine(line); ok {
		fmt.Println("engine:", eng)
	}
	if eng, ok := replayPlanLine(line); ok {
		fmt.Println("engine:", eng)
	}
	if len(f) == 4 && f[0] == "ERRFMT" {
		var pos, pad int
		fmt.Sscan(f[2], &pos)
		fmt.Sscan(f[3], &pad)
		fmt.Println("engine:", engineErrfmt(string(unhx(f[1])), pos, pad, false))
	}
	return 0
}
