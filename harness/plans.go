package main

// Groups PLAN, FAULT, POLL: the plan layer of kvql (scan plans, select * projection, LimitPlan under
// DELETE, DeletePlan, PutPlan, RemovePlan, BuildPlan) against lean/Kvql/Model/Plans.lean, plus oracles
// for C12, C13, C11, the traffic half of C18 and the plan half of C01 that use neither the Lean model
// nor kvql code.  Protocol: see lean/Driver/Plans.lean.

import (
	"bytes"
	"errors"
	"fmt"
	"sort"
	"strconv"
	"strings"
	"time"

	"github.com/c4pt0r/kvql"
)

func init() {
	groups["PLAN"] = runPLAN
	groups["FAULT"] = runFAULT
	groups["POLL"] = runPOLL
}

var planProps = []string{"C01", "C11", "C12", "C13", "C18"}

// ---------------------------------------------------------------- statement analysis

type scanNode struct {
	Kind       string // full prefix range mget empty
	Prefix     string
	Start, End []byte // nil = no bound
	Keys       []string
}

func hxOrNil(b []byte) string {
	if b == nil {
		return "nil"
	}
	return hx(b)
}

func listOr(xs []string) string {
	if len(xs) == 0 {
		return "_"
	}
	return strings.Join(xs, ",")
}

func (n *scanNode) wire() string {
	switch n.Kind {
	case "prefix":
		return "prefix:" + hxs(n.Prefix)
	case "range":
		return "range:" + hxOrNil(n.Start) + ":" + hxOrNil(n.End)
	case "mget":
		ks := make([]string, len(n.Keys))
		for i, k := range n.Keys {
			ks[i] = hxs(k)
		}
		return "mget:" + listOr(ks)
	}
	return n.Kind
}

func (n *scanNode) String() string {
	switch n.Kind {
	case "prefix":
		return fmt.Sprintf("prefix[%q]", n.Prefix)
	case "range":
		s, e := "nil", "nil"
		if n.Start != nil {
			s = fmt.Sprintf("%q", n.Start)
		}
		if n.End != nil {
			e = fmt.Sprintf("%q", n.End)
		}
		return "range[" + s + "," + e + "]"
	case "mget":
		return fmt.Sprintf("mget%q", n.Keys)
	}
	return n.Kind
}

// inRegion: is the key inside the region the scan node stands for (the harness' own reading of the
// node: prefix = keys with the prefix, range = Start <= k <= End, mget = the listed keys)
func (n *scanNode) inRegion(k string) bool {
	switch n.Kind {
	case "full":
		return true
	case "prefix":
		return strings.HasPrefix(k, n.Prefix)
	case "range":
		return (n.Start == nil || bytes.Compare([]byte(k), n.Start) >= 0) && (n.End == nil || bytes.Compare([]byte(k), n.End) <= 0)
	case "mget":
		for _, x := range n.Keys {
			if x == k {
				return true
			}
		}
	}
	return false
}

func nodeOfPlan(p kvql.Plan) (*scanNode, *kvql.FilterExec, bool) {
	switch x := p.(type) {
	case *kvql.FullScanPlan:
		return &scanNode{Kind: "full"}, x.Filter, true
	case *kvql.PrefixScanPlan:
		return &scanNode{Kind: "prefix", Prefix: x.Prefix}, x.Filter, true
	case *kvql.RangeScanPlan:
		return &scanNode{Kind: "range", Start: x.Start, End: x.End}, x.Filter, true
	case *kvql.MultiGetPlan:
		return &scanNode{Kind: "mget", Keys: append([]string{}, x.Keys...)}, x.Filter, true
	case *kvql.EmptyResultPlan:
		return &scanNode{Kind: "empty"}, nil, true
	}
	return nil, nil, false
}

type stmtInfo struct {
	Q        string
	Kind     string // select delete put remove
	Node     *scanNode
	Filter   *kvql.FilterExec
	HasAnd   bool
	HasLimit bool
	LStart   int
	LCount   int
	Put      []*kvql.PutKVPair
	Rem      []kvql.Expression
	Where    string // text of the predicate (select/delete), for the C11 oracle
}

// exprHasAnd: the harness' own walk for `&` / `and`
func exprHasAnd(e kvql.Expression) bool {
	switch x := e.(type) {
	case *kvql.BinaryOpExpr:
		if x.Op == kvql.And || x.Op == kvql.KWAnd {
			return true
		}
		return exprHasAnd(x.Left) || exprHasAnd(x.Right)
	case *kvql.NotExpr:
		return exprHasAnd(x.Right)
	case *kvql.FunctionCallExpr:
		for _, a := range x.Args {
			if exprHasAnd(a) {
				return true
			}
		}
	case *kvql.ListExpr:
		for _, a := range x.List {
			if exprHasAnd(a) {
				return true
			}
		}
	case *kvql.FieldAccessExpr:
		return exprHasAnd(x.Left) || exprHasAnd(x.FieldName)
	}
	return false
}

// analyze: parser + expression folder + scan planner, as Optimizer.init/buildScanPlan chain them,
// without BuildPlan (so that the model is handed the scan node and decides the rest itself)
func analyze(q string) (info *stmtInfo, err error) {
	defer func() {
		if r := recover(); r != nil {
			info, err = nil, fmt.Errorf("panic in analysis: %v", r)
		}
	}()
	st, err := kvql.NewParser(q).Parse()
	if err != nil {
		return nil, err
	}
	info = &stmtInfo{Q: q}
	scan := func(where *kvql.WhereStmt) {
		eo := kvql.ExpressionOptimizer{Root: where.Expr}
		where.Expr = eo.Optimize()
		info.Filter = &kvql.FilterExec{Ast: where}
		info.HasAnd = exprHasAnd(where.Expr)
		p := kvql.NewFilterOptimizer(where, nil, info.Filter).Optimize()
		info.Node, _, _ = nodeOfPlan(p)
	}
	switch s := st.(type) {
	case *kvql.SelectStmt:
		if !s.AllFields || s.Limit != nil || s.Order != nil || s.GroupBy != nil {
			return nil, fmt.Errorf("unsupported select")
		}
		info.Kind = "select"
		scan(s.Where)
	case *kvql.DeleteStmt:
		info.Kind = "delete"
		scan(s.Where)
		if s.Limit != nil {
			info.HasLimit, info.LStart, info.LCount = true, s.Limit.Start, s.Limit.Count
		}
	case *kvql.PutStmt:
		info.Kind = "put"
		info.Put = s.KVPairs
	case *kvql.RemoveStmt:
		info.Kind = "remove"
		info.Rem = s.Keys
	default:
		return nil, fmt.Errorf("unsupported statement")
	}
	if (info.Kind == "select" || info.Kind == "delete") && info.Node == nil {
		return nil, fmt.Errorf("unknown scan plan")
	}
	return info, nil
}

// resultText is func.go:toString for the result kinds PUT/REMOVE admit (text and numbers)
func resultText(v any) (string, bool) {
	switch x := v.(type) {
	case string:
		return x, true
	case []byte:
		return string(x), true
	case int64:
		return strconv.FormatInt(x, 10), true
	case int:
		return strconv.Itoa(x), true
	}
	return "", false
}

func evalRes(e kvql.Expression, key string) (res string, failed bool, odd bool) {
	out, p := safely(func() string {
		v, err := e.Execute(kvql.NewKVPStr(key, ""), kvql.NewExecuteCtx())
		if err != nil {
			return "!"
		}
		t, ok := resultText(v)
		if !ok {
			return "?"
		}
		return "=" + t
	})
	if p || out == "?" {
		return "", false, true
	}
	if out == "!" {
		return "", true, false
	}
	return out[1:], false, false
}

// filterTable evaluates the real filter on every stored pair: 't' 'f' 'e'; agree = the vector
// evaluator says the same on the one-pair chunk
func filterTable(fe *kvql.FilterExec, kvs []KV) (table map[string]byte, agree bool) {
	table = map[string]byte{}
	agree = true
	for _, kv := range kvs {
		r := byte('e')
		out, _ := safely(func() string {
			ok, err := fe.Filter(kvql.NewKVPStr(kv.K, kv.V), kvql.NewExecuteCtx())
			if err != nil {
				return "e"
			}
			if ok {
				return "t"
			}
			return "f"
		})
		if len(out) == 1 {
			r = out[0]
		}
		table[kv.K] = r
		outb, _ := safely(func() string {
			ms, err := fe.FilterBatch([]kvql.KVPair{kvql.NewKVPStr(kv.K, kv.V)}, kvql.NewExecuteCtx())
			if err != nil {
				return "e"
			}
			if len(ms) == 1 && ms[0] {
				return "t"
			}
			return "f"
		})
		if outb != string(r) {
			agree = false
		}
	}
	return
}

func tableWire(table map[string]byte, kvs []KV) string {
	if len(kvs) == 0 {
		return "_"
	}
	p := make([]string, len(kvs))
	for i, kv := range kvs {
		p[i] = hxs(kv.K) + ":" + string(table[kv.K])
	}
	return strings.Join(p, ",")
}

func storeWire(kvs []KV) string {
	if len(kvs) == 0 {
		return "-"
	}
	p := make([]string, len(kvs))
	for i, kv := range kvs {
		p[i] = hxs(kv.K) + "=" + hxs(kv.V)
	}
	return strings.Join(p, ",")
}

// stmtWire renders the statement part of the protocol line; ok=false: outside the wire's domain
func stmtWire(info *stmtInfo, kvs []KV) (w string, table map[string]byte, ok bool) {
	switch info.Kind {
	case "select", "delete":
		table, agree := filterTable(info.Filter, kvs)
		if !agree {
			return "", nil, false
		}
		if info.Kind == "select" {
			return "select " + info.Node.wire() + " " + tableWire(table, kvs), table, true
		}
		ha := "0"
		if info.HasAnd {
			ha = "1"
		}
		lim := "-"
		if info.HasLimit {
			lim = fmt.Sprintf("%d,%d", info.LStart, info.LCount)
		}
		return "delete " + info.Node.wire() + " " + tableWire(table, kvs) + " " + ha + " " + lim, table, true
	case "put":
		var ps []string
		for _, kv := range info.Put {
			k, kfail, odd := evalRes(kv.Key, "")
			if odd {
				return "", nil, false
			}
			if kfail {
				ps = append(ps, "!:!")
				continue
			}
			v, vfail, odd := evalRes(kv.Value, k)
			if odd {
				return "", nil, false
			}
			if vfail {
				ps = append(ps, hxs(k)+":!")
			} else {
				ps = append(ps, hxs(k)+":"+hxs(v))
			}
		}
		return "put " + listOr(ps), nil, true
	case "remove":
		var ks []string
		for _, e := range info.Rem {
			k, kfail, odd := evalRes(e, "")
			if odd {
				return "", nil, false
			}
			if kfail {
				ks = append(ks, "!")
			} else {
				ks = append(ks, hxs(k))
			}
		}
		return "remove " + listOr(ks), nil, true
	}
	return "", nil, false
}

// planLine: the protocol line; it carries the statement text (ignored by the model) so that the line
// alone replays the case on the engine
func planLine(q, mode string, bs, fault int, kvs []KV, sw string) string {
	f := "-"
	if fault >= 0 {
		f = strconv.Itoa(fault)
	}
	return fmt.Sprintf("PLANQ %s %s %d %s %s %s", hxs(q), mode, bs, f, storeWire(kvs), sw)
}

// replayPlanLine re-runs a PLANQ line on the engine (sets kvql.PlanBatchSize) and returns the engine's
// answer in the model's format; for `kvharness -replay`
func replayPlanLine(line string) (string, bool) {
	w := strings.Fields(line)
	if len(w) < 7 || w[0] != "PLANQ" {
		return "", false
	}
	q := string(unhx(w[1]))
	bs, err := strconv.Atoi(w[3])
	if err != nil {
		return "", false
	}
	fault := -1
	if w[4] != "-" {
		if fault, err = strconv.Atoi(w[4]); err != nil {
			return "", false
		}
	}
	var kvs []KV
	if w[5] != "-" {
		for _, p := range strings.Split(w[5], ",") {
			kv := strings.SplitN(p, "=", 2)
			if len(kv) != 2 {
				return "", false
			}
			kvs = append(kvs, KV{string(unhx(kv[0])), string(unhx(kv[1]))})
		}
	}
	saved := kvql.PlanBatchSize
	kvql.PlanBatchSize = bs
	defer func() { kvql.PlanBatchSize = saved }()
	return runEngine(q, kvs, w[2], fault, nil).render(), true
}

// ---------------------------------------------------------------- running the real engine

type engOut struct {
	Outcome  string
	Polls    []string
	Rows     []KV // rows of a select, flattened
	Err      error
	Store    *RefStore
	PlanType string
	Plan     kvql.FinalPlan
	// log length after the first poll (poll mode)
	LogAfterFirst int
}

func (o *engOut) render() string {
	polls := "_"
	if len(o.Polls) > 0 {
		polls = strings.Join(o.Polls, "|")
	}
	lg := "_"
	if len(o.Store.Log) > 0 {
		lg = strings.Join(o.Store.Log, ";")
	}
	return o.Outcome + " ## " + polls + " ## " + lg + " ## " + o.Store.Dump()
}

func errName(err error) string {
	if errors.Is(err, errInjected) {
		return "storage"
	}
	return "eval"
}

func colRow(r []kvql.Column) (string, *KV) {
	if len(r) == 2 {
		k, ok1 := r[0].([]byte)
		v, ok2 := r[1].([]byte)
		if ok1 && ok2 {
			return hx(k) + "=" + hx(v), &KV{string(k), string(v)}
		}
	}
	if len(r) == 1 {
		if n, ok := r[0].(int); ok {
			return fmt.Sprintf("#%d", n), nil
		}
	}
	p := make([]string, len(r))
	for i, c := range r {
		p[i] = canonValue(c)
	}
	return "?" + strings.Join(p, "/"), nil
}

// runEngine: BuildPlan on a fresh RefStore, then poll as `mode` says (next | batch | poll:<seq>)
func runEngine(q string, kvs []KV, mode string, fault int, onto *RefStore) (o *engOut) {
	st := onto
	if st == nil {
		st = NewRefStore(kvs)
	}
	st.FaultAt = fault
	o = &engOut{Store: st}
	defer func() {
		if r := recover(); r != nil {
			o.Outcome = "panic"
		}
	}()
	plan, err := kvql.NewOptimizer(q).BuildPlan(st)
	if err != nil {
		o.Err = err
		o.Outcome = "plan:" + errName(err)
		return
	}
	o.Plan = plan
	o.PlanType = fmt.Sprintf("%T", plan)
	ctx := kvql.NewExecuteCtx()
	addRows := func(rows [][]kvql.Column) string {
		p := make([]string, len(rows))
		for i, r := range rows {
			s, kv := colRow(r)
			p[i] = s
			if kv != nil {
				o.Rows = append(o.Rows, *kv)
			}
		}
		return strings.Join(p, ",")
	}
	if strings.HasPrefix(mode, "poll:") {
		o.Outcome = "ok"
		for i, c := range mode[5:] {
			var rows [][]kvql.Column
			var err error
			if c == 'n' {
				var row []kvql.Column
				row, err = plan.Next(ctx)
				if row != nil {
					rows = [][]kvql.Column{row}
				}
			} else {
				rows, err = plan.Batch(ctx)
			}
			s := "."
			if len(rows) > 0 {
				s = addRows(rows)
			}
			if err != nil {
				s += "!" + errName(err)
				if o.Err == nil {
					o.Err = err
				}
			}
			o.Polls = append(o.Polls, s)
			if i == 0 {
				o.LogAfterFirst = len(st.Log)
			}
		}
		return
	}
	for i := 0; i < drainCap; i++ {
		var rows [][]kvql.Column
		var err error
		if mode == "next" {
			var row []kvql.Column
			row, err = plan.Next(ctx)
			if row != nil {
				rows = [][]kvql.Column{row}
			}
		} else {
			rows, err = plan.Batch(ctx)
		}
		if err != nil {
			if len(rows) > 0 {
				o.Polls = append(o.Polls, addRows(rows))
			}
			o.Err = err
			o.Outcome = "exec:" + errName(err)
			return
		}
		if len(rows) == 0 {
			o.Outcome = "ok"
			return
		}
		o.Polls = append(o.Polls, addRows(rows))
	}
	o.Outcome = "exec:diverge"
	return
}

// ---------------------------------------------------------------- log reading (oracles)

func isWriteEntry(e string) bool {
	return strings.HasPrefix(e, "Put:") || strings.HasPrefix(e, "BatchPut:") || strings.HasPrefix(e, "Delete:") || strings.HasPrefix(e, "BatchDelete:")
}

func isPutEntry(e string) bool {
	return strings.HasPrefix(e, "Put:") || strings.HasPrefix(e, "BatchPut:")
}

func countWrites(log []string) int {
	n := 0
	for _, e := range log {
		if isWriteEntry(e) {
			n++
		}
	}
	return n
}

// keysRead: keys handed out by Next and keys asked with Get, in log order
func keysRead(log []string) (next []string, gets []string, cursors int) {
	for _, e := range log {
		e = strings.TrimSuffix(e, "!fault")
		switch {
		case strings.HasPrefix(e, "Next->"):
			if e != "Next->end" {
				next = append(next, string(unhx(e[6:])))
			}
		case strings.HasPrefix(e, "Get:"):
			gets = append(gets, string(unhx(e[4:])))
		case e == "Cursor" || strings.HasPrefix(e, "Seek:"):
			cursors++
		}
	}
	return
}

func sortedKVs(kvs []KV) []KV {
	r := append([]KV{}, kvs...)
	sort.Slice(r, func(i, j int) bool { return r[i].K < r[j].K })
	return r
}

func showKVs(kvs []KV) string {
	if len(kvs) == 0 {
		return "-"
	}
	p := make([]string, len(kvs))
	for i, kv := range kvs {
		p[i] = fmt.Sprintf("%q=%q", kv.K, kv.V)
	}
	return strings.Join(p, ",")
}

func dumpOf(kvs []KV) string {
	m := map[string]string{}
	for _, kv := range kvs {
		m[kv.K] = kv.V
	}
	var r []KV
	for k, v := range m {
		r = append(r, KV{k, v})
	}
	return storeWire(sortedKVs(r))
}

// trafficOracle (C18): what may a scan of this node read?
func trafficOracle(node *scanNode, kvs []KV, log []string, complete bool) string {
	next, gets, cursors := keysRead(log)
	switch node.Kind {
	case "empty":
		if len(log) != 0 {
			return "an EmptyResult plan issued storage calls"
		}
	case "mget":
		if cursors != 0 || len(next) != 0 {
			return "a MultiGet plan used a cursor"
		}
		seen := map[string]int{}
		for _, k := range gets {
			seen[k]++
			if !node.inRegion(k) {
				return fmt.Sprintf("Get of %q which is not a listed key", k)
			}
			if seen[k] > 1 {
				return fmt.Sprintf("key %q read %d times", k, seen[k])
			}
		}
		if complete {
			for _, k := range node.Keys {
				if seen[k] != 1 {
					return fmt.Sprintf("listed key %q read %d times", k, seen[k])
				}
			}
		}
	case "prefix", "range":
		if len(gets) != 0 {
			return "a cursor scan issued Get"
		}
		// the one key beyond the region that may be read: the first stored key after the region's end
		beyond, have := "", false
		for _, kv := range sortedKVs(kvs) {
			var after bool
			if node.Kind == "prefix" {
				after = kv.K >= node.Prefix && !strings.HasPrefix(kv.K, node.Prefix)
			} else {
				// (from the seek position on: a range whose Start lies above its End is empty)
				after = node.End != nil && bytes.Compare([]byte(kv.K), node.End) > 0 && (node.Start == nil || bytes.Compare([]byte(kv.K), node.Start) >= 0)
			}
			if after {
				beyond, have = kv.K, true
				break
			}
		}
		for _, k := range next {
			if node.inRegion(k) {
				continue
			}
			if have && k == beyond {
				continue
			}
			return fmt.Sprintf("read key %q: outside %s and not the first key beyond its end", k, node.String())
		}
	}
	return ""
}

// ---------------------------------------------------------------- generators

// keys and literals ending in the byte 0xff: the end of such a prefix region needs a carry ("a\xff…" ends before "b")
var keyPool = []string{"", "a", "a0", "a1", "ab", "ab0", "ab1", "ac", "b", "b0", "ba", "ba1", "bb", "c", "c1", "d", "e", "f", "g", "h", "a\xff", "a\xff0", "a\xff\xff"}
var keyLits = []string{"", "a", "ab", "b", "ba", "c", "z", "a\xff"}
var valPool = []string{"x", "x", "y", "y", "1", "0", "2", "", "zzz"}

func genStore(r *Rand, size int) []KV {
	idx := make([]int, len(keyPool))
	for i := range idx {
		idx[i] = i
	}
	for i := len(idx) - 1; i > 0; i-- {
		j := r.Intn(i + 1)
		idx[i], idx[j] = idx[j], idx[i]
	}
	if size > len(idx) {
		size = len(idx)
	}
	kvs := make([]KV, size)
	for i := 0; i < size; i++ {
		kvs[i] = KV{keyPool[idx[i]], pick(r, valPool)}
	}
	// insertion order is random on purpose; the store sorts
	return kvs
}

func q1(s string) string { return "'" + s + "'" }

func genKeyAtom(r *Rand) string {
	switch r.Intn(10) {
	case 0, 1:
		return "key " + pick(r, []string{"=", "!="}) + " " + q1(pick(r, keyLits))
	case 2, 3:
		return "key " + pick(r, []string{">", ">=", "<", "<="}) + " " + q1(pick(r, keyLits))
	case 4, 5:
		return "key ^= " + q1(pick(r, keyLits))
	case 6, 7:
		n := 1 + r.Intn(3)
		ls := make([]string, n)
		for i := range ls {
			ls[i] = q1(pick(r, append(keyLits, "a0", "b0", "ab1")))
		}
		if n > 1 && r.Chance(1, 3) {
			ls[n-1] = ls[0] // a duplicate
		}
		return "key in (" + strings.Join(ls, ", ") + ")"
	case 8:
		a, b := pick(r, keyLits), pick(r, keyLits)
		if a > b && r.Chance(4, 5) {
			a, b = b, a
		}
		return "key between " + q1(a) + " and " + q1(b)
	default:
		return q1(pick(r, keyLits)) + " " + pick(r, []string{"=", "<", ">=", "<=", ">"}) + " key"
	}
}

func genValAtom(r *Rand, allowErr bool) string {
	switch r.Intn(8) {
	case 0, 1, 2:
		return "value " + pick(r, []string{"=", "!="}) + " " + q1(pick(r, []string{"x", "y", "1"}))
	case 3:
		return "value ^= " + q1(pick(r, []string{"x", "z", ""}))
	case 4:
		return "value " + pick(r, []string{">", "<="}) + " " + q1(pick(r, []string{"1", "x"}))
	case 5:
		return "value in ('x', '1')"
	case 6:
		if allowErr {
			// fails on the pairs whose value is not a non-zero number
			return "10 / int(value) > 1"
		}
		return "value = 'y'"
	default:
		if allowErr {
			// fails on the pairs whose value is above 'z'
			return "key between value and 'z'"
		}
		return "value != 'x'"
	}
}

func genPred(r *Rand, depth int, allowErr bool) string {
	if depth == 0 || r.Chance(1, 4) {
		if r.Chance(3, 5) {
			return genKeyAtom(r)
		}
		return genValAtom(r, allowErr)
	}
	switch r.Intn(7) {
	case 0, 1, 2:
		return genPred(r, depth-1, allowErr) + pick(r, []string{" & ", " and "}) + genPred(r, depth-1, allowErr)
	case 3, 4:
		return genPred(r, depth-1, allowErr) + pick(r, []string{" | ", " or "}) + genPred(r, depth-1, allowErr)
	case 5:
		return "!(" + genPred(r, depth-1, allowErr) + ")"
	default:
		return "(" + genPred(r, depth-1, allowErr) + ")"
	}
}

// fixed predicates: every scan kind, with value conditions that reject rows between accepted ones
var fixedPreds = []string{
	"true", "false", "key = 'a'", "key = 'zz'", "key in ('b', 'a', 'ab')", "key in ('a', 'a')", "key in ('b', 'a', 'b', 'q')",
	"key ^= 'a'", "key ^= 'ab'", "key ^= ''", "key ^= 'zz'", "key > 'a'", "key >= 'ab'", "key < 'b'", "key <= 'ba'",
	"key > 'a' & key < 'c'", "key >= 'a0' & key <= 'b0'", "key between 'a' and 'b'", "key between 'ab' and 'ba1'",
	"value = 'x'", "value != 'x'", "key ^= 'a' & value = 'x'", "key ^= 'a' & value != 'x'", "key > 'a' & value = 'y'",
	"key < 'c' & value = 'x'", "key in ('a', 'ab', 'b', 'c') & value = 'x'", "key in ('a', 'a', 'b') & value = 'x'",
	"key = 'a' | key = 'b'", "key = 'a' | key = 'b' | key = 'a'", "key = 'a' | key ^= 'b'", "key ^= 'a' | key ^= 'b'",
	"key = 'a' & key = 'b'", "key ^= 'a' & key ^= 'b'", "key > 'b' & key < 'a'", "key between 'a' and 'c' & value = 'x'",
	"10 / int(value) > 1", "key ^= 'a' & 10 / int(value) > 1", "key between value and 'z'", "key > 'a' and key between value and 'z'",
	"key in ('a', 'b', 'c') & 10 / int(value) > 1", "key between 'b' and 'a'", "!(key = 'a')", "!(value = 'x')", "key != 'a'",
	"key <= ''", "key = ''", "key >= ''", "key ^= 'a' and value in ('x', '1')", "key = 'a' and value = 'x'",
	"key ^= 'a\xff'", "key ^= 'a\xff\xff'", "key ^= '\xff'", "key ^= 'a\xff' & value != 'x'", "key > 'a\xff' & key < 'b'",
}

var badStatements = []string{
	"select * where", "select * where key", "select * where key = ", "select * where key = 'a' limit x", "select * where (key = 'a'",
	"put ('a', value)", "put ('a')", "put 'a', 'b'", "put ('a', 'b'", "put (1 = 1, 'b')", "put ('a', key = 'a')",
	"remove key", "remove value", "remove 'a',", "remove ('a'", "remove 1 = 1",
	"delete", "delete where", "delete where key", "delete where key = 'a' limit", "delete key = 'a'", "delete where key = 'a' order by key",
	"select * where key = 'a' group by key", "selec * where true", "select key, where true", "select * where key = 'a' limit 1, ", "",
	"select * where 'a'", "select * where key + 1", "delete where 'a' + key", "put (key = 'a', 'b')",
}

// ---- PUT / REMOVE statements with their expected effect (computed here, not by kvql)

type exprSpec struct {
	text string
	val  func(key string) (string, bool) // ok=false: the expression fails at evaluation
}

func lit(s string) exprSpec {
	return exprSpec{q1(s), func(string) (string, bool) { return s, true }}
}

func genKeyExpr(r *Rand, failRate int) exprSpec {
	k := pick(r, []string{"a", "b", "c", "ab", "k1", "k2", "q", "", "7"})
	if failRate > 0 && r.Chance(1, failRate) {
		// int of a text that is not a number is an error by the README and 0 in the engine: either way the division fails
		return exprSpec{"str(10 / int('x'))", func(string) (string, bool) { return "", false }}
	}
	switch r.Intn(11) {
	case 9:
		// len() of a list is the one built-in whose result is a Go `int` (everything else is int64):
		// as a key it is written in decimal like any other number
		n := 1 + r.Intn(4)
		parts := []string{"a", "b", "c", "d"}[:n]
		return exprSpec{"len(split(" + q1(strings.Join(parts, ",")) + ", ','))", func(string) (string, bool) { return strconv.Itoa(n), true }}
	case 10:
		n := 1 + r.Intn(3)
		items := []string{"1", "2", "3"}[:n]
		if r.Bool() {
			return exprSpec{q1(k) + " + str(len(list(" + strings.Join(items, ", ") + ")))", func(string) (string, bool) { return k + strconv.Itoa(n), true }}
		}
		return exprSpec{"len(list(" + strings.Join(items, ", ") + "))", func(string) (string, bool) { return strconv.Itoa(n), true }}
	case 8:
		// `key` inside a KEY expression: there is no key yet, it reads as the empty text for every pair
		// (never the key of the pair written before)
		if r.Bool() {
			return exprSpec{"key + " + q1(k), func(string) (string, bool) { return k, true }}
		}
		return exprSpec{q1(k) + " + upper(key)", func(string) (string, bool) { return k, true }}
	case 0:
		return exprSpec{"upper(" + q1(k) + ")", func(string) (string, bool) { return strings.ToUpper(k), true }}
	case 1:
		s := pick(r, []string{"a", "b", "1"})
		return exprSpec{q1(k) + " + " + q1(s), func(string) (string, bool) { return k + s, true }}
	case 2:
		n := r.Intn(20)
		return exprSpec{strconv.Itoa(n), func(string) (string, bool) { return strconv.Itoa(n), true }}
	case 3:
		a, b := r.Intn(9), r.Intn(9)
		return exprSpec{fmt.Sprintf("%d + %d", a, b), func(string) (string, bool) { return strconv.Itoa(a + b), true }}
	default:
		return lit(k)
	}
}

func genValExpr(r *Rand, failRate int) exprSpec {
	v := pick(r, []string{"x", "y", "v1", "v2", "", "0"})
	if failRate > 0 && r.Chance(1, failRate) {
		return exprSpec{"str(10 / int('x'))", func(string) (string, bool) { return "", false }}
	}
	switch r.Intn(13) {
	case 10:
		// len() gives a Go `int`, the only one among the built-ins: stored in decimal
		n := 1 + r.Intn(4)
		parts := []string{"a", "b", "c", "d"}[:n]
		return exprSpec{"len(split(" + q1(strings.Join(parts, ",")) + ", ','))", func(string) (string, bool) { return strconv.Itoa(n), true }}
	case 11:
		n := 1 + r.Intn(3)
		items := []string{"1", "2", "3"}[:n]
		return exprSpec{"'n=' + str(len(list(" + strings.Join(items, ", ") + ")))", func(string) (string, bool) { return "n=" + strconv.Itoa(n), true }}
	case 12:
		// the number of '-' separated parts of the pair's own key
		return exprSpec{"len(split(key, '-'))", func(k string) (string, bool) { return strconv.Itoa(len(strings.Split(k, "-"))), true }}
	case 0:
		return exprSpec{"key", func(k string) (string, bool) { return k, true }}
	case 1:
		return exprSpec{"upper(key)", func(k string) (string, bool) { return strings.ToUpper(k), true }}
	case 2:
		return exprSpec{q1(v) + " + key", func(k string) (string, bool) { return v + k, true }}
	case 3:
		return exprSpec{"key + " + q1(v), func(k string) (string, bool) { return k + v, true }}
	case 4:
		n := r.Intn(100)
		return exprSpec{strconv.Itoa(n), func(string) (string, bool) { return strconv.Itoa(n), true }}
	case 5:
		return exprSpec{"lower(" + q1(strings.ToUpper(v)) + ")", func(string) (string, bool) { return v, true }}
	case 6:
		// fails exactly when the pair's own key is not a non-zero number
		return exprSpec{"str(10 / int(key))", func(k string) (string, bool) {
			n, err := strconv.Atoi(k)
			if err != nil || n == 0 {
				return "", false
			}
			return strconv.Itoa(10 / n), true
		}}
	default:
		return lit(v)
	}
}

type writeSpec struct {
	q      string
	kind   string // put remove
	pairs  []KV   // expected evaluated pairs (put) or keys (remove, in K)
	fails  bool   // some expression fails
	nexprs int
}

func genPut(r *Rand) writeSpec {
	n := 1 + r.Intn(4)
	if r.Chance(1, 6) {
		n = 1
	}
	failRate := 0
	if r.Chance(1, 3) {
		failRate = 3
	}
	w := writeSpec{kind: "put", nexprs: n}
	var parts []string
	var prevKey exprSpec
	for i := 0; i < n; i++ {
		ke := genKeyExpr(r, failRate)
		if i > 0 && r.Chance(1, 4) {
			ke = prevKey // a duplicate key: the later pair wins
		}
		prevKey = ke
		ve := genValExpr(r, failRate*2)
		parts = append(parts, "("+ke.text+", "+ve.text+")")
		k, ok := ke.val("")
		if !ok {
			w.fails = true
			continue
		}
		v, ok := ve.val(k)
		if !ok {
			w.fails = true
			continue
		}
		w.pairs = append(w.pairs, KV{k, v})
	}
	w.q = "put " + strings.Join(parts, ", ")
	return w
}

func genRemove(r *Rand, kvs []KV) writeSpec {
	n := 1 + r.Intn(4)
	failRate := 0
	if r.Chance(1, 4) {
		failRate = 3
	}
	w := writeSpec{kind: "remove", nexprs: n}
	var parts []string
	for i := 0; i < n; i++ {
		var ke exprSpec
		if len(kvs) > 0 && r.Chance(2, 3) {
			ke = lit(pick(r, kvs).K) // a key that exists
		} else {
			ke = genKeyExpr(r, failRate)
		}
		parts = append(parts, ke.text)
		k, ok := ke.val("")
		if !ok {
			w.fails = true
			continue
		}
		w.pairs = append(w.pairs, KV{K: k})
	}
	w.q = "remove " + strings.Join(parts, ", ")
	return w
}

// ---------------------------------------------------------------- checks

type planEnv struct {
	col  *Collector
	d    *Driver
	seed uint64
	idx  uint64
	grp  string
}

func (pe *planEnv) find(kind, check, cs, line, eng, other string, props []string) {
	pe.col.Find(Finding{Kind: kind, Group: pe.grp, Check: check, Case: cs, Line: line, Engine: eng, Model: other, Seed: pe.seed, Index: pe.idx, Properties: props})
}

func caseText(q string, kvs []KV, bs int, mode string, fault int) string {
	f := ""
	if fault >= 0 {
		f = fmt.Sprintf(" fault@%d", fault)
	}
	if len(kvs) > 64 {
		// the large scenario: the protocol line carries the store; the case names it
		sk := sortedKVs(kvs)
		return fmt.Sprintf("%s | store of %d pairs {%s, … , %s} | bs=%d %s%s", q, len(kvs), showKVs(sk[:2]), showKVs(sk[len(sk)-1:]), bs, mode, f)
	}
	return fmt.Sprintf("%s | store {%s} | bs=%d %s%s", q, showKVs(sortedKVs(kvs)), bs, mode, f)
}

// clipPair shortens two long answers to a window around their first difference
func clipPair(a, b string) (string, string) {
	if len(a) <= 4000 && len(b) <= 4000 {
		return a, b
	}
	i := 0
	for i < len(a) && i < len(b) && a[i] == b[i] {
		i++
	}
	win := func(s string) string {
		lo, hi := max(0, i-300), min(len(s), i+500)
		return fmt.Sprintf("(%d bytes, first difference at %d) …%s…", len(s), i, s[lo:hi])
	}
	return win(a), win(b)
}

// diffKVs describes two long pair lists by what each has and the other has not
func diffKVs(got, want []KV) (string, string) {
	if len(got) <= 64 && len(want) <= 64 {
		return showKVs(got), showKVs(want)
	}
	in := func(xs []KV) map[KV]bool {
		m := map[KV]bool{}
		for _, x := range xs {
			m[x] = true
		}
		return m
	}
	g, w := in(got), in(want)
	var extra, missing []KV
	for _, x := range got {
		if !w[x] {
			extra = append(extra, x)
		}
	}
	for _, x := range want {
		if !g[x] {
			missing = append(missing, x)
		}
	}
	first := func(xs []KV) string {
		if len(xs) > 8 {
			return showKVs(xs[:8]) + ",…"
		}
		return showKVs(xs)
	}
	return fmt.Sprintf("%d pairs, %d of them not expected: %s", len(got), len(extra), first(extra)),
		fmt.Sprintf("%d pairs, %d of them not among the engine's: %s", len(want), len(missing), first(missing))
}

// corr runs one (statement, store, mode, fault) on engine and model and compares the complete answers
func (pe *planEnv) corr(info *stmtInfo, sw string, kvs []KV, bs int, mode string, fault int) (*engOut, error) {
	line := planLine(info.Q, mode, bs, fault, kvs, sw)
	eng := runEngine(info.Q, kvs, mode, fault, nil)
	resp, err := pe.d.Ask(line)
	if err != nil {
		return nil, err
	}
	pe.col.Eval(1)
	if e := eng.render(); e != resp {
		ce, cr := clipPair(e, resp)
		pe.find("correspondence", info.Kind+"-vs-model", caseText(info.Q, kvs, bs, mode, fault)+" | node "+nodeText(info), line, ce, cr, planProps)
	}
	return eng, nil
}

func nodeText(info *stmtInfo) string {
	if info.Node == nil {
		return "-"
	}
	return info.Node.String()
}

// selectOracles: C13 read-only, C18 traffic, C01 rows (plan half), on a fault-free run
func (pe *planEnv) selectOracles(info *stmtInfo, table map[string]byte, kvs []KV, bs int, mode string, eng *engOut, line string) {
	cs := caseText(info.Q, kvs, bs, mode, -1) + " | node " + nodeText(info)
	if n := countWrites(eng.Store.Log); n > 0 {
		pe.find("property", "select-issues-write", cs, line, strings.Join(eng.Store.Log, ";"), "no Put/BatchPut/Delete/BatchDelete", []string{"C13"})
	}
	if eng.Store.Dump() != dumpOf(kvs) {
		pe.find("property", "select-changes-store", cs, line, eng.Store.Dump(), dumpOf(kvs), []string{"C13"})
	}
	if msg := trafficOracle(info.Node, kvs, eng.Store.Log, eng.Outcome == "ok"); msg != "" {
		pe.find("property", "scan-traffic-"+info.Node.Kind, cs, line, strings.Join(eng.Store.Log, ";"), msg, []string{"C18"})
	}
	// C01: rows = stored pairs of the region on which the filter is true, ascending, once each
	evaluable := true
	var want []KV
	for _, kv := range sortedKVs(kvs) {
		if !info.Node.inRegion(kv.K) {
			continue
		}
		switch table[kv.K] {
		case 'e':
			evaluable = false
		case 't':
			want = append(want, kv)
		}
	}
	if evaluable {
		if eng.Outcome != "ok" || showKVs(eng.Rows) != showKVs(want) {
			g, w := diffKVs(eng.Rows, want)
			pe.find("property", "select-rows", cs, line, eng.Outcome+" "+g, "ok "+w, []string{"C01"})
		}
	}
}

func (pe *planEnv) deleteOracles(info *stmtInfo, table map[string]byte, kvs []KV, bs int, mode string, eng *engOut, line string) {
	for _, kv := range kvs {
		if info.Node.inRegion(kv.K) && table[kv.K] == 'e' {
			// the predicate is not evaluable on a pair the scan may meet: outside the property's domain
			pe.col.Hist("C11:not-evaluable")
			return
		}
	}
	cs := caseText(info.Q, kvs, bs, mode, -1) + " | node " + nodeText(info) + " | " + eng.PlanType
	for _, e := range eng.Store.Log {
		if isPutEntry(e) {
			pe.find("property", "delete-issues-put", cs, line, strings.Join(eng.Store.Log, ";"), "no Put/BatchPut", []string{"C11"})
			break
		}
	}
	// what the select with the same WHERE/LIMIT returns on a clone of the prior store
	sel := "select * where " + strings.TrimPrefix(info.Q, "delete where ")
	sr := runEngine(sel, kvs, mode, -1, nil)
	if sr.Outcome != "ok" {
		pe.col.Hist("C11:select-not-ok")
		return
	}
	gone := map[string]bool{}
	for _, kv := range sr.Rows {
		gone[kv.K] = true
	}
	var want []KV
	for _, kv := range kvs {
		if !gone[kv.K] {
			want = append(want, kv)
		}
	}
	pe.col.Hist("C11:strategy:" + eng.PlanType)
	if eng.Outcome != "ok" || eng.Store.Dump() != dumpOf(want) {
		if len(kvs) > 64 {
			left := map[string]bool{}
			for _, p := range strings.Split(eng.Store.Dump(), ",") {
				left[strings.SplitN(p, "=", 2)[0]] = true
			}
			var survivors []KV
			for _, kv := range sr.Rows {
				if left[hxs(kv.K)] {
					survivors = append(survivors, kv)
				}
			}
			g, _ := diffKVs(survivors, nil)
			pe.find("property", "delete-effect", cs, line, eng.Outcome+" pairs the select returns that are still stored: "+g,
				fmt.Sprintf("ok: the %d pairs the select returns are gone, the other %d are kept", len(sr.Rows), len(want)), []string{"C11"})
		} else {
			pe.find("property", "delete-effect", cs, line, eng.Outcome+" "+eng.Store.Dump(), "ok "+dumpOf(want)+" (select returned "+showKVs(sr.Rows)+")", []string{"C11"})
		}
	}
	if eng.PlanType == "*kvql.DeletePlan" {
		if msg := trafficOracle(info.Node, kvs, eng.Store.Log, false); msg != "" {
			pe.find("property", "delete-scan-traffic-"+info.Node.Kind, cs, line, strings.Join(eng.Store.Log, ";"), msg, []string{"C18"})
		}
	}
}

// writeOracles (C12): the expected effect is computed by the generator, not by kvql
func (pe *planEnv) writeOracles(w writeSpec, kvs []KV, bs int, mode string, eng *engOut, line string) {
	cs := caseText(w.q, kvs, bs, mode, -1)
	log := eng.Store.Log
	if w.fails {
		if len(log) != 0 || eng.Err == nil {
			pe.find("property", "failed-evaluation-not-atomic", cs, line, eng.Outcome+" "+strings.Join(log, ";"), "an error and no storage call", []string{"C12"})
		}
		if eng.Store.Dump() != dumpOf(kvs) {
			pe.find("property", "failed-evaluation-changes-store", cs, line, eng.Store.Dump(), dumpOf(kvs), []string{"C12"})
		}
		return
	}
	var want []KV
	var entry string
	if w.kind == "put" {
		want = append(append([]KV{}, kvs...), w.pairs...)
		p := make([]string, len(w.pairs))
		for i, kv := range w.pairs {
			p[i] = hxs(kv.K) + "=" + hxs(kv.V)
		}
		entry = "BatchPut:" + strings.Join(p, ",")
		if len(w.pairs) == 1 {
			entry = "Put:" + p[0]
		}
	} else {
		gone := map[string]bool{}
		p := make([]string, len(w.pairs))
		for i, kv := range w.pairs {
			gone[kv.K] = true
			p[i] = hxs(kv.K)
		}
		for _, kv := range kvs {
			if !gone[kv.K] {
				want = append(want, kv)
			}
		}
		entry = "BatchDelete:" + strings.Join(p, ",")
		if len(w.pairs) == 1 {
			entry = "Delete:" + p[0]
		}
	}
	if eng.Outcome != "ok" || eng.Store.Dump() != dumpOf(want) {
		pe.find("property", w.kind+"-effect", cs, line, eng.Outcome+" "+eng.Store.Dump(), "ok "+dumpOf(want), []string{"C12"})
	}
	if len(log) != 1 || log[0] != entry {
		pe.find("property", w.kind+"-writes", cs, line, strings.Join(log, ";"), entry, []string{"C12"})
	}
	if w.kind == "put" && eng.Outcome == "ok" {
		// a following `select * where key = k` observes the write
		final := map[string]string{}
		for _, kv := range w.pairs {
			final[kv.K] = kv.V
		}
		for k, v := range final {
			sr := runEngine("select * where key = "+q1(k), nil, mode, -1, eng.Store)
			if sr.Outcome != "ok" || len(sr.Rows) != 1 || sr.Rows[0].K != k || sr.Rows[0].V != v {
				pe.find("property", "put-then-select", cs+" | then select * where key = "+q1(k), line, sr.Outcome+" "+showKVs(sr.Rows), showKVs([]KV{{k, v}}), []string{"C12"})
			}
		}
	}
}

// rejectedOracle (C13): a statement that BuildPlan refuses issues no storage call
func (pe *planEnv) rejectedOracle(q string, kvs []KV, bs int) {
	eng := runEngine(q, kvs, "next", -1, nil)
	pe.col.Eval(1)
	if strings.HasPrefix(eng.Outcome, "plan:") {
		pe.col.Hist("rejected-by-BuildPlan")
		if len(eng.Store.Log) != 0 {
			pe.find("property", "rejected-statement-touches-storage", caseText(q, kvs, bs, "next", -1), "", strings.Join(eng.Store.Log, ";"), "no storage call", []string{"C13"})
		}
		// asking the SAME Optimizer again must not turn the rejected statement into a plan that writes
		st := NewRefStore(kvs)
		out, panicked := safely(func() string {
			opt := kvql.NewOptimizer(q)
			if _, err := opt.BuildPlan(st); err == nil {
				return "accepted-first"
			}
			plan, err := opt.BuildPlan(st)
			if err != nil {
				return "rejected-again"
			}
			ctx := kvql.NewExecuteCtx()
			for i := 0; i < 64; i++ {
				row, err := plan.Next(ctx)
				if err != nil || row == nil {
					break
				}
			}
			return "accepted-on-retry"
		})
		if panicked {
			pe.find("crash", "rejected-statement-retry-panics", caseText(q, kvs, bs, "next", -1), "", "panic on the second BuildPlan of one Optimizer", "rejected again", []string{"C06", "C13"})
		} else if out == "accepted-on-retry" && len(st.Log) != 0 {
			pe.find("property", "rejected-statement-touches-storage-on-retry", caseText(q, kvs, bs, "next", -1), "", strings.Join(st.Log, ";"), "no storage call", []string{"C13"})
		}
	}
}

// ---------------------------------------------------------------- statements of a case

type planCase struct {
	q    string
	kvs  []KV
	w    *writeSpec
	info *stmtInfo
}

func genCase(r *Rand, bs int, i int) planCase {
	size := r.Intn(3*bs + 3)
	kvs := genStore(r, size)
	var c planCase
	c.kvs = kvs
	switch k := r.Intn(10); {
	case k < 4:
		c.q = "select * where " + pickPred(r, i)
	case k < 8:
		c.q = "delete where " + pickPred(r, i)
		if r.Chance(1, 2) {
			if r.Chance(1, 3) {
				c.q += fmt.Sprintf(" limit %d", r.Intn(2*bs+2))
			} else {
				c.q += fmt.Sprintf(" limit %d, %d", r.Intn(2*bs+2), r.Intn(2*bs+2))
			}
		}
	case k < 9:
		w := genPut(r)
		c.q, c.w = w.q, &w
	default:
		w := genRemove(r, kvs)
		c.q, c.w = w.q, &w
	}
	return c
}

func pickPred(r *Rand, i int) string {
	if r.Chance(1, 3) {
		return fixedPreds[(i+r.Intn(len(fixedPreds)))%len(fixedPreds)]
	}
	return genPred(r, 2, r.Chance(1, 4))
}

func (pe *planEnv) prepare(c *planCase) (sw string, table map[string]byte, ok bool) {
	info, err := analyze(c.q)
	if err != nil {
		pe.col.Hist("skipped:not-analysable")
		return "", nil, false
	}
	c.info = info
	sw, table, ok = stmtWire(info, c.kvs)
	if !ok {
		pe.col.Hist("skipped:row-and-vector-filter-disagree-or-odd-result")
		return "", nil, false
	}
	return sw, table, true
}

// ---------------------------------------------------------------- PLAN

var planBatchSizes = []int{1, 2, 3, 5}

func runPLAN(e *Env) (*Summary, error) {
	start := time.Now()
	col := NewCollector("PLAN", e.Tier, e.Seed, "statements (select * / delete [limit] / put / remove) x stores of 0..3bs+2 pairs x bs in {1,2,3,5} x {next,batch}: engine rows, call log and final store = model; oracles C01 C11 C12 C13 C18 on every fault-free run; restart phase: select plans read partly, Init(), drained (rows = fresh plan, reads inside the region) and delete plans executed, Init(), executed again (= select on the store as it is then)")
	perBs := e.n(12000, 120000)
	saved := kvql.PlanBatchSize
	defer func() { kvql.PlanBatchSize = saved }()
	for _, bs := range planBatchSizes {
		kvql.PlanBatchSize = bs
		bs := bs
		err := e.parallel(func(w int, d *Driver) error {
			for i := w; i < perBs; i += e.Workers {
				idx := uint64(bs)*1_000_000 + uint64(i)
				r := NewRand(e.Seed, "PLAN", idx)
				pe := &planEnv{col: col, d: d, seed: e.Seed, idx: idx, grp: "PLAN"}
				c := genCase(r, bs, i)
				if i%40 == 0 {
					pe.rejectedOracle(badStatements[(i/40)%len(badStatements)], c.kvs, bs)
				}
				if i%25 == 0 {
					if err := pe.mgetKeys(r); err != nil {
						return err
					}
				}
				pe.rejectedOracle(c.q, c.kvs, bs)
				sw, table, ok := pe.prepare(&c)
				if !ok {
					continue
				}
				col.Hist("stmt:" + c.info.Kind)
				if c.info.Node != nil {
					col.Hist("node:" + c.info.Node.Kind)
				}
				var rowsByMode []string
				for _, mode := range []string{"next", "batch", "next"} {
					eng, err := pe.corr(c.info, sw, c.kvs, bs, mode, -1)
					if err != nil {
						return err
					}
					line := planLine(c.q, mode, bs, -1, c.kvs, sw)
					col.Hist("outcome:" + eng.Outcome)
					switch c.info.Kind {
					case "select":
						pe.selectOracles(c.info, table, c.kvs, bs, mode, eng, line)
						rowsByMode = append(rowsByMode, eng.Outcome+" "+showKVs(eng.Rows))
						if len(eng.Rows) > 0 {
							col.Nontrivial(fmt.Sprintf("%s/%s/%d/%s", c.q, storeWire(c.kvs), bs, mode))
						}
					case "delete":
						pe.deleteOracles(c.info, table, c.kvs, bs, mode, eng, line)
						if eng.Store.Dump() != dumpOf(c.kvs) {
							col.Nontrivial(fmt.Sprintf("%s/%s/%d/%s", c.q, storeWire(c.kvs), bs, mode))
						}
					default:
						pe.writeOracles(*c.w, c.kvs, bs, mode, eng, line)
						col.Nontrivial(fmt.Sprintf("%s/%s/%d/%s", c.q, storeWire(c.kvs), bs, mode))
					}
				}
				if c.info.Kind == "select" && (rowsByMode[0] != rowsByMode[1] || rowsByMode[0] != rowsByMode[2]) {
					evaluable := true
					for _, kv := range c.kvs {
						if c.info.Node.inRegion(kv.K) && table[kv.K] == 'e' {
							evaluable = false
						}
					}
					if evaluable {
						pe.find("property", "select-modes-or-repetition-differ", caseText(c.q, c.kvs, bs, "next/batch/next", -1), planLine(c.q, "next", bs, -1, c.kvs, sw), rowsByMode[1], rowsByMode[0]+" / "+rowsByMode[2], []string{"C01"})
					}
				}
				if i < 12 {
					col.Sample(caseText(c.q, c.kvs, bs, "next", -1))
				}
			}
			return nil
		})
		if err != nil {
			return nil, err
		}
		if err := planRestart(e, col, bs); err != nil {
			return nil, err
		}
	}
	if err := planLarge(e, col); err != nil {
		return nil, err
	}
	return col.Finish(start), nil
}

// planLarge: one scenario per run at the DEFAULT batch size 32 on a store of ~1500 pairs: deletes
// that choose more than 1024 pairs through scan batches of irregular size (a rejecting filter, a
// LIMIT offset that is no multiple of the batch size) and selects over the same store.  Engine
// rows, call log and final store = model (correspondence); the delete and select oracles (C11, C01,
// C13, C18) as for the small stores.  A handful of statements: a second or two.
func planLarge(e *Env, col *Collector) error {
	t0 := time.Now()
	kvql.PlanBatchSize = 32
	d, err := StartDriver(e.DriverPath)
	if err != nil {
		return err
	}
	defer d.Close()
	r := NewRand(e.Seed, "PLAN-large", 0)
	n := 1450 + r.Intn(120)
	kvs := make([]KV, 0, n)
	for i := 0; len(kvs) < n; i++ {
		if r.Chance(1, 25) {
			continue // gaps in the key sequence
		}
		v := "x"
		if !r.Chance(3, 20) { // ~15 % of the values are 'x'
			v = pick(r, []string{"y", "z", "1", "", "xx"})
		}
		kvs = append(kvs, KV{fmt.Sprintf("k%05d", i), v})
	}
	stmts := []string{
		"delete where value != 'x'",
		"delete where key >= '' limit 5, 1200",
		"select * where value != 'x'",
		fmt.Sprintf("delete where key ^= 'k' & value != 'x' limit %d, %d", 1+r.Intn(31), 1100+r.Intn(150)),
		fmt.Sprintf("select * where key >= 'k%05d' & value = 'x'", r.Intn(400)),
	}
	if e.Tier == "thorough" {
		stmts = append(stmts,
			"delete where true",
			"delete where key > 'k00010' limit 64, 1024",
			fmt.Sprintf("delete where value != 'y' limit %d", 1030+r.Intn(300)),
			fmt.Sprintf("delete where key between 'k00003' and 'k%05d'", 1300+r.Intn(200)),
			"select * where key ^= 'k0' | value = 'x'",
			"delete where value = 'x'")
	}
	for si, q := range stmts {
		pe := &planEnv{col: col, d: d, seed: e.Seed, idx: 32_000_000 + uint64(si), grp: "PLAN"}
		c := planCase{q: q, kvs: kvs}
		sw, table, ok := pe.prepare(&c)
		if !ok {
			col.Note("large scenario: statement outside the wire's domain: " + q)
			continue
		}
		col.Hist("large:" + c.info.Kind)
		modes := []string{"batch", "next"}
		if e.Tier != "thorough" && si >= 2 {
			modes = modes[:1]
		}
		for _, mode := range modes {
			eng, err := pe.corr(c.info, sw, kvs, 32, mode, -1)
			if err != nil {
				return err
			}
			line := planLine(q, mode, 32, -1, kvs, sw)
			col.Hist("large-outcome:" + eng.Outcome)
			col.Nontrivial(fmt.Sprintf("large/%s/%s", q, mode))
			if c.info.Kind == "select" {
				pe.selectOracles(c.info, table, kvs, 32, mode, eng, line)
			} else {
				pe.deleteOracles(c.info, table, kvs, 32, mode, eng, line)
			}
		}
	}
	col.Note(fmt.Sprintf("large scenario: %d statements on a store of %d pairs at PlanBatchSize=32 (%.1fs)", len(stmts), len(kvs), time.Since(t0).Seconds()))
	return nil
}

// mgetKeys: NewMultiGetPlan's key list against the model
func (pe *planEnv) mgetKeys(r *Rand) error {
	n := r.Intn(6)
	keys := make([]string, n)
	hk := make([]string, n)
	for i := range keys {
		keys[i] = pick(r, keyPool)
		hk[i] = hxs(keys[i])
	}
	line := "MGETKEYS " + listOr(hk)
	p := kvql.NewMultiGetPlan(nil, nil, append([]string{}, keys...)).(*kvql.MultiGetPlan)
	out := make([]string, len(p.Keys))
	for i, k := range p.Keys {
		out[i] = hxs(k)
	}
	resp, err := pe.d.Ask(line)
	if err != nil {
		return err
	}
	pe.col.Eval(1)
	if resp != listOr(out) {
		pe.find("correspondence", "NewMultiGetPlan-keys", fmt.Sprintf("keys %q", keys), line, listOr(out), resp, []string{"C01", "C18"})
	}
	return nil
}

// ---------------------------------------------------------------- RESTART (Init() = start over)
//
// Every plan of the library implements Init() as "put the plan back into its initial state":
// the scans open a new cursor and clear `done`, LIMIT clears its counters, ORDER BY drops what it
// sorted, DELETE clears `executed`.  The oracles below use nothing but the public Plan interface:
//
//   select: build, read k rows (or k batches; k = 0, 1, some, all, all + the end-of-stream poll),
//           Init(), drain: the rows are the rows of a fresh plan of the same statement over the same
//           store (C01; C02 when the access path is narrowed; C07 under ORDER BY: the sequence of the
//           order columns and, without LIMIT, the multiset of the rows), and the storage reads issued
//           after the restart stay inside the region of the scan node (C18, trafficOracle);
//   delete: build a DeletePlan over a cursor scan, execute, then (twice) Init() and execute again: each
//           further execution removes exactly what `select * <same where/limit>` returns on the
//           store as it is then (C11; C02 when narrowed), nothing is put, reads stay in the region.
//
// Left out (behaviour of the unchanged engine, see REPORT.md): plans over a MultiGetPlan (its Init does
// not rewind the key index) and aggregated statements (AggregatePlan.Init does not clear `prepared`).

// planChain names the nodes of a plan from the top down to the scan node
func planChain(p any) (chain []string, leaf kvql.Plan) {
	for depth := 0; depth < 16; depth++ {
		switch x := p.(type) {
		case *kvql.FinalLimitPlan:
			chain, p = append(chain, "limit"), x.ChildPlan
		case *kvql.FinalOrderPlan:
			chain, p = append(chain, "order"), x.ChildPlan
		case *kvql.ProjectionPlan:
			chain, p = append(chain, "projection"), x.ChildPlan
		case *kvql.AggregatePlan:
			chain, p = append(chain, "aggregate"), x.ChildPlan
		case *kvql.DeletePlan:
			chain, p = append(chain, "delete"), x.ChildPlan
		case *kvql.LimitPlan:
			chain, p = append(chain, "kvlimit"), x.ChildPlan
		case kvql.Plan:
			if n, _, ok := nodeOfPlan(x); ok {
				return append(chain, n.Kind), x
			}
			return append(chain, fmt.Sprintf("%T", x)), nil
		default:
			return append(chain, fmt.Sprintf("%T", x)), nil
		}
	}
	return chain, nil
}

func chainHas(chain []string, name string) bool {
	for _, c := range chain {
		if c == name {
			return true
		}
	}
	return false
}

// pollPlan polls a plan at most `polls` times (polls < 0: until the end of the stream, which is seen);
// rows by content; ended = the end of the stream was seen
func pollPlan(plan kvql.FinalPlan, ctx *kvql.ExecuteCtx, batch bool, polls int) (rows [][]kvql.Column, ended bool, err error) {
	for i := 0; polls < 0 || i < polls; i++ {
		if i >= drainCap {
			return rows, false, fmt.Errorf("no end of stream after %d polls", drainCap)
		}
		if batch {
			rs, err := plan.Batch(ctx)
			if err != nil {
				return rows, false, err
			}
			if len(rs) == 0 {
				return rows, true, nil
			}
			rows = append(rows, rs...)
		} else {
			r, err := plan.Next(ctx)
			if err != nil {
				return rows, false, err
			}
			if r == nil {
				return rows, true, nil
			}
			rows = append(rows, r)
		}
	}
	return rows, false, nil
}

func colRowsText(rows [][]kvql.Column, cols []int) []string {
	out := make([]string, len(rows))
	for i, r := range rows {
		var c []string
		if cols == nil {
			for _, v := range r {
				c = append(c, contentValue(v))
			}
		} else {
			for _, j := range cols {
				if j < len(r) {
					c = append(c, contentValue(r[j]))
				} else {
					c = append(c, "<no column>")
				}
			}
		}
		out[i] = strings.Join(c, " ")
	}
	return out
}

func showRowTexts(rs []string) string {
	if len(rs) == 0 {
		return "-"
	}
	if len(rs) > 40 {
		return fmt.Sprintf("%d rows: %s ; …", len(rs), strings.Join(rs[:40], " ; "))
	}
	return strings.Join(rs, " ; ")
}

type restartStmt struct {
	q       string
	ordCols []int // positions of the ORDER BY columns in the row (nil: not ordered)
	limited bool
}

// genRestartSelect: select list x predicate x [order by 1..2 fields] x [limit]
func genRestartSelect(r *Rand, bs int, i int) restartStmt {
	type fld struct{ text, name string }
	lists := [][]fld{
		{{"*", ""}},
		{{"key", "key"}, {"value", "value"}},
		{{"key", "key"}, {"upper(value) as u", "u"}},
		{{"value", "value"}, {"key", "key"}},
		{{"key", "key"}, {"strlen(value) as n", "n"}, {"value", "value"}},
		{{"key + '/' + value as kv", "kv"}, {"key", "key"}},
	}
	fl := pick(r, lists)
	var rs restartStmt
	var ft []string
	for _, f := range fl {
		ft = append(ft, f.text)
	}
	rs.q = "select " + strings.Join(ft, ", ") + " where " + pickPred(r, i)
	if r.Chance(1, 12) {
		// an aggregated statement: restarted before the first read only (see restartSelect)
		fl = []fld{{"value", "value"}, {"count(1) as c", "c"}}
		rs.q = "select value, count(1) as c where " + pickPred(r, i) + " group by value"
	}
	if r.Chance(1, 2) {
		// `select *` has the columns key, value
		names := []string{"key", "value"}
		if fl[0].text != "*" {
			names = names[:0]
			for _, f := range fl {
				names = append(names, f.name)
			}
		}
		no := 1
		if len(names) > 1 && r.Chance(1, 3) {
			no = 2
		}
		var ot []string
		seen := map[int]bool{}
		for len(ot) < no {
			j := r.Intn(len(names))
			if seen[j] {
				continue
			}
			seen[j] = true
			ot = append(ot, names[j]+pick(r, []string{"", " asc", " desc", " desc"}))
			rs.ordCols = append(rs.ordCols, j)
		}
		rs.q += " order by " + strings.Join(ot, ", ")
	}
	if r.Chance(2, 5) {
		rs.limited = true
		if r.Chance(1, 3) {
			rs.q += fmt.Sprintf(" limit %d", r.Intn(2*bs+3))
		} else {
			rs.q += fmt.Sprintf(" limit %d, %d", r.Intn(2*bs+2), r.Intn(2*bs+3))
		}
	}
	return rs
}

func restartCase(q string, kvs []KV, bs int, batch bool, what string) string {
	mode := "next"
	if batch {
		mode = "batch"
	}
	return caseText(q, kvs, bs, mode, -1) + " | " + what
}

func restartLine(q string, kvs []KV, bs int, batch bool, k int) string {
	mode := "next"
	if batch {
		mode = "batch"
	}
	return fmt.Sprintf("RESTART %s %s %d %d %s", hxs(q), mode, bs, k, storeWire(kvs))
}

// restartSelect: the select half of the restart oracle
func (pe *planEnv) restartSelect(r *Rand, rs restartStmt, kvs []KV, bs int, batch bool) {
	type outT struct {
		skip      string
		chain     []string
		node      *scanNode
		want, got [][]kvql.Column
		k         int
		unit      string
		initErr   error
		drainErr  error
		after     []string
	}
	var o outT
	msg, panicked := safely(func() string {
		// the reference: a fresh plan of the same statement over the same store, drained once
		ref, err := kvql.NewOptimizer(rs.q).BuildPlan(NewRefStore(kvs))
		if err != nil {
			o.skip = "rejected"
			return ""
		}
		want, _, err := pollPlan(ref, kvql.NewExecuteCtx(), batch, -1)
		if err != nil {
			o.skip = "not-evaluable"
			return ""
		}
		o.want = want
		st := NewRefStore(kvs)
		plan, err := kvql.NewOptimizer(rs.q).BuildPlan(st)
		if err != nil {
			o.skip = "rejected"
			return ""
		}
		chain, leaf := planChain(plan)
		o.chain = chain
		if leaf == nil {
			o.skip = "unknown-plan-shape"
			return ""
		}
		o.node, _, _ = nodeOfPlan(leaf)
		if o.node.Kind == "mget" {
			o.skip = "multi-get (Init does not rewind its key index on the unchanged tree)"
			return ""
		}
		aggregated := chainHas(chain, "aggregate")
		// how much is read before the restart
		total := len(want)
		o.unit = "rows"
		if batch {
			o.unit = "batches"
			total = (len(want) + bs - 1) / bs
		}
		switch r.Intn(6) {
		case 0:
			o.k = 0
		case 1:
			o.k = 1
		case 2, 3:
			o.k = r.Intn(total + 1)
		case 4:
			o.k = total // everything, the end of the stream not yet seen
		default:
			o.k = total + 1 // everything and the end of the stream
		}
		if aggregated {
			// AggregatePlan.Init of the unchanged tree does not clear `prepared`: once a row was asked for,
			// a restarted aggregation returns nothing.  Only the restart before the first read is judged.
			o.k = 0
		}
		if _, _, err := pollPlan(plan, kvql.NewExecuteCtx(), batch, o.k); err != nil {
			o.skip = "error-before-restart"
			return ""
		}
		mark := len(st.Log)
		if err := plan.Init(); err != nil {
			o.initErr = err
			return ""
		}
		o.got, _, o.drainErr = pollPlan(plan, kvql.NewExecuteCtx(), batch, -1)
		o.after = append([]string{}, st.Log[mark:]...)
		return ""
	})
	pe.col.Eval(1)
	if panicked {
		pe.find("crash", "restart-panics", restartCase(rs.q, kvs, bs, batch, "read, Init(), drain"), restartLine(rs.q, kvs, bs, batch, o.k), msg, "no panic", []string{"C06"})
		return
	}
	if o.skip != "" {
		pe.col.Hist("restart-select-skipped:" + strings.SplitN(o.skip, " ", 2)[0])
		return
	}
	what := fmt.Sprintf("plan %s | read %d %s, Init(), drain", strings.Join(o.chain, ">"), o.k, o.unit)
	cs := restartCase(rs.q, kvs, bs, batch, what)
	line := restartLine(rs.q, kvs, bs, batch, o.k)
	props := []string{"C01"}
	if o.node.Kind == "prefix" || o.node.Kind == "range" {
		props = append(props, "C02")
	}
	if chainHas(o.chain, "order") {
		props = append(props, "C07")
	}
	pe.col.Hist("restart-select:" + o.node.Kind)
	if chainHas(o.chain, "aggregate") {
		pe.col.Hist("restart-select:aggregate (before the first read only)")
	}
	if len(o.want) > 0 && o.k > 0 {
		pe.col.Nontrivial(fmt.Sprintf("restart/%s/%s/%d/%v/%d", rs.q, storeWire(kvs), bs, batch, o.k))
	}
	if o.initErr != nil || o.drainErr != nil {
		pe.find("property", "restart-select-fails", cs, line, fmt.Sprintf("Init: %v, drain: %v", o.initErr, o.drainErr), "ok "+showRowTexts(colRowsText(o.want, nil)), props)
		return
	}
	same := true
	if chainHas(o.chain, "order") && rs.ordCols != nil {
		// rows that tie under ORDER BY may come in any order: the sequence of the order columns is
		// determined, and without LIMIT so is the multiset of the rows
		same = strings.Join(colRowsText(o.got, rs.ordCols), ";") == strings.Join(colRowsText(o.want, rs.ordCols), ";")
		if same && !rs.limited {
			same = multiset(colRowsText(o.got, nil)) == multiset(colRowsText(o.want, nil))
		}
	} else {
		same = strings.Join(colRowsText(o.got, nil), ";") == strings.Join(colRowsText(o.want, nil), ";")
	}
	if !same {
		pe.find("property", "restart-select-rows", cs, line, showRowTexts(colRowsText(o.got, nil)), "the rows of a fresh plan: "+showRowTexts(colRowsText(o.want, nil)), props)
	}
	if msg := trafficOracle(o.node, kvs, o.after, false); msg != "" {
		pe.find("property", "restart-scan-traffic-"+o.node.Kind, cs, line, "after Init(): "+strings.Join(o.after, ";"), msg, []string{"C18"})
	}
	if n := countWrites(o.after); n > 0 {
		pe.find("property", "restart-select-issues-write", cs, line, strings.Join(o.after, ";"), "no Put/BatchPut/Delete/BatchDelete", []string{"C13"})
	}
}

// restartDelete: the delete half of the restart oracle
func (pe *planEnv) restartDelete(q string, kvs []KV, bs int, batch bool) {
	mode := "next"
	if batch {
		mode = "batch"
	}
	tail := strings.TrimPrefix(q, "delete where ")
	type execT struct {
		before   []KV
		sel      []KV
		dump     string
		err      error
		after    []string
		selectOK bool
	}
	var (
		skip  string
		chain []string
		node  *scanNode
		execs []execT
	)
	msg, panicked := safely(func() string {
		st := NewRefStore(kvs)
		plan, err := kvql.NewOptimizer(q).BuildPlan(st)
		if err != nil {
			skip = "rejected"
			return ""
		}
		var leaf kvql.Plan
		chain, leaf = planChain(plan)
		if len(chain) == 0 || chain[0] != "delete" || leaf == nil {
			skip = "not-a-DeletePlan"
			return ""
		}
		node, _, _ = nodeOfPlan(leaf)
		if node.Kind == "mget" {
			skip = "multi-get"
			return ""
		}
		if _, _, err := pollPlan(plan, kvql.NewExecuteCtx(), batch, -1); err != nil {
			skip = "first-execution-fails"
			return ""
		}
		info, aerr := analyze(q)
		for round := 0; round < 2; round++ {
			var x execT
			x.before = st.Pairs()
			if aerr != nil {
				skip = "not-analysable"
				return ""
			}
			// C11 speaks about predicates that are evaluable: a pair of the region on which the predicate
			// fails may or may not be met before the LIMIT is reached (the delete reads ahead in batches)
			table, _ := filterTable(info.Filter, x.before)
			for _, kv := range x.before {
				if node.inRegion(kv.K) && table[kv.K] == 'e' {
					if round == 0 {
						skip = "not-evaluable"
					}
					return ""
				}
			}
			sr := runEngine("select * where "+tail, x.before, mode, -1, nil)
			x.selectOK = sr.Outcome == "ok"
			x.sel = sr.Rows
			mark := len(st.Log)
			if err := plan.Init(); err != nil {
				x.err = err
			} else {
				_, _, x.err = pollPlan(plan, kvql.NewExecuteCtx(), batch, -1)
			}
			x.after = append([]string{}, st.Log[mark:]...)
			x.dump = st.Dump()
			execs = append(execs, x)
			if x.err != nil || !x.selectOK {
				break
			}
		}
		return ""
	})
	pe.col.Eval(1)
	if panicked {
		pe.find("crash", "restart-panics", restartCase(q, kvs, bs, batch, "execute, Init(), execute"), restartLine(q, kvs, bs, batch, 0), msg, "no panic", []string{"C06"})
		return
	}
	if skip != "" {
		pe.col.Hist("restart-delete-skipped:" + skip)
		return
	}
	props := []string{"C11"}
	if node.Kind == "prefix" || node.Kind == "range" {
		props = append(props, "C02")
	}
	pe.col.Hist("restart-delete:" + node.Kind)
	for i, x := range execs {
		if !x.selectOK {
			pe.col.Hist("restart-delete:select-not-ok")
			return
		}
		what := fmt.Sprintf("plan %s | executed %d time(s), store then {%s}, Init(), executed again", strings.Join(chain, ">"), i+1, showKVs(x.before))
		cs := restartCase(q, kvs, bs, batch, what)
		line := restartLine(q, kvs, bs, batch, i+1)
		gone := map[string]bool{}
		for _, kv := range x.sel {
			gone[kv.K] = true
		}
		var want []KV
		for _, kv := range x.before {
			if !gone[kv.K] {
				want = append(want, kv)
			}
		}
		if len(x.sel) > 0 {
			pe.col.Nontrivial(fmt.Sprintf("restart/%s/%s/%d/%v/%d", q, storeWire(kvs), bs, batch, i))
		}
		if x.err != nil {
			// the DELETE's filter failed on some pair although the row-mode SELECT completed: the scan under a DELETE
			// evaluates chunks, and the batch evaluator evaluates both operands of & and | (C03 claims batch ⇒ row only);
			// C11 speaks about what the WHERE selects where it is evaluable — not judged
			pe.col.Hist("restart-delete:evaluation-error-not-judged")
			return
		}
		if x.dump != dumpOf(want) {
			pe.find("property", "restart-delete-effect", cs, line, fmt.Sprintf("err=%v store %s", x.err, x.dump),
				"ok "+dumpOf(want)+" (select * where "+tail+" returns "+showKVs(x.sel)+")", props)
		}
		for _, en := range x.after {
			if isPutEntry(en) {
				pe.find("property", "restart-delete-issues-put", cs, line, strings.Join(x.after, ";"), "no Put/BatchPut", []string{"C11"})
				break
			}
		}
		if msg := trafficOracle(node, x.before, x.after, false); msg != "" {
			pe.find("property", "restart-delete-scan-traffic-"+node.Kind, cs, line, "after Init(): "+strings.Join(x.after, ";"), msg, []string{"C18"})
		}
	}
}

// planRestart: the restart phase of PLAN at one batch size
func planRestart(e *Env, col *Collector, bs int) error {
	per := e.n(4000, 40000)
	return e.parallel(func(w int, d *Driver) error {
		for i := w; i < per; i += e.Workers {
			idx := uint64(bs)*1_000_000 + uint64(i)
			r := NewRand(e.Seed, "PLAN-restart", idx)
			pe := &planEnv{col: col, d: d, seed: e.Seed, idx: idx, grp: "PLAN"}
			kvs := genStore(r, r.Intn(3*bs+4))
			if r.Chance(3, 5) {
				rs := genRestartSelect(r, bs, i)
				for _, batch := range []bool{false, true} {
					pe.restartSelect(r, rs, kvs, bs, batch)
				}
			} else {
				q := "delete where " + pickPred(r, i)
				if r.Chance(2, 3) {
					if r.Chance(1, 3) {
						q += fmt.Sprintf(" limit %d", r.Intn(2*bs+2))
					} else {
						q += fmt.Sprintf(" limit %d, %d", r.Intn(bs+2), r.Intn(2*bs+2))
					}
				}
				for _, batch := range []bool{false, true} {
					pe.restartDelete(q, kvs, bs, batch)
				}
			}
		}
		return nil
	})
}

// ---------------------------------------------------------------- FAULT

func isPrefixKVs(a, b []KV) bool {
	if len(a) > len(b) {
		return false
	}
	for i := range a {
		if a[i] != b[i] {
			return false
		}
	}
	return true
}

func runFAULT(e *Env) (*Summary, error) {
	start := time.Now()
	col := NewCollector("FAULT", e.Tier, e.Seed, "per (statement, store, mode): fault-free run, then one run per storage-call index i with a fault injected at i (exhaustive in i): the error is the injected one, no storage call follows it, no partial result is reported as complete; engine = model for every i")
	col.sum.Exhaustive = false
	perBs := e.n(2500, 25000)
	saved := kvql.PlanBatchSize
	defer func() { kvql.PlanBatchSize = saved }()
	for _, bs := range planBatchSizes {
		kvql.PlanBatchSize = bs
		bs := bs
		err := e.parallel(func(w int, d *Driver) error {
			for i := w; i < perBs; i += e.Workers {
				idx := uint64(bs)*1_000_000 + uint64(i)
				r := NewRand(e.Seed, "FAULT", idx)
				pe := &planEnv{col: col, d: d, seed: e.Seed, idx: idx, grp: "FAULT"}
				c := genCase(r, bs, i)
				sw, _, ok := pe.prepare(&c)
				if !ok {
					continue
				}
				for _, mode := range []string{"next", "batch"} {
					free := runEngine(c.q, c.kvs, mode, -1, nil)
					n := len(free.Store.Log)
					col.Hist(fmt.Sprintf("calls:%02d", min(n, 30)))
					for fi := 0; fi < n; fi++ {
						eng, err := pe.corr(c.info, sw, c.kvs, bs, mode, fi)
						if err != nil {
							return err
						}
						line := planLine(c.q, mode, bs, fi, c.kvs, sw)
						cs := caseText(c.q, c.kvs, bs, mode, fi) + " | fault-free log " + strings.Join(free.Store.Log, ";")
						col.Nontrivial(fmt.Sprintf("%s/%s/%d/%s/%d", c.q, storeWire(c.kvs), bs, mode, fi))
						col.Hist("faulted-call:" + strings.SplitN(strings.SplitN(free.Store.Log[fi], ":", 2)[0], "->", 2)[0])
						switch {
						case eng.Err == nil:
							pe.find("property", "fault-swallowed", cs, line, eng.render(), "an error", []string{"C13"})
						case !errors.Is(eng.Err, errInjected):
							pe.find("property", "fault-replaced-by-other-error", cs, line, eng.render(), "errors.Is(err, injected)", []string{"C13"})
						}
						if eng.Store.AfterFault != 0 || len(eng.Store.Log) != fi+1 {
							pe.find("property", "storage-call-after-fault", cs, line, strings.Join(eng.Store.Log, ";"), fmt.Sprintf("%d calls, none after the fault", fi+1), []string{"C13"})
						}
						if eng.Outcome == "ok" {
							pe.find("property", "partial-result-reported-complete", cs, line, eng.render(), "an error outcome", []string{"C13"})
						}
						if c.info.Kind == "select" && !isPrefixKVs(eng.Rows, free.Rows) {
							pe.find("property", "rows-before-fault-differ", cs, line, showKVs(eng.Rows), "a prefix of "+showKVs(free.Rows), []string{"C13"})
						}
					}
				}
			}
			return nil
		})
		if err != nil {
			return nil, err
		}
	}
	return col.Finish(start), nil
}

// ---------------------------------------------------------------- POLL

func runPOLL(e *Env) (*Summary, error) {
	start := time.Now()
	col := NewCollector("POLL", e.Tier, e.Seed, "put / remove / delete plans polled with random Next/Batch sequences (with and without a fault): every poll's result, the log and the final store = model; writes are issued by the first poll only")
	perBs := e.n(8000, 80000)
	saved := kvql.PlanBatchSize
	defer func() { kvql.PlanBatchSize = saved }()
	for _, bs := range planBatchSizes {
		kvql.PlanBatchSize = bs
		bs := bs
		err := e.parallel(func(w int, d *Driver) error {
			for i := w; i < perBs; i += e.Workers {
				idx := uint64(bs)*1_000_000 + uint64(i)
				r := NewRand(e.Seed, "POLL", idx)
				pe := &planEnv{col: col, d: d, seed: e.Seed, idx: idx, grp: "POLL"}
				var c planCase
				for {
					c = genCase(r, bs, i)
					if !strings.HasPrefix(c.q, "select") {
						break
					}
				}
				sw, _, ok := pe.prepare(&c)
				if !ok {
					continue
				}
				n := 1 + r.Intn(6)
				seq := make([]byte, n)
				for j := range seq {
					seq[j] = "nb"[r.Intn(2)]
				}
				mode := "poll:" + string(seq)
				fault := -1
				if r.Chance(1, 3) {
					fault = r.Intn(8)
				}
				eng, err := pe.corr(c.info, sw, c.kvs, bs, mode, fault)
				if err != nil {
					return err
				}
				line := planLine(c.q, mode, bs, fault, c.kvs, sw)
				cs := caseText(c.q, c.kvs, bs, mode, fault)
				col.Hist("stmt:"+c.info.Kind, fmt.Sprintf("polls:%d", n))
				col.Nontrivial(cs)
				if eng.Plan == nil {
					continue
				}
				// exactly once: everything the plan does to the storage it does in the first poll
				if len(eng.Store.Log) != eng.LogAfterFirst {
					pe.find("property", "storage-call-after-first-poll", cs, line, strings.Join(eng.Store.Log, ";"), fmt.Sprintf("the first %d entries only", eng.LogAfterFirst), []string{"C12", "C11"})
				}
				if c.info.Kind != "delete" && countWrites(eng.Store.Log) > 1 {
					pe.find("property", "write-issued-more-than-once", cs, line, strings.Join(eng.Store.Log, ";"), "one write", []string{"C12"})
				}
				for j, p := range eng.Polls {
					if j > 0 && p != "." {
						pe.find("property", "finished-plan-returns-rows", cs, line, strings.Join(eng.Polls, "|"), "end of stream after the first poll", []string{"C12"})
						break
					}
				}
				if c.w != nil && fault < 0 {
					o := *eng
					o.Outcome = "ok"
					if o.Err != nil {
						o.Outcome = "exec:" + errName(o.Err)
					}
					pe.writeOracles(*c.w, c.kvs, bs, mode, &o, line)
				}
			}
			return nil
		})
		if err != nil {
			return nil, err
		}
	}
	return col.Finish(start), nil
}
