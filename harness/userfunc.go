package main

import (
	"fmt"
	"strconv"

	"github.com/c4pt0r/kvql"
)

// A scalar function registered by the USER of the library, the way the README shows it
// (kvql.AddScalarFunction), with a row form only — no vector form.  The built-in table gives every
// function both forms, so without this one the batch evaluator's path for "a function without a
// vector form" (and whatever a change makes of it) is never taken.  vmark(x) = '<' + text of x + '>'.
//
// The registry is process-wide and only read once statements run (C19): registered once, here.
// Groups MODES (C03 / C05) and AGGRPLAN (C09) use the function in the statements they generate.
func init() {
	kvql.AddScalarFunction(&kvql.Function{
		Name:       "vmark",
		NumArgs:    1,
		VarArgs:    false,
		ReturnType: kvql.TSTR,
		Body:       vmarkBody,
	})
}

func vmarkBody(kv kvql.KVPair, args []kvql.Expression, ctx *kvql.ExecuteCtx) (any, error) {
	v, err := args[0].Execute(kv, ctx)
	if err != nil {
		return nil, err
	}
	return "<" + vmarkText(v) + ">", nil
}

func vmarkText(v any) string {
	switch x := v.(type) {
	case string:
		return x
	case []byte:
		return string(x)
	case int64:
		return strconv.FormatInt(x, 10)
	case int:
		return strconv.Itoa(x)
	case bool:
		if x {
			return "true"
		}
		return "false"
	}
	return fmt.Sprint(v)
}
