package main

// Group SELECT (property C01): `select * where P` end to end against the REFERENCE EVALUATOR
// `Kvql.Spec.eval` (lean/Kvql/Spec/Eval.lean, written from README.md / spec.md), asked through the
// driver.
//
//   P      typed generator restricted to the core language of C01: key / value / literals,
//          = != < <= > >= ^= ~=, IN lists (duplicates included), BETWEEN, & | and or !, + - * /,
//          int float str upper lower strlen is_int is_float substr; key-pinning atoms with the
//          literal on either side; no aliases (`select *` defines none)
//   store  0 … 3·bs+2 pairs; keys realising the order / prefix relations to the literals of P;
//          values: decimal integers, decimal floats, text, empty
//   runs   bs ∈ {1, 3, 32} × {row, batch} × 2 repetitions
//
//   property  C01  "select-rows": whenever the reference says P is evaluable on EVERY stored pair,
//                  the rows of every run = the stored pairs on which the reference says `true`, each
//                  once, with the stored value, in ascending key order
//   property  C01,C10  "engine-vs-reference-evaluator" (diagnostic): the engine's own
//                  `Execute` on the UNFOLDED parsed WHERE, pair by pair, and `ExecuteBatch` on the
//                  whole store when every pair is evaluable, against the reference verdicts
//
// The reference is asked about the UNFOLDED parsed WHERE (`NewParser(q).Parse()`), the engine plans
// and runs the statement text itself (parser → checker → folding → scan choice → scan → filter).
// Protocol:  SPECEVAL <wire-expr> <hexk=hexv,…>   →   t | f | n | value, one per pair, `;`-separated

import (
	"fmt"
	"sort"
	"strings"
	"time"

	"github.com/c4pt0r/kvql"
)

func init() { groups["SELECT"] = runSELECT }

var selectBatchSizes = []int{1, 3, 32}

// ---------------------------------------------------------------- generator

var (
	selKeyLits   = []string{"", "a", "ab", "b", "ba", "k1", "k2", "k", "l"}
	selIntVals   = []string{"1", "2", "10", "-3", "0", "7", "+5", "100", "3"}
	selFloatVals = []string{"1.5", "0.25", "2.0", "-0.5", "1e3", "3.75", "10.25", ".5", "1e16"}
	selTextVals  = []string{"abc", "a", "x", "Hello World", "k1", "ab", "v", "Abc,DEF", "b", "l", "1x", "K2"}
	selPatterns  = []string{"^a", "b$", "1", "^k[0-9]$", ".", "^$", "", "a.c", "[0-9][0-9]", "^1.5$", "^[0-9]$", "b"}
)

// store kinds: what the values are (decides which conversions the generator may apply to `value`)
const (
	skInts = iota
	skFloats
	skTexts
	skMixed
)

var selStoreKindNames = []string{"ints", "floats", "texts", "mixed"}

// wide scopes (a thin slice of the cases): keys and QUOTED literals with 2-, 3- and 4-byte UTF-8
// sequences and with bytes ≥ 0x80 that are no valid UTF-8, next to their byte-order neighbours
// (café / cafè / caf / cafés); integers beyond 2^53 as stored values and as literals.  In a wide
// case the generator leaves out upper/lower (the reference maps ASCII letters only, Go maps
// Unicode letters: outside the reference's domain) and the patterns containing `.` (the modelled
// regular expressions match bytes, Go matches UTF-8 sequences).
var (
	selWideKeyLits   = []string{"café", "caf", "cafè", "cafés", "键", "键2", "é", "😅", "k\xff", "\x80", "naïve", "k"}
	selWideTexts     = []string{"café", "naïve", "键值", "😅", "héllo wörld", "Ünï", "caf", "\xff\xfe", "a\x80b"}
	selBigInts       = []string{"9007199254740993", "-9007199254740993", "1234567890123456789", "9007199254740992", "-1234567890123456789", "4611686018427387905"}
	selPatternsNoDot = []string{"^a", "b$", "1", "^k[0-9]$", "^$", "", "[0-9][0-9]", "^[0-9]$", "b", "é", "^caf"}
)

type SGen struct {
	*Gen
	kind int  // store kind
	wide bool // see above
}

func (g *SGen) intLit() string {
	if g.r.Chance(1, 40) {
		return pick(g.r, []string{"9223372036854775807", "4611686018427387904"})
	}
	if g.r.Chance(1, 30) {
		return pick(g.r, []string{"9007199254740993", "9007199254740992", "1234567890123456789", "2147483648", "4294967296"})
	}
	return pick(g.r, []string{"0", "1", "2", "3", "10", "7", "100", "5"})
}

func (g *SGen) floatLit() string {
	return pick(g.r, []string{"0.5", "1.5", "2.0", "0.25", "10.0", "3.75"})
}

func (g *SGen) keyLit() string {
	if g.wide && g.r.Chance(2, 3) {
		return quote(pick(g.r, selWideKeyLits))
	}
	return quote(pick(g.r, selKeyLits))
}

func (g *SGen) textLit() string {
	if g.wide && g.r.Chance(1, 3) {
		return quote(pick(g.r, selWideTexts))
	}
	switch g.r.Intn(3) {
	case 0:
		return g.keyLit()
	case 1:
		return quote(pick(g.r, selTextVals))
	default:
		return quote(pick(g.r, []string{"", "x", "1", "2", "10", "v", "abc", "1.5", "A", "K1"}))
	}
}

// Str: a text-valued expression
func (g *SGen) Str(d int) string {
	if d <= 0 || g.r.Chance(2, 5) {
		switch g.r.Intn(6) {
		case 0, 1:
			return g.kw("key")
		case 2, 3:
			return g.kw("value")
		default:
			return g.textLit()
		}
	}
	c := g.r.Intn(7)
	if g.wide && c < 2 {
		c = 4 // no case mapping of multi-byte text
	}
	switch c {
	case 0:
		return g.kw("lower") + "(" + g.Str(d-1) + ")"
	case 1:
		return g.kw("upper") + "(" + g.Str(d-1) + ")"
	case 2:
		if g.r.Chance(1, 4) {
			return "str(" + g.Str(d-1) + ")"
		}
		return "str(" + g.Num(d-1) + ")"
	case 3:
		a := g.r.Intn(4)
		b := a + g.r.Intn(4) - 1
		if b < 0 {
			b = 0
		}
		if g.r.Chance(1, 6) {
			return fmt.Sprintf("substr(%s, %d, %s)", g.Str(d-1), a, g.Num(0))
		}
		return fmt.Sprintf("substr(%s, %d, %d)", g.Str(d-1), a, b)
	case 4, 5:
		return "(" + g.Str(d-1) + " + " + g.Str(d-1) + ")"
	default:
		return g.Str(0)
	}
}

// numText: a text expression that reads as a number on this kind of store
func (g *SGen) numText(wantInt bool) string {
	switch g.r.Intn(4) {
	case 0:
		if wantInt {
			return quote(pick(g.r, []string{"1", "2", "10", "-3", "7", "+4", "007"}))
		}
		return quote(pick(g.r, []string{"1.5", "0.25", "2", "-3", "1e2", ".5"}))
	case 1:
		if wantInt {
			return "str(" + g.intLit() + ")"
		}
		return "str(" + g.floatLit() + ")"
	default:
		if g.kind == skInts || (g.kind == skFloats && !wantInt) {
			return g.kw("value")
		}
		if g.r.Chance(1, 4) {
			return g.kw("value") // not evaluable on some pairs: the case then only feeds the pair-by-pair check
		}
		return "'5'"
	}
}

// Num: a number-valued expression
func (g *SGen) Num(d int) string {
	if d <= 0 || g.r.Chance(2, 5) {
		switch g.r.Intn(6) {
		case 0, 1:
			return g.intLit()
		case 2:
			return g.floatLit()
		case 3:
			return "int(" + g.numText(true) + ")"
		case 4:
			return "float(" + g.numText(false) + ")"
		default:
			return "strlen(" + g.Str(0) + ")"
		}
	}
	switch g.r.Intn(9) {
	case 0:
		if g.r.Chance(1, 3) {
			return "int(" + g.Num(d-1) + ")"
		}
		return "int(" + g.numText(true) + ")"
	case 1:
		if g.r.Chance(1, 3) {
			return "float(" + g.Num(d-1) + ")"
		}
		return "float(" + g.numText(false) + ")"
	case 2:
		if g.r.Chance(1, 4) {
			return "strlen(" + g.Num(d-1) + ")"
		}
		return "strlen(" + g.Str(d-1) + ")"
	case 3, 4, 5, 6:
		op := pick(g.r, []string{"+", "-", "*", "/"})
		r := g.Num(d - 1)
		if op == "/" && !g.r.Chance(1, 5) {
			r = pick(g.r, []string{"1", "2", "3", "0.5"})
		}
		return "(" + g.Num(d-1) + " " + op + " " + r + ")"
	default:
		return g.Num(0)
	}
}

// keyAtom: an atom that pins the key (the atoms the scan planner understands), literal on either side
func (g *SGen) keyAtom() string {
	k := g.kw("key")
	switch g.r.Intn(12) {
	case 0, 1, 2, 3, 4, 5:
		op := pick(g.r, []string{"=", "^=", ">", ">=", "<", "<=", "!="})
		if g.r.Chance(1, 3) {
			return g.keyLit() + " " + op + " " + k
		}
		return k + " " + op + " " + g.keyLit()
	case 6, 7, 8:
		n := 1 + g.r.Intn(4)
		items := make([]string, n)
		for i := range items {
			items[i] = quote(pick(g.r, append(selKeyLits, "a0", "b0", "ab1", "zz")))
		}
		if n > 1 && g.r.Chance(1, 2) {
			items[n-1] = items[g.r.Intn(n-1)] // a duplicate
		}
		return k + " " + g.kw("in") + " (" + strings.Join(items, ", ") + ")"
	default:
		a, b := pick(g.r, selKeyLits), pick(g.r, append(selKeyLits, "a0", "kz", "zz"))
		if a > b && g.r.Chance(4, 5) {
			a, b = b, a
		}
		return k + " " + g.kw("between") + " " + quote(a) + " " + g.kw("and") + " " + quote(b)
	}
}

func (g *SGen) atom(d int) string {
	switch g.r.Intn(12) {
	case 0, 1, 2, 3:
		return g.keyAtom()
	case 4, 5:
		op := pick(g.r, []string{"=", "!=", "^=", "<", ">=", ">", "<="})
		return g.Str(d) + " " + op + " " + g.Str(d)
	case 6, 7:
		op := pick(g.r, []string{"=", "!=", "<", ">=", ">", "<="})
		return g.Num(d) + " " + op + " " + g.Num(d)
	case 8:
		return pick(g.r, []string{"is_int", "is_float"}) + "(" + g.Str(d) + ")"
	case 9:
		if g.wide {
			return g.Str(d) + " ~= " + quote(pick(g.r, selPatternsNoDot))
		}
		return g.Str(d) + " ~= " + quote(pick(g.r, selPatterns))
	case 10:
		if g.r.Bool() {
			n := 1 + g.r.Intn(3)
			it := make([]string, n)
			for i := range it {
				if g.r.Chance(1, 3) {
					it[i] = g.Str(d - 1)
				} else {
					it[i] = g.textLit()
				}
			}
			if n > 1 && g.r.Chance(1, 3) {
				it[n-1] = it[0]
			}
			return g.Str(d) + " " + g.kw("in") + " (" + strings.Join(it, ", ") + ")"
		}
		n := 1 + g.r.Intn(3)
		it := make([]string, n)
		for i := range it {
			switch g.r.Intn(4) {
			case 0:
				it[i] = g.Num(d - 1)
			case 1:
				it[i] = g.floatLit()
			default:
				it[i] = g.intLit()
			}
		}
		return g.Num(d) + " " + g.kw("in") + " (" + strings.Join(it, ", ") + ")"
	default:
		if g.r.Bool() {
			lo, hi := g.keyLit(), quote(pick(g.r, append(selKeyLits, "m", "zz")))
			if g.r.Chance(1, 3) {
				lo, hi = g.Str(d-1), g.Str(d-1)
			}
			return g.Str(d) + " " + g.kw("between") + " " + lo + " " + g.kw("and") + " " + hi
		}
		lo, hi := pick(g.r, []string{"0", "1", "2", "0.5"}), pick(g.r, []string{"3", "10", "100", "2.5", "1"})
		if g.r.Chance(1, 3) {
			lo, hi = g.Num(d-1), g.Num(d-1)
		}
		return g.Num(d) + " " + g.kw("between") + " " + lo + " " + g.kw("and") + " " + hi
	}
}

// Pred: a condition
func (g *SGen) Pred(d int) string {
	if d <= 0 || g.r.Chance(1, 4) {
		return g.atom(1 + g.r.Intn(2))
	}
	switch g.r.Intn(9) {
	case 0, 1, 2:
		return "(" + g.Pred(d-1) + " " + g.and() + " " + g.Pred(d-1) + ")"
	case 3, 4, 5:
		return "(" + g.Pred(d-1) + " " + g.or() + " " + g.Pred(d-1) + ")"
	case 6:
		return "!(" + g.Pred(d-1) + ")"
	case 7:
		if g.r.Chance(1, 3) {
			// Boolean operands of = / !=
			return "(" + g.atom(1) + ") " + pick(g.r, []string{"=", "!="}) + " (" + g.atom(1) + ")"
		}
		return g.Pred(d - 1)
	default:
		return g.atom(2)
	}
}

// fixed predicates: one per scan kind and per mechanism, with rejected rows between accepted ones
var selFixedPreds = []string{
	"key = 'a'", "'a' = key", "key in ('b', 'a', 'ab')", "key in ('a', 'a')", "key in ('b', 'a', 'b', 'zz')",
	"key ^= 'a'", "key ^= ''", "key > 'a'", "'b' > key", "'a' <= key", "key <= ''", "key >= ''", "key < 'b' & key > 'a'",
	"key between 'a' and 'b'", "key between 'ab' and 'k1'", "key > 'b' | key < 'ab'", "(key = '' | key > 'b') & key ^= ''",
	"key ^= 'a' & int(value) > 2", "key in ('a', 'ab', 'b', 'k1') & value != '2'", "key > 'a' & !(value = '1')",
	"int(value) + 1 > 3", "int(value) * 2 = 20 | key = 'a'", "float(value) / 2 >= 0.75", "int(value) / 2 = 1", "int(value) - 10 < 0 - 5",
	"str(int(value) + 1) = '3'", "strlen(value) = 1", "strlen(key + value) > 2", "upper(key) = 'AB'", "lower(upper(key)) = key",
	"substr(key, 0, 1) = 'a'", "substr(key, 1, 2) = 'b'", "substr(value, 1, 0) = ''", "is_int(value)", "is_float(value) & !is_int(value)",
	"key ~= '^k[0-9]$'", "value ~= '^[0-9]$'", "value in ('1', '2', '1')", "int(value) in (1, 2.0, 10)", "int(value) between 1 and 10",
	"value between '1' and '2'", "key + 'x' > 'ax'", "key ^= 'a' | value ^= '1'", "!(key ^= 'a') & !(key > 'k')",
	"int(value) > 1.5", "float(value) = int(value)", "2 * 0.5 + int(value) = 2", "3 * 0.5 > float(value)", "(key = 'a') = (value = '1')",
	"float(value) + 1.0 + 1.0 = float(value)", "float(value) + 1.0 + 1.0 > float(value) + 1.0", "int(value) * 2 * 0.5 = int(value)", "value + 'a' + 'b' = value + 'ab'",
	"key != 'a' and key != 'b'", "'ab' ^= key", "value ^= key", "key < value", "str(1.5) = '1.500000'", "int(1.5) = 1",
	// integers beyond 2^53 (stored and literal): a detour through float64 rounds them
	"int(value) = 9007199254740993", "int(value) > 9007199254740992", "int(value) - 9007199254740992 = 1", "int(value) != 1234567890123456768",
	"str(int(value)) = value", "int(value) + 0 = 0 - 9007199254740993", "int(value) in (9007199254740993, 1234567890123456789)",
}

// ---------------------------------------------------------------- stores

// selKeyPool: the literals, their neighbours in byte order, their extensions and prefixes
func selKeyPool() []string {
	seen := map[string]bool{}
	var pool []string
	add := func(k string) {
		if !seen[k] {
			seen[k] = true
			pool = append(pool, k)
		}
	}
	for _, l := range append(append([]string{}, selKeyLits...), "a0", "b0", "ab1", "zz", "kz", "m") {
		add(l)
		for _, s := range []string{"\x00", "0", "1", "a", "b", "z", "~", "0z", "ba"} {
			add(l + s)
		}
		if len(l) > 0 {
			add(l[:len(l)-1])
			b := []byte(l)
			b[len(b)-1]--
			add(string(b))
			add(string(b) + "~")
			b[len(b)-1] += 2
			add(string(b))
		}
	}
	for _, k := range []string{"A", "AB", "K1", "B", "Z", "0", "1", "9", "~", "j", "jz", "c", "kk", "k10", "k19", "k1a"} {
		add(k)
	}
	return pool
}

var selPool = selKeyPool()

// selWidePool: the wide literals, their prefixes (cut at every byte, so also inside a UTF-8
// sequence), neighbours and extensions, and a few ASCII keys
func selWideKeyPool() []string {
	seen := map[string]bool{}
	var pool []string
	add := func(k string) {
		if !seen[k] {
			seen[k] = true
			pool = append(pool, k)
		}
	}
	for _, l := range selWideKeyLits {
		for i := 0; i <= len(l); i++ {
			add(l[:i])
		}
		for _, s := range []string{"\x00", "0", "s", "é", "\xff", "~"} {
			add(l + s)
		}
		b := []byte(l)
		b[len(b)-1]--
		add(string(b))
		add(string(b) + "\xff")
		b[len(b)-1] += 2
		add(string(b))
	}
	for _, k := range []string{"a", "ab", "b", "k1", "k2", "l", "z", "cafe", "cafz", "\xc3", "\xe9\x94", "\xff"} {
		add(k)
	}
	return pool
}

var selWidePool = selWideKeyPool()

func selStore(r *Rand, size int, kind int, wide bool) []KV {
	selPool := selPool
	if wide {
		selPool = selWidePool
	}
	idx := r.perm(len(selPool))
	if size > len(idx) {
		size = len(idx)
	}
	kvs := make([]KV, size)
	for i := 0; i < size; i++ {
		k := kind
		if kind == skMixed {
			k = r.Intn(4)
		}
		var v string
		switch k {
		case skInts:
			v = pick(r, selIntVals)
			if r.Chance(1, 8) {
				v = pick(r, selBigInts)
			}
		case skFloats:
			v = pick(r, selFloatVals)
		case skTexts:
			v = pick(r, selTextVals)
			if wide && r.Bool() {
				v = pick(r, selWideTexts)
			}
		default:
			v = ""
		}
		kvs[i] = KV{selPool[idx[i]], v}
	}
	sort.Slice(kvs, func(i, j int) bool { return kvs[i].K < kvs[j].K })
	return kvs
}

func (r *Rand) perm(n int) []int {
	idx := make([]int, n)
	for i := range idx {
		idx[i] = i
	}
	for i := n - 1; i > 0; i-- {
		j := r.Intn(i + 1)
		idx[i], idx[j] = idx[j], idx[i]
	}
	return idx
}

// ---------------------------------------------------------------- distribution

func selAstHist(e kvql.Expression, acc map[string]bool, depth int) {
	if depth > 60 {
		return
	}
	switch x := e.(type) {
	case *kvql.BinaryOpExpr:
		acc["op:"+kvql.OperatorToString[x.Op]] = true
		selAstHist(x.Left, acc, depth+1)
		selAstHist(x.Right, acc, depth+1)
	case *kvql.NotExpr:
		acc["op:!"] = true
		selAstHist(x.Right, acc, depth+1)
	case *kvql.FunctionCallExpr:
		if n, ok := x.Name.(*kvql.NameExpr); ok {
			acc["fn:"+strings.ToLower(n.Data)] = true
		}
		for _, a := range x.Args {
			selAstHist(a, acc, depth+1)
		}
	case *kvql.ListExpr:
		for _, a := range x.List {
			selAstHist(a, acc, depth+1)
		}
	case *kvql.FieldExpr:
		if x.Field == kvql.KeyKW {
			acc["leaf:key"] = true
		} else {
			acc["leaf:value"] = true
		}
	case *kvql.FloatExpr:
		acc["leaf:float"] = true
	case *kvql.NumberExpr:
		acc["leaf:int"] = true
	case *kvql.BoolExpr:
		acc["leaf:bool"] = true
	}
}

// ---------------------------------------------------------------- the group

type selCase struct {
	q    string
	kvs  []KV
	kind int
}

func kvPairs(kvs []KV) []kvql.KVPair {
	chunk := make([]kvql.KVPair, len(kvs))
	for i, kv := range kvs {
		chunk[i] = kvql.NewKVP([]byte(kv.K), []byte(kv.V))
	}
	return chunk
}

func selRowsOf(res *RunResult) (string, bool) {
	p := make([]string, 0, len(res.Rows))
	for _, r := range res.Rows {
		if len(r) != 2 {
			return fmt.Sprintf("row with %d columns", len(r)), false
		}
		k, ok1 := r[0].([]byte)
		v, ok2 := r[1].([]byte)
		if !ok1 || !ok2 {
			return "row with non-bytes columns: " + canonValue(r[0]) + " " + canonValue(r[1]), false
		}
		p = append(p, hx(k)+"="+hx(v))
	}
	if len(p) == 0 {
		return "-", true
	}
	return strings.Join(p, ","), true
}

func runSELECT(e *Env) (*Summary, error) {
	start := time.Now()
	col := NewCollector("SELECT", e.Tier, e.Seed,
		"`select * where P` (P: core language of C01, typed generator + fixed predicates) x stores of 0..3bs+2 pairs x bs in {1,3,32} x {row,batch} x 2 repetitions: engine rows = the stored pairs the Lean reference evaluator Spec.eval (from README/spec.md, asked about the unfolded parsed WHERE) says are true, in key order, whenever the reference says P is evaluable on every stored pair; diagnostic: the engine's Execute/ExecuteBatch vs the reference pair by pair")
	perBs := e.n(9000, 120000)
	saved := kvql.PlanBatchSize
	defer func() { kvql.PlanBatchSize = saved }()
	for _, bs := range selectBatchSizes {
		kvql.PlanBatchSize = bs
		bs := bs
		err := e.parallel(func(w int, d *Driver) error {
			for i := w; i < perBs; i += e.Workers {
				idx := uint64(bs)*10_000_000 + uint64(i)
				if err := selectCase(e, col, d, bs, i, idx); err != nil {
					return err
				}
			}
			return nil
		})
		if err != nil {
			return nil, err
		}
	}
	return col.Finish(start), nil
}

func selectCase(e *Env, col *Collector, d *Driver, bs, i int, idx uint64) error {
	r := NewRand(e.Seed, "SELECT", idx)
	kind := r.Intn(4)
	if r.Chance(1, 3) {
		kind = skInts
	}
	o := defaultOpts()
	o.UpperCase = r.Chance(1, 10)
	g := &SGen{Gen: NewGen(r, o), kind: kind}
	if i%7 == 3 && i%6 != 0 {
		// the wide slice (never a fixed predicate: some apply upper / lower to the key): multi-byte and ≥ 0x80 keys and literals; text stores more often
		g.wide = true
		if r.Bool() {
			kind = skTexts
			g.kind = kind
		}
	}
	if i%16 == 5 {
		return selectDirectCase(e, col, bs, i, idx, r)
	}
	var pred string
	fixed := i%6 == 0
	if fixed {
		pred = selFixedPreds[(i/6)%len(selFixedPreds)]
		if i/6 < 3*len(selFixedPreds) {
			kind = skInts
			if strings.Contains(pred, "float(value)") {
				kind = skFloats
			}
		}
	} else {
		pred = g.Pred(1 + r.Intn(3))
	}
	size := r.Intn(3*bs + 3)
	if bs == 32 && r.Chance(1, 2) {
		size = r.Intn(12)
	}
	if bs == 32 && i%8 == 1 {
		size = 33 + r.Intn(90) // more than one and more than two batches of the default size
	}
	kvs := selStore(r, size, kind, g.wide)
	q := g.kw("select") + " * " + g.kw("where") + " " + pred
	caseStr := fmt.Sprintf("`%s` on %s bs=%d", visible(q), showKVs(kvs), bs)

	stmt, perr := parseTargets(q)
	if perr != nil {
		col.Hist("parse:rejected")
		if len(col.sum.Samples) < 12 && r.Chance(1, 50) {
			col.Sample("rejected: " + q + " :: " + errClass(perr))
		}
		return nil
	}
	if !stmt.AllFields || stmt.Limit != nil || stmt.Order != nil || stmt.GroupBy != nil {
		col.Hist("parse:not-select-star")
		return nil
	}
	col.Hist("parse:accepted", "store:"+selStoreKindNames[kind], fmt.Sprintf("store-size:%s", sizeBucket(len(kvs), bs)))
	if g.wide {
		col.Hist("wide:accepted")
	}
	where := stmt.Where.Expr
	// ---- the literals of the tree are the quoted texts of the statement, byte for byte (the
	// reference below is asked about the PARSED tree, so a literal altered on the way in would go unseen)
	if wrote, parsed := quotedLiterals(q), treeLiterals(where); wrote != parsed {
		col.Find(Finding{Kind: "property", Group: "SELECT", Check: "literal-not-preserved", Case: "`" + visible(q) + "`", Line: "PARSE " + hxs(q) + " -",
			Engine: "literals of the parsed WHERE: " + parsed, Model: "quoted texts of the statement: " + wrote, Seed: e.Seed, Index: idx, Properties: []string{"C01"}})
	}
	wire := wireExpr(where)
	if strings.Contains(wire, "Y") || strings.Contains(wire, "?") {
		col.Hist("skip:unknown-node")
		return nil
	}
	ah := map[string]bool{}
	selAstHist(where, ah, 0)
	for k := range ah {
		col.Hist(k)
	}

	// ---- the reference
	chunk := kvPairs(kvs)
	line := fmt.Sprintf("SPECEVAL %s %s", wire, pairsWire(chunk))
	ans, err := d.Ask(line)
	if err != nil {
		return err
	}
	col.Eval(1)
	var ref []string
	if ans != "-" {
		ref = strings.Split(ans, ";")
	}
	if len(ref) != len(kvs) {
		col.Find(Finding{Kind: "correspondence", Group: "SELECT", Check: "driver-answer", Case: caseStr, Line: line, Engine: fmt.Sprint(len(kvs), " pairs"), Model: ans, Seed: e.Seed, Index: idx, Properties: []string{"C01"}})
		return nil
	}
	allEval := true
	nTrue := 0
	rejectedBeforeAccepted := false
	seenF := false
	var expect []string
	for j, v := range ref {
		switch v {
		case "t":
			nTrue++
			expect = append(expect, hxs(kvs[j].K)+"="+hxs(kvs[j].V))
			if seenF {
				rejectedBeforeAccepted = true
			}
		case "f":
			seenF = true
		default:
			allEval = false
		}
	}
	want := "-"
	if len(expect) > 0 {
		want = strings.Join(expect, ",")
	}

	// ---- diagnostic: the engine's own evaluators on the unfolded WHERE
	rows, _ := engineRows(where, chunk, "0")
	for j, rr := range rows {
		got := rr.class
		if rr.class == "ok" {
			if b, ok := rr.val.(bool); ok {
				got = "f"
				if b {
					got = "t"
				}
			} else {
				got = evContent(rr.val)
			}
		}
		col.Eval(1)
		switch {
		case ref[j] == "n":
			col.Hist("pair:ref-n/engine-" + strings.SplitN(got, ":", 2)[0])
		case ref[j] != "t" && ref[j] != "f":
			col.Hist("pair:ref-non-boolean")
		default:
			col.Hist("pair:ref-" + ref[j])
			if got != ref[j] {
				pl := fmt.Sprintf("SPECEVAL %s %s", wire, pairsWire(chunk[j:j+1]))
				col.Find(Finding{Kind: "property", Group: "SELECT", Check: "engine-vs-reference-evaluator", Case: fmt.Sprintf("`%s` on %q=%q", visible(where.String()), kvs[j].K, kvs[j].V),
					Line: pl, Engine: "Execute: " + got, Model: "reference: " + ref[j], Class: "row:" + selMech(where, chunk[j:j+1]), Seed: e.Seed, Index: idx, Properties: []string{"C01", "C10"}})
			}
		}
	}
	if allEval && len(kvs) > 0 {
		bv, bc, _ := engineBatch(where, chunk, "0")
		got := bc
		if bc == "ok" {
			p := make([]string, len(bv))
			for j, v := range bv {
				if b, ok := v.(bool); ok {
					p[j] = "f"
					if b {
						p[j] = "t"
					}
				} else {
					p[j] = evContent(v)
				}
			}
			got = strings.Join(p, ";")
		}
		col.Eval(1)
		if got != ans {
			col.Find(Finding{Kind: "property", Group: "SELECT", Check: "engine-vs-reference-evaluator", Case: "ExecuteBatch of " + caseStr,
				Line: line, Engine: "ExecuteBatch: " + got, Model: "reference: " + ans, Class: "batch:" + selMech(where, chunk), Seed: e.Seed, Index: idx, Properties: []string{"C01", "C10"}})
		}
	}

	// ---- the property
	if !allEval {
		col.Hist("c01:not-evaluable-on-every-pair")
		return nil
	}
	col.Hist("c01:judged")
	if fixed {
		col.Hist("c01:judged-fixed")
	}
	if rejectedBeforeAccepted {
		col.Hist("c01:rejected-row-precedes-accepted")
	}
	switch {
	case nTrue == 0:
		col.Hist("c01:rows=0")
	case nTrue == len(kvs):
		col.Hist("c01:rows=all")
	default:
		col.Hist("c01:rows=some")
	}
	if info, aerr := analyze(q); aerr == nil && info.Node != nil {
		col.Hist("scan:" + info.Node.Kind)
	} else {
		col.Hist("scan:unknown")
	}
	if nTrue > 0 {
		col.Nontrivial(fmt.Sprintf("%s/%s/%d", q, storeWire(kvs), bs))
	}
	first := ""
	for _, mode := range []string{"row", "batch", "row", "batch"} {
		st := NewRefStore(kvs)
		res := runStatement(q, st, mode == "batch", true)
		col.Eval(1)
		out := res.Outcome()
		got, okShape := "", true
		if out == "ok" {
			got, okShape = selRowsOf(res)
		}
		pl := planLine(q, map[string]string{"row": "next", "batch": "batch"}[mode], bs, -1, kvs, "-") + " ## " + line
		switch {
		case out == "panic":
			col.Find(Finding{Kind: "crash", Group: "SELECT", Check: "panic", Case: caseStr + " mode=" + mode, Line: pl, Engine: "panic: " + res.Panic, Model: "rows " + want,
				Seed: e.Seed, Index: idx, Properties: []string{"C01", "C06"}})
		case strings.HasPrefix(out, "plan:"):
			// Parse accepted the statement, BuildPlan refuses it: not an accepted query
			col.Hist("c01:plan-refused:" + strings.SplitN(out, "@", 2)[0])
		case out != "ok":
			col.Find(Finding{Kind: "property", Group: "SELECT", Check: "select-error-on-evaluable", Case: caseStr + " mode=" + mode, Line: pl, Engine: out + " after " + fmt.Sprint(len(res.Rows)) + " rows", Model: "rows " + want,
				Class: selMech(where, chunk), Seed: e.Seed, Index: idx, Properties: []string{"C01"}})
		case !okShape || got != want:
			col.Find(Finding{Kind: "property", Group: "SELECT", Check: "select-rows", Case: caseStr + " mode=" + mode, Line: pl, Engine: "rows " + got, Model: "rows " + want,
				Class: selMech(where, chunk), Seed: e.Seed, Index: idx, Properties: selProps(res)})
		}
		if st.Dump() != dumpOf(kvs) {
			col.Find(Finding{Kind: "property", Group: "SELECT", Check: "select-changed-the-store", Case: caseStr + " mode=" + mode, Line: pl, Engine: st.Dump(), Model: dumpOf(kvs), Seed: e.Seed, Index: idx, Properties: []string{"C01", "C13"}})
		}
		sig := out + " " + got
		if first == "" {
			first = sig
		} else if sig != first {
			col.Find(Finding{Kind: "property", Group: "SELECT", Check: "select-modes-or-repetitions-differ", Case: caseStr + " mode=" + mode, Line: pl, Engine: sig, Model: first, Seed: e.Seed, Index: idx, Properties: []string{"C01", "C03"}})
		}
	}
	if i < 10 {
		col.Sample(caseStr + " => " + want)
	}
	return nil
}

func sizeBucket(n, bs int) string {
	switch {
	case n == 0:
		return "0"
	case n < bs:
		return "<bs"
	case n == bs:
		return "=bs"
	case n <= 2*bs:
		return "<=2bs"
	default:
		return ">2bs"
	}
}

// quotedLiterals: the texts between quotes of a statement (the language has no escapes; a literal
// ends at the next quote of the kind that opened it), hex, sorted
func quotedLiterals(q string) string {
	var out []string
	for i := 0; i < len(q); i++ {
		if c := q[i]; c == '\'' || c == '"' {
			j := strings.IndexByte(q[i+1:], c)
			if j < 0 {
				break
			}
			out = append(out, hxs(q[i+1:i+1+j]))
			i += j + 1
		} else if c == '`' {
			j := strings.IndexByte(q[i+1:], c)
			if j < 0 {
				break
			}
			i += j + 1
		}
	}
	sort.Strings(out)
	return strings.Join(out, ",")
}

// treeLiterals: the Data of every StringExpr of a parsed tree, hex, sorted
func treeLiterals(e kvql.Expression) string {
	var out []string
	var walk func(e kvql.Expression, depth int)
	walk = func(e kvql.Expression, depth int) {
		if depth > 200 {
			return
		}
		if s, ok := e.(*kvql.StringExpr); ok {
			out = append(out, hxs(s.Data))
		}
		for _, c := range exprChildren(e) {
			walk(c, depth+1)
		}
		if fa, ok := e.(*kvql.FieldAccessExpr); ok {
			walk(fa.FieldName, depth+1)
		}
	}
	walk(e, 0)
	sort.Strings(out)
	return strings.Join(out, ",")
}

// ---------------------------------------------------------------- direct cases
//
// Statements of a few plain shapes over wide literals whose rows this file computes itself, with
// byte comparisons on the literal AS WRITTEN (no parser, no model): key = L, key ^= L, key in (…),
// key between L1 and L2, value = L, key > L & value != L2, int(value) = N / > N over stores holding
// integers beyond 2^53.  Rows of every mode = the stored pairs that satisfy it, in key order.
func selectDirectCase(e *Env, col *Collector, bs, i int, idx uint64, r *Rand) error {
	lit := func() string { return pick(r, selWideKeyLits) }
	var q string
	var holds func(kv KV) bool
	kind := skTexts
	switch r.Intn(8) {
	case 0:
		l := lit()
		q, holds = "select * where key = "+quote(l), func(kv KV) bool { return kv.K == l }
	case 1:
		l := lit()
		q, holds = "select * where key ^= "+quote(l), func(kv KV) bool { return strings.HasPrefix(kv.K, l) }
	case 2:
		a, b := lit(), lit()
		q, holds = "select * where key in ("+quote(a)+", "+quote(b)+")", func(kv KV) bool { return kv.K == a || kv.K == b }
	case 3:
		a, b := lit(), lit()
		if a > b {
			a, b = b, a
		}
		if a == b {
			b = a + "\xff"
		}
		q, holds = "select * where key between "+quote(a)+" and "+quote(b), func(kv KV) bool { return a <= kv.K && kv.K <= b }
	case 4:
		l := pick(r, selWideTexts)
		q, holds = "select * where value = "+quote(l)+" | "+quote(l)+" = key", func(kv KV) bool { return kv.V == l || kv.K == l }
	case 5:
		a, l := lit(), pick(r, selWideTexts)
		q, holds = "select * where key > "+quote(a)+" & value != "+quote(l), func(kv KV) bool { return kv.K > a && kv.V != l }
	case 6:
		kind = skInts
		n := pick(r, selBigInts)
		q, holds = "select * where int(value) = "+strings.TrimPrefix(n, "-")+" | key = 'zz'", func(kv KV) bool { return kv.V == strings.TrimPrefix(n, "-") || kv.K == "zz" }
	default:
		kind = skInts
		q, holds = "select * where int(value) > 9007199254740992", func(kv KV) bool {
			// every value of an integer store is a decimal integer of at most 19 digits
			v := strings.TrimPrefix(kv.V, "+")
			return !strings.HasPrefix(v, "-") && len(v) >= 16 && (len(v) > 16 || v > "9007199254740992")
		}
	}
	size := 2 + r.Intn(3*bs+3)
	if bs == 32 && r.Chance(1, 3) {
		size = 33 + r.Intn(90)
	}
	kvs := selStore(r, size, kind, kind == skTexts)
	if kind == skInts {
		for j := range kvs {
			if r.Chance(1, 3) {
				kvs[j].V = pick(r, selBigInts)
			}
		}
	}
	var expect []string
	for _, kv := range kvs {
		if holds(kv) {
			expect = append(expect, hxs(kv.K)+"="+hxs(kv.V))
		}
	}
	want := "-"
	if len(expect) > 0 {
		want = strings.Join(expect, ",")
		col.Nontrivial(fmt.Sprintf("%s/%s/%d", q, storeWire(kvs), bs))
	}
	col.Hist("direct:judged")
	caseStr := fmt.Sprintf("`%s` on %s bs=%d", visible(q), showKVs(kvs), bs)
	for _, mode := range []string{"row", "batch"} {
		st := NewRefStore(kvs)
		res := runStatement(q, st, mode == "batch", true)
		col.Eval(1)
		out := res.Outcome()
		got, okShape := "", true
		if out == "ok" {
			got, okShape = selRowsOf(res)
		}
		pl := planLine(q, map[string]string{"row": "next", "batch": "batch"}[mode], bs, -1, kvs, "-")
		switch {
		case out == "panic":
			col.Find(Finding{Kind: "crash", Group: "SELECT", Check: "panic", Case: caseStr + " mode=" + mode, Line: pl, Engine: "panic: " + res.Panic, Model: "rows " + want,
				Seed: e.Seed, Index: idx, Properties: []string{"C01", "C06"}})
		case out != "ok" || !okShape || got != want:
			col.Find(Finding{Kind: "property", Group: "SELECT", Check: "select-rows-direct", Case: caseStr + " mode=" + mode, Line: pl, Engine: out + " rows " + got, Model: "ok rows " + want + " (byte comparisons on the literals as written)",
				Seed: e.Seed, Index: idx, Properties: selProps(res)})
		}
	}
	return nil
}

// selMech: the smallest sub-expression on which the engine's row evaluator and the reference
// still disagree is not computed here (the reference sits behind the driver); the class is the
// root operator / function of the expression, enough to group findings
func selMech(e kvql.Expression, _ []kvql.KVPair) string {
	return mechLabel(e)
}

// selProps: wrong rows violate C01; when the plan is not a full scan they are also the planner's
// narrowed access path disagreeing with "a full scan filtered pair by pair" (C02)
func selProps(res *RunResult) []string {
	narrowed := false
	for _, l := range res.Explain {
		if strings.Contains(l, "PrefixScanPlan{") || strings.Contains(l, "RangeScanPlan{") || strings.Contains(l, "MultiGetPlan{") || strings.Contains(l, "EmptyResultPlan") {
			narrowed = true
		}
	}
	if narrowed {
		return []string{"C01", "C02"}
	}
	return []string{"C01"}
}
