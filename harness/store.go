package main

import (
	"bytes"
	"errors"
	"fmt"
	"sort"
	"strings"
	"sync"

	"github.com/c4pt0r/kvql"
)

// RefStore is the reference Storage of the harness: a sorted map with a call log, single
// fault injection at a chosen call index, and snapshot cursors positioned by lower-bound Seek.
type RefStore struct {
	mu      sync.Mutex
	data    map[string][]byte
	Log     []string
	Calls   int
	FaultAt int // call index (0-based) that returns errInjected; -1 = never
	Faulted bool
	// AfterFault counts storage calls issued after the injected fault was returned
	AfterFault int
}

var errInjected = errors.New("injected storage fault")

type KV struct{ K, V string }

func NewRefStore(kvs []KV) *RefStore {
	s := &RefStore{data: map[string][]byte{}, FaultAt: -1}
	for _, kv := range kvs {
		s.data[kv.K] = []byte(kv.V)
	}
	return s
}

func (s *RefStore) Clone() *RefStore {
	n := &RefStore{data: map[string][]byte{}, FaultAt: -1}
	for k, v := range s.data {
		n.data[k] = append([]byte{}, v...)
	}
	return n
}

func (s *RefStore) sortedKeys() []string {
	ks := make([]string, 0, len(s.data))
	for k := range s.data {
		ks = append(ks, k)
	}
	sort.Strings(ks)
	return ks
}

// Dump renders the content canonically: hexkey=hexval,… in key order
func (s *RefStore) Dump() string {
	s.mu.Lock()
	defer s.mu.Unlock()
	ks := s.sortedKeys()
	if len(ks) == 0 {
		return "-"
	}
	p := make([]string, len(ks))
	for i, k := range ks {
		p[i] = hxs(k) + "=" + hx(s.data[k])
	}
	return strings.Join(p, ",")
}

func (s *RefStore) Pairs() []KV {
	s.mu.Lock()
	defer s.mu.Unlock()
	var ret []KV
	for _, k := range s.sortedKeys() {
		ret = append(ret, KV{k, string(s.data[k])})
	}
	return ret
}

// call registers one storage call; returns errInjected when this is the faulty call
func (s *RefStore) call(entry string) error {
	idx := s.Calls
	s.Calls++
	if s.Faulted {
		s.AfterFault++
	}
	s.Log = append(s.Log, entry)
	if idx == s.FaultAt {
		s.Faulted = true
		s.Log[len(s.Log)-1] = entry + "!fault"
		return errInjected
	}
	return nil
}

func (s *RefStore) Get(key []byte) ([]byte, error) {
	s.mu.Lock()
	defer s.mu.Unlock()
	if err := s.call("Get:" + hx(key)); err != nil {
		return nil, err
	}
	v, ok := s.data[string(key)]
	if !ok {
		return nil, nil
	}
	return append([]byte{}, v...), nil
}

func (s *RefStore) Put(key, value []byte) error {
	s.mu.Lock()
	defer s.mu.Unlock()
	if err := s.call("Put:" + hx(key) + "=" + hx(value)); err != nil {
		return err
	}
	s.data[string(key)] = append([]byte{}, value...)
	return nil
}

func (s *RefStore) BatchPut(kvs []kvql.KVPair) error {
	s.mu.Lock()
	defer s.mu.Unlock()
	p := make([]string, len(kvs))
	for i, kv := range kvs {
		p[i] = hx(kv.Key) + "=" + hx(kv.Value)
	}
	if err := s.call("BatchPut:" + strings.Join(p, ",")); err != nil {
		return err
	}
	for _, kv := range kvs {
		s.data[string(kv.Key)] = append([]byte{}, kv.Value...)
	}
	return nil
}

func (s *RefStore) Delete(key []byte) error {
	s.mu.Lock()
	defer s.mu.Unlock()
	if err := s.call("Delete:" + hx(key)); err != nil {
		return err
	}
	delete(s.data, string(key))
	return nil
}

func (s *RefStore) BatchDelete(keys [][]byte) error {
	s.mu.Lock()
	defer s.mu.Unlock()
	p := make([]string, len(keys))
	for i, k := range keys {
		p[i] = hx(k)
	}
	if err := s.call("BatchDelete:" + strings.Join(p, ",")); err != nil {
		return err
	}
	for _, k := range keys {
		delete(s.data, string(k))
	}
	return nil
}

type refCursor struct {
	s    *RefStore
	keys []string
	vals [][]byte
	pos  int
}

func (s *RefStore) Cursor() (kvql.Cursor, error) {
	s.mu.Lock()
	defer s.mu.Unlock()
	if err := s.call("Cursor"); err != nil {
		return nil, err
	}
	ks := s.sortedKeys()
	vs := make([][]byte, len(ks))
	for i, k := range ks {
		vs[i] = append([]byte{}, s.data[k]...)
	}
	return &refCursor{s: s, keys: ks, vals: vs}, nil
}

func (c *refCursor) Seek(prefix []byte) error {
	c.s.mu.Lock()
	defer c.s.mu.Unlock()
	if err := c.s.call("Seek:" + hx(prefix)); err != nil {
		return err
	}
	c.pos = sort.Search(len(c.keys), func(i int) bool { return bytes.Compare([]byte(c.keys[i]), prefix) >= 0 })
	return nil
}

func (c *refCursor) Next() ([]byte, []byte, error) {
	c.s.mu.Lock()
	defer c.s.mu.Unlock()
	if c.pos >= len(c.keys) {
		if err := c.s.call("Next->end"); err != nil {
			return nil, nil, err
		}
		return nil, nil, nil
	}
	if err := c.s.call("Next->" + hxs(c.keys[c.pos])); err != nil {
		return nil, nil, err
	}
	k, v := []byte(c.keys[c.pos]), c.vals[c.pos]
	c.pos++
	return k, v, nil
}

// ---------------------------------------------------------------- canonical values

// canonValue renders a column value: b:hex (bytes) s:hex (string) i:n (int64) I:n (int) f:bits (float64)
// t/F (bool) n (nil) [..] lists {..} JSON objects with sorted keys
func canonValue(v any) string {
	switch x := v.(type) {
	case nil:
		return "n"
	case []byte:
		return "b:" + hx(x)
	case string:
		return "s:" + hxs(x)
	case int64:
		return fmt.Sprintf("i:%d", x)
	case int:
		return fmt.Sprintf("I:%d", x)
	case float64:
		return "f:" + canonFloat(x)
	case bool:
		if x {
			return "t"
		}
		return "F"
	case []string:
		p := make([]string, len(x))
		for i, e := range x {
			p[i] = "s:" + hxs(e)
		}
		return "S[" + strings.Join(p, " ") + "]"
	case []int64:
		p := make([]string, len(x))
		for i, e := range x {
			p[i] = fmt.Sprintf("i:%d", e)
		}
		return "L[" + strings.Join(p, " ") + "]"
	case []float64:
		p := make([]string, len(x))
		for i, e := range x {
			p[i] = "f:" + canonFloat(e)
		}
		return "D[" + strings.Join(p, " ") + "]"
	case []any:
		p := make([]string, len(x))
		for i, e := range x {
			p[i] = canonValue(e)
		}
		return "A[" + strings.Join(p, " ") + "]"
	case kvql.JSON:
		return canonMap(map[string]any(x))
	case map[string]any:
		return canonMap(x)
	case []kvql.Expression:
		// ListExpr.Execute returns the expression list itself
		p := make([]string, len(x))
		for i, e := range x {
			p[i] = wireExpr(e)
		}
		return "E[" + strings.Join(p, " ") + "]"
	}
	return fmt.Sprintf("?%T", v)
}

func canonMap(m map[string]any) string {
	ks := make([]string, 0, len(m))
	for k := range m {
		ks = append(ks, k)
	}
	sort.Strings(ks)
	p := make([]string, len(ks))
	for i, k := range ks {
		p[i] = hxs(k) + ":" + canonValue(m[k])
	}
	return "{" + strings.Join(p, " ") + "}"
}

// contentValue renders by content: text as bytes whatever the Go kind, numbers by integer/float kind
func contentValue(v any) string {
	switch x := v.(type) {
	case []byte:
		return "x:" + hx(x)
	case string:
		return "x:" + hxs(x)
	case int:
		return fmt.Sprintf("i:%d", x)
	case []string:
		p := make([]string, len(x))
		for i, e := range x {
			p[i] = "x:" + hxs(e)
		}
		return "[" + strings.Join(p, " ") + "]"
	case []int64:
		p := make([]string, len(x))
		for i, e := range x {
			p[i] = fmt.Sprintf("i:%d", e)
		}
		return "[" + strings.Join(p, " ") + "]"
	case []float64:
		p := make([]string, len(x))
		for i, e := range x {
			p[i] = "f:" + canonFloat(e)
		}
		return "[" + strings.Join(p, " ") + "]"
	case []any:
		p := make([]string, len(x))
		for i, e := range x {
			p[i] = contentValue(e)
		}
		return "[" + strings.Join(p, " ") + "]"
	case kvql.JSON:
		return contentMap(map[string]any(x))
	case map[string]any:
		return contentMap(x)
	}
	return canonValue(v)
}

func contentMap(m map[string]any) string {
	ks := make([]string, 0, len(m))
	for k := range m {
		ks = append(ks, k)
	}
	sort.Strings(ks)
	p := make([]string, len(ks))
	for i, k := range ks {
		p[i] = hxs(k) + ":" + contentValue(m[k])
	}
	return "{" + strings.Join(p, " ") + "}"
}
