package main

// Group PARSE: Parser.Parse() (parser.go + checker.go + statement.go) against the Lean model
// `Kvql.Parser.Parse` (kind "correspondence"), and the spec differentials for
//
//	C15  documented precedence / associativity (an independent shunting-yard and a
//	     minimal-parenthesis printer written from the README operator table predict the tree
//	     shape) and print → re-parse,
//	C17  every SyntaxError position is -1, 0 or the start of a token (errposCheck),
//	C06  no query text makes Parse panic or kills the process (kind "crash").
//
// Protocol line: PARSE <hexquery> <floats>, floats = `-` | hexdata=bits;… — the values
// strconv.ParseFloat gives for the FLOAT tokens of the query (the model is generic in it).
//
// A statement whose select list mentions an alias before (or inside) the field that defines
// it may build a cyclic alias; on the unrepaired engine that recurses until the Go runtime
// kills the process, which recover() cannot stop.  Such statements, and every statement for
// which the model predicts `cycle` or a panic, are parsed in a child process.

import (
	"errors"
	"fmt"
	"math"
	"os"
	"os/exec"
	"runtime/debug"
	"sort"
	"strconv"
	"strings"
	"time"

	"github.com/c4pt0r/kvql"
)

// ------------------------------------------------------------------ engine side

type parseOut struct {
	line string         // canonical outcome: ok <wire> | err <pos> <class> | panic | died
	stmt kvql.Statement // non-nil whenever Parse returned one (also next to an error)
	err  error
	msg  string // panic text
}

func parseErrLine(err error) string {
	var se *kvql.SyntaxError
	if errors.As(err, &se) {
		return fmt.Sprintf("err %d syntax", se.Pos)
	}
	if err.Error() == "exceed max nesting depth" {
		return "err -1 nest"
	}
	return "err -1 other"
}

// engineParse runs NewParser(q).Parse() in this process.
func engineParse(q string) (out parseOut) {
	defer func() {
		if r := recover(); r != nil {
			out = parseOut{line: "panic", msg: fmt.Sprint(r)}
		}
	}()
	stmt, err := kvql.NewParser(q).Parse()
	if err != nil {
		if isNilStmt(stmt) {
			stmt = nil
		}
		return parseOut{line: parseErrLine(err), stmt: stmt, err: err}
	}
	return parseOut{line: "ok " + wireStmt(stmt), stmt: stmt}
}

func isNilStmt(s kvql.Statement) bool {
	switch x := s.(type) {
	case nil:
		return true
	case *kvql.SelectStmt:
		return x == nil
	case *kvql.PutStmt:
		return x == nil
	case *kvql.RemoveStmt:
		return x == nil
	case *kvql.DeleteStmt:
		return x == nil
	}
	return false
}

const parseChildEnv = "KVHARNESS_PARSE_CHILD"

// the child-process side: `KVHARNESS_PARSE_CHILD=<hexquery> kvharness` prints one outcome line
func init() {
	h := os.Getenv(parseChildEnv)
	if h == "" {
		return
	}
	debug.SetMaxStack(48 << 20) // a runaway recursion dies quickly
	fmt.Println(engineParse(string(unhx(h))).line)
	os.Exit(0)
}

// engineParseIsolated parses q in a child process; "died <reason>" when the process was killed.
func engineParseIsolated(q string) parseOut {
	cmd := exec.Command(os.Args[0])
	cmd.Env = append(os.Environ(), parseChildEnv+"="+hxs(q), "GOTRACEBACK=none")
	var stderr strings.Builder
	cmd.Stderr = &stderr
	b, err := cmd.Output()
	if err != nil {
		reason := "exit"
		se := stderr.String()
		switch {
		case strings.Contains(se, "stack overflow") || strings.Contains(se, "goroutine stack exceeds"):
			reason = "stack-overflow"
		case strings.Contains(se, "out of memory"):
			reason = "out-of-memory"
		}
		return parseOut{line: "died " + reason, msg: firstLineOf(se)}
	}
	return parseOut{line: strings.TrimRight(string(b), "\n")}
}

func firstLineOf(s string) string {
	if i := strings.IndexByte(s, '\n'); i >= 0 {
		s = s[:i]
	}
	if len(s) > 120 {
		s = s[:120]
	}
	return s
}

// floatTable lists the ParseFloat values of the FLOAT tokens of q for the model.
func floatTable(q string) string {
	var parts []string
	seen := map[string]bool{}
	safely(func() string {
		for _, t := range kvql.NewLexer(q).Split() {
			if t.Tp == kvql.FLOAT && !seen[t.Data] {
				seen[t.Data] = true
				f, err := strconv.ParseFloat(t.Data, 64)
				if err != nil {
					f = 0
				}
				parts = append(parts, hxs(t.Data)+"="+fmt.Sprint(math.Float64bits(f)))
			}
		}
		return ""
	})
	if len(parts) == 0 {
		return "-"
	}
	return strings.Join(parts, ";")
}

// aliasMayCycle: conservative, token-level: inside the select list some alias name occurs as a
// name token before the `as <name>` that first defines it (a self or forward reference).
func aliasMayCycle(q string) bool {
	risky := false
	safely(func() string {
		toks := kvql.NewLexer(q).Split()
		if len(toks) == 0 || toks[0].Tp != kvql.SELECT {
			return ""
		}
		end := len(toks)
		for i, t := range toks {
			if t.Tp == kvql.WHERE {
				end = i
				break
			}
		}
		firstDef := map[string]int{}
		for i := 1; i+1 < end; i++ {
			if toks[i].Tp == kvql.AS && toks[i+1].Tp == kvql.NAME {
				if _, ok := firstDef[toks[i+1].Data]; !ok {
					firstDef[toks[i+1].Data] = i + 1
				}
			}
		}
		for i := 1; i < end; i++ {
			if toks[i].Tp != kvql.NAME {
				continue
			}
			if d, ok := firstDef[toks[i].Data]; ok && i < d {
				risky = true
			}
		}
		return ""
	})
	return risky
}

// ------------------------------------------------------------------ one correspondence case

type parseCase struct {
	q     string
	label string // generator class, for the histogram
}

// parseCompare sends q to the model, runs the engine (in-process when safe), compares, and
// returns the engine outcome for the property checks.
func parseCompare(col *Collector, d *Driver, c parseCase, seed, idx uint64) (parseOut, string, error) {
	line := "PARSE " + hxs(c.q) + " " + floatTable(c.q)
	model, err := d.Ask(line)
	if err != nil {
		return parseOut{}, "", err
	}
	col.Eval(1)
	mclass := strings.SplitN(model, " ", 2)[0]
	isolated := aliasMayCycle(c.q) || strings.HasPrefix(model, "panic") || strings.HasSuffix(model, " cycle") || model == "fuel"
	var eng parseOut
	if isolated {
		col.Hist("isolated-run")
		eng = engineParseIsolated(c.q)
	} else {
		eng = engineParse(c.q)
	}
	eclass := strings.SplitN(eng.line, " ", 2)[0]
	col.Hist("engine:"+eclass, "class:"+c.label)
	cs := fmt.Sprintf("%q", c.q)
	mk := func(kind, check, class string, props ...string) Finding {
		return Finding{Kind: kind, Group: "PARSE", Check: check, Case: cs, Line: line, Engine: clip(eng.line), Model: clip(model),
			Class: class, Seed: seed, Index: idx, Properties: props, Detail: eng.msg}
	}
	switch {
	case eclass == "panic" || eclass == "died":
		f := mk("crash", "parse-crashes", "", "C06")
		if strings.HasSuffix(model, " cycle") {
			f.Class = "cyclic-alias"
		}
		col.Find(f)
	case mclass == "unsupported":
		col.Hist("model-unsupported")
	case strings.HasSuffix(model, " cycle"):
		// the model is the repaired engine here: a SyntaxError at the alias that closes the cycle
		want := strings.TrimSuffix(model, " cycle") + " syntax"
		if eng.line != want {
			col.Find(mk("property", "cyclic-alias-accepted", "cyclic-alias", "C06", "C05"))
		}
	case eng.line != model:
		col.Find(mk("correspondence", "parse-outcome", ""))
	}
	if eclass == "err" {
		col.Nontrivial("E:" + c.q)
	} else if eclass == "ok" {
		col.Nontrivial("K:" + eng.line)
	}
	return eng, model, nil
}

func clip(s string) string {
	if len(s) > 600 {
		return s[:600] + "…"
	}
	return s
}

// ------------------------------------------------------------------ shapes (trees modulo positions)

// exprShape prints a Go AST without positions; an alias reference prints as the name it replaced.
func exprShape(e kvql.Expression) string {
	var b strings.Builder
	var walk func(e kvql.Expression, depth int)
	walk = func(e kvql.Expression, depth int) {
		if depth > 200 {
			b.WriteString("…")
			return
		}
		switch x := e.(type) {
		case *kvql.BinaryOpExpr:
			fmt.Fprintf(&b, "B%d(", int(x.Op))
			walk(x.Left, depth+1)
			b.WriteString(",")
			walk(x.Right, depth+1)
			b.WriteString(")")
		case *kvql.FieldExpr:
			fmt.Fprintf(&b, "F%d", int(x.Field))
		case *kvql.StringExpr:
			b.WriteString("S:" + hxs(x.Data))
		case *kvql.NotExpr:
			b.WriteString("N(")
			walk(x.Right, depth+1)
			b.WriteString(")")
		case *kvql.FunctionCallExpr:
			b.WriteString("C(")
			walk(x.Name, depth+1)
			b.WriteString(";")
			for i, a := range x.Args {
				if i > 0 {
					b.WriteString(",")
				}
				walk(a, depth+1)
			}
			b.WriteString(")")
		case *kvql.NameExpr:
			b.WriteString("I:" + hxs(x.Data))
		case *kvql.FieldReferenceExpr:
			b.WriteString("I:" + hxs(x.Name.Data))
		case *kvql.NumberExpr:
			b.WriteString("M:" + hxs(x.Data))
		case *kvql.FloatExpr:
			b.WriteString("D:" + hxs(x.Data))
		case *kvql.BoolExpr:
			b.WriteString("T:" + hxs(x.Data))
		case *kvql.ListExpr:
			b.WriteString("L(")
			for i, a := range x.List {
				if i > 0 {
					b.WriteString(",")
				}
				walk(a, depth+1)
			}
			b.WriteString(")")
		case *kvql.FieldAccessExpr:
			b.WriteString("A(")
			walk(x.Left, depth+1)
			b.WriteString(",")
			walk(x.FieldName, depth+1)
			b.WriteString(")")
		default:
			fmt.Fprintf(&b, "?%T", e)
		}
	}
	walk(e, 0)
	return b.String()
}

// hasQuoteLiteral: some string literal or name of the tree contains a quote character (the
// language has no escape syntax, so its printed form cannot be read back)
func hasQuoteLiteral(e kvql.Expression) bool {
	found := false
	seen := map[kvql.Expression]bool{}
	e.Walk(func(x kvql.Expression) bool {
		if seen[x] {
			return false
		}
		seen[x] = true
		switch v := x.(type) {
		case *kvql.StringExpr:
			if strings.ContainsAny(v.Data, "'") {
				found = true
			}
		}
		return !found
	})
	return found
}

// oddName: a name that does not lex back as the same single NAME token when printed bare
// (back-quoted in the source: blanks, operator bytes, keywords, upper case, digits only…)
func oddName(e kvql.Expression) bool {
	found := false
	seen := map[kvql.Expression]bool{}
	e.Walk(func(x kvql.Expression) bool {
		if seen[x] {
			return false
		}
		seen[x] = true
		var data string
		switch v := x.(type) {
		case *kvql.NameExpr:
			data = v.Data
		case *kvql.FieldReferenceExpr:
			// printed back-quoted: fine unless it contains a back-quote (impossible) — but do
			// not descend into the target, it is not printed
			return false
		default:
			return !found
		}
		if strings.ContainsAny(data, "'\"`") {
			found = true
			return false
		}
		toks := kvql.NewLexer(data).Split()
		if len(toks) != 1 || toks[0].Tp != kvql.NAME || toks[0].Data != data {
			found = true
		}
		return !found
	})
	return found
}

// fieldShape parses `select <text> where key = 'a'` and returns the shape of the field: the
// statement (and the field's tree) is returned even when the field fails the type check.
func fieldShape(text string) (string, string) {
	q := "select " + text + " where key = 'a'"
	var shape, fail string
	_, panicked := safely(func() string {
		stmt, err := kvql.NewParser(q).Parse()
		sel, ok := stmt.(*kvql.SelectStmt)
		if !ok || sel == nil {
			fail = "no statement: " + firstLine(err)
			return ""
		}
		if len(sel.Fields) != 1 || sel.AllFields {
			fail = fmt.Sprintf("%d fields", len(sel.Fields))
			return ""
		}
		shape = exprShape(sel.Fields[0])
		return ""
	})
	if panicked {
		fail = "panic"
	}
	return shape, fail
}

// printReparse: C15, second half.  For every expression of an accepted statement, its
// String() parsed again must give the same tree modulo positions.
func printReparse(col *Collector, q string, stmt kvql.Statement, line string, seed, idx uint64) {
	var exprs []kvql.Expression
	switch x := stmt.(type) {
	case *kvql.SelectStmt:
		if x.Where != nil {
			exprs = append(exprs, x.Where.Expr)
		}
		if !x.AllFields {
			exprs = append(exprs, x.Fields...)
		}
	case *kvql.DeleteStmt:
		exprs = append(exprs, x.Where.Expr)
	case *kvql.PutStmt:
		for _, kv := range x.KVPairs {
			exprs = append(exprs, kv.Key, kv.Value)
		}
	case *kvql.RemoveStmt:
		exprs = append(exprs, x.Keys...)
	}
	for _, e := range exprs {
		if hasQuoteLiteral(e) {
			col.Hist("reparse-skipped-quote")
			continue
		}
		if oddName(e) {
			col.Hist("reparse-skipped-odd-name")
			continue
		}
		text := e.String()
		want := exprShape(e)
		got, fail := fieldShape(text)
		col.Hist("reparse")
		if fail != "" || got != want {
			col.Find(Finding{Kind: "property", Group: "PARSE", Check: "print-reparse", Case: fmt.Sprintf("%q prints %q", q, text), Line: line,
				Engine: "re-parsed: " + got + " " + fail, Model: "printed tree: " + want, Seed: seed, Index: idx, Properties: []string{"C15"}})
		}
	}
}

// ------------------------------------------------------------------ the precedence oracle

// The README operator table, written down independently of lexer.go:
//
//	| or  <  & and  <  = != ^= ~= > >= < <= in between  <  + -  <  * /  <  unary !, call, index
//
// all binary operators left associative; parentheses override; words case-insensitive.
var readmePrec = map[string]int{
	"|": 1, "or": 1, "&": 2, "and": 2,
	"=": 3, "!=": 3, "^=": 3, "~=": 3, ">": 3, ">=": 3, "<": 3, "<=": 3, "in": 3, "between": 3,
	"+": 4, "-": 4, "*": 5, "/": 5,
}

var ppBinOps = []string{"|", "or", "&", "and", "=", "!=", "^=", "~=", ">", ">=", "<", "<=", "in", "between", "+", "-", "*", "/"}

// ppNode is a tree of the oracle.
type ppNode struct {
	kind string    // bin | not | call | access | list | leaf
	op   string    // bin: operator (lower case)
	kids []*ppNode // bin: L R (between: L, list(lo,hi)) ; not: X ; call: args ; access: L F ; list: items
	text string    // leaf: source text ; call: function name (lower case)
	shp  string    // leaf: its shape
	typ  string    // bool | str | num | list  (assigned for sequences)
}

func leaf(text, shape string) *ppNode { return &ppNode{kind: "leaf", text: text, shp: shape} }

func (n *ppNode) shape() string {
	switch n.kind {
	case "leaf":
		return n.shp
	case "bin":
		return fmt.Sprintf("B%d(%s,%s)", int(kvql.StringToOperator[n.op]), n.kids[0].shape(), n.kids[1].shape())
	case "not":
		return "N(" + n.kids[0].shape() + ")"
	case "call":
		var a []string
		for _, k := range n.kids {
			a = append(a, k.shape())
		}
		return "C(I:" + hxs(n.text) + ";" + strings.Join(a, ",") + ")"
	case "access":
		return "A(" + n.kids[0].shape() + "," + n.kids[1].shape() + ")"
	case "list":
		var a []string
		for _, k := range n.kids {
			a = append(a, k.shape())
		}
		return "L(" + strings.Join(a, ",") + ")"
	}
	return "?"
}

func (n *ppNode) prec() int {
	if n.kind == "bin" {
		return readmePrec[n.op]
	}
	return 7 // unary, call, index, atoms
}

// seqItem is one element of an operator sequence: operand slots and operators alternate;
// `between` is followed by its own `and` (marked band).
type seqItem struct {
	op   string // "" for an operand slot
	slot int
}

// shuntingYard builds the tree of `s0 op1 s1 op2 s2 …` from the README table alone.
func shuntingYard(ops []string) (*ppNode, []*ppNode) {
	// token stream: slot, op, slot, op, slot…; after `between`: slot band slot
	var out []*ppNode // operand stack
	var opst []string // operator stack ("between" waits for its lower bound, "between2" for the upper)
	var slots []*ppNode
	newSlot := func() *ppNode {
		n := &ppNode{kind: "leaf"}
		slots = append(slots, n)
		return n
	}
	reduce := func() {
		op := opst[len(opst)-1]
		opst = opst[:len(opst)-1]
		if op == "between2" {
			hi, lo, x := out[len(out)-1], out[len(out)-2], out[len(out)-3]
			out = out[:len(out)-3]
			out = append(out, &ppNode{kind: "bin", op: "between", kids: []*ppNode{x, {kind: "list", kids: []*ppNode{lo, hi}}}})
			return
		}
		r, l := out[len(out)-1], out[len(out)-2]
		out = out[:len(out)-2]
		out = append(out, &ppNode{kind: "bin", op: op, kids: []*ppNode{l, r}})
	}
	precOf := func(op string) int {
		if op == "between2" || op == "between" {
			return 3
		}
		return readmePrec[op]
	}
	out = append(out, newSlot())
	for _, op := range ops {
		p := readmePrec[op]
		// left associative: everything on the stack that binds at least as tightly is complete
		for len(opst) > 0 && opst[len(opst)-1] != "between" && precOf(opst[len(opst)-1]) >= p {
			reduce()
		}
		if op == "between" {
			opst = append(opst, "between")
			out = append(out, newSlot()) // lower bound
			// its `and`: the lower bound is a single operand here
			opst[len(opst)-1] = "between2"
			out = append(out, newSlot()) // upper bound
			continue
		}
		opst = append(opst, op)
		out = append(out, newSlot())
	}
	for len(opst) > 0 {
		reduce()
	}
	return out[0], slots
}

// ------------------------------------------------------------------ typing the slots, rendering

type render struct {
	r     *Rand
	style int // 0 none/minimal, 1 random redundant, 2 full
	upper bool
	// tight: no blank around the symbolic operators and after commas, so that the operator bytes
	// stand directly next to brackets, quotes and each other: a[0]>=1, f(x)>=1, (a)>=(b), x&!f(y)
	tight bool
}

// sp: the blank around an operator (word operators always need theirs)
func (rd *render) sp(op string) string {
	if rd.tight && !opWords[op] {
		return ""
	}
	return " "
}

func (rd *render) comma() string {
	if rd.tight {
		return ","
	}
	return ", "
}

func (rd *render) word(s string) string {
	if !rd.upper || !rd.r.Chance(1, 2) {
		return s
	}
	b := []byte(s)
	for i := range b {
		if b[i] >= 'a' && b[i] <= 'z' && rd.r.Bool() {
			b[i] -= 32
		}
	}
	return string(b)
}

var opWords = map[string]bool{"or": true, "and": true, "in": true, "between": true}

func (rd *render) opText(op string) string {
	if opWords[op] {
		return rd.word(op)
	}
	return op
}

// text renders a tree; ctx = the precedence the surroundings require (a child is put in
// parentheses when it binds less tightly than that)
func (rd *render) text(n *ppNode, need int) string {
	var s string
	switch n.kind {
	case "leaf":
		s = n.text
		if rd.upper {
			s = rd.caseLeaf(s)
		}
	case "not":
		k := n.kids[0]
		if rd.style == 2 {
			s = "!(" + rd.text(k, 0) + ")"
		} else {
			s = "!" + rd.text(k, 7)
		}
	case "call":
		var a []string
		for _, k := range n.kids {
			a = append(a, rd.text(k, 0))
		}
		s = rd.word(n.text) + "(" + strings.Join(a, rd.comma()) + ")"
	case "access":
		s = rd.text(n.kids[0], 7) + "[" + rd.text(n.kids[1], 0) + "]"
	case "list":
		var a []string
		for _, k := range n.kids {
			a = append(a, rd.text(k, 0))
		}
		return "(" + strings.Join(a, rd.comma()) + ")" // never wrapped again
	case "bin":
		p := readmePrec[n.op]
		l, r := n.kids[0], n.kids[1]
		if n.op == "between" {
			s = rd.text(l, p) + " " + rd.opText("between") + " " + rd.text(r.kids[0], p+1) + " " + rd.opText("and") + " " + rd.text(r.kids[1], p+1)
		} else if n.op == "in" && r.kind != "list" {
			// the right operand must not start with `(` (that would be a list)
			s = rd.text(l, p) + " " + rd.opText("in") + " " + rd.textNoParen(r)
		} else {
			s = rd.text(l, p) + rd.sp(n.op) + rd.opText(n.op) + rd.sp(n.op) + rd.text(r, p+1)
		}
		if rd.style == 2 || n.prec() < need {
			return "(" + s + ")"
		}
	}
	if n.kind != "bin" && n.prec() < need {
		s = "(" + s + ")"
	}
	if rd.style == 1 && rd.r.Chance(1, 4) {
		s = "(" + s + ")"
		if rd.r.Chance(1, 4) {
			s = "( " + s + " )"
		}
	}
	return s
}

func (rd *render) textNoParen(n *ppNode) string {
	saved := rd.style
	rd.style = 0 // the operand cannot be wrapped, so nothing inside it is either
	s := rd.text(n, 4)
	rd.style = saved
	if strings.HasPrefix(s, "(") {
		// cannot be written: fall back to the bare text (the generator never asks for this)
		return "?" + s
	}
	return s
}

// caseLeaf changes the case of letters outside quotes (keywords, function names are
// case-insensitive; names are lower-cased by the lexer, which the shapes assume)
func (rd *render) caseLeaf(s string) string {
	b := []byte(s)
	var q byte
	for i := range b {
		c := b[i]
		if q != 0 {
			if c == q {
				q = 0
			}
			continue
		}
		if c == '\'' || c == '"' || c == '`' {
			q = c
			continue
		}
		if c >= 'a' && c <= 'z' && rd.r.Chance(1, 6) {
			b[i] = c - 32
		}
	}
	return string(b)
}

// atoms by type: text and shape (shapes use the lower-cased data the lexer produces)
type atom struct{ text, shape string }

func sLit(s string) atom { return atom{"'" + s + "'", "S:" + hxs(s)} }
func nLit(s string) atom { return atom{s, "M:" + hxs(s)} }
func fLit(s string) atom { return atom{s, "D:" + hxs(s)} }
func callA(name string, args ...atom) atom {
	var t, sh []string
	for _, a := range args {
		t = append(t, a.text)
		sh = append(sh, a.shape)
	}
	return atom{name + "(" + strings.Join(t, ", ") + ")", "C(I:" + hxs(name) + ";" + strings.Join(sh, ",") + ")"}
}

var (
	keyA   = atom{"key", "F1"}
	valueA = atom{"value", "F2"}
)

// wideStrs: literals the canonical printer and the lexer must carry byte for byte: `%` (a format
// verb if the literal ever becomes a format string), a backslash (the language has no escapes),
// 2-, 3- and 4-byte UTF-8 sequences, and more than 300 bytes
var longLit = strings.Repeat("abcdefghij", 30) + "k"
var wideStrs = []string{"100%", "%s", "50%%", "%d items", "save 50% now", "%", "a\\b", "\\", "é", "café", "键", "键2", "😅", "x😅y", "naïve", longLit, longLit + "%é"}

func wideAtoms() []atom {
	as := make([]atom, len(wideStrs))
	for i, w := range wideStrs {
		as[i] = sLit(w)
	}
	return as
}

var strAtomsWide = wideAtoms()

func atomsOf(typ string) []atom {
	switch typ {
	case "bool":
		return []atom{callA("is_int", valueA), callA("is_float", keyA), callA("is_int", callA("lower", valueA)),
			{"!is_int(key)", "N(C(I:" + hxs("is_int") + ";F1))"}, {"true", "T:" + hxs("true")}, {"false", "T:" + hxs("false")}}
	case "str":
		return []atom{keyA, valueA, sLit("a"), sLit("k1"), sLit(""), callA("lower", keyA), callA("upper", sLit("x")),
			{"json(value)['a']", "A(C(I:" + hxs("json") + ";F2),S:" + hxs("a") + ")"},
			{"split(key, '_')[1]", "A(C(I:" + hxs("split") + ";F1,S:" + hxs("_") + "),M:" + hxs("1") + ")"},
			{"json(value)['a']['b']", "A(A(C(I:" + hxs("json") + ";F2),S:" + hxs("a") + "),S:" + hxs("b") + ")"},
			sLit("100%"), sLit("%s"), sLit("é"), sLit("键😅"), sLit("a\\b")}
	case "strwide":
		return strAtomsWide
	case "num":
		return []atom{nLit("1"), nLit("2"), nLit("10"), fLit("1.5"), fLit("0.25"), callA("int", valueA), callA("strlen", keyA), callA("float", valueA)}
	case "listcall":
		return []atom{callA("split", keyA, sLit(",")), callA("list", nLit("1"), nLit("2")), callA("int_list", nLit("1"), nLit("2"))}
	}
	return nil
}

func listLit(r *Rand, typ string) *ppNode {
	n := 1 + r.Intn(3)
	l := &ppNode{kind: "list"}
	for i := 0; i < n; i++ {
		var a atom
		if typ == "num" {
			a = pick(r, []atom{nLit("1"), nLit("2"), nLit("7"), fLit("2.5")})
		} else {
			a = pick(r, []atom{sLit("a"), sLit("b"), sLit("k1"), sLit("")})
		}
		l.kids = append(l.kids, leaf(a.text, a.shape))
	}
	return l
}

// assign gives every slot of a sequence tree an operand of a type that makes the whole
// expression type-check where the operators allow it.
func assign(r *Rand, n *ppNode, want string, nextIsArith func(*ppNode) bool) {
	switch n.kind {
	case "leaf":
		if want == "listlit" {
			// replaced by the caller
			return
		}
		if want == "" {
			want = pick(r, []string{"str", "num", "bool"})
		}
		if want == "list" {
			want = "listcall"
		}
		a := pick(r, atomsOf(want))
		if want == "str" && r.Chance(1, 8) {
			a = pick(r, atomsOf("strwide"))
		}
		n.text, n.shp, n.typ = a.text, a.shape, want
	case "list":
		for _, k := range n.kids {
			assign(r, k, want, nextIsArith)
		}
	case "bin":
		l, rr := n.kids[0], n.kids[1]
		switch n.op {
		case "|", "or", "&", "and":
			assign(r, l, "bool", nextIsArith)
			assign(r, rr, "bool", nextIsArith)
		case "^=", "~=":
			assign(r, l, "str", nextIsArith)
			assign(r, rr, "str", nextIsArith)
		case "=", "!=", ">", ">=", "<", "<=":
			t := pick(r, []string{"str", "num"})
			assign(r, l, t, nextIsArith)
			assign(r, rr, t, nextIsArith)
		case "+":
			t := "num"
			if want == "str" {
				t = "str"
			}
			assign(r, l, t, nextIsArith)
			assign(r, rr, t, nextIsArith)
		case "-", "*", "/":
			assign(r, l, "num", nextIsArith)
			assign(r, rr, "num", nextIsArith)
		case "between":
			t := pick(r, []string{"str", "num"})
			assign(r, l, t, nextIsArith)
			assign(r, rr.kids[0], t, nextIsArith)
			assign(r, rr.kids[1], t, nextIsArith)
		case "in":
			t := pick(r, []string{"str", "num"})
			assign(r, l, t, nextIsArith)
			if rr.kind == "leaf" && !nextIsArith(rr) && r.Chance(2, 3) {
				*rr = *listLit(r, t)
			} else {
				assign(r, rr, "list", nextIsArith)
			}
		}
	}
}

// ------------------------------------------------------------------ random trees (b)

type treeGen struct {
	r *Rand
}

func (g *treeGen) leafOf(typ string) *ppNode {
	a := pick(g.r, atomsOf(typ))
	if typ == "str" && g.r.Chance(1, 8) {
		a = pick(g.r, atomsOf("strwide"))
	}
	n := leaf(a.text, a.shape)
	n.typ = typ
	return n
}

func (g *treeGen) bin(op string, l, r *ppNode) *ppNode {
	return &ppNode{kind: "bin", op: op, kids: []*ppNode{l, r}}
}

func (g *treeGen) boolT(d int) *ppNode {
	r := g.r
	if d <= 0 {
		return g.leafOf("bool")
	}
	switch r.Intn(10) {
	case 0, 1:
		return g.bin(pick(r, []string{"&", "and"}), g.boolT(d-1), g.boolT(d-1))
	case 2, 3:
		return g.bin(pick(r, []string{"|", "or"}), g.boolT(d-1), g.boolT(d-1))
	case 4:
		return &ppNode{kind: "not", kids: []*ppNode{g.boolT(d - 1)}}
	case 5:
		op := pick(r, []string{"=", "!=", ">", ">=", "<", "<=", "^=", "~="})
		return g.bin(op, g.strT(d-1), g.strT(d-1))
	case 6:
		op := pick(r, []string{"=", "!=", ">", ">=", "<", "<="})
		return g.bin(op, g.numT(d-1), g.numT(d-1))
	case 7:
		if r.Bool() {
			return g.bin("between", g.strT(d-1), &ppNode{kind: "list", kids: []*ppNode{g.strT(d - 1), g.strT(d - 1)}})
		}
		return g.bin("between", g.numT(d-1), &ppNode{kind: "list", kids: []*ppNode{g.numT(d - 1), g.numT(d - 1)}})
	case 8:
		t := pick(r, []string{"str", "num"})
		var l *ppNode
		items := &ppNode{kind: "list"}
		for i, n := 0, 1+r.Intn(3); i < n; i++ {
			if t == "str" {
				items.kids = append(items.kids, g.strT(d-2))
			} else {
				items.kids = append(items.kids, g.numT(d-2))
			}
		}
		if t == "str" {
			l = g.strT(d - 1)
		} else {
			l = g.numT(d - 1)
		}
		if r.Chance(1, 4) {
			return g.bin("in", l, g.leafOf("listcall"))
		}
		return g.bin("in", l, items)
	default:
		// a comparison of Boolean expressions: = binds tighter than & |
		return g.bin(pick(r, []string{"=", "!="}), g.boolT(d-1), g.boolT(d-1))
	}
}

func (g *treeGen) strT(d int) *ppNode {
	r := g.r
	if d <= 0 || r.Chance(1, 3) {
		return g.leafOf("str")
	}
	switch r.Intn(5) {
	case 0, 1:
		return g.bin("+", g.strT(d-1), g.strT(d-1))
	case 2:
		return &ppNode{kind: "call", text: pick(r, []string{"lower", "upper"}), kids: []*ppNode{g.strT(d - 1)}}
	case 3:
		return &ppNode{kind: "call", text: "str", kids: []*ppNode{g.numT(d - 1)}}
	default:
		return &ppNode{kind: "access", kids: []*ppNode{
			{kind: "call", text: "split", kids: []*ppNode{g.strT(d - 1), leaf("','", "S:"+hxs(","))}},
			leaf("0", "M:"+hxs("0"))}}
	}
}

func (g *treeGen) numT(d int) *ppNode {
	r := g.r
	if d <= 0 || r.Chance(1, 3) {
		return g.leafOf("num")
	}
	switch r.Intn(6) {
	case 0, 1, 2, 3:
		return g.bin(pick(r, []string{"+", "-", "*", "/"}), g.numT(d-1), g.numT(d-1))
	case 4:
		return &ppNode{kind: "call", text: "int", kids: []*ppNode{g.strT(d - 1)}}
	default:
		return &ppNode{kind: "call", text: "strlen", kids: []*ppNode{g.strT(d - 1)}}
	}
}

// ------------------------------------------------------------------ C14 (syntactic half)

func (n *ppNode) clone() *ppNode {
	c := *n
	c.kids = nil
	for _, k := range n.kids {
		c.kids = append(c.kids, k.clone())
	}
	return &c
}

var ppCmpOps = map[string]bool{"=": true, "!=": true, ">": true, ">=": true, "<": true, "<=": true, "^=": true, "~=": true}

// plainlyTyped: the tree stays inside the part of the language whose typing the README fixes
// without doubt: no `!` and no Boolean literal as an operand of a comparison (the grammar
// shows `!` only in front of a whole condition).
func plainlyTyped(n *ppNode) bool {
	if n.kind == "bin" && (ppCmpOps[n.op] || n.op == "between" || n.op == "in") {
		// the engine deliberately refuses a comparison of a keyword field with itself
		l, r := n.kids[0], n.kids[1]
		if l.kind == "leaf" && (l.shp == "F1" || l.shp == "F2") {
			same := r.kind == "leaf" && r.shp == l.shp
			if r.kind == "list" {
				for _, it := range r.kids {
					if it.kind == "leaf" && it.shp == l.shp {
						same = true
					}
				}
			}
			if same {
				return false
			}
		}
	}
	if n.kind == "bin" && ppCmpOps[n.op] {
		for _, k := range n.kids {
			if k.kind == "not" || (k.kind == "leaf" && (strings.HasPrefix(k.shp, "N(") || strings.HasPrefix(k.shp, "T:"))) {
				return false
			}
		}
	}
	for _, k := range n.kids {
		if !plainlyTyped(k) {
			return false
		}
	}
	return true
}

// hasBoolLitOperand: `true` / `false` stands as an operand of & | and or
func hasBoolLitOperand(n *ppNode) bool {
	if n.kind == "bin" && readmePrec[n.op] <= 2 {
		for _, k := range n.kids {
			if k.kind == "leaf" && strings.HasPrefix(k.shp, "T:") {
				return true
			}
		}
	}
	for _, k := range n.kids {
		if hasBoolLitOperand(k) {
			return true
		}
	}
	return false
}

type faultSite struct {
	parent *ppNode
	idx    int
	under  string
}

// faultSites lists the typed leaves that are direct operands of an operator (or items of an
// IN list / BETWEEN bounds), with the kind of the nearest enclosing non-operator construct.
func faultSites(n *ppNode, under string, out *[]faultSite) {
	for i, k := range n.kids {
		u := under
		switch n.kind {
		case "not":
			u = "not"
		case "call":
			u = "call"
		case "access":
			u = "access"
		case "list":
			u = "list"
		}
		operand := n.kind == "bin" || n.kind == "not" || n.kind == "list"
		if n.kind == "bin" && n.op == "in" && n.kids[1].kind != "list" {
			operand = false // element type of a list-valued call is not static
		}
		if operand && k.kind == "leaf" && (k.typ == "str" || k.typ == "num" || k.typ == "bool") {
			*out = append(*out, faultSite{n, i, under})
		}
		faultSites(k, u, out)
	}
}

// c14Check: a well-typed tree must be accepted; the same tree with one operand of the wrong
// type must be rejected, wherever the operand sits.
func c14Check(col *Collector, r *Rand, tree *ppNode, accepted bool, q, line string, seed, idx uint64) {
	if plainlyTyped(tree) {
		col.Hist("c14-well-typed")
		if !accepted {
			class := "other"
			if hasBoolLitOperand(tree) {
				class = "boolean-literal-operand"
			}
			col.Find(Finding{Kind: "property", Group: "PARSE", Check: "well-typed-rejected/" + class, Case: fmt.Sprintf("%q", q), Line: line,
				Engine: "rejected", Model: "well-typed by the README rules", Class: class, Seed: seed, Index: idx, Properties: []string{"C14"}})
		}
	}
	m := tree.clone()
	var sites []faultSite
	faultSites(m, "top", &sites)
	if len(sites) == 0 {
		return
	}
	st := pick(r, sites)
	old := st.parent.kids[st.idx]
	var wrong string
	switch old.typ {
	case "str":
		wrong = "num"
	case "num":
		wrong = "str"
	default:
		wrong = pick(r, []string{"str", "num"})
	}
	// plain literals, so that the fault is the operand's type and nothing else
	var a atom
	if wrong == "num" {
		a = pick(r, []atom{nLit("1"), nLit("7"), fLit("2.5")})
	} else {
		a = pick(r, []atom{sLit("a"), sLit("zz"), keyA})
	}
	st.parent.kids[st.idx] = leaf(a.text, a.shape)
	rd := &render{r: r, style: 2 * r.Intn(2)}
	mq := "select * where " + rd.text(m, 0)
	out := engineParse(mq)
	col.Hist("c14-fault/" + st.under)
	if out.err == nil && out.line != "panic" {
		col.Find(Finding{Kind: "property", Group: "PARSE", Check: "ill-typed-accepted/under-" + st.under, Case: fmt.Sprintf("%q", mq), Line: "PARSE " + hxs(mq) + " " + floatTable(mq),
			Engine: "accepted", Model: fmt.Sprintf("operand %s (%s) replaced by %s under %s", old.text, old.typ, a.text, st.under), Class: "fault-under-" + st.under,
			Seed: seed, Index: idx, Properties: []string{"C14"}})
	}
}

// ------------------------------------------------------------------ the shape differential

// shapeCheck: the engine's tree for `text` must have the shape the oracle predicts.
func shapeCheck(col *Collector, text string, want *ppNode, label, line string, seed, idx uint64) {
	got, fail := fieldShape(text)
	col.Hist("shape:" + label)
	exp := want.shape()
	if fail != "" || got != exp {
		col.Find(Finding{Kind: "property", Group: "PARSE", Check: "precedence-shape", Case: fmt.Sprintf("%q", text), Line: line,
			Engine: got + " " + fail, Model: exp, Seed: seed, Index: idx, Properties: []string{"C15"}})
	}
}

// ------------------------------------------------------------------ the group

func parseProps(col *Collector, c parseCase, eng parseOut, line string, seed, idx uint64) {
	if eng.err != nil {
		// C17 first half (+ rendering, as in ERRPOS)
		errposCheck(col, c.q, eng.err, "plan", seed, idx)
	}
	if eng.err == nil && eng.stmt != nil {
		printReparse(col, c.q, eng.stmt, line, seed, idx)
	}
}

func runPARSE(e *Env) (*Summary, error) {
	start := time.Now()
	maxLen := 3
	if e.Tier == "thorough" {
		maxLen = 4
	}
	// (a) all operator sequences
	var seqs [][]string
	var rec func(cur []string)
	rec = func(cur []string) {
		if len(cur) > 0 {
			seqs = append(seqs, append([]string{}, cur...))
		}
		if len(cur) == maxLen {
			return
		}
		for _, op := range ppBinOps {
			rec(append(cur, op))
		}
	}
	rec(nil)
	nTrees := e.n(6000, 150000)
	nStmts := e.n(6000, 150000)
	nSeq5 := e.n(1200, 40000)   // random sequences of 5 operators (18^5 in all)
	nWide := e.n(1500, 40000)   // statements with wide literals, long words and LIMIT numbers ≥ 2^31
	nQuoted := e.n(2500, 60000) // (e) back-quoted field names that are words of the language, defined and referenced
	rule := fmt.Sprintf("(a) all %d sequences of 1..%d binary operators (and "+fmt.Sprint(nSeq5)+" random sequences of 5) over %v with operands typed so that the expression checks where the operators allow, each as text without parentheses, with random redundant parentheses and fully parenthesised, one in four also without blanks around the symbolic operators, random letter case, as WHERE expression and as select field; one text operand in eight is a literal with %%, a backslash, multi-byte UTF-8 or more than 300 bytes; (d) "+fmt.Sprint(nWide)+" statements (select / put / remove / delete) over such literals, 300-byte words and LIMIT numbers up to 2^63-1 whose parsed Start/Count are also compared with the numbers written (C08); (b) %d random typed expression trees to depth 6 rendered minimally / redundantly / fully; (c) %d statements of the typed generator (select with aliases, order, group, limit; put; remove; delete), each with 3 single-edit corruptions and random leading/trailing blanks. Every case: engine Parse vs model Parse (correspondence); tree shape vs the README-table oracle and print→re-parse (C15); error offsets (C17); panics (C06). Non-trivial: distinct accepted trees and distinct rejected texts",
		len(seqs), maxLen, ppBinOps, nTrees, nStmts)
	col := NewCollector("PARSE", e.Tier, e.Seed, rule)
	col.sum.Exhaustive = true
	total := uint64(len(seqs)) + uint64(nTrees) + uint64(nStmts) + uint64(nSeq5) + uint64(nWide) + uint64(nQuoted)
	col.Note(fmt.Sprintf("(e) %d statements whose select fields are named, between back quotes, like words of the language (keywords, operator words, true/false, inf/nan, upper case, blanks, digits) and referenced by that name in WHERE and in later fields: correspondence, print -> re-parse (C15), error offsets (C17)", nQuoted))
	err := e.parallel(func(w int, d *Driver) error {
		for ix := uint64(w); ix < total; ix += uint64(e.Workers) {
			r := NewRand(e.Seed, "PARSE", ix)
			switch {
			case ix < uint64(len(seqs)):
				if err := parseSeqCase(col, d, r, seqs[ix], e.Seed, ix); err != nil {
					return err
				}
			case ix < uint64(len(seqs)+nTrees):
				if err := parseTreeCase(col, d, r, e.Seed, ix); err != nil {
					return err
				}
			case ix < uint64(len(seqs)+nTrees+nStmts):
				if err := parseStmtCase(col, d, r, e.Seed, ix); err != nil {
					return err
				}
			case ix < uint64(len(seqs)+nTrees+nStmts+nSeq5):
				ops := make([]string, 5)
				for i := range ops {
					ops[i] = pick(r, ppBinOps)
				}
				if err := parseSeqCase(col, d, r, ops, e.Seed, ix); err != nil {
					return err
				}
			case ix < uint64(len(seqs)+nTrees+nStmts+nSeq5+nWide):
				if err := parseWideCase(col, d, r, e.Seed, ix); err != nil {
					return err
				}
			default:
				if err := parseQuotedNameCase(col, d, r, e.Seed, ix); err != nil {
					return err
				}
			}
		}
		return nil
	})
	if err != nil {
		return nil, err
	}
	return col.Finish(start), nil
}

func parseSeqCase(col *Collector, d *Driver, r *Rand, ops []string, seed, idx uint64) error {
	tree, slots := shuntingYard(ops)
	// which slot is directly followed by an arithmetic operator (a list literal cannot stand there)
	follow := map[*ppNode]bool{}
	si := 0
	for i, op := range ops {
		si++
		if op == "between" {
			si++
		}
		if i+1 < len(ops) && readmePrec[ops[i+1]] >= 4 {
			follow[slots[si]] = true
		}
	}
	assign(r, tree, "bool", func(n *ppNode) bool { return follow[n] })
	nStyles := 3
	if idx%4 == 0 {
		nStyles = 6 // the three renditions again without blanks around the symbolic operators
	}
	for st := 0; st < nStyles; st++ {
		style := st % 3
		rd := &render{r: r, style: style, upper: r.Bool(), tight: st >= 3}
		text := rd.text(tree, 0)
		if style == 0 {
			// the raw sequence: no parentheses at all
			text = rawSequence(rd, ops, slots)
		}
		label := fmt.Sprintf("seq%d/style%d", len(ops), style)
		if rd.tight {
			label += "/tight"
		}
		for _, q := range []string{"select * where " + text, rd.word("where") + " " + text} {
			eng, _, err := parseCompare(col, d, parseCase{q, label}, seed, idx)
			if err != nil {
				return err
			}
			parseProps(col, parseCase{q, label}, eng, "PARSE "+hxs(q)+" "+floatTable(q), seed, idx)
			if style != 1 {
				break
			}
		}
		qf := "select " + text + " where key = 'a'"
		if _, _, err := parseCompare(col, d, parseCase{qf, label + "/field"}, seed, idx); err != nil {
			return err
		}
		shapeCheck(col, text, tree, label, "PARSE "+hxs(qf)+" "+floatTable(qf), seed, idx)
		if idx%1499 == 0 && style == 0 {
			col.Sample(text)
		}
		// the same text with the numeric operand written as an alias name that ends in `e`
		// (`size-1`, `rate*2`): a name directly before a sign and a digit is still a name
		// (seeded change R5-C15-2: an exponent rule in the lexer that never looks at the mantissa)
		if strings.Contains(text, "int(value)") {
			for ai, alias := range []string{"size", "ratE"} {
				qa := "select int(value) as " + alias + " where " + strings.ReplaceAll(text, "int(value)", alias)
				if ai == 1 {
					qa = "select " + strings.ReplaceAll(text, "int(value)", alias) + ", int(value) as " + alias + " where key = 'a'"
				}
				la := label + "/alias-name"
				eng, _, err := parseCompare(col, d, parseCase{qa, la}, seed, idx)
				if err != nil {
					return err
				}
				parseProps(col, parseCase{qa, la}, eng, "PARSE "+hxs(qa)+" "+floatTable(qa), seed, idx)
			}
		}
	}
	return nil
}

// rawSequence writes the slots and operators one after the other
func rawSequence(rd *render, ops []string, slots []*ppNode) string {
	var b strings.Builder
	si := 0
	b.WriteString(rd.slotText(slots[0]))
	for _, op := range ops {
		b.WriteString(rd.sp(op) + rd.opText(op) + rd.sp(op))
		si++
		b.WriteString(rd.slotText(slots[si]))
		if op == "between" {
			b.WriteString(" " + rd.opText("and") + " ")
			si++
			b.WriteString(rd.slotText(slots[si]))
		}
	}
	return b.String()
}

func (rd *render) slotText(n *ppNode) string {
	saved := rd.style
	rd.style = 0
	defer func() { rd.style = saved }()
	return rd.text(n, 0)
}

func parseTreeCase(col *Collector, d *Driver, r *Rand, seed, idx uint64) error {
	g := &treeGen{r: r}
	tree := g.boolT(1 + r.Intn(6))
	tightAll := r.Chance(1, 4)
	for style := 0; style < 3; style++ {
		rd := &render{r: r, style: style, upper: r.Chance(1, 3), tight: tightAll}
		text := rd.text(tree, 0)
		label := fmt.Sprintf("tree/style%d", style)
		if tightAll {
			label += "/tight"
		}
		q := "select * where " + text
		if tightAll && style == 1 {
			q += ";" // the statement separator directly behind a bracket, quote or word
		}
		eng, _, err := parseCompare(col, d, parseCase{q, label}, seed, idx)
		if err != nil {
			return err
		}
		line := "PARSE " + hxs(q) + " " + floatTable(q)
		parseProps(col, parseCase{q, label}, eng, line, seed, idx)
		shapeCheck(col, text, tree, label, line, seed, idx)
		if style == 0 {
			c14Check(col, r, tree, eng.err == nil && eng.stmt != nil, q, line, seed, idx)
		}
		if idx%1499 == 0 && style == 0 {
			col.Sample(q)
		}
	}
	return nil
}

func parseStmtCase(col *Collector, d *Driver, r *Rand, seed, idx uint64) error {
	o := defaultOpts()
	o.UpperCase = true
	o.Json = r.Bool()
	g := NewGen(r, o)
	q := genStatement(g)
	if r.Chance(1, 6) && strings.Contains(q, " where ") {
		// group by an alias or a field
		if len(g.aliases) > 0 && r.Bool() {
			q += " group by " + pick(r, g.aliases).name
		} else {
			q += " group by " + pick(r, []string{"key", "value", "upper(key)"})
		}
	}
	variants := []parseCase{{q, "stmt"}}
	for k := 0; k < 3; k++ {
		variants = append(variants, parseCase{mutate(r, q), "stmt-mutant"})
	}
	if r.Chance(1, 8) {
		variants = append(variants, parseCase{pick(r, parseCorner), "corner"})
	}
	for _, c := range variants {
		if r.Chance(1, 3) {
			c.q = strings.Repeat(pick(r, []string{" ", "\t", "\n"}), r.Intn(4)) + c.q + strings.Repeat(pick(r, []string{" ", ";", " ;"}), r.Intn(3))
		}
		eng, _, err := parseCompare(col, d, c, seed, idx)
		if err != nil {
			return err
		}
		parseProps(col, c, eng, "PARSE "+hxs(c.q)+" "+floatTable(c.q), seed, idx)
		if idx%1499 == 0 {
			col.Sample(c.q)
		}
	}
	return nil
}

// parseWideCase: statements whose literals, words and numbers leave the small pools: literals with
// `%`, a backslash, multi-byte UTF-8, more than 300 bytes; names of more than 300 bytes; LIMIT
// numbers ≥ 2^31, ≥ 2^32 and up to 2^63-1.  Correspondence, print → re-parse (C15), error offsets
// (C17), and for LIMIT the parsed Start/Count against the numbers written (C08: `limit s, n`
// selects rows s … s+n-1, so the statement must carry s and n).
func parseWideCase(col *Collector, d *Driver, r *Rand, seed, idx uint64) error {
	lit := func() string { return "'" + pick(r, wideStrs) + "'" }
	limNums := []uint64{0, 1, 5, 2147483647, 2147483648, 2147483653, 4294967295, 4294967296, 4294967297, 4294967301, 9223372036854775807}
	longWord := strings.Repeat("w", 300+r.Intn(8)) + pick(r, []string{"", "1", "_x"})
	hasLimit, lstart, lcount := false, uint64(0), uint64(0)
	limit := func() string {
		hasLimit = true
		lcount = pick(r, limNums)
		if r.Bool() {
			lstart = pick(r, limNums)
			return fmt.Sprintf(" limit %d, %d", lstart, lcount)
		}
		return fmt.Sprintf(" limit %d", lcount)
	}
	var q string
	switch r.Intn(12) {
	case 0:
		q = "select * where key = " + lit()
	case 1:
		q = "select key, " + lit() + " as x where value ^= " + lit() + " & key in (" + lit() + ", " + lit() + ")"
	case 2:
		q = "put (" + lit() + ", " + lit() + ")"
		if r.Bool() {
			q += ", (" + lit() + ", upper(" + lit() + "))"
		}
	case 3:
		q = "remove " + lit() + ", " + lit()
	case 4:
		q = "delete where key between " + lit() + " and " + lit()
		if r.Bool() {
			q += limit()
		}
	case 5:
		q = "select lower(" + lit() + ") + value, split(value, " + lit() + ")[0] where value ~= " + lit() + " | " + lit() + " < key"
	case 6:
		q = "select key as " + longWord + " where " + longWord + " = " + lit()
	case 7:
		q = "select " + longWord + "(key) where key = 'a'"
	case 8:
		q = "select * where key ^= 'k'" + limit()
	case 9:
		q = "select key, int(value) as n where key ^= 'k' order by n" + pick(r, []string{"", " desc"}) + limit()
	case 10:
		q = "select key, count(1) where key ^= 'k' group by key" + limit()
	default:
		q = "delete where value = " + lit() + limit()
	}
	if r.Chance(1, 6) {
		q += pick(r, []string{";", " ;", "  "})
	}
	c := parseCase{q, "wide"}
	eng, _, err := parseCompare(col, d, c, seed, idx)
	if err != nil {
		return err
	}
	line := "PARSE " + hxs(q) + " " + floatTable(q)
	parseProps(col, c, eng, line, seed, idx)
	if hasLimit {
		col.Hist("wide-limit")
		var l *kvql.LimitStmt
		switch x := eng.stmt.(type) {
		case *kvql.SelectStmt:
			l = x.Limit
		case *kvql.DeleteStmt:
			l = x.Limit
		}
		got := "no LIMIT in the statement: " + eng.line
		if eng.err == nil && l != nil {
			got = fmt.Sprintf("start=%d count=%d", l.Start, l.Count)
		}
		want := fmt.Sprintf("start=%d count=%d", lstart, lcount)
		if got != want {
			col.Find(Finding{Kind: "property", Group: "PARSE", Check: "limit-numbers", Case: fmt.Sprintf("%q", q), Line: line,
				Engine: clip(got), Model: want + " (the numbers written)", Seed: seed, Index: idx, Properties: []string{"C08"}})
		}
	}
	if idx%499 == 0 {
		col.Sample(clip(q))
	}
	return nil
}

// quotedNames: field names that can only be written between back quotes, because bare they are
// something else: keywords and operator words of the language, Boolean and float words, names with
// upper case letters (bare words are lower-cased), blanks (one, and runs of them), operator bytes,
// a leading digit; and two ordinary names as controls
var quotedNames = []string{
	"key", "value", "limit", "order", "group", "by", "as", "in", "between", "and", "or", "true", "false", "select", "where", "put", "remove",
	"delete", "asc", "desc", "inf", "infinity", "nan", "+inf", "-inf", "KEY", "Value", "Limit", "a b", "a  b", " a", "a\tb", "x-y", "a+b", "k=1", "1", "1x", "1.5", "1e3", "é",
	"(", "a,b", "*", "uk", "n1",
}

// genQuotedNameStmt: `select E1 as `N1`, E2 as `N2` [, E3(N1|N2) as `N3`] where P(N1, N2, N3)`
func genQuotedNameStmt(r *Rand) string {
	head, where, tail := genQuotedNameParts(r)
	return head + where + tail
}

// genQuotedNameParts: the statement in three pieces: up to and including `where `, the WHERE text, the rest
func genQuotedNameParts(r *Rand) (string, string, string) {
	bq := func(n string) string { return "`" + n + "`" }
	names := map[string]bool{}
	fresh := func() string {
		for {
			n := pick(r, quotedNames)
			if !names[n] {
				names[n] = true
				return n
			}
		}
	}
	ns, nn := fresh(), fresh() // a text field and a number field
	fields := []string{
		pick(r, []string{"upper(key)", "key", "value", "lower(value)", "key + value", "substr(key, 0, 1)"}) + " as " + bq(ns),
		pick(r, []string{"int(value)", "strlen(key)", "int(value) + 1", "strlen(value) * 2"}) + " as " + bq(nn),
	}
	strRefs, numRefs := []string{bq(ns)}, []string{bq(nn)}
	if r.Chance(1, 2) {
		// a later field defined through an earlier one
		n3 := fresh()
		if r.Bool() {
			fields = append(fields, pick(r, []string{bq(ns) + " + '-x'", "upper(" + bq(ns) + ")", "lower(" + bq(ns) + ") + key"})+" as "+bq(n3))
			strRefs = append(strRefs, bq(n3))
		} else {
			fields = append(fields, pick(r, []string{bq(nn) + " + 1", bq(nn) + " * 2", "strlen(" + bq(ns) + ")"})+" as "+bq(n3))
			numRefs = append(numRefs, bq(n3))
		}
	}
	if r.Chance(1, 3) {
		fields = append(fields, pick(r, []string{"key", "value", "key as uk"}))
	}
	if r.Chance(1, 5) {
		fields[0], fields[1] = fields[1], fields[0]
	}
	atom := func() string {
		s, n := pick(r, strRefs), pick(r, numRefs)
		switch r.Intn(12) {
		case 0:
			return s + " = " + pick(r, []string{"'K1'", "'a'", "key"})
		case 1:
			return s + " ^= 'k'"
		case 2:
			return n + " " + pick(r, []string{">", "<=", "=", "!="}) + " " + pick(r, []string{"1", "2", "10"})
		case 3:
			return "!(" + n + " between 2 and 6)"
		case 4:
			return n + " in (5, 9)"
		case 5:
			return s + " in ('a', 'K1', 'x')"
		case 6:
			return "upper(" + s + ") != 'A'"
		case 7:
			return s + " + 'x' = 'ax'"
		case 8:
			return n + " + 1 > strlen(" + s + ")"
		case 9:
			return s + " between 'a' and 'z'"
		case 10:
			return s + " ~= '^k'"
		default:
			return "key ^= 'k'"
		}
	}
	where := atom()
	for i := r.Intn(3); i > 0; i-- {
		where += pick(r, []string{" & ", " | ", " and ", " or "}) + atom()
	}
	head, tail := "select "+strings.Join(fields, ", ")+" where ", ""
	switch r.Intn(6) {
	case 0:
		tail = " order by " + pick(r, append(append([]string{}, strRefs...), numRefs...)) + pick(r, []string{"", " desc"})
	case 1:
		tail = " limit 3"
	}
	return head, where, tail
}

// parseQuotedNameCase: (e) the print -> re-parse half of C15 for field references whose name is a
// word of the language: the printed form of a reference must read back as the same reference
func parseQuotedNameCase(col *Collector, d *Driver, r *Rand, seed, idx uint64) error {
	q := genQuotedNameStmt(r)
	c := parseCase{q, "quoted-name"}
	eng, _, err := parseCompare(col, d, c, seed, idx)
	if err != nil {
		return err
	}
	if eng.err == nil && eng.stmt != nil {
		col.Hist("quoted-name:accepted")
	} else {
		col.Hist("quoted-name:rejected")
	}
	parseProps(col, c, eng, "PARSE "+hxs(q)+" "+floatTable(q), seed, idx)
	if idx%499 == 0 {
		col.Sample(q)
	}
	return nil
}

// hand-picked corners of the grammar that the typed generator does not produce
var parseCorner = []string{
	"", ";", ";;", "select", "select *", "select * where", "where", "put", "remove", "delete", "delete where", "limit 1",
	"select key where key = 'a' limit", "select key where key = 'a' limit 1,", "select key where key = 'a' limit 1, 2, 3", "select key where key = 'a' limit ,",
	"select key where key = 'a' order by", "select key where key = 'a' order by key,", "select key where key = 'a' order by key asc, value desc",
	"select key where key = 'a' order by key order by key", "select key where key = 'a' group by", "select key, count(1) where key = 'a' group by key limit 1 limit 2",
	"select count(1), key where key ^= 'k' group by key", "select count(count(1)) where key = 'a'", "select sum(int(value)) + count(1) where key = 'a' group by key",
	"select * , key where key = 'a'", "select key, * where key = 'a'", "select key as where key = 'a'", "select key as 1 where key = 'a'", "select key as k v where k = 'a'",
	"select key k where key = 'a'", "select `KEY` where `KEY` = 'a'", "select * where `KEY` = 'a'", "select * where `VALUE` ^= 'a' & `KEY` = 'b'",
	"select key where key in ('a' 'b' 'c')", "select key where key in ()", "select key where key in ('a',)", "select key where key in 'a'", "select key where key in key",
	"select key where key between 'a' = 'b'", "select key where key between 'a' and", "select key where key between and 'b'", "select key where key between 'a' 'b'",
	"select key where json(value)['a' 'b'] = 'x'", "select key where json(value)[] = 'x'", "select key where json(value)['a', 'b'] = 'x'", "select key where json(value)[1]['x'] = 'x'",
	"select key where f(key 'a')", "select key where is_int(key,)", "select key where is_int(,key)", "select key where is_int()", "select key where is_int(key", "select key where (key = 'a'",
	"select key where key = 'a')", "select key where !", "select key where !!is_int(key)", "select key where !key = 'a'", "select key where ! (key = 'a') & true",
	"select key where key = 'a' & true", "select key where true", "select key where 1", "select key where key", "select key where 'a' = 'a'", "select key where 1 / 0 = 1", "select key where 1 / 0.0 = 1",
	"select key where 1 = 1.0", "select key where key > 1", "select key where key ^= 1", "select key where !(key ^= 1)", "select key where key in (1 + 'a')", "select key where lower(1 + 'a') = 'x'",
	"select key where json(1 + 'a')['x'] = 'y'", "select key where key between 1 + 'a' and 'b'", "select int(value) as n, n + 1 as m where m > 2", "select n + 1 as m, int(value) as n where m > 2",
	"select k2 + 1 as j, x + 'b' as k2, 'c' as x, j + 2 as m where key = 'a'", "select 'a' as x, x + 'b' as y where y = 'ab'", "select upper(u) as u where key = 'a'", "select u + 1 as u where key = 'a'",
	"select 1 + u as u where key = 'a'", "select 1 + b as a, 1 + a as b where key = 'a'", "select key as k, k as k where k = 'a'", "select upper(key) as u where u = 'A' group by u",
	"select key, count(1) as c where key ^= 'k' group by key order by c desc limit 2", "select upper(key) where key = 'a' group by upper(key)", "select upper(key) where key = 'a' group by lower(key)",
	"select key where key = 'a' group by count(1)", "select count(1) where key = 'a' group by count(1)", "select key where key = 'a' group by 'x'(1)", "select 'x'(1) where key = 'a' group by 'x'(1)",
	"put ('a', 'b')", "put ('a', 'b'),", "put ('a', 'b') ('c', 'd')", "put ('a')", "put ('a', 'b', 'c')", "put (key, 'b')", "put ('a', value)", "put ('a', true)", "put (1, 2)", "put ('a' 'b')",
	"remove 'a'", "remove 'a',", "remove 'a' 'b'", "remove key", "remove 1, 2.5", "remove true", "remove upper('a') + 'b'",
	"delete where key = 'a' limit 1", "delete where key = 'a' limit 1 limit 2", "delete where key = 'a' order by key", "delete where key", "delete where 'a'", "delete key = 'a'", "delete where key = 'a' limit 1, 2 3",
	"where key = 'a'; ;", "where key = 'a' ; select", "select key where key = 'a' limit 9223372036854775808", "select key where key = 99999999999999999999", "select key where int(key) = 0x10", "select key where float(key) = 1e400",
	"select key where float(key) = inf", "select key where key = 'a' limit 1e3", "where key ^= 'a' and value ~= '^v' or key in ('x') and key between 'a' and 'b'", "where KEY = 'a' AND Value = 'b' OR kEy IN ('c')",
	"where (upper)(key) = 'A'", "where upper(key)(1) = 'A'", "where (key + 'a')(1) = 'A'", "where key[0] = 'a'", "where 'abc'[0] = 'a'", "where list(1,2)[0] = 1", "where list(1,2)['a'] = 1",
}

func init() {
	groups["PARSE"] = runPARSE
	sort.Strings(parseCorner)
}
