package main

import (
	"fmt"
	"sort"
	"strings"
	"time"

	"github.com/c4pt0r/kvql"
)

// Group SLIMIT (property C08 at statement level): `Q limit s, n` must return exactly rows
// s..s+n-1 of what `Q` returns, for plain, ordered and aggregated SELECT, and DELETE … LIMIT
// must remove exactly the keys that the sliced select returns.  Engine-only metamorphic oracle:
// it sees plan building (limit push-down, order elision, delete/remove shortcut) which the LIMIT
// group with stub children cannot.

func slimitStore(size int) []KV {
	kvs := make([]KV, size)
	for i := 0; i < size; i++ {
		// keys k00.., values: distinct integers in a scrambled order
		kvs[i] = KV{fmt.Sprintf("k%02d", i), fmt.Sprint((i*7 + 3) % 23)}
	}
	return kvs
}

var slimitQueries = []struct{ kind, q string }{
	{"plain", "select * where key ^= 'k'"},
	{"plain", "select key, value where key >= 'k00' & int(value) >= 0"},
	{"plain-filter", "select key where int(value) != 5"},
	{"ordered", "select * where key ^= 'k' order by key desc"},
	{"ordered", "select key, int(value) as n where key ^= 'k' order by n"},
	{"ordered", "select key, int(value) as n where key ^= 'k' order by n desc"},
	{"ordered-keyasc", "select * where key ^= 'k' order by key asc"},
	{"aggregated", "select substr(key, 0, 2) as p, count(1) as c where key ^= 'k' group by p"},
	{"aggregated", "select key, sum(int(value)) as s where key ^= 'k' group by key"},
	{"aggregated-ordered", "select key, sum(int(value)) as s where key ^= 'k' group by key order by s desc"},
	{"aggregated-all", "select count(1), max(int(value)) where key ^= 'k'"},
	{"mget", "select * where key in ('k03', 'k01', 'k02', 'k00', 'k05')"},
}

func rowsList(res *RunResult) []string {
	out := make([]string, len(res.Rows))
	for i, r := range res.Rows {
		c := make([]string, len(r))
		for j, v := range r {
			c[j] = contentValue(v)
		}
		out[i] = strings.Join(c, " ")
	}
	return out
}

func runSLIMIT(e *Env) (*Summary, error) {
	start := time.Now()
	bss := []int{1, 2, 3}
	maxSize := 8
	if e.Tier == "thorough" {
		bss = []int{1, 2, 3, 5}
		maxSize = 17
	}
	rule := fmt.Sprintf("grid: batch size ∈ %v × store size 0..%d × offset 0..2bs+1 × count 0..2bs+1 × {limit s,n; limit n} × %d statement shapes (plain, filtered, ordered by key/number asc/desc, `order by key asc`, aggregated with GROUP BY, aggregated+ordered, aggregate-all, point reads) × {row, batch}, and DELETE … LIMIT on the same predicates; non-trivial when 0 < offset < unlimited result size; distinct by (statement, s, n, size, bs, mode)", bss, maxSize, len(slimitQueries))
	col := NewCollector("SLIMIT", e.Tier, e.Seed, rule)
	col.sum.Exhaustive = true
	saved := kvql.PlanBatchSize
	defer func() { kvql.PlanBatchSize = saved }()
	// limits beyond 2^31 / 2^32: offsets and counts are Go ints
	type limCase struct {
		txt  string
		s, n int
	}
	// numbers written with leading zeros are decimal (`limit 010` = 10 rows), on a store large enough to tell 8 from 10
	zeroLims := []limCase{{" limit 010", 0, 10}, {" limit 009", 0, 9}, {" limit 003, 011", 3, 11}, {" limit 08, 2", 8, 2}, {" limit 010, 010", 10, 10}, {" limit 00, 0012", 0, 12}}
	for round, lims := range [][]limCase{nil, zeroLims} {
		kvql.PlanBatchSize = 3
		size := []int{7, 13}[round]
		kvs := slimitStore(size)
		if lims == nil {
			lims = []limCase{{" limit 4294967296, 5", 4294967296, 5}, {" limit 0, 4294967296", 0, 4294967296}, {" limit 4294967296", 0, 4294967296}, {" limit 2147483648", 0, 2147483648},
				{" limit 2, 2147483649", 2, 2147483649}, {" limit 2147483648, 1", 2147483648, 1}, {" limit 1, 4294967297", 1, 4294967297},
				// "everything from row s on": offset + count passes the largest int
				{" limit 1, 9223372036854775807", 1, 9223372036854775807}, {" limit 3, 9223372036854775805", 3, 9223372036854775805}, {" limit 9223372036854775807, 1", 9223372036854775807, 1},
				{" limit 9223372036854775806, 9223372036854775807", 9223372036854775806, 9223372036854775807}, {" limit 2, 9223372036854775806", 2, 9223372036854775806}, {" limit 0, 9223372036854775807", 0, 9223372036854775807}}
		}
		for _, lim := range lims {
			for _, sq := range slimitQueries {
				for _, batch := range []bool{false, true} {
					base := runStatement(sq.q, NewRefStore(kvs), batch, true)
					got := runStatement(sq.q+lim.txt, NewRefStore(kvs), batch, true)
					col.Eval(1)
					if base.Outcome() != "ok" {
						continue
					}
					all := rowsList(base)
					lo := min(lim.s, len(all))
					hi := len(all)
					if lim.n < len(all)-lo {
						hi = lo + lim.n
					}
					want := strings.Join(all[lo:hi], " ; ")
					have := got.Outcome()
					if have == "ok" {
						have = strings.Join(rowsList(got), " ; ")
					}
					if have != want {
						col.Find(Finding{Kind: "property", Group: "SLIMIT", Check: "limit-is-slice-huge-" + sq.kind, Case: fmt.Sprintf("%s%s  [store size %d, batch size 3, batch=%v]", sq.q, lim.txt, size, batch),
							Line: "SLIMIT " + hxs(sq.q+lim.txt), Engine: have, Model: want, Seed: e.Seed, Index: 0, Properties: slimitProps(have)})
					}
				}
			}
			st := NewRefStore(kvs)
			del := runStatement("delete where key ^= 'k'"+lim.txt, st, true, true)
			left := len(st.Pairs())
			wantLeft := size - max(0, min(lim.n, size-min(lim.s, size)))
			col.Eval(1)
			if del.Outcome() != "ok" || left != wantLeft {
				col.Find(Finding{Kind: "property", Group: "SLIMIT", Check: "delete-limit-huge", Case: "delete where key ^= 'k'" + lim.txt + fmt.Sprintf("  [store size %d]", size),
					Line: "SLIMIT " + hxs("delete where key ^= 'k'"+lim.txt), Engine: fmt.Sprintf("%s, %d pairs left", del.Outcome(), left), Model: fmt.Sprintf("%d pairs left", wantLeft), Seed: e.Seed, Properties: []string{"C08", "C11"}})
			}
		}
	}
	for _, bs := range bss {
		kvql.PlanBatchSize = bs
		type job struct {
			size, s, n int
			short      bool
		}
		var jobs []job
		for size := 0; size <= min(maxSize, 3*bs+2); size++ {
			for s := 0; s <= 2*bs+1; s++ {
				for n := 0; n <= 2*bs+1; n++ {
					jobs = append(jobs, job{size, s, n, false})
				}
			}
			for n := 0; n <= 2*bs+1; n++ {
				jobs = append(jobs, job{size, 0, n, true})
			}
		}
		err := e.parallel(func(w int, d *Driver) error {
			for ji := w; ji < len(jobs); ji += e.Workers {
				j := jobs[ji]
				kvs := slimitStore(j.size)
				lim := fmt.Sprintf(" limit %d, %d", j.s, j.n)
				if j.short {
					lim = fmt.Sprintf(" limit %d", j.n)
				}
				for _, sq := range slimitQueries {
					for _, batch := range []bool{false, true} {
						base := runStatement(sq.q, NewRefStore(kvs), batch, true)
						got := runStatement(sq.q+lim, NewRefStore(kvs), batch, true)
						col.Eval(1)
						if base.Outcome() != "ok" {
							col.Hist("base-" + base.Outcome())
							continue
						}
						all := rowsList(base)
						lo := min(j.s, len(all))
						hi := min(j.s+j.n, len(all))
						want := strings.Join(all[lo:hi], " ; ")
						have := got.Outcome()
						if have == "ok" {
							have = strings.Join(rowsList(got), " ; ")
						}
						if j.s > 0 && j.s < len(all) {
							col.Nontrivial(fmt.Sprintf("%s|%d|%d|%d|%d|%v", sq.q, j.s, j.n, j.size, bs, batch))
						}
						col.Hist("kind:" + sq.kind)
						if have != want {
							col.Find(Finding{Kind: "property", Group: "SLIMIT", Check: "limit-is-slice-" + sq.kind,
								Case: fmt.Sprintf("%s%s  [store size %d, batch size %d, batch=%v]", sq.q, lim, j.size, bs, batch),
								Line: "SLIMIT " + hxs(sq.q+lim), Engine: have, Model: want, Seed: e.Seed, Index: uint64(ji), Properties: slimitProps(have)})
						}
					}
				}
				// DELETE … LIMIT: keys removed = keys of the sliced select
				for _, pred := range []string{"key ^= 'k'", "int(value) != 5", "key in ('k03', 'k01', 'k02', 'k00', 'k05')", "key >= 'k01' & key <= 'k06'", "key = 'k02' | key = 'k04'"} {
					for _, batch := range []bool{false, true} {
						sel := runStatement("select * where "+pred, NewRefStore(kvs), batch, true)
						if sel.Outcome() != "ok" {
							continue
						}
						var keys []string
						for _, r := range sel.Rows {
							keys = append(keys, string(r[0].([]byte)))
						}
						lo := min(j.s, len(keys))
						hi := min(j.s+j.n, len(keys))
						gone := map[string]bool{}
						for _, k := range keys[lo:hi] {
							gone[k] = true
						}
						var want []string
						for _, kv := range kvs {
							if !gone[kv.K] {
								want = append(want, kv.K)
							}
						}
						st := NewRefStore(kvs)
						del := runStatement("delete where "+pred+lim, st, batch, true)
						col.Eval(1)
						col.Hist("kind:delete")
						var have []string
						for _, kv := range st.Pairs() {
							have = append(have, kv.K)
						}
						sort.Strings(have)
						if del.Outcome() != "ok" || strings.Join(have, ",") != strings.Join(want, ",") {
							col.Find(Finding{Kind: "property", Group: "SLIMIT", Check: "delete-limit-removes-slice",
								Case: fmt.Sprintf("delete where %s%s  [store size %d, batch size %d, batch=%v]", pred, lim, j.size, bs, batch),
								Line: "SLIMIT " + hxs("delete where "+pred+lim), Engine: del.Outcome() + " remaining=" + strings.Join(have, ","), Model: "remaining=" + strings.Join(want, ","),
								Seed: e.Seed, Index: uint64(ji), Properties: []string{"C08", "C11"}})
						}
					}
				}
				if ji%301 == 7 {
					col.Sample(fmt.Sprintf("%s%s on %d pairs at batch size %d", slimitQueries[ji%len(slimitQueries)].q, lim, j.size, bs))
				}
			}
			return nil
		})
		if err != nil {
			return nil, err
		}
	}
	return col.Finish(start), nil
}

func init() { groups["SLIMIT"] = runSLIMIT }

// slimitProps: a wrong slice violates C08; a panic (or a statement that does not terminate) also C06
func slimitProps(have string) []string {
	if have == "panic" {
		return []string{"C08", "C06"}
	}
	return []string{"C08"}
}
