package main

import (
	"errors"
	"fmt"
	"strings"
	"time"

	"github.com/c4pt0r/kvql"
)

// Group FAULTQ (property C13, engine-only oracle): statements of EVERY shape (projection,
// aliases, ORDER BY, GROUP BY, LIMIT with offsets, point/prefix/range/full scans, put, remove,
// delete with and without limit) are run fault-free to learn the length n of their storage-call
// sequence and then once per call index i < n with a single injected error at call i.  The
// statement must return that very error (errors.Is), issue no storage call after it, and a
// SELECT must never issue a mutating call.

var faultqStatements = []string{
	"select * where key ^= 'k'",
	"select key, upper(value) as u where key >= 'k01' & u != 'X'",
	"select * where key >= 'k01' & key <= 'k05' limit 2, 3",
	"select * where key ^= 'k' limit 4, 2",
	"select * where key ^= 'k' limit 3",
	"select key, int(value) as n where key ^= 'k' order by n desc",
	"select key, int(value) as n where key ^= 'k' order by n limit 1, 2",
	"select key, value where key ^= 'k' order by key desc limit 5, 1",
	"select substr(key, 0, 2) as p, count(1), sum(int(value)) where key ^= 'k' group by p",
	"select key, count(1) as c where key ^= 'k' group by key limit 2, 2",
	"select key, count(1) as c where key ^= 'k' group by key order by c desc, key limit 1, 3",
	"select count(1), max(int(value)) where key > 'k02'",
	// ORDER BY over a scan that has to Seek to the start of a pinned region: the Init-time Seek (of the
	// plan's own Init and of BuildPlan's) is one of the fault positions
	"select key, value where key between 'k02' and 'k05' order by value desc",
	"select key, int(value) as n where key >= 'k03' & key <= 'k06' order by n, key desc limit 1, 3",
	"select key, count(1) as c where key > 'k01' group by key order by c desc, key desc",
	"select key, value where key < 'k04' order by value",
	"select * where key in ('k01', 'k03', 'zz', 'k05') limit 1, 2",
	"select * where key in ('k01', 'k03', 'k05') & value != '3'",
	"select * where key between 'k02' and 'k04' | key = 'k06'",
	"select * where key > 'k03'",
	"select * where key < 'k03' & value != 'x'",
	"where key ^= 'k0' & int(value) > 2 limit 1, 1",
	"delete where key ^= 'k' & int(value) > 3",
	"delete where key ^= 'k' limit 2, 3",
	"delete where key in ('k01', 'k02', 'zz')",
	"delete where key in ('k01', 'k02') & value != 'q' limit 1",
	"delete where key > 'k04'",
	"put ('n1', 'v1')",
	"put ('n1', 'v1'), ('n2', upper(key)), ('k01', 'new')",
	"remove 'k01'",
	"remove 'k01', 'k02', 'zz'",
}

// statements with hundreds of operands: whatever chunking the library applies to its writes, the first failing
// storage call ends the statement
func init() {
	var ps, ks []string
	for i := 0; i < 300; i++ {
		ps = append(ps, fmt.Sprintf("('p%03d', 'v%d')", i, i%7))
		ks = append(ks, fmt.Sprintf("'k%02d'", i%60))
	}
	faultqStatements = append(faultqStatements, "put "+strings.Join(ps, ", "), "put "+strings.Join(ps[:257], ", "), "remove "+strings.Join(ks, ", "))
}

func faultqStore(size int) []KV {
	kvs := make([]KV, size)
	for i := range kvs {
		kvs[i] = KV{fmt.Sprintf("k%02d", i), fmt.Sprint((i*5 + 2) % 11)}
	}
	return kvs
}

func isMutatingLog(entry string) bool {
	for _, p := range []string{"Put:", "BatchPut:", "Delete:", "BatchDelete:"} {
		if len(entry) >= len(p) && entry[:len(p)] == p {
			return true
		}
	}
	return false
}

func runFAULTQ(e *Env) (*Summary, error) {
	start := time.Now()
	sizes := []int{0, 1, 3, 7}
	bss := []int{1, 2, 3}
	if e.Tier == "thorough" {
		sizes = []int{0, 1, 2, 3, 5, 7, 10, 13}
		bss = []int{1, 2, 3, 5}
	}
	rule := fmt.Sprintf("%d statement shapes × store sizes %v × batch sizes %v × {row, batch} × EVERY call index of the fault-free storage-call sequence (exhaustive per statement/store); non-trivial = a run with an injected fault; distinct by (statement, size, bs, mode, index)", len(faultqStatements), sizes, bss)
	col := NewCollector("FAULTQ", e.Tier, e.Seed, rule)
	col.sum.Exhaustive = true
	saved := kvql.PlanBatchSize
	defer func() { kvql.PlanBatchSize = saved }()
	for _, bs := range bss {
		kvql.PlanBatchSize = bs
		type job struct {
			q    string
			size int
		}
		var jobs []job
		for _, q := range faultqStatements {
			for _, s := range sizes {
				jobs = append(jobs, job{q, s})
			}
		}
		err := e.parallel(func(w int, d *Driver) error {
			for ji := w; ji < len(jobs); ji += e.Workers {
				j := jobs[ji]
				kvs := faultqStore(j.size)
				for _, batch := range []bool{false, true} {
					free := NewRefStore(kvs)
					base := runStatement(j.q, free, batch, true)
					col.Eval(1)
					cs0 := fmt.Sprintf("%s  [store size %d, batch size %d, batch=%v]", j.q, j.size, bs, batch)
					isSelect := len(j.q) > 5 && (j.q[:6] == "select" || j.q[:5] == "where")
					if isSelect {
						for _, en := range free.Log {
							if isMutatingLog(en) {
								col.Find(Finding{Kind: "property", Group: "FAULTQ", Check: "select-issues-mutating-call", Case: cs0, Line: "FAULTQ " + hxs(j.q), Engine: en, Model: "reads only", Seed: e.Seed, Index: uint64(ji), Properties: []string{"C13"}})
								break
							}
						}
					}
					if base.Panic != "" {
						continue
					}
					n := free.Calls
					for i := 0; i < n; i++ {
						st := NewRefStore(kvs)
						st.FaultAt = i
						res := runStatement(j.q, st, batch, true)
						col.Eval(1)
						col.Nontrivial(fmt.Sprintf("%s|%d|%d|%v|%d", j.q, j.size, bs, batch, i))
						cs := fmt.Sprintf("%s  fault@%d of %d  [log %v]", cs0, i, n, st.Log)
						mk := func(check, eng, want string) {
							col.Find(Finding{Kind: "property", Group: "FAULTQ", Check: check, Case: cs, Line: "FAULTQ " + hxs(j.q), Engine: eng, Model: want, Seed: e.Seed, Index: uint64(ji), Properties: []string{"C13"}})
						}
						if res.Panic != "" {
							col.Find(Finding{Kind: "crash", Group: "FAULTQ", Check: "panic-after-fault", Case: cs, Line: "FAULTQ " + hxs(j.q), Engine: res.Panic, Model: "the storage error", Seed: e.Seed, Index: uint64(ji), Properties: []string{"C13", "C06"}})
							continue
						}
						if !st.Faulted {
							mk("fault-index-not-reached", fmt.Sprintf("only %d calls", st.Calls), "the fault-free sequence is deterministic")
							continue
						}
						if res.Err == nil || !errors.Is(res.Err, errInjected) {
							mk("fault-swallowed", fmt.Sprintf("outcome %s with %d rows", res.Outcome(), len(res.Rows)), "the injected storage error")
							continue
						}
						if st.AfterFault != 0 {
							mk("storage-call-after-fault", fmt.Sprintf("%d further calls", st.AfterFault), "no storage call after the failing one")
						}
					}
				}
				if ji%17 == 3 {
					col.Sample(fmt.Sprintf("%s on %d pairs at batch size %d: every fault index", j.q, j.size, bs))
				}
			}
			return nil
		})
		if err != nil {
			return nil, err
		}
	}
	return col.Finish(start), nil
}

func init() { groups["FAULTQ"] = runFAULTQ }
