module kvharness

go 1.21.1

toolchain go1.23.5

require github.com/c4pt0r/kvql v0.0.0

require github.com/beorn7/perks v1.0.1 // indirect

replace github.com/c4pt0r/kvql => /repo
