package main

import (
	"fmt"
	"strings"
	"time"
	"unicode/utf8"

	"github.com/c4pt0r/kvql"
)

// engineLex runs the real lexer and renders tokens canonically: tp:hexdata:pos
func engineLex(q string) string {
	out, _ := safely(func() string {
		render := func(toks []*kvql.Token) string {
			parts := make([]string, len(toks))
			for i, t := range toks {
				parts[i] = fmt.Sprintf("%d:%s:%d", t.Tp, hxs(t.Data), t.Pos)
			}
			return strings.Join(parts, " ")
		}
		l := kvql.NewLexer(q)
		first := render(l.Split())
		// the token list is a function of the text: splitting again with the same Lexer gives the same list
		if again := render(l.Split()); again != first {
			return first + " !second-Split-differs: " + again
		}
		return first
	})
	return out
}

// the token-relevant alphabet of the exhaustive part
var lexAlphabet = []byte{'a', 'B', '1', '.', ' ', '\'', '"', '`', '=', '!', '<', '(', ',', '\t'}

// a wider pool for random strings
var lexPool = []string{
	"a", "b", "K", "key", "value", "select", "WHERE", "and", "or", "in", "between", "limit", "1", "23", "4.5", ".5", "1e3", "nan", "inf",
	" ", "  ", "\t", "\n", "'", "\"", "`", "=", "!", "<", ">", "^", "~", "*", "+", "-", "/", "&", "|", "(", ")", "[", "]", ",", ";",
	"^=", "~=", "!=", "<=", ">=", "'x y'", "\"q\"", "`n m`", "'='", "'a''b'", "x_y", "0x1p3", "9223372036854775808", "1e999",
	// valid multi-byte UTF-8: inside literals (any text) and as words made of lower-case or caseless letters
	// (Go's ToLower is the identity on them; none of them is a Unicode space), incl. continuation bytes 0x85 / 0xA0
	"'café'", "\"键\"", "`naïve ü`", "'😅 ok'", "'100% %s %%'", "voilà", "århus", "ąbc", "x丅y", "ok😅", "é", "键值",
	// a byte order mark (U+FEFF: caseless, not a space): part of a word like any other letter
	"\ufeff", "\ufeffselect", "\ufeff ",
}

func lexCheckOne(col *Collector, d *Driver, q string, seed, idx uint64, count bool) error {
	eng := engineLex(q)
	resp, err := d.Ask("LEXBOTH " + hxs(q))
	if err != nil {
		return err
	}
	parts := strings.SplitN(resp, " ## ", 2)
	model, spec := strings.TrimSpace(parts[0]), ""
	if len(parts) == 2 {
		spec = strings.TrimSpace(parts[1])
	} else if strings.HasSuffix(resp, " ##") {
		model = strings.TrimSpace(strings.TrimSuffix(resp, " ##"))
	} else if strings.HasPrefix(resp, "## ") {
		model, spec = "", strings.TrimSpace(strings.TrimPrefix(resp, "## "))
	} else if resp == "##" || resp == " ## " || resp == " ##" {
		model, spec = "", ""
	}
	if count {
		col.Eval(1)
		ntok := 0
		if eng != "" {
			ntok = len(strings.Fields(eng))
		}
		if ntok >= 2 || strings.ContainsAny(q, "'\"`") || strings.Contains(q, "=") {
			col.Nontrivial(q)
		}
		col.Hist(fmt.Sprintf("tokens=%d", min(ntok, 8)))
		if strings.HasPrefix(eng, "panic") {
			col.Hist("engine-panic")
		}
	}
	mk := func(kind, check, other string) Finding {
		return Finding{Kind: kind, Group: "LEX", Check: check, Case: fmt.Sprintf("%q", q), Line: "LEXBOTH " + hxs(q),
			Engine: eng, Model: other, Seed: seed, Index: idx, Class: lexClass(q)}
	}
	if eng != model {
		col.Find(mk("correspondence", "engine-vs-model", model))
	}
	if eng != spec {
		col.Find(mk("property", "engine-vs-spec", spec))
	}
	// independent oracle: offsets and texts, computed here without the Lean side
	if msg := lexOffsetOracle(q); msg != "" {
		f := mk("property", "offset-text-oracle", msg)
		col.Find(f)
	}
	return nil
}

// lexClass gives a coarse syntactic class of the input (used only to group findings)
func lexClass(q string) string {
	switch {
	case strings.ContainsAny(q, "\t\n\r\v\f"):
		return "blank-other-than-space"
	case strings.Count(q, "'")%2 == 1 || strings.Count(q, "\"")%2 == 1 || strings.Count(q, "`")%2 == 1:
		return "odd-quotes"
	case strings.ContainsAny(q, "'\"`"):
		return "literal-adjacent"
	}
	return ""
}

func asciiLower(s string) string {
	b := []byte(s)
	for i, c := range b {
		if 'A' <= c && c <= 'Z' {
			b[i] = c + 32
		}
	}
	return string(b)
}

// lexOffsetOracle checks, for every token the engine returns, that the query really has
// the token's text at the token's offset: STRING/back-quoted NAME tokens must be preceded
// by a quote at Pos and followed by the same quote; every other token's Data must equal the
// lower-cased query text at [Pos, Pos+len).  Tokens must be in increasing, non-overlapping order.
func lexOffsetOracle(q string) string {
	var msg string
	safely(func() string {
		toks := kvql.NewLexer(q).Split()
		end := 0
		for _, t := range toks {
			if t.Pos < end {
				msg = fmt.Sprintf("token %q at %d overlaps previous token ending at %d", t.Data, t.Pos, end)
				return ""
			}
			if t.Pos < 0 || t.Pos > len(q) {
				msg = fmt.Sprintf("token %q offset %d outside query", t.Data, t.Pos)
				return ""
			}
			isQuoted := false
			if t.Pos < len(q) && (q[t.Pos] == '\'' || q[t.Pos] == '"' || q[t.Pos] == '`') && (t.Tp == kvql.STRING || t.Tp == kvql.NAME) {
				qc := q[t.Pos]
				rest := q[t.Pos+1:]
				if j := strings.IndexByte(rest, qc); j >= 0 {
					// terminated literal: content must be exactly the bytes up to the next identical quote
					isQuoted = true
					if rest[:j] != t.Data {
						msg = fmt.Sprintf("literal at %d has content %q, token carries %q", t.Pos, rest[:j], t.Data)
						return ""
					}
					if (qc == '`') != (t.Tp == kvql.NAME) {
						msg = fmt.Sprintf("literal at %d has wrong kind %d", t.Pos, t.Tp)
						return ""
					}
					end = t.Pos + j + 2
				}
			}
			if !isQuoted {
				if t.Tp == kvql.STRING {
					msg = fmt.Sprintf("STRING token %q at %d is not at a quote of a terminated literal", t.Data, t.Pos)
					return ""
				}
				if t.Pos+len(t.Data) > len(q) || asciiLower(q[t.Pos:t.Pos+len(t.Data)]) != t.Data {
					have := ""
					if t.Pos <= len(q) {
						have = q[t.Pos:min(len(q), t.Pos+len(t.Data))]
					}
					msg = fmt.Sprintf("token %q reported at %d but the query has %q there", t.Data, t.Pos, have)
					return ""
				}
				end = t.Pos + len(t.Data)
			}
		}
		return ""
	})
	return msg
}

// ---- spacing invariance (engine only: a metamorphic check of the property itself)

type lexTokSpec struct {
	text string // as written
	word bool   // a word (needs separation from neighbouring words)
	opch bool   // ends with an operator character that could merge with a following '='
	eq   bool   // starts with '='
}

var spacingToks = []lexTokSpec{
	{"select", true, false, false}, {"key", true, false, false}, {"Value", true, false, false}, {"abc", true, false, false}, {"12", true, false, false}, {"1.5", true, false, false},
	{"'lit eral'", false, false, false}, {"\"dq\"", false, false, false}, {"`bq n`", false, false, false}, {"''", false, false, false},
	{"=", false, true, true}, {"!=", false, true, false}, {"^=", false, true, false}, {"~=", false, true, false}, {"<=", false, true, false}, {">=", false, true, false},
	{"<", false, true, false}, {">", false, true, false}, {"!", false, true, false}, {"+", false, true, false}, {"-", false, true, false}, {"*", false, true, false}, {"/", false, true, false},
	{"&", false, false, false}, {"|", false, false, false}, {"(", false, false, false}, {")", false, false, false}, {"[", false, false, false}, {"]", false, false, false}, {",", false, false, false}, {";", false, false, false},
	{"and", true, false, false}, {"OR", true, false, false}, {"in", true, false, false}, {"between", true, false, false},
}

func kindData(q string) string {
	out, _ := safely(func() string {
		toks := kvql.NewLexer(q).Split()
		parts := make([]string, len(toks))
		for i, t := range toks {
			parts[i] = fmt.Sprintf("%d:%s", t.Tp, hxs(t.Data))
		}
		return strings.Join(parts, " ")
	})
	return out
}

func lexSpacingOne(col *Collector, r *Rand, seed, idx uint64) {
	n := 1 + r.Intn(7)
	toks := make([]lexTokSpec, n)
	for i := range toks {
		toks[i] = pick(r, spacingToks)
	}
	render := func(mode int) string {
		var b strings.Builder
		for i, t := range toks {
			if i > 0 {
				need := (toks[i-1].word && t.word) || (toks[i-1].opch && t.eq)
				k := 0
				switch mode {
				case 0: // minimal
					if need {
						k = 1
					}
				case 1: // one space everywhere
					k = 1
				default: // random 0..3, at least 1 where needed
					k = r.Intn(4)
					if need && k == 0 {
						k = 1
					}
				}
				b.WriteString(strings.Repeat(" ", k))
			} else if mode >= 2 {
				b.WriteString(strings.Repeat(" ", r.Intn(3)))
			}
			b.WriteString(t.text)
		}
		if mode >= 2 {
			b.WriteString(strings.Repeat(" ", r.Intn(3)))
		}
		return b.String()
	}
	base := render(1)
	want := kindData(base)
	col.Eval(1)
	col.Nontrivial("sp:" + base)
	if strings.Count(want, " ")+1 != n && !(n == 0) {
		// the fully spaced rendering must give exactly one token per written token
		col.Find(Finding{Kind: "property", Group: "LEX", Check: "spacing-token-count", Case: fmt.Sprintf("%q", base), Engine: want,
			Model: fmt.Sprintf("%d tokens written", n), Seed: seed, Index: idx, Class: lexClass(base)})
	}
	for mode := 0; mode < 4; mode++ {
		if mode == 1 {
			continue
		}
		alt := render(mode)
		got := kindData(alt)
		col.Eval(1)
		if got != want {
			col.Find(Finding{Kind: "property", Group: "LEX", Check: "spacing-invariance", Case: fmt.Sprintf("%q vs %q", base, alt), Engine: got,
				Model: want, Seed: seed, Index: idx, Class: lexClass(alt)})
		}
	}
}

// asciiOutsideLiterals replaces every non-ASCII byte that is not inside a terminated
// literal by 'z': the model's case folding is Go's only on ASCII words (trusted base).
func asciiOutsideLiterals(q string) string {
	if utf8.ValidString(q) {
		// non-ASCII characters known to be lower-case or caseless and not Unicode spaces: Go folds case
		// (and trims) like the ASCII-only model on them, in word position too
		safe := true
		for _, r := range q {
			if r >= 0x80 && !strings.ContainsRune("àåąéïü丅键值😅\ufeff", r) {
				safe = false
				break
			}
		}
		if safe {
			return q
		}
	}
	b := []byte(q)
	for i := 0; i < len(b); i++ {
		c := b[i]
		if c == '\'' || c == '"' || c == '`' {
			if j := strings.IndexByte(string(b[i+1:]), c); j >= 0 {
				i += j + 1
				continue
			}
			for k := i; k < len(b); k++ {
				if b[k] >= 0x80 {
					b[k] = 'z'
				}
			}
			break
		}
		if c >= 0x80 {
			b[i] = 'z'
		}
	}
	return string(b)
}

func runLEX(e *Env) (*Summary, error) {
	start := time.Now()
	maxLen := 4
	if e.Tier == "thorough" {
		maxLen = 6
	}
	nRandom := e.n(20000, 1000000)
	nSpacing := e.n(5000, 200000)
	rule := fmt.Sprintf("all strings of length ≤ %d over the alphabet %q (exhaustive), %d random strings of 1–12 pieces from a pool of words/operators/quotes/blanks with arbitrary bytes inside literals, %d random token sequences rendered with minimal/single/random spacing; a case is non-trivial when it yields ≥ 2 tokens or contains a quote or '='; distinct by query text",
		maxLen, string(lexAlphabet), nRandom, nSpacing)
	col := NewCollector("LEX", e.Tier, e.Seed, rule)
	col.sum.Exhaustive = true
	// exhaustive part: index space = sum_{l=0..maxLen} |A|^l, partitioned by worker
	A := len(lexAlphabet)
	total := uint64(0)
	pow := uint64(1)
	offsets := []uint64{}
	for l := 0; l <= maxLen; l++ {
		offsets = append(offsets, total)
		total += pow
		pow *= uint64(A)
	}
	decode := func(ix uint64) string {
		l := 0
		for l+1 < len(offsets) && ix >= offsets[l+1] {
			l++
		}
		ix -= offsets[l]
		b := make([]byte, l)
		for i := l - 1; i >= 0; i-- {
			b[i] = lexAlphabet[ix%uint64(A)]
			ix /= uint64(A)
		}
		return string(b)
	}
	err := e.parallel(func(w int, d *Driver) error {
		for ix := uint64(w); ix < total; ix += uint64(e.Workers) {
			q := decode(ix)
			if err := lexCheckOne(col, d, q, e.Seed, ix, true); err != nil {
				return err
			}
			if ix%200003 == 7 {
				col.Sample(fmt.Sprintf("%q -> %s", q, engineLex(q)))
			}
		}
		for ix := uint64(w); ix < uint64(nRandom); ix += uint64(e.Workers) {
			r := NewRand(e.Seed, "LEX", ix)
			var b strings.Builder
			np := 1 + r.Intn(12)
			for i := 0; i < np; i++ {
				if r.Chance(1, 12) {
					// literal with arbitrary bytes
					qc := pick(r, []byte{'\'', '"', '`'})
					b.WriteByte(qc)
					for k := r.Intn(5); k > 0; k-- {
						c := byte(r.Intn(256))
						if c == qc || c == '\n' || c == '\r' {
							c = 'z'
						}
						b.WriteByte(c)
					}
					b.WriteByte(qc)
				} else {
					b.WriteString(pick(r, lexPool))
				}
			}
			q := asciiOutsideLiterals(b.String())
			if err := lexCheckOne(col, d, q, e.Seed, ix, true); err != nil {
				return err
			}
			if ix%50021 == 3 {
				col.Sample(fmt.Sprintf("%q -> %s", q, engineLex(q)))
			}
		}
		for ix := uint64(w); ix < uint64(nSpacing); ix += uint64(e.Workers) {
			r := NewRand(e.Seed, "LEXSP", ix)
			lexSpacingOne(col, r, e.Seed, ix)
		}
		return nil
	})
	if err != nil {
		return nil, err
	}
	return col.Finish(start), nil
}

func init() { groups["LEX"] = runLEX }
