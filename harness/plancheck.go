package main

// Group PLANCHECK: what `kvql.NewOptimizer(q).BuildPlan(store)` decides before its first storage
// call — Parse, the plan-time function-call validation (optimizer.go: checkStatementFunctionCalls),
// the GROUP BY / aggregate shape errors of buildFinalPlan and the aggregate constructors that run
// in AggregatePlan.Init before the child's Init — against the Lean model
// `Kvql.PlanCheck.planStage` (kind "correspondence": outcome ok / error position and class).
//
// Oracle (kind "property", C14 and C13): a statement BuildPlan rejects has issued ZERO storage
// calls, whatever the store contains.
//
// Protocol line: PLANCHECK <hexquery> <floats>   (floats as in PARSE)
//   → ok | err <pos|-1> <syntax|cycle|nest> | panic <site> | fuel | unsupported <what>

import (
	"errors"
	"fmt"
	"strings"
	"time"

	"github.com/c4pt0r/kvql"
)

// pcErrLine renders a BuildPlan error the way the model prints it (never the message text).
func pcErrLine(err error) string {
	var se *kvql.SyntaxError
	if errors.As(err, &se) {
		return fmt.Sprintf("err %d syntax", se.Pos)
	}
	var ee *kvql.ExecuteError
	if errors.As(err, &ee) {
		return fmt.Sprintf("err %d exec", ee.Pos)
	}
	if err.Error() == "exceed max nesting depth" {
		return "err -1 nest"
	}
	return "err -1 other"
}

type pcOut struct {
	line  string // ok | err … | panic
	calls int
	log   []string
	msg   string
}

func pcEngine(q string, kvs []KV) pcOut {
	st := NewRefStore(kvs)
	var perr error
	out, panicked := safely(func() string {
		_, perr = kvql.NewOptimizer(q).BuildPlan(st)
		return ""
	})
	if panicked {
		return pcOut{line: "panic", calls: st.Calls, log: st.Log, msg: out}
	}
	if perr != nil {
		return pcOut{line: pcErrLine(perr), calls: st.Calls, log: st.Log, msg: firstLine(perr)}
	}
	return pcOut{line: "ok", calls: st.Calls, log: st.Log}
}

// ------------------------------------------------------------------ statement families

type pcCase struct {
	q     string
	label string
}

// every name of funcMap / aggrFuncMap (func.go), two unknown names, and case variants
var pcFuncNames = []string{
	"lower", "upper", "int", "float", "str", "is_int", "is_float", "substr", "json", "split", "list", "float_list", "int_list", "flist", "ilist",
	"len", "join", "strlen", "cosine_distance", "l2_distance",
	"count", "sum", "avg", "min", "max", "quantile", "json_arrayagg", "group_concat",
	"nosuch", "keyx", "UPPER", "Str_Len", "COUNT",
}

// contexts for a call of any static type (the hole is wrapped by str(), is_int() or stands alone
// where the statement form takes any type)
var pcCallContexts = []string{
	"select * where str(%s) = 'a'", "select * where !is_int(%s)", "select * where key = 'a' & is_int(%s)", "select * where is_int(%s) or key = 'a'",
	"select * where str(str(%s)) = 'a'", "select key where 'a' in (str(%s), 'b')", "select key where str(%s) in ('a')", "select key where 'a' between str(%s) and 'z'",
	"select key where 'a' between 'a' and str(%s)", "select key where split(str(%s), ',')[0] = 'a'", "select key where json(value)[str(%s)] = 'a'",
	"select %s where key = 'a'", "select key, %s where key = 'a'", "select str(%s) as f where f = 'a'", "select %s as f, str(f) as g where g = 'a'",
	"select key, str(%s) where key ^= 'a' group by key", "select key, sum(int(str(%s))) where key ^= 'a' group by key", "select key, %s where key ^= 'a' group by key",
	"select %s where key ^= 'a'", "select 1 + %s where key ^= 'a'", "select key where key = 'a' order by key limit 1",
	"delete where str(%s) = 'a'", "delete where !(is_int(%s) and true) limit 3", "put ('k', str(%s))", "put (str(%s), 'v')", "put ('a', 'b'), ('k', str(%s))", "remove str(%s)", "remove 'a', str(%s)",
}

func pcArgs(n int) string {
	pool := []string{"'7'", "key", "1", "2"}
	var as []string
	for i := 0; i < n; i++ {
		as = append(as, pool[i%len(pool)])
	}
	return strings.Join(as, ", ")
}

// aggregate calls at every position of a select field, with and without GROUP BY
var pcAggrCalls = []string{
	"count(1)", "sum(int(value))", "max(strlen(key))", "avg(int(value))", "min(int(value))", "json_arrayagg(value)", "group_concat(value, ',')", "group_concat(value, key)",
	"group_concat(value, 1)", "group_concat(value, upper(','))", "group_concat(value, '-' + '-')", "quantile(int(value), 0.5)", "quantile(int(value), 1.0)", "quantile(int(value), 1.5)",
	"quantile(int(value), 1)", "quantile(int(value), '0.5')", "quantile(int(value), key)", "quantile(int(value), float('0.5'))", "quantile(int(value), 0.25 + 0.25)",
	"sum(count(1))", "sum(int(count(1)))", "sum(1 + count(1))", "count(nosuch(1))", "sum(upper(key, key))",
}

var pcAggrPositions = []string{
	"%s", "%s + 1", "1 + %s", "(%s + 1) * 2", "%s > 1", "1 < %s", "(%s > 1) & true", "true & (%s > 1)", "(%s > 1) | false", "(%s > 1) and (count(1) > 0)", "(%s > 1) or true",
	"str(%s)", "upper(str(%s))", "!(%s > 1)", "!!(%s > 1)", "%s in (1, 2)", "1 in (%s, 2)", "%s between 1 and 2", "1 between %s and 2", "1 between 0 and %s",
	"str(%s) + 'x'", "'x' + str(%s)", "split(str(%s), ',')[0]", "int_list(%s, 2)", "len(list(%s))", "str(%s) in split(key, ',')",
}

var pcAggrForms = []string{
	"select %s where key ^= 'a'", "select key, %s where key ^= 'a' group by key", "select key, %s where key ^= 'a'", "select %s as c where key ^= 'a' order by c",
	"select %s as c, c + 1 as d where key ^= 'a'", "select key, value, %s where key ^= 'a' group by key", "select key, %s as c where c > 1 group by key",
	"select key, %s where key ^= 'a' group by key, value", "select upper(key) as u, %s where key ^= 'a' group by u limit 2", "select * where %s > 1", "delete where %s > 1",
}

// statements around GROUP BY without aggregates and other shape errors of buildFinalPlan
var pcShapeForms = []string{
	"select key where key ^= 'a' group by key", "select * where key ^= 'a' group by key", "select key, value where key ^= 'a' group by key, value", "select key, value where key ^= 'a' group by key",
	"select upper(key) as u where key ^= 'a' group by u", "select key, count(1) where key ^= 'a'", "select key, value, count(1) where key ^= 'a' group by key",
	"select count(1), key where key ^= 'a' group by key", "select count(1) where key ^= 'a' group by key", "select count(1) as c, c + 1 as d where key ^= 'a' group by key",
	"select key, count(1) where key ^= 'a' group by key order by key desc limit 1, 2", "select count(1) where key ^= 'a' limit 1", "where key ^= 'a' group by key", "where key ^= 'a' limit 2",
	"select key, count(1) as c where key ^= 'a' group by key order by c", "select key as k, count(1) where key ^= 'a' group by k", "select key as k, value as v where key ^= 'a' group by k, v",
	"select true | (count(1) > 1) where key ^= 'a'", "select key, true | (count(1) > 1) where key ^= 'a'", "select key, (count(1) > 1) & false where key ^= 'a'", "select (1 = 1) | (count(1) > 1), key where key ^= 'a'",
}

func pcStaticCases() []pcCase {
	var out []pcCase
	for _, c := range staticContexts {
		for _, f := range staticFaults {
			if f.typ == c.typ {
				out = append(out, pcCase{fmt.Sprintf(c.tmpl, f.expr), "static-faulty"})
			}
		}
		for _, g := range staticGood {
			if g.typ == c.typ {
				out = append(out, pcCase{fmt.Sprintf(c.tmpl, g.expr), "static-good"})
			}
		}
	}
	for _, q := range staticForms {
		out = append(out, pcCase{q, "static-form"})
	}
	for _, q := range staticGoodForms {
		out = append(out, pcCase{q, "static-good-form"})
	}
	for _, ctx := range pcCallContexts {
		if !strings.Contains(ctx, "%s") {
			out = append(out, pcCase{ctx, "call-matrix"})
			continue
		}
		for _, fn := range pcFuncNames {
			for n := 0; n <= 4; n++ {
				out = append(out, pcCase{fmt.Sprintf(ctx, fn+"("+pcArgs(n)+")"), "call-matrix"})
			}
		}
	}
	for _, form := range pcAggrForms {
		for _, pos := range pcAggrPositions {
			for _, call := range pcAggrCalls {
				out = append(out, pcCase{fmt.Sprintf(form, fmt.Sprintf(pos, call)), "aggr-position"})
			}
		}
	}
	for _, q := range pcShapeForms {
		out = append(out, pcCase{q, "shape"})
	}
	return out
}

// ------------------------------------------------------------------ one case

var pcStores = [][]KV{{}, {{"a", "1"}, {"ab", "x"}, {"b", "10"}, {"k1", "2"}, {"k2", "abc"}, {"l", ""}}, {{"a", "x"}, {"ax", "1,2"}, {"k", "{\"a\": \"x\"}"}, {"lit", "7"}}}

func pcCompare(col *Collector, d *Driver, c pcCase, seed, idx uint64) error {
	line := "PLANCHECK " + hxs(c.q) + " " + floatTable(c.q)
	model, err := d.Ask(line)
	if err != nil {
		return err
	}
	mclass := strings.SplitN(model, " ", 2)[0]
	cs := fmt.Sprintf("%q", c.q)
	if aliasMayCycle(c.q) || mclass == "panic" || mclass == "fuel" {
		// a cyclic alias recursed without bound on the unrepaired engine (fatal): look first
		col.Hist("isolated-run")
		if iso := engineParseIsolated(c.q); strings.HasPrefix(iso.line, "died") || iso.line == "panic" {
			col.Find(Finding{Kind: "crash", Group: "PLANCHECK", Check: "parse-crashes", Case: cs, Line: line, Engine: iso.line, Model: clip(model), Seed: seed, Index: idx, Properties: []string{"C06"}, Detail: iso.msg})
			return nil
		}
	}
	var first pcOut
	for si, kvs := range pcStores {
		eng := pcEngine(c.q, kvs)
		col.Eval(1)
		if si == 0 {
			first = eng
			eclass := strings.SplitN(eng.line, " ", 2)[0]
			col.Hist("engine:"+eclass, "class:"+c.label, "model:"+mclass)
			if eclass == "err" {
				col.Nontrivial("E:" + c.q)
			} else {
				col.Nontrivial("K:" + c.q)
			}
			mk := func(kind, check string, props ...string) Finding {
				return Finding{Kind: kind, Group: "PLANCHECK", Check: check, Case: cs, Line: line, Engine: eng.line, Model: clip(model), Seed: seed, Index: idx, Properties: props, Detail: eng.msg}
			}
			switch {
			case eng.line == "panic":
				col.Find(mk("crash", "buildplan-panics", "C06"))
			case mclass == "unsupported":
				col.Hist("model-unsupported")
				if strings.Contains(model, "plan-time_ExecuteError") && !strings.HasSuffix(eng.line, " exec") {
					col.Find(mk("correspondence", "plan-outcome"))
				}
			case strings.HasSuffix(model, " cycle"):
				if eng.line != strings.TrimSuffix(model, " cycle")+" syntax" {
					col.Find(mk("correspondence", "plan-outcome"))
				}
			case eng.line != model:
				col.Find(mk("correspondence", "plan-outcome"))
			}
		} else if eng.line != first.line {
			// the decision must not depend on the store
			col.Find(Finding{Kind: "property", Group: "PLANCHECK", Check: "decision-depends-on-store", Case: cs, Line: line, Engine: fmt.Sprintf("store %d: %s", si, eng.line), Model: "store 0: " + first.line, Seed: seed, Index: idx, Properties: []string{"C14"}})
		}
		if strings.HasPrefix(eng.line, "err") && eng.calls != 0 {
			col.Find(Finding{Kind: "property", Group: "PLANCHECK", Check: "rejected-after-storage-access", Case: fmt.Sprintf("%s [store %d]", cs, si), Line: line,
				Engine: fmt.Sprintf("%s after %d storage calls: %v", eng.line, eng.calls, eng.log), Model: "zero storage calls", Seed: seed, Index: idx, Properties: []string{"C14", "C13"}})
		}
	}
	return nil
}

func runPLANCHECK(e *Env) (*Summary, error) {
	start := time.Now()
	static := pcStaticCases()
	nGen := e.n(5000, 120000)
	rule := fmt.Sprintf("(a) %d template statements, exhaustive: group STATIC's product of %d contexts × faulty / well-typed operands and its %d statement-form faults; every function name of funcMap and aggrFuncMap, unknown names and letter-case variants × 0–4 arguments in %d positions (filter, under !, under &/or, nested call, IN list, BETWEEN bound, field access, select field, alias, aggregate argument, put, remove, delete); %d aggregate calls (incl. quantile / group_concat second arguments of every kind, nested aggregates) × %d positions inside a field × %d statement forms; %d GROUP BY / aggregate shape statements; (b) %d statements of the typed generator (select with aliases, order, limit; put; remove; delete), each with 2 single-edit corruptions. Every case on 3 stores: BuildPlan outcome (ok / error position and class) vs Kvql.PlanCheck.planStage (correspondence); a rejected statement must have made zero storage calls and the decision must not depend on the store (C14, C13). Non-trivial: distinct statement texts by outcome class",
		len(static), len(staticContexts), len(staticForms), len(pcCallContexts), len(pcAggrCalls), len(pcAggrPositions), len(pcAggrForms), len(pcShapeForms), nGen)
	col := NewCollector("PLANCHECK", e.Tier, e.Seed, rule)
	col.sum.Exhaustive = true
	total := uint64(len(static)) + uint64(nGen)
	err := e.parallel(func(w int, d *Driver) error {
		for ix := uint64(w); ix < total; ix += uint64(e.Workers) {
			if ix < uint64(len(static)) {
				if err := pcCompare(col, d, static[ix], e.Seed, ix); err != nil {
					return err
				}
				if ix%499 == 0 {
					col.Sample(static[ix].q)
				}
				continue
			}
			r := NewRand(e.Seed, "PLANCHECK", ix)
			o := defaultOpts()
			o.UpperCase = true
			o.Json = r.Bool()
			g := NewGen(r, o)
			q := genStatement(g)
			cases := []pcCase{{q, "gen"}, {mutate(r, q), "gen-mutant"}, {mutate(r, q), "gen-mutant"}}
			for _, c := range cases {
				if err := pcCompare(col, d, c, e.Seed, ix); err != nil {
					return err
				}
			}
			if ix%1499 == 0 {
				col.Sample(q)
			}
		}
		return nil
	})
	if err != nil {
		return nil, err
	}
	return col.Finish(start), nil
}

func init() { groups["PLANCHECK"] = runPLANCHECK }
