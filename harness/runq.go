package main

// Group RUNQ: whole statements, given as TEXT, on the real engine against the END-TO-END Lean
// model `Kvql.Run.runQuery` (lean/Kvql/Model/Run.lean), which composes the component models
// (lexer, parser, checker, plan-time validation, constant folder, scan-type inference, scan plans
// over the storage machine, both evaluators with the field cache, projection, ORDER BY, LIMIT,
// aggregation, PUT / REMOVE / DELETE) the way optimizer.go composes the plans.  No table computed
// by the engine crosses the wire: a disagreement anywhere in the pipeline shows up here.
//
//   engine  kvql.NewOptimizer(q).BuildPlan(RefStore) drained by Next / Batch (runStatement):
//           outcome class, rows (canonValue), final store (Dump), call log
//   model   RUNQ <hexquery> <floats> <store> <next|batch> <bs> <cache>
//           → <outcome> ## <rows> ## <store> ## <log>
//   kind "correspondence"; Properties from the statement kind (C01 C03 C05 C07 C08 C09 C11 C12).
//   Plan-time errors are compared with their position, run-time errors by class only.
//   What the model does not cover is counted (`unsupported:<what>`) and skipped.

import (
	"errors"
	"fmt"
	"strconv"
	"strings"
	"sync"
	"time"

	"github.com/c4pt0r/kvql"
)

func init() { groups["RUNQ"] = runRUNQ }

// ---------------------------------------------------------------- engine side

func runqExecClass(err error) string {
	msg := err.Error()
	var ee *kvql.ExecuteError
	if errors.As(err, &ee) {
		msg = ee.Message
	}
	if strings.Contains(msg, "where expression result is not boolean") {
		return "where-not-bool"
	}
	if strings.Contains(msg, "Expression result type not support") {
		return "result-type"
	}
	return evalErrClass(err)
}

func runqOutcome(r *RunResult) string {
	if r.Panic != "" {
		return "panic"
	}
	if r.Err == nil {
		return "ok"
	}
	if r.ErrStage == "plan" {
		var se *kvql.SyntaxError
		if errors.As(r.Err, &se) {
			return fmt.Sprintf("plan:syntax@%d", se.Pos)
		}
		var ee *kvql.ExecuteError
		if errors.As(r.Err, &ee) {
			return "plan:exec:" + runqExecClass(r.Err)
		}
		return "plan:other-error"
	}
	return "exec:" + runqExecClass(r.Err)
}

func runqRows(r *RunResult) string {
	if len(r.Rows) == 0 {
		return "-"
	}
	p := make([]string, len(r.Rows))
	for i, row := range r.Rows {
		c := make([]string, len(row))
		for j, v := range row {
			c[j] = evCanon(v) // every NaN is `f:nan`, as in Value.canon
		}
		p[i] = strings.Join(c, "|")
	}
	return strings.Join(p, ";")
}

func runqEngine(q string, kvs []KV, batch, cache bool) (string, *RunResult) {
	st := NewRefStore(kvs)
	r := runStatement(q, st, batch, cache)
	lg := "_"
	if len(st.Log) > 0 {
		lg = strings.Join(st.Log, ";")
	}
	return runqOutcome(r) + " ## " + runqRows(r) + " ## " + st.Dump() + " ## " + lg, r
}

func runqStoreArg(kvs []KV) string {
	if len(kvs) == 0 {
		return "-"
	}
	p := make([]string, len(kvs))
	for i, kv := range kvs {
		p[i] = hxs(kv.K) + "=" + hxs(kv.V)
	}
	return strings.Join(p, ",")
}

func runqLine(q string, kvs []KV, batch bool, bs int, cache bool) string {
	mode, c := "next", "0"
	if batch {
		mode = "batch"
	}
	if cache {
		c = "1"
	}
	return fmt.Sprintf("RUNQ %s %s %s %s %d %s", hxs(q), floatTable(q), runqStoreArg(kvs), mode, bs, c)
}

// replayRunqLine runs the engine on a RUNQ protocol line (kvharness -replay)
func replayRunqLine(line string) (string, bool) {
	w := strings.Fields(line)
	if len(w) != 7 || w[0] != "RUNQ" {
		return "", false
	}
	bs, err := strconv.Atoi(w[5])
	if err != nil {
		return "", false
	}
	var kvs []KV
	if w[3] != "-" {
		for _, p := range strings.Split(w[3], ",") {
			kv := strings.SplitN(p, "=", 2)
			if len(kv) != 2 {
				return "", false
			}
			kvs = append(kvs, KV{string(unhx(kv[0])), string(unhx(kv[1]))})
		}
	}
	saved := kvql.PlanBatchSize
	kvql.PlanBatchSize = bs
	defer func() { kvql.PlanBatchSize = saved }()
	out, _ := runqEngine(string(unhx(w[1])), kvs, w[4] == "batch", w[6] == "1")
	return out, true
}

// ---------------------------------------------------------------- statements

type runqStmt struct {
	q      string
	kind   string // star | fields | aggr | put | remove | delete | mutated
	family string // store family
	order  bool
	limit  bool
}

func (s runqStmt) props() []string {
	var p []string
	switch s.kind {
	case "star":
		p = []string{"C01", "C03"}
	case "fields":
		p = []string{"C03", "C05"}
	case "aggr":
		p = []string{"C09", "C03", "C05"}
	case "put", "remove":
		p = []string{"C12"}
	case "delete":
		p = []string{"C11"}
	case "mutated":
		p = []string{"C01", "C03"}
	}
	if s.order {
		p = append(p, "C07")
	}
	if s.limit {
		p = append(p, "C08")
	}
	return p
}

var runqSpecial = []string{
	"select * where key ~= value", "select key, value where value ~= key | key ~= value", "select * where upper(key) ^= upper(value)",
	"select key where key between value and 'z'", "select * where value in (key, 'x', '1')", "select key, key ~= value as m where strlen(value) > 0",
	"where key ^= 'a'", "where key > 'a' & int(value) + 1 > 2", "where key in ('a', 'b', 'k1', 'zz') | key ^= 'k'",
	"select * where key between 'a' and 'k2'", "select * where 'b' > key", "select * where key = 'k1' | key = 'a'", "select * where key ^= 'a' & key > 'ab'",
	"select * where false", "select * where true & key >= 'b'", "select key as k, value as k where k = 'b'", "select key as k where k = 'b'",
	"select upper(key) as f1, lower(f1) where f1 != 'K2'", "select key, int(value) as n where n > 2", "select key, int(value) as n, n * 2 as m where m > 4 & n < 9",
	"select key, 1 + 2 as c, c + 1 as d where d = 4", "select key, 'a' + 'b' as s where s = 'ab'", "select 3 * 0.5 as x, key where key > ''",
	"select key, split(value, ',') as l where 'a' in l", "select key, split(value, ',')[0] where len(split(value, ',')) > 1", "select key, list(1, 2) as l where key > 'a'",
	"select key, value where int(value) / 0 > 1", "select key where int(value) / (strlen(key) - 2) >= 0", "select key, 10 / (int(value) - 2) as d where key >= 'a'",
	"select key, value where key = 'a' | int(value) / (strlen(key) - 1) > 0",
	"select key, json(value)['a'] where key > ''", "select key, substr(value, 1, 2) as s where s != ''",
}

// runqDirected: one statement per composition feature that random generation reaches rarely
// (unparenthesised precedence, nested key regions, re-association, an alias hit twice in one
// chunk, stale caches across groups, alias cycles, key/value where the form forbids them,
// plan-time validation that must precede the first storage call).  family: store pool.
var runqDirected = []struct{ q, kind, family string }{
	// precedence without parentheses, spacing
	{"where key = 'a' or key = 'b' and value = 'x'", "star", "modes"}, {"where key = 'a' | key ^= 'k' and value = '3'", "star", "modes"},
	{"where key = 'a' and value = '1' or key ^= 'k'", "star", "modes"}, {"select * where key = 'k1' or key between 'a' and 'b' and value != 'x'", "star", "modes"},
	{"delete where key = 'a' or key ^= 'k' and value = '3'", "delete", "write"}, {"select * where key>'a'=true", "star", "modes"}, {"where !'a'='b'", "star", "modes"},
	{"select * where value<\"m\"=false", "star", "modes"}, {"select key,value where key>='a'&value!='x'|key='b'", "fields", "modes"},
	// key regions
	{"select * where key ^= 'ab' | key ^= 'a'", "star", "modes"}, {"select * where key ^= 'a' | key ^= 'ab'", "star", "modes"}, {"select * where key ^= 'k' & key ^= 'k1'", "star", "modes"},
	{"select * where key ^= 'ab' | key ^= 'a' | key = 'b'", "star", "modes"}, {"delete where key ^= 'ab' | key ^= 'a'", "delete", "write"}, {"select * where key ^= 'a' & key < 'ab1'", "star", "modes"},
	{"select * where (key = '' | key > 'b') & key ^= ''", "star", "modes"}, {"select * where key > 'b' | key < 'ab'", "star", "modes"}, {"select * where key <= ''", "star", "write"},
	{"select * where key between 'k2' and 'a'", "star", "modes"}, {"select * where 'lit' ^= key", "star", "modes"}, {"select * where key in ('a', 'a', 'b', 'zz')", "star", "modes"},
	// folding and re-association
	{"select key, float(value) * 3 * 5 as f where key ^= 'k'", "fields", "slimit"}, {"select key where float(value) * 3 * 5 > 1.5 & float(value) * 3 * 5 < 100.5", "fields", "slimit"},
	{"select float(value) + 1 + 2 as f where float(value) + 1 + 2 < 10000000000000003", "fields", "slimit"}, {"select int(value) * 0.1 * 3 * 5 as f where true", "fields", "slimit"},
	{"select int(value) * 3 * 5 as f, int(value) + 1 + 2 as g where int(value) * 3 * 5 >= 60", "fields", "slimit"}, {"select key + 'a' + 'b' as s where key + 'a' + 'b' != 'k00ab'", "fields", "slimit"},
	{"select 1 / (1 - 0.5) as x, 3 * 0.5 as y, 7 / 2 as z where key >= ''", "fields", "modes"}, {"select key where true & key > 'a' | false", "fields", "modes"}, {"select upper('ab') + lower('CD') as s, strlen('abc') + 1 as n where key < 'b'", "fields", "modes"},
	// aliases, the field cache
	{"select key, int(value) as n, n * 2 as dbl where n > 2 & 100 > dbl & n < 8", "fields", "slimit"}, {"select key, int(value) as n where n > 2 & n < 8 & n != 5", "fields", "slimit"},
	{"select int(value) as n, n + n as m where n + n > 4 & n + 1 > 2", "fields", "slimit"}, {"select key as a, value as a where a = 'b'", "fields", "modes"}, {"select upper(key) as `a-b`, lower(`a-b`) as c where `a-b` != 'K1'", "fields", "modes"},
	{"select key as f1, f1 as f2, f2 + 'x' as f3 where f3 != 'ax'", "fields", "modes"}, {"select * where `KEY` = 'a'", "star", "modes"}, {"select key, join(',', key, f3) as f2, upper(key) as f3 where f2 != 'b,B'", "fields", "modes"},
	// aggregates and caches across groups
	{"select value as v, sum(int(v)) as s, count(1) as c where key ^= 'k' group by v", "aggr", "aggr"}, {"select int(value) as n, n * 10 as t, count(1) as c where is_int(value) group by n, t order by t desc", "aggr", "aggr"},
	{"select value as v, group_concat(v, ',') as g where key >= '' group by v", "aggr", "aggr"}, {"select strlen(value) as l, sum(l) as s, max(l + strlen(key)) as m where key >= '' group by l", "aggr", "aggr"},
	// plan-time rejection (nothing may be read)
	{"select upper(f1) as f1 where key > ''", "fields", "modes"}, {"select lower(b) as a, upper(a) as b where true", "fields", "modes"}, {"select f1 + 'x' as f1 where key > ''", "fields", "modes"},
	{"select key, group_concat(value, 1) where key ^= 'a' group by key", "aggr", "aggr"}, {"select key, count(1), value where key ^= 'a' group by key", "aggr", "aggr"}, {"select key where key ^= 'a' group by key", "aggr", "aggr"},
	{"remove key", "remove", "write"}, {"remove upper(key)", "remove", "write"}, {"remove value", "remove", "write"}, {"put ('a', value)", "put", "write"}, {"put (key, 'v')", "put", "write"},
	{"select nosuch(key) where key = 'a'", "fields", "modes"}, {"select * where upper(key, key) = 'A'", "star", "modes"}, {"delete where strlen(key)", "delete", "write"}, {"select key where key = 'a' limit 1, 2, 3", "fields", "modes"},
	{"select key where key = 'a' order by value", "fields", "modes"}, {"select * where key = 1", "star", "modes"}, {"select sum(count(1)) where true", "aggr", "aggr"},
}

// runqSelect: a SELECT without aggregates
func runqSelect(r *Rand) runqStmt {
	var q, kind string
	var aliases []aliasInfo
	switch r.Intn(10) {
	case 0, 1, 2, 3:
		o := defaultOpts()
		o.OrderedBetween = r.Chance(3, 4)
		o.UpperCase = r.Chance(1, 8)
		g := NewGen(r, o)
		q = g.Select()
		aliases = g.aliases
	case 4, 5, 6:
		o := defaultOpts()
		o.OrderedBetween = true
		g := NewXGen(r, o)
		if r.Chance(1, 4) {
			g.Wild = 10
		}
		fs := g.XFields(1 + r.Intn(3))
		if r.Chance(1, 4) {
			fs = append(fs, pick(r, []string{"key", "value", "key", "upper(key)"}))
		}
		q = "select " + strings.Join(fs, ", ") + " where " + g.XBool(2)
		aliases = g.aliases
	case 7:
		q = pick(r, runqSpecial)
	case 8:
		q = pick(r, slimitQueries[:7]).q
		if r.Chance(1, 2) {
			q = pick(r, []string{slimitQueries[11].q, "select key, value where key in ('k03', 'k01', 'k09', 'k00') & int(value) > 3"})
		}
		return runqClauses(r, runqStmt{q: q, family: "slimit"}, nil, true)
	default:
		// ORDER shapes
		nf := 2 + r.Intn(3)
		var fs []orderField
		used := map[string]bool{}
		for len(fs) < nf {
			f := pick(r, orderFields)
			if !used[f.name] {
				used[f.name] = true
				fs = append(fs, f)
			}
		}
		var sel, ordTxt []string
		for _, f := range fs {
			if f.expr == "key" || f.expr == "value" {
				sel = append(sel, f.expr)
			} else {
				sel = append(sel, f.expr+" as "+f.name)
			}
		}
		for _, f := range fs {
			if nd := orderNeeds[f.name]; nd != "" {
				sel = append(sel, nd)
			}
		}
		where := pick(r, []string{"key >= ''", "key ^= 'a' | key ^= 'b' | key ^= 'k'", "is_int(value)", "value != 'x'", "key in ('a', 'b', 'k1', 'k2', 'zz')"})
		no := 1 + r.Intn(min(3, len(fs)))
		seen := map[int]bool{}
		for len(ordTxt) < no {
			i := r.Intn(len(fs))
			if seen[i] {
				continue
			}
			seen[i] = true
			t := fs[i].name
			if fs[i].expr == "key" {
				t = "key"
			} else if fs[i].expr == "value" {
				t = "value"
			}
			ordTxt = append(ordTxt, t+pick(r, []string{"", " asc", " desc"}))
		}
		q = "select " + strings.Join(sel, ", ") + " where " + where + " order by " + strings.Join(ordTxt, ", ")
		st := runqStmt{q: q, kind: "fields", family: "order", order: true}
		if r.Chance(1, 3) {
			st.q += runqLimitText(r)
			st.limit = true
		}
		return st
	}
	_ = kind
	return runqClauses(r, runqStmt{q: q, family: "modes"}, aliases, false)
}

func runqLimitText(r *Rand) string {
	if r.Chance(1, 3) {
		return fmt.Sprintf(" limit %d", r.Intn(7))
	}
	return fmt.Sprintf(" limit %d, %d", r.Intn(8), r.Intn(8))
}

// runqClauses adds ORDER BY / LIMIT and classifies the statement
func runqClauses(r *Rand, st runqStmt, aliases []aliasInfo, hasClauses bool) runqStmt {
	lq := strings.ToLower(strings.TrimSpace(st.q))
	if strings.HasPrefix(lq, "select *") || strings.HasPrefix(lq, "where") {
		st.kind = "star"
	} else {
		st.kind = "fields"
	}
	if strings.Contains(lq, " order by ") {
		st.order = true
		hasClauses = true
	}
	if !st.order && r.Chance(1, 4) {
		switch {
		case len(aliases) > 0 && r.Chance(3, 4):
			a := pick(r, aliases)
			if !strings.HasPrefix(a.typ, "list") {
				st.q += " order by " + a.name + pick(r, []string{"", " asc", " desc"})
				st.order = true
			}
		case strings.HasPrefix(lq, "select"):
			st.q += " order by " + pick(r, []string{"key", "key asc", "key desc", "value", "value desc", "value, key desc"})
			st.order = true
		}
	}
	if r.Chance(1, 4) {
		st.q += runqLimitText(r)
		st.limit = true
	}
	return st
}

// runqAggr: an aggregate statement (the shapes of the AGGR group), optionally ordered / limited
func runqAggr(r *Rand) runqStmt {
	if r.Chance(1, 8) {
		q := pick(r, []string{
			slimitQueries[7].q, slimitQueries[8].q, slimitQueries[9].q, slimitQueries[10].q,
			"select count(1) where key > 'zzz'", "select count(1), sum(int(value)) + 1 where true",
			"select key as k, sum(strlen(k)) as s where key ^= 'k' group by k",
			"select key as k, sum(strlen(k)) + strlen(k) as s where key >= 'a' group by k",
			"select key as k, upper(k) as u, count(1) + strlen(u) as s where key >= 'a' group by k, u",
			"select substr(key, 0, 1) as p, max(int(value)) * strlen(p) as m where is_int(value) group by p",
			"select value as v, group_concat(key, ',') + v as g where key >= '' group by v",
			"select key as k, count(1) + strlen(k) as c where key >= '' group by k order by c desc, k",
			"select substr(key, 0, 1) as p, count(1) * 2 + 1 as c, max(int(value)) - min(int(value)) as d where key >= '' group by p order by d desc, p",
			"select value, group_concat(key, '/') as ks where key >= '' group by value order by ks",
			"select is_int(value) as b, avg(strlen(value)) where key >= '' group by b",
			"select key, json_arrayagg(value) where key ^= 'k' group by key limit 1, 2",
			"select upper(substr(key, 0, 1)) as u, count(1) where key >= 'a' group by u limit 2",
		})
		st := runqStmt{q: q, kind: "aggr", family: "slimit", order: strings.Contains(q, " order by "), limit: strings.Contains(q, " limit ")}
		if !st.limit && r.Chance(1, 2) {
			st.q += runqLimitText(r)
			st.limit = true
		}
		return st
	}
	ng := r.Intn(4)
	var gs []orderField
	used := map[string]bool{}
	for len(gs) < ng {
		g := pick(r, aggrGroupExprs)
		if !used[g.name] {
			used[g.name] = true
			gs = append(gs, g)
		}
	}
	needInt, needFloat := false, false
	na := 1 + r.Intn(3)
	var sel, grp []string
	for _, g := range gs {
		if g.expr == "key" || g.expr == "value" {
			sel = append(sel, g.expr)
			grp = append(grp, g.expr)
		} else {
			sel = append(sel, g.expr+" as "+g.name)
			grp = append(grp, g.name)
		}
	}
	for i := 0; i < na; i++ {
		a := pick(r, aggrArgs)
		kind := pick(r, []string{"count", "sum", "min", "max", "avg", "concat", "arrayagg"})
		if a.typ == "mixed" {
			kind = pick(r, []string{"sum", "avg", "sum"})
			needFloat = true
		}
		if strings.Contains(a.expr, "(value)") && (strings.HasPrefix(a.expr, "int") || strings.HasPrefix(a.expr, "float")) {
			needInt = true
		}
		var call string
		switch kind {
		case "count":
			call = "count(1)"
		case "sum", "min", "max", "avg":
			call = kind + "(" + a.expr + ")"
		case "concat":
			call = "group_concat(" + pick(r, []string{"key", "value", a.expr}) + ", " + quote(pick(r, []string{",", "", "--"})) + ")"
		case "arrayagg":
			call = "json_arrayagg(" + pick(r, []string{"key", a.expr, "value"}) + ")"
		}
		if (kind == "sum" || kind == "count" || kind == "max") && r.Chance(1, 3) {
			call = "(" + call + pick(r, []string{" + 1", " * 2", " - 1", " / 2"}) + ")"
		}
		sel = append(sel, call+fmt.Sprintf(" as a%d", i))
	}
	where := pick(r, []string{"key >= ''", "key ^= 'a' | key ^= 'b' | key ^= 'k'", "value != 'c'"})
	if needFloat {
		where = "is_float(value)"
	}
	if needInt {
		where = "is_int(value)"
	}
	q := "select " + strings.Join(sel, ", ") + " where " + where
	if len(gs) > 0 {
		q += " group by " + strings.Join(grp, ", ")
	}
	st := runqStmt{q: q, kind: "aggr", family: "aggr"}
	if r.Chance(1, 4) {
		var t []string
		t = append(t, fmt.Sprintf("a%d", r.Intn(na))+pick(r, []string{"", " asc", " desc"}))
		if len(grp) > 0 && r.Bool() {
			t = append(t, grp[0]+pick(r, []string{"", " desc"}))
		}
		st.q += " order by " + strings.Join(t, ", ")
		st.order = true
	}
	if r.Chance(1, 3) {
		st.q += runqLimitText(r)
		st.limit = true
	}
	return st
}

// runqWrite: PUT / REMOVE / DELETE
func runqWrite(r *Rand) runqStmt {
	keyLit := func() string {
		return quote(pick(r, []string{"a", "ab", "b", "k1", "k2", "k00", "k03", "zz", "", "n1"}))
	}
	keyExpr := func() string {
		switch r.Intn(6) {
		case 0:
			return "upper(" + keyLit() + ")"
		case 1:
			return keyLit() + " + " + keyLit()
		case 2:
			return fmt.Sprint(r.Intn(30))
		case 3:
			return "str(" + fmt.Sprint(r.Intn(9)) + " + 1)"
		}
		return keyLit()
	}
	switch r.Intn(7) {
	case 0, 1:
		n := 1 + r.Intn(3)
		var ps []string
		for i := 0; i < n; i++ {
			v := pick(r, []string{"'v'", "'1'", "key", "upper(key)", "key + '-x'", "1 + 2", "str(strlen(key))", "3 * 0.5", "10 / (strlen(key) - 1)", "lower('AB')", "''"})
			ps = append(ps, "("+keyExpr()+", "+v+")")
		}
		return runqStmt{q: "put " + strings.Join(ps, ", "), kind: "put", family: "write"}
	case 2:
		n := 1 + r.Intn(3)
		var ks []string
		for i := 0; i < n; i++ {
			ks = append(ks, keyExpr())
		}
		return runqStmt{q: "remove " + strings.Join(ks, ", "), kind: "remove", family: "write"}
	}
	var pred string
	switch r.Intn(5) {
	case 0:
		pred = pick(r, []string{"key ^= 'k'", "int(value) != 5", "key in ('k03', 'k01', 'k02', 'k00', 'k05')", "key >= 'k01' & key <= 'k06'", "key = 'k02' | key = 'k04'",
			"key = 'k1' | (key = 'k2' & value = 'x')", "key in ('a', 'a', 'b')", "key = 'a'", "false", "key > 'a' & int(value) / (strlen(key) - 2) >= 0", "true", "key ^= 'a' | key ^= 'k'", "value = '2'", "key between 'a' and 'b1'"})
	case 1, 2:
		o := defaultOpts()
		o.Aliases = false
		o.OrderedBetween = true
		g := NewGen(r, o)
		pred = g.KeyAtom()
		if r.Bool() {
			pred += pick(r, []string{" | ", " & ", " or ", " and "}) + g.KeyAtom()
		}
	default:
		o := defaultOpts()
		o.Aliases = false
		o.OrderedBetween = true
		pred = NewGen(r, o).Bool(2)
	}
	st := runqStmt{q: "delete where " + pred, kind: "delete", family: "write"}
	if r.Chance(1, 2) {
		st.q += runqLimitText(r)
		st.limit = true
	}
	return st
}

func runqStatement(r *Rand) runqStmt {
	var st runqStmt
	switch n := r.Intn(22); {
	case n >= 20:
		d := pick(r, runqDirected)
		st = runqStmt{q: d.q, kind: d.kind, family: d.family, order: strings.Contains(d.q, " order by "), limit: strings.Contains(d.q, " limit ")}
		if (d.kind == "star" || d.kind == "fields" || d.kind == "aggr") && !st.limit && r.Chance(1, 5) {
			st.q += runqLimitText(r)
			st.limit = true
		}
	case n < 10:
		st = runqSelect(r)
	case n < 14:
		st = runqAggr(r)
	default:
		st = runqWrite(r)
	}
	if r.Chance(1, 12) {
		st.q = mutate(r, st.q)
		st.kind = "mutated"
	}
	return st
}

// ---------------------------------------------------------------- stores

var runqValues = []string{"1", "2", "10", "x", "", "7", "-4", "2.5", "abc", "a,b", "3", "0", "v", "12", "1.5"}

func runqStore(r *Rand, family string, size int) []KV {
	var pool []KV
	switch family {
	case "slimit":
		pool = slimitStore(min(size, 20))
	case "order":
		pool = orderStore(r, 12)
	case "aggr":
		pool = []KV{{"a", "bc"}, {"ab", "c"}, {"abc", ""}, {"a1", "2"}, {"a12", "2"}, {"b", "12"}, {"b1", "2"}, {"ba", "12"}, {"k1", "1"}, {"k12", "21"}, {"k2", "1"}, {"k21", "c"}, {"l", "7"}, {"m", "-3"}, {"p1", "0.5"}, {"p2", "1.5"}, {"p3", "-0.25"}}
	case "write":
		pool = []KV{{"a", "1"}, {"ab", "2"}, {"b", "x"}, {"k1", "3"}, {"k2", "x"}, {"k00", "5"}, {"k01", "2"}, {"k02", "9"}, {"k03", "5"}, {"k04", "1"}, {"k05", "0"}, {"k06", "4"}, {"n1", ""}, {"zz", "7"}, {"", "e"}, {"A", "up"}, {"K1", "up"}}
	default:
		pool = []KV{{"a", "1"}, {"a1", "x"}, {"ab", "2"}, {"abc", "10"}, {"b", ""}, {"b1", "7"}, {"ba", "abc"}, {"k1", "3"}, {"k2", "v"}, {"k3", "-4"}, {"l", "2.5"}, {"m", "0"}, {"n", "a,b"}, {"o", "1,2,3"}, {"p", "p"}, {"q1", "^q"}, {"r", "[0-9]"}, {"s5", "5$"}, {"ab1", "b"}, {"ab2", "^a"}, {"ab3", "3"}}
	}
	// shuffle
	for i := len(pool) - 1; i > 0; i-- {
		j := r.Intn(i + 1)
		pool[i], pool[j] = pool[j], pool[i]
	}
	var kvs []KV
	seen := map[string]bool{}
	for i := 0; i < size && i < len(pool); i++ {
		kvs = append(kvs, pool[i])
		seen[pool[i].K] = true
	}
	for i := 0; len(kvs) < size; i++ {
		k := fmt.Sprintf("%s%02d", pick(r, []string{"k", "a", "z", "b"}), i)
		if seen[k] {
			continue
		}
		seen[k] = true
		v := pick(r, runqValues)
		if family == "slimit" || family == "aggr" {
			v = fmt.Sprint((i*7 + 3) % 23)
		}
		kvs = append(kvs, KV{k, v})
	}
	return kvs
}

// ---------------------------------------------------------------- the group

func runRUNQ(e *Env) (*Summary, error) {
	start := time.Now()
	n := e.n(10000, 200000)
	bss := []int{1, 2, 3, 5, 32}
	rule := fmt.Sprintf("%d statements as text per batch size ∈ %v: typed SELECTs (Gen / XGen: scalar functions, lists, aliases referenced in WHERE and in other fields, IN / BETWEEN / regex, arithmetic, folding), the MODES / SLIMIT / ORDER / AGGR shapes with ORDER BY and LIMIT, aggregates with GROUP BY, PUT / REMOVE / DELETE [LIMIT], 1 in 12 mutated (rejected at plan time or not); stores of 0…3·bs+2 pairs; every statement in row and batch mode, field cache on and off: outcome class (plan-time errors with position), rows (canonical values), final store and storage-call log of the engine against Kvql.Run.runQuery; non-trivial when the statement succeeds with at least one row and either rejects a pair or writes; distinct by (statement, store, bs)", n, bss)
	col := NewCollector("RUNQ", e.Tier, e.Seed, rule)
	// at most 4 findings per (check, statement): one defect shows up in every store and mode
	var seenMu sync.Mutex
	seen := map[string]int{}
	find := func(f Finding, q string) {
		seenMu.Lock()
		seen[f.Check+"|"+q]++
		n := seen[f.Check+"|"+q]
		seenMu.Unlock()
		if n <= 4 {
			col.Find(f)
		} else {
			col.Hist("more-of:" + f.Kind + "/" + f.Check)
		}
	}
	saved := kvql.PlanBatchSize
	defer func() { kvql.PlanBatchSize = saved }()
	for _, bs := range bss {
		kvql.PlanBatchSize = bs
		err := e.parallel(func(w int, d *Driver) error {
			for ix := uint64(w); ix < uint64(n); ix += uint64(e.Workers) {
				r := NewRand(e.Seed, "RUNQ", ix*64+uint64(bs))
				st := runqStatement(r)
				size := r.Intn(3*bs + 3)
				if bs == 32 && r.Chance(2, 3) {
					size = r.Intn(40)
				}
				kvs := runqStore(r, st.family, size)
				for _, batch := range []bool{false, true} {
					var engOn string
					for _, cache := range []bool{true, false} {
						line := runqLine(st.q, kvs, batch, bs, cache)
						model, err := d.Ask(line)
						if err != nil {
							return err
						}
						col.Eval(1)
						mo := strings.SplitN(model, " ## ", 2)[0]
						if strings.HasPrefix(mo, "unsupported:") {
							col.Hist(mo)
							continue
						}
						eng, res := runqEngine(st.q, kvs, batch, cache)
						eo := strings.SplitN(eng, " ## ", 2)[0]
						// C05 on the engine alone: the field cache is invisible (outcome, rows, store, log)
						// (rows by CONTENT: a cached text may be a Go string where the evaluated one is a []byte)
						ec := strings.Replace(eng, " ## "+runqRows(res)+" ## ", " ## "+canonNaN(rowsContent(res.Rows))+" ## ", 1)
						if cache {
							engOn = ec
						} else if engOn != "" && engOn != ec && eo != "panic" && !strings.HasPrefix(engOn, "panic") {
							find(Finding{Kind: "property", Group: "RUNQ", Check: "cache-on-vs-off-" + st.kind,
								Case: fmt.Sprintf("%s  [store %v, batch size %d, batch=%v]", st.q, kvs, bs, batch),
								Line: runqLine(st.q, kvs, batch, bs, true), Engine: "cache on: " + engOn, Model: "cache off: " + ec, Seed: e.Seed, Index: ix, Properties: []string{"C05"}, Class: st.kind}, st.q)
						}
						col.Hist("kind:"+st.kind, "outcome:"+strings.SplitN(eo, "@", 2)[0])
						if eo == "ok" && len(res.Rows) > 0 && (len(res.Rows) < len(kvs) || st.kind == "put" || st.kind == "remove" || st.kind == "delete" || st.kind == "aggr") {
							col.Nontrivial(fmt.Sprintf("%s|%v|%d", st.q, kvs, bs))
						}
						if st.kind == "mutated" && strings.Contains(st.q, "~=") && !strings.HasPrefix(eo, "plan:") && !strings.HasPrefix(mo, "plan:") {
							// a mutated regular expression may leave the class Lib.lean's Regex models
							col.Hist("outside-domain:mutated-regex")
							continue
						}
						if eng != model {
							check := "statement"
							ep, mp := strings.Split(eng, " ## "), strings.Split(model, " ## ")
							if len(ep) == 4 && len(mp) == 4 {
								switch {
								case ep[0] != mp[0]:
									check = "outcome"
								case ep[1] != mp[1]:
									check = "rows"
								case ep[2] != mp[2]:
									check = "final-store"
								default:
									check = "call-log"
								}
							}
							find(Finding{Kind: "correspondence", Group: "RUNQ", Check: check + "-" + st.kind,
								Case: fmt.Sprintf("%s  [store %v, batch size %d, batch=%v, cache=%v]", st.q, kvs, bs, batch, cache),
								Line: line, Engine: eng, Model: model, Seed: e.Seed, Index: ix, Properties: st.props(), Class: st.kind}, st.q)
						}
					}
				}
				if ix%397 == 11 {
					col.Sample(st.q)
				}
			}
			return nil
		})
		if err != nil {
			return nil, err
		}
	}
	return col.Finish(start), nil
}
