package main

import (
	"fmt"
	"strconv"
	"strings"
	"time"

	"github.com/c4pt0r/kvql"
)

// ---- stub children: hand out numbered rows in prescribed chunks

type stubFinal struct {
	chunks [][]int // remaining chunks for Batch
	flat   []int   // remaining rows for Next
	calls  int
}

func (s *stubFinal) String() string             { return "stub" }
func (s *stubFinal) Explain() []string          { return []string{"stub"} }
func (s *stubFinal) Init() error                { return nil }
func (s *stubFinal) FieldNameList() []string    { return []string{"n"} }
func (s *stubFinal) FieldTypeList() []kvql.Type { return []kvql.Type{kvql.TNUMBER} }
func (s *stubFinal) Next(ctx *kvql.ExecuteCtx) ([]kvql.Column, error) {
	s.calls++
	if len(s.flat) == 0 {
		return nil, nil
	}
	r := s.flat[0]
	s.flat = s.flat[1:]
	return []kvql.Column{int64(r)}, nil
}
func (s *stubFinal) Batch(ctx *kvql.ExecuteCtx) ([][]kvql.Column, error) {
	s.calls++
	if len(s.chunks) == 0 {
		return nil, nil
	}
	c := s.chunks[0]
	s.chunks = s.chunks[1:]
	ret := make([][]kvql.Column, len(c))
	for i, r := range c {
		ret[i] = []kvql.Column{int64(r)}
	}
	return ret, nil
}

type stubPlan struct {
	chunks [][]int
	flat   []int
}

func rowKey(r int) []byte { return []byte(fmt.Sprintf("k%05d", r)) }

func (s *stubPlan) String() string    { return "stub" }
func (s *stubPlan) Explain() []string { return []string{"stub"} }
func (s *stubPlan) Init() error       { return nil }
func (s *stubPlan) Next(ctx *kvql.ExecuteCtx) ([]byte, []byte, error) {
	if len(s.flat) == 0 {
		return nil, nil, nil
	}
	r := s.flat[0]
	s.flat = s.flat[1:]
	return rowKey(r), []byte("v"), nil
}
func (s *stubPlan) Batch(ctx *kvql.ExecuteCtx) ([]kvql.KVPair, error) {
	if len(s.chunks) == 0 {
		return nil, nil
	}
	c := s.chunks[0]
	s.chunks = s.chunks[1:]
	ret := make([]kvql.KVPair, len(c))
	for i, r := range c {
		ret[i] = kvql.NewKVP(rowKey(r), []byte("v"))
	}
	return ret, nil
}

func mkChunks(sizes []int) (chunks [][]int, flat []int) {
	n := 0
	for _, sz := range sizes {
		c := make([]int, sz)
		for i := range c {
			c[i] = n
			flat = append(flat, n)
			n++
		}
		chunks = append(chunks, c)
	}
	return
}

func showRows(rs []int) string {
	p := make([]string, len(rs))
	for i, r := range rs {
		p[i] = strconv.Itoa(r)
	}
	return strings.Join(p, ",")
}

func showBatches(bs [][]int) string {
	if len(bs) == 0 {
		return "-"
	}
	p := make([]string, len(bs))
	for i, b := range bs {
		p[i] = showRows(b)
	}
	return strings.Join(p, "|")
}

const drainCap = 100000

// drainFinal drains a FinalPlan whose rows carry an int64 in column `col`
func drainFinal(p kvql.FinalPlan, batch bool, conv func([]kvql.Column) int) string {
	out, _ := safely(func() string {
		ctx := kvql.NewExecuteCtx()
		if batch {
			var bs [][]int
			for i := 0; i < drainCap; i++ {
				rows, err := p.Batch(ctx)
				if err != nil {
					return "error: " + err.Error()
				}
				if len(rows) == 0 {
					return showBatches(bs)
				}
				b := make([]int, len(rows))
				for j, r := range rows {
					b[j] = conv(r)
				}
				bs = append(bs, b)
			}
			return "no-termination"
		}
		var rs []int
		for i := 0; i < drainCap; i++ {
			row, err := p.Next(ctx)
			if err != nil {
				return "error: " + err.Error()
			}
			if row == nil {
				if len(rs) == 0 {
					return "-"
				}
				return showRows(rs)
			}
			rs = append(rs, conv(row))
		}
		return "no-termination"
	})
	return out
}

func keyRow(k []byte) int {
	n, _ := strconv.Atoi(strings.TrimPrefix(string(k), "k"))
	return n
}

func drainPlan(p kvql.Plan, batch bool) string {
	out, _ := safely(func() string {
		ctx := kvql.NewExecuteCtx()
		if batch {
			var bs [][]int
			for i := 0; i < drainCap; i++ {
				rows, err := p.Batch(ctx)
				if err != nil {
					return "error: " + err.Error()
				}
				if len(rows) == 0 {
					return showBatches(bs)
				}
				b := make([]int, len(rows))
				for j, r := range rows {
					b[j] = keyRow(r.Key)
				}
				bs = append(bs, b)
			}
			return "no-termination"
		}
		var rs []int
		for i := 0; i < drainCap; i++ {
			k, v, err := p.Next(ctx)
			if err != nil {
				return "error: " + err.Error()
			}
			if k == nil && v == nil {
				if len(rs) == 0 {
					return "-"
				}
				return showRows(rs)
			}
			rs = append(rs, keyRow(k))
		}
		return "no-termination"
	})
	return out
}

func flattenBatches(s string) string {
	if s == "-" {
		return "-"
	}
	return strings.ReplaceAll(s, "|", ",")
}

var aggrLimitStmt *kvql.SelectStmt

func aggrStmt() *kvql.SelectStmt {
	// a fresh statement per use: AggregatePlan writes results into the call nodes
	st, err := kvql.NewParser("select key, count(1) where true group by key").Parse()
	if err != nil {
		panic(err)
	}
	return st.(*kvql.SelectStmt)
}

// limitOne runs the three Go copies of the limit state machine on one configuration.
func limitOne(col *Collector, d *Driver, start, count, bs int, sizes []int, seed, idx uint64) error {
	chunks, flat := mkChunks(sizes)
	szs := make([]string, len(sizes))
	for i, s := range sizes {
		szs[i] = strconv.Itoa(s)
	}
	chs := strings.Join(szs, ",")
	if len(sizes) == 0 {
		chs = "-"
	}
	for _, mode := range []string{"batch", "next"} {
		line := fmt.Sprintf("LIMIT %s %d %d %d %s", mode, start, count, bs, chs)
		resp, err := d.Ask(line)
		if err != nil {
			return err
		}
		parts := strings.SplitN(resp, " ## ", 2)
		if len(parts) != 2 {
			return fmt.Errorf("bad driver answer %q to %q", resp, line)
		}
		model, spec := parts[0], parts[1]
		batch := mode == "batch"
		cp := func() ([][]int, []int) {
			c2 := make([][]int, len(chunks))
			copy(c2, chunks)
			f2 := make([]int, len(flat))
			copy(f2, flat)
			return c2, f2
		}
		// 1. FinalLimitPlan over a stub FinalPlan
		c1, f1 := cp()
		fl := &kvql.FinalLimitPlan{Start: start, Count: count, ChildPlan: &stubFinal{chunks: c1, flat: f1}}
		fl.Init()
		eng1 := drainFinal(fl, batch, func(r []kvql.Column) int { return int(r[0].(int64)) })
		// 2. LimitPlan over a stub Plan
		c2, f2 := cp()
		lp := &kvql.LimitPlan{Start: start, Count: count, ChildPlan: &stubPlan{chunks: c2, flat: f2}}
		lp.Init()
		eng2 := drainPlan(lp, batch)
		col.Eval(2)
		cs := fmt.Sprintf("limit %d,%d bs=%d mode=%s child chunks=[%s]", start, count, bs, mode, chs)
		total := len(flat)
		if start > 0 && start < total {
			col.Nontrivial(fmt.Sprintf("%d/%d/%d/%s/%s", start, count, bs, chs, mode))
		}
		for i, eng := range []string{eng1, eng2} {
			name := []string{"FinalLimitPlan", "LimitPlan"}[i]
			if eng != model {
				col.Find(Finding{Kind: "correspondence", Group: "LIMIT", Check: name + "-vs-model", Case: cs, Line: line, Engine: eng, Model: model, Seed: seed, Index: idx})
			}
			if flattenBatches(eng) != spec {
				col.Find(Finding{Kind: "property", Group: "LIMIT", Check: name + "-vs-take-drop", Case: cs, Line: line, Engine: eng, Model: spec, Seed: seed, Index: idx,
					Properties: []string{"C08", "C03"}})
			}
		}
	}
	// 3. the limit pushed into AggregatePlan: its "child" is the list of groups in chunks of bs
	n := 0
	for _, s := range sizes {
		n += s
	}
	var asz []string
	for r := n; r > 0; r -= bs {
		asz = append(asz, strconv.Itoa(min(r, bs)))
	}
	achs := strings.Join(asz, ",")
	if n == 0 {
		achs = "-"
	}
	for _, mode := range []string{"batch", "next"} {
		line := fmt.Sprintf("LIMIT %s %d %d %d %s", mode, start, count, bs, achs)
		resp, err := d.Ask(line)
		if err != nil {
			return err
		}
		parts := strings.SplitN(resp, " ## ", 2)
		model, spec := parts[0], parts[1]
		st := aggrStmt()
		c3 := make([][]int, len(chunks))
		copy(c3, chunks)
		f3 := make([]int, len(flat))
		copy(f3, flat)
		ap := &kvql.AggregatePlan{ChildPlan: &stubPlan{chunks: c3, flat: f3}, FieldNames: st.FieldNames, FieldTypes: st.FieldTypes, Fields: st.Fields,
			GroupByFields: st.GroupBy.Fields, AggrAll: false, Limit: count, Start: start}
		var eng string
		if err := ap.Init(); err != nil {
			eng = "error: " + err.Error()
		} else {
			eng = drainFinal(ap, mode == "batch", func(r []kvql.Column) int { return keyRow(r[0].([]byte)) })
		}
		col.Eval(1)
		cs := fmt.Sprintf("aggregate limit %d,%d bs=%d mode=%s groups=%d child chunks=[%s]", start, count, bs, mode, n, chs)
		if eng != model {
			col.Find(Finding{Kind: "correspondence", Group: "LIMIT", Check: "AggregatePlan-vs-model", Case: cs, Line: line, Engine: eng, Model: model, Seed: seed, Index: idx})
		}
		if flattenBatches(eng) != spec {
			col.Find(Finding{Kind: "property", Group: "LIMIT", Check: "AggregatePlan-vs-take-drop", Case: cs, Line: line, Engine: eng, Model: spec, Seed: seed, Index: idx,
				Properties: []string{"C08", "C03"}})
		}
	}
	return nil
}

func runLIMIT(e *Env) (*Summary, error) {
	start := time.Now()
	bss := []int{1, 2, 3}
	maxSize := 10
	if e.Tier == "thorough" {
		bss = []int{1, 2, 3, 5}
		maxSize = 16
	}
	nRandom := e.n(3000, 60000)
	rule := fmt.Sprintf("exhaustive grid: batch size ∈ %v × offset 0..2bs+1 × count 0..2bs+1 × result size 0..min(3bs+1,%d), the child handing its rows out in chunks of bs (what a scan does) and in every other chunking of up to 3 chunk sizes ≤ bs+1; plus %d random (offset, count, chunking) with chunk sizes 1..2bs and up to 8 chunks; each configuration runs FinalLimitPlan, LimitPlan and the limit inside AggregatePlan in both modes; non-trivial when 0 < offset < result size; distinct by configuration", bss, maxSize, nRandom)
	col := NewCollector("LIMIT", e.Tier, e.Seed, rule)
	col.sum.Exhaustive = true
	saved := kvql.PlanBatchSize
	defer func() { kvql.PlanBatchSize = saved }()
	for _, bs := range bss {
		kvql.PlanBatchSize = bs // global: every worker of this phase uses the same value
		type cfg struct {
			s, n  int
			sizes []int
		}
		var cfgs []cfg
		for s := 0; s <= 2*bs+1; s++ {
			for n := 0; n <= 2*bs+1; n++ {
				for size := 0; size <= min(3*bs+1, maxSize); size++ {
					var sizes []int
					for r := size; r > 0; r -= bs {
						sizes = append(sizes, min(r, bs))
					}
					cfgs = append(cfgs, cfg{s, n, sizes})
				}
				// every chunking with up to 3 chunks of size 1..bs+1
				for a := 1; a <= bs+1; a++ {
					cfgs = append(cfgs, cfg{s, n, []int{a}})
					for b := 1; b <= bs+1; b++ {
						cfgs = append(cfgs, cfg{s, n, []int{a, b}})
						for c := 1; c <= bs+1; c++ {
							cfgs = append(cfgs, cfg{s, n, []int{a, b, c}})
						}
					}
				}
			}
		}
		for i := 0; i < nRandom/len(bss); i++ {
			r := NewRand(e.Seed, "LIMIT", uint64(i*8+bs))
			nc := r.Intn(9)
			sizes := make([]int, nc)
			tot := 0
			for j := range sizes {
				sizes[j] = 1 + r.Intn(2*bs)
				tot += sizes[j]
			}
			cfgs = append(cfgs, cfg{r.Intn(tot + 3), r.Intn(tot + 3), sizes})
		}
		err := e.parallel(func(w int, d *Driver) error {
			for i := w; i < len(cfgs); i += e.Workers {
				c := cfgs[i]
				if err := limitOne(col, d, c.s, c.n, bs, c.sizes, e.Seed, uint64(i)); err != nil {
					return err
				}
				if i%1777 == 11 {
					col.Sample(fmt.Sprintf("limit %d,%d bs=%d chunks=%v", c.s, c.n, bs, c.sizes))
				}
			}
			return nil
		})
		if err != nil {
			return nil, err
		}
	}
	return col.Finish(start), nil
}

func init() { groups["LIMIT"] = runLIMIT }
