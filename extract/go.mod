module kvqlextract

go 1.21
