package main

import (
	"bytes"
	"fmt"
	"go/ast"
	"go/printer"
	"go/token"
	"sort"
	"strings"
)

func nodeText(p *pkgInfo, n ast.Node) string {
	var b bytes.Buffer
	printer.Fprint(&b, p.fset, n)
	return strings.Join(strings.Fields(b.String()), " ")
}

var storageMethods = map[string]bool{
	"Get": true, "Put": true, "BatchPut": true, "Delete": true, "BatchDelete": true,
	"Cursor": true, "Seek": true, "Next": true, "Batch": true, "Init": true,
}

// receiverKind classifies the receiver expression of a call syntactically.
func receiverKind(e ast.Expr) string {
	switch v := e.(type) {
	case *ast.SelectorExpr:
		switch v.Sel.Name {
		case "Storage", "storage":
			return "storage"
		case "iter":
			return "cursor"
		case "ChildPlan":
			return "child"
		}
	case *ast.Ident:
		switch v.Name {
		case "plan", "removePlan", "delPlan", "ret":
			return "plan"
		}
	}
	return ""
}

type site struct {
	fn, recv, method, handling string
}

// errHandling: "returned" (call is inside a return statement), "checked" (assigned
// to err and the next statement is `if err != nil { return …, err }`), "unchecked".
func errHandling(block []ast.Stmt, idx int, call *ast.CallExpr) string {
	st := block[idx]
	switch s := st.(type) {
	case *ast.ReturnStmt:
		return "returned"
	case *ast.AssignStmt:
		if len(s.Lhs) == 0 {
			return "unchecked"
		}
		last, ok := s.Lhs[len(s.Lhs)-1].(*ast.Ident)
		if !ok || last.Name != "err" {
			return "unchecked"
		}
		if idx+1 >= len(block) {
			return "unchecked"
		}
		if rs, ok := block[idx+1].(*ast.ReturnStmt); ok && len(rs.Results) > 0 {
			if id, ok := rs.Results[len(rs.Results)-1].(*ast.Ident); ok && id.Name == "err" {
				return "returned"
			}
		}
		ifs, ok := block[idx+1].(*ast.IfStmt)
		if !ok || ifs.Init != nil {
			return "unchecked"
		}
		be, ok := ifs.Cond.(*ast.BinaryExpr)
		if !ok || be.Op != token.NEQ {
			return "unchecked"
		}
		if id, ok := be.X.(*ast.Ident); !ok || id.Name != "err" {
			return "unchecked"
		}
		if id, ok := be.Y.(*ast.Ident); !ok || id.Name != "nil" {
			return "unchecked"
		}
		if len(ifs.Body.List) != 1 {
			return "unchecked"
		}
		rs, ok := ifs.Body.List[0].(*ast.ReturnStmt)
		if !ok || len(rs.Results) == 0 {
			return "unchecked"
		}
		if id, ok := rs.Results[len(rs.Results)-1].(*ast.Ident); !ok || id.Name != "err" {
			return "unchecked"
		}
		return "checked"
	}
	return "unchecked"
}

func collectSites(p *pkgInfo) []site {
	var ret []site
	var names []string
	for k := range p.funcs {
		names = append(names, k)
	}
	sort.Strings(names)
	for _, fn := range names {
		fd := p.funcs[fn]
		if fd.Body == nil {
			continue
		}
		var walkBlock func(list []ast.Stmt)
		walkStmtChildren := func(s ast.Stmt) {
			ast.Inspect(s, func(n ast.Node) bool {
				switch b := n.(type) {
				case *ast.BlockStmt:
					walkBlock(b.List)
					return false
				case *ast.CaseClause:
					walkBlock(b.Body)
					return false
				case *ast.CommClause:
					walkBlock(b.Body)
					return false
				case *ast.FuncLit:
					walkBlock(b.Body.List)
					return false
				}
				return true
			})
		}
		walkBlock = func(list []ast.Stmt) {
			for i, st := range list {
				// calls directly inside this statement (not inside nested blocks)
				ast.Inspect(st, func(n ast.Node) bool {
					switch c := n.(type) {
					case *ast.BlockStmt, *ast.CaseClause, *ast.CommClause, *ast.FuncLit:
						return false
					case *ast.CallExpr:
						if se, ok := c.Fun.(*ast.SelectorExpr); ok && storageMethods[se.Sel.Name] {
							if rk := receiverKind(se.X); rk != "" {
								ret = append(ret, site{fn, rk, se.Sel.Name, errHandling(list, i, c)})
							}
						}
					}
					return true
				})
				// an `if x := call(); cond {` init is part of st above; now nested blocks
				switch s := st.(type) {
				case *ast.BlockStmt:
					walkBlock(s.List)
				default:
					// visit nested blocks of this statement
					ast.Inspect(st, func(n ast.Node) bool {
						if n == st {
							return true
						}
						switch b := n.(type) {
						case *ast.BlockStmt:
							walkBlock(b.List)
							return false
						case *ast.CaseClause:
							walkBlock(b.Body)
							return false
						case *ast.CommClause:
							walkBlock(b.Body)
							return false
						case *ast.FuncLit:
							walkBlock(b.Body.List)
							return false
						}
						return true
					})
				}
			}
		}
		_ = walkStmtChildren
		walkBlock(fd.Body.List)
	}
	return ret
}

// ---------------------------------------------------------------- globals

func pkgVars(p *pkgInfo) map[string]string {
	ret := map[string]string{}
	for fname, f := range p.files {
		for _, d := range f.Decls {
			gd, ok := d.(*ast.GenDecl)
			if !ok || gd.Tok != token.VAR {
				continue
			}
			for _, s := range gd.Specs {
				vs := s.(*ast.ValueSpec)
				for _, n := range vs.Names {
					if n.Name != "_" {
						ret[n.Name] = fname
					}
				}
			}
		}
	}
	return ret
}

func rootIdent(e ast.Expr) *ast.Ident {
	for {
		switch v := e.(type) {
		case *ast.Ident:
			return v
		case *ast.SelectorExpr:
			e = v.X
		case *ast.IndexExpr:
			e = v.X
		case *ast.StarExpr:
			e = v.X
		case *ast.ParenExpr:
			e = v.X
		case *ast.SliceExpr:
			e = v.X
		default:
			return nil
		}
	}
}

type gwrite struct{ fn, variable, how string }

func collectGlobalWrites(p *pkgInfo) []gwrite {
	vars := pkgVars(p)
	isGlobal := func(id *ast.Ident) bool {
		if id == nil {
			return false
		}
		if _, ok := vars[id.Name]; !ok {
			return false
		}
		if id.Obj == nil {
			return true // resolved at package level in another file
		}
		// declared in this file: package-level iff its declaration is a ValueSpec of a top-level GenDecl;
		// local variables have Obj.Decl of kind AssignStmt / ValueSpec inside a function, detected by position
		switch d := id.Obj.Decl.(type) {
		case *ast.ValueSpec:
			for _, f := range p.files {
				for _, decl := range f.Decls {
					if gd, ok := decl.(*ast.GenDecl); ok {
						for _, s := range gd.Specs {
							if s == d {
								return true
							}
						}
					}
				}
			}
		}
		return false
	}
	var ret []gwrite
	var names []string
	for k := range p.funcs {
		names = append(names, k)
	}
	sort.Strings(names)
	for _, fn := range names {
		fd := p.funcs[fn]
		if fd.Body == nil {
			continue
		}
		ast.Inspect(fd.Body, func(n ast.Node) bool {
			switch s := n.(type) {
			case *ast.AssignStmt:
				for _, l := range s.Lhs {
					if id := rootIdent(l); isGlobal(id) {
						how := "assign"
						if _, ok := l.(*ast.IndexExpr); ok {
							how = "index-assign"
						}
						ret = append(ret, gwrite{fn, id.Name, how})
					}
				}
			case *ast.IncDecStmt:
				if id := rootIdent(s.X); isGlobal(id) {
					ret = append(ret, gwrite{fn, id.Name, "incdec"})
				}
			case *ast.CallExpr:
				if f, ok := s.Fun.(*ast.Ident); ok && (f.Name == "delete" || f.Name == "clear") && len(s.Args) > 0 {
					if id := rootIdent(s.Args[0]); isGlobal(id) {
						ret = append(ret, gwrite{fn, id.Name, f.Name})
					}
				}
			case *ast.UnaryExpr:
				if s.Op == token.AND {
					if id := rootIdent(s.X); isGlobal(id) {
						ret = append(ret, gwrite{fn, id.Name, "address-of"})
					}
				}
			}
			return true
		})
	}
	return ret
}

// ---------------------------------------------------------------- partial operations

type partialCount struct {
	fn                              string
	index, slice, assert, div, star int
}

func collectPartials(p *pkgInfo) []partialCount {
	var ret []partialCount
	var names []string
	for k := range p.funcs {
		names = append(names, k)
	}
	sort.Strings(names)
	for _, fn := range names {
		fd := p.funcs[fn]
		if fd.Body == nil {
			continue
		}
		pc := partialCount{fn: fn}
		commaOK := map[*ast.TypeAssertExpr]bool{}
		ast.Inspect(fd.Body, func(n ast.Node) bool {
			switch s := n.(type) {
			case *ast.AssignStmt:
				if len(s.Lhs) == 2 && len(s.Rhs) == 1 {
					if ta, ok := s.Rhs[0].(*ast.TypeAssertExpr); ok {
						commaOK[ta] = true
					}
				}
			case *ast.ValueSpec:
				if len(s.Names) == 2 && len(s.Values) == 1 {
					if ta, ok := s.Values[0].(*ast.TypeAssertExpr); ok {
						commaOK[ta] = true
					}
				}
			case *ast.TypeSwitchStmt:
				// x.(type) never panics
				ast.Inspect(s.Assign, func(m ast.Node) bool {
					if ta, ok := m.(*ast.TypeAssertExpr); ok && ta.Type == nil {
						commaOK[ta] = true
					}
					return true
				})
			}
			return true
		})
		ast.Inspect(fd.Body, func(n ast.Node) bool {
			switch s := n.(type) {
			case *ast.IndexExpr:
				pc.index++
			case *ast.SliceExpr:
				pc.slice++
			case *ast.TypeAssertExpr:
				if !commaOK[s] {
					pc.assert++
				}
			case *ast.BinaryExpr:
				if s.Op == token.QUO || s.Op == token.REM {
					pc.div++
				}
			}
			return true
		})
		if pc.index+pc.slice+pc.assert+pc.div > 0 {
			ret = append(ret, pc)
		}
	}
	return ret
}

// partialTotals: the partial operations of the whole package that no syntactic pattern shows to be safe.
// Not counted: `args[<literal>]` (the arity theorem funcTable_arity covers them), `x[i]` inside a loop
// `for i := range x` / `for i := …; i < len(x); i++` over the same `x`, and lookups in identifiers that
// are declared as maps (a map lookup never panics).  The obligation in Lean is an upper bound, so moving
// code between functions, extracting helpers or merging duplicated branches does not disturb it; an
// ADDED unguarded index, slice, type assertion or division does.
func collectPartialTotals(p *pkgInfo) (index, slice, assert, div int) {
	maps := map[string]bool{}
	isMapExpr := func(e ast.Expr) bool {
		switch x := e.(type) {
		case *ast.CompositeLit:
			_, ok := x.Type.(*ast.MapType)
			return ok
		case *ast.CallExpr:
			if id, ok := x.Fun.(*ast.Ident); ok && id.Name == "make" && len(x.Args) > 0 {
				_, ok := x.Args[0].(*ast.MapType)
				return ok
			}
		}
		return false
	}
	for _, f := range p.files {
		ast.Inspect(f, func(n ast.Node) bool {
			switch s := n.(type) {
			case *ast.ValueSpec:
				if _, ok := s.Type.(*ast.MapType); ok {
					for _, nm := range s.Names {
						maps[nm.Name] = true
					}
				}
				for i, v := range s.Values {
					if i < len(s.Names) && isMapExpr(v) {
						maps[s.Names[i].Name] = true
					}
				}
			case *ast.AssignStmt:
				for i, v := range s.Rhs {
					if i < len(s.Lhs) && isMapExpr(v) {
						if id, ok := s.Lhs[i].(*ast.Ident); ok {
							maps[id.Name] = true
						}
					}
				}
			case *ast.Field:
				if _, ok := s.Type.(*ast.MapType); ok {
					for _, nm := range s.Names {
						maps[nm.Name] = true
					}
				}
			}
			return true
		})
	}
	var names []string
	for k := range p.funcs {
		names = append(names, k)
	}
	sort.Strings(names)
	for _, fn := range names {
		fd := p.funcs[fn]
		if fd.Body == nil {
			continue
		}
		commaOK := map[*ast.TypeAssertExpr]bool{}
		safeIdx := map[*ast.IndexExpr]bool{}
		ast.Inspect(fd.Body, func(n ast.Node) bool {
			switch s := n.(type) {
			case *ast.AssignStmt:
				if len(s.Lhs) == 2 && len(s.Rhs) == 1 {
					if ta, ok := s.Rhs[0].(*ast.TypeAssertExpr); ok {
						commaOK[ta] = true
					}
					if ix, ok := s.Rhs[0].(*ast.IndexExpr); ok {
						safeIdx[ix] = true // v, ok := m[k]: only maps have this form
					}
				}
			case *ast.ValueSpec:
				if len(s.Names) == 2 && len(s.Values) == 1 {
					if ta, ok := s.Values[0].(*ast.TypeAssertExpr); ok {
						commaOK[ta] = true
					}
				}
			case *ast.TypeSwitchStmt:
				ast.Inspect(s.Assign, func(m ast.Node) bool {
					if ta, ok := m.(*ast.TypeAssertExpr); ok && ta.Type == nil {
						commaOK[ta] = true
					}
					return true
				})
			case *ast.RangeStmt:
				if id, ok := s.Key.(*ast.Ident); ok && id.Name != "_" {
					base := nodeText(p, s.X)
					ast.Inspect(s.Body, func(m ast.Node) bool {
						if ix, ok := m.(*ast.IndexExpr); ok {
							if k, ok := ix.Index.(*ast.Ident); ok && k.Name == id.Name && nodeText(p, ix.X) == base {
								safeIdx[ix] = true
							}
						}
						return true
					})
				}
			case *ast.ForStmt:
				// for i := …; i < len(x); i++ { … x[i] … }
				if be, ok := s.Cond.(*ast.BinaryExpr); ok && be.Op == token.LSS {
					if id, ok := be.X.(*ast.Ident); ok {
						if call, ok := be.Y.(*ast.CallExpr); ok && len(call.Args) == 1 {
							if fnid, ok := call.Fun.(*ast.Ident); ok && fnid.Name == "len" {
								base := nodeText(p, call.Args[0])
								ast.Inspect(s.Body, func(m ast.Node) bool {
									if ix, ok := m.(*ast.IndexExpr); ok {
										if k, ok := ix.Index.(*ast.Ident); ok && k.Name == id.Name && nodeText(p, ix.X) == base {
											safeIdx[ix] = true
										}
									}
									return true
								})
							}
						}
					}
				}
			}
			return true
		})
		ast.Inspect(fd.Body, func(n ast.Node) bool {
			switch s := n.(type) {
			case *ast.IndexExpr:
				if safeIdx[s] {
					return true
				}
				if id, ok := s.X.(*ast.Ident); ok {
					if maps[id.Name] {
						return true
					}
					if lit, ok := s.Index.(*ast.BasicLit); ok && lit.Kind == token.INT && id.Name == "args" {
						return true
					}
				}
				if sel, ok := s.X.(*ast.SelectorExpr); ok && maps[sel.Sel.Name] {
					return true
				}
				index++
			case *ast.SliceExpr:
				slice++
			case *ast.TypeAssertExpr:
				if !commaOK[s] {
					assert++
				}
			case *ast.BinaryExpr:
				if s.Op == token.QUO || s.Op == token.REM {
					div++
				}
			}
			return true
		})
	}
	return
}

func genInventory(p *pkgInfo) string {
	var b strings.Builder
	b.WriteString("/- GENERATED by /verif/extract from the Go sources of /repo — do not edit. -/\n")
	b.WriteString("namespace Kvql.Generated\n\n")
	b.WriteString("/-- every call of a Storage / Cursor / child-plan method: (function, receiver kind, method, error handling) -/\n")
	b.WriteString("def storageSites : List (String × String × String × String) := [\n")
	sites := collectSites(p)
	for i, s := range sites {
		sep := ","
		if i == len(sites)-1 {
			sep = ""
		}
		fmt.Fprintf(&b, "  (%s, %s, %s, %s)%s\n", leanStr(s.fn), leanStr(s.recv), leanStr(s.method), leanStr(s.handling), sep)
	}
	b.WriteString("]\n\n")

	b.WriteString("/-- package-level variables (name, file) -/\n")
	vars := pkgVars(p)
	var vn []string
	for k := range vars {
		vn = append(vn, k)
	}
	sort.Strings(vn)
	b.WriteString("def packageVars : List (String × String) := [")
	for i, k := range vn {
		if i > 0 {
			b.WriteString(", ")
		}
		fmt.Fprintf(&b, "(%s, %s)", leanStr(k), leanStr(vars[k]))
	}
	b.WriteString("]\n\n")
	b.WriteString("/-- every write to (or address-of) a package-level variable inside a function: (function, variable, how) -/\n")
	b.WriteString("def globalWrites : List (String × String × String) := [\n")
	gws := collectGlobalWrites(p)
	for i, g := range gws {
		sep := ","
		if i == len(gws)-1 {
			sep = ""
		}
		fmt.Fprintf(&b, "  (%s, %s, %s)%s\n", leanStr(g.fn), leanStr(g.variable), leanStr(g.how), sep)
	}
	b.WriteString("]\n\n")

	b.WriteString("/-- per function: number of index, slice, non-comma-ok type-assertion and integer-or-float `/ %` expressions -/\n")
	b.WriteString("def partialOps : List (String × Nat × Nat × Nat × Nat) := [\n")
	pcs := collectPartials(p)
	for i, c := range pcs {
		sep := ","
		if i == len(pcs)-1 {
			sep = ""
		}
		fmt.Fprintf(&b, "  (%s, %d, %d, %d, %d)%s\n", leanStr(c.fn), c.index, c.slice, c.assert, c.div, sep)
	}
	b.WriteString("]\n\n")
	ti, ts, ta, td := collectPartialTotals(p)
	b.WriteString("/-- package totals of the partial operations no syntactic pattern shows to be safe: (index, slice, type assertion, `/ %`) -/\n")
	fmt.Fprintf(&b, "def partialTotals : Nat × Nat × Nat × Nat := (%d, %d, %d, %d)\n", ti, ts, ta, td)
	b.WriteString("\nend Kvql.Generated\n")
	return b.String()
}
