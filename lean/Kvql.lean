import Kvql.Generated.Tables
import Kvql.Generated.Inventory
import Kvql.Model.Bytes
import Kvql.Model.Lexer
import Kvql.Spec.Lex
import Kvql.Model.Errors
import Kvql.Model.Limit
