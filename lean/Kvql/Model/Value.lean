/-
  Run-time values of the two evaluators (`any` in Go) and the error classes.

  One constructor per Go dynamic type that the evaluators can produce:
    []byte / string             `bytes` / `str`          (key, value, literals, batch `+` / functions, row `+`)
    int64 / int                 `int` / `goInt`          (`len()` returns Go `int`)
    float64, bool, nil          `float`, `bool`, `nil`   (nil: JSON null)
    []string / []int64 / []float64 / []any   `strList` / `intList` / `floatList` / `anyList`
    JSON and map[string]any     `json` (association list sorted by key, keys distinct; the two Go
                                types behave alike in every type switch of the evaluators)
    []Expression                `exprList` (`ListExpr.Execute` returns the expression list itself)

  `Value.canon` is character for character harness/store.go `canonValue`.
-/
import Kvql.Model.Expr
import Kvql.Model.ByteOrder

namespace Kvql

inductive Value
  | bytes (b : Bytes) | str (b : Bytes)
  | int (i : Int64) | goInt (i : Int64)
  | float (f : F64) | bool (b : Bool) | nil
  | strList (l : List Bytes) | intList (l : List Int64) | floatList (l : List F64)
  | anyList (l : List Value) | json (m : List (Bytes × Value)) | exprList (l : List Expr)
deriving Inhabited

/-- error classes (never message text).  The Go-side classifier is harness/eval.go `evalErrClass`. -/
inductive Err
  | operandType            -- "... has wrong type", "Invalid operator … parameter type", "require … type", …
  | data                   -- divide by zero, between boundary, regexp, length mismatch, number syntax in a list
  | unknownFunc            -- SyntaxError "Cannot find function"
  | arity                  -- "Function … require … arguments"
  | syntaxInExec           -- other SyntaxError raised by an evaluator ("Invalid field name", "Invalid function name")
  | unknownOp              -- "Unknown operator" (an operator code no evaluator handles: `Not` as a binary operator)
  | panic (site : String)  -- a Go run-time panic; `site` names the statement
  | outOfFuel              -- evaluation reached a cyclic alias (Go: unbounded recursion)
deriving DecidableEq, Repr, Inhabited

namespace Err
def cls : Err → String
  | operandType => "operand-type" | data => "data" | unknownFunc => "unknown-func" | arity => "arity"
  | syntaxInExec => "syntax" | unknownOp => "unknown-op" | panic _ => "panic" | outOfFuel => "fuel"

def isPanic : Err → Bool
  | panic _ => true
  | _ => false
end Err

namespace F64
def hexDigits16 (n : Nat) : String :=
  String.ofList ((List.range 16).map (fun i => Bytes.hexDigit ((n / 16 ^ (15 - i)) % 16)))
/-- `%016x` of the IEEE bits; every NaN is rendered `nan` (harness `canonFloat`) -/
def canon (x : F64) : String :=
  if ((x.bits >>> 52) &&& 0x7ff) == 0x7ff && (x.bits &&& 0xFFFFFFFFFFFFF) != 0 then "nan"
  else hexDigits16 x.bits.toNat
end F64

def spaceJoin (l : List String) : String := " ".intercalate l

namespace Value

mutual
  def canon : Value → String
    | bytes b => "b:" ++ Bytes.toHex b
    | str b => "s:" ++ Bytes.toHex b
    | int i => "i:" ++ toString i.toInt
    | goInt i => "I:" ++ toString i.toInt
    | float f => "f:" ++ f.canon
    | bool b => if b then "t" else "F"
    | nil => "n"
    | strList l => "S[" ++ spaceJoin (l.map (fun b => "s:" ++ Bytes.toHex b)) ++ "]"
    | intList l => "L[" ++ spaceJoin (l.map (fun i => "i:" ++ toString i.toInt)) ++ "]"
    | floatList l => "D[" ++ spaceJoin (l.map (fun f => "f:" ++ f.canon)) ++ "]"
    | anyList l => "A[" ++ spaceJoin (canonList l) ++ "]"
    | json m => "{" ++ spaceJoin (canonMembers m) ++ "}"
    | exprList l => "E[" ++ spaceJoin (l.map Expr.toWire) ++ "]"
  def canonList : List Value → List String
    | [] => []
    | v :: vs => canon v :: canonList vs
  def canonMembers : List (Bytes × Value) → List String
    | [] => []
    | (k, v) :: ms => (Bytes.toHex k ++ ":" ++ canon v) :: canonMembers ms
end

/-- C03 compares by content: the Go kind of a text (`string` / `[]byte`) is irrelevant -/
def norm : Value → Value
  | str b => bytes b
  | v => v

/-- harness/store.go `contentValue` -/
def contentEq (a b : Value) : Prop := a.norm = b.norm

end Value

/-! ### association lists standing for Go maps (keys distinct; `set` keeps the list sorted so that
    rendering is canonical) -/

def assocGet {α} (m : List (Bytes × α)) (k : Bytes) : Option α :=
  match m with
  | [] => none
  | (k', v) :: r => if k' == k then some v else assocGet r k

def assocSet {α} (m : List (Bytes × α)) (k : Bytes) (v : α) : List (Bytes × α) :=
  match m with
  | [] => [(k, v)]
  | (k', v') :: r =>
    if k' == k then (k, v) :: r
    else if Bytes.lt k k' then (k, v) :: (k', v') :: r
    else (k', v') :: assocSet r k v

/-- a key/value pair handed to the evaluators (`KVPair`) -/
structure Pair where
  key : Bytes
  value : Bytes
deriving Repr, Inhabited, DecidableEq

end Kvql
