/-
  Library behaviour the evaluators call but kvql does not define — MODELLED, NOT VERIFIED.
  Each piece is a small concrete implementation that the EVAL correspondence compares with the
  real Go library through the engine, on the generator's domain.  Restrictions:

  * `strconv.ParseFloat(s, 64)`  — `parseFloat?`: decimal syntax `[+-]?(d+[.d*]|.d+)([eE][+-]?d+)?`
      correctly rounded (round-half-even on the exact rational, subnormals, overflow = error as
      in Go), digit separators (`1_000`), the words inf/infinity/nan.  NOT modelled: hexadecimal
      floats (`0x1p3`), which Go accepts: the model reports "does not parse".
  * `fmt.Sprintf("%f", x)`       — `formatF`: exact (integer arithmetic on the binary value,
      round-half-even at 6 decimals), NaN / +Inf / -Inf / -0 as Go prints them.  No restriction.
  * `fmt.Sprintf("%d", n)`       — `formatInt`: exact.
  * `int64(f)`                   — `F64.toInt64Go`: truncation; NaN, ±Inf and out-of-range values give
      `math.MinInt64` (the amd64 result; Go leaves it implementation-defined).
  * `float64(n)`                 — `F64.ofInt` (C cast, round-to-nearest-even like Go).
  * `+ - * / < <= ==`, `math.Sqrt`, `math.Abs` — Lean `Float` (IEEE binary64, same as Go on
      amd64: no fused multiply-add).  Theorems treat them as uninterpreted.
  * `strings.ToLower/ToUpper`    — ASCII map; bytes ≥ 0x80 are left alone (Go decodes UTF-8 and
      replaces invalid bytes by U+FFFD): domain ASCII.
  * `strings.Split/Join`         — exact on bytes for a non-empty separator; for the empty separator
      Go splits after each UTF-8 sequence, the model after each byte: domain ASCII.
  * `regexp`                     — `Regex.parse`: optional `^`, then atoms out of {literal byte that is
      not a metacharacter, `.`, `[0-9]`}, optional `$`.  Everything else is reported as "does not
      compile" (true of Go for `(` `[` `*a` `?` `)` `\`, false for e.g. `a*`): the generator stays
      inside the class or uses patterns Go refuses too.  `.` does not match `\n`.
  * `encoding/json` into `map[string]any` — `parseJsonObject`: objects, arrays, strings WITHOUT
      escapes (a backslash makes the document "invalid"), numbers (strict JSON grammar, become
      float64; a number that overflows float64 becomes nil as in Go), true/false/null, blanks.
      An invalid document, or a top-level value that is not an object, leaves the map empty
      (Go ignores the error).  Duplicate members: the last wins.
-/
import Kvql.Model.Value

namespace Kvql

/-! ### integers -/

/-- the ASCII digit of d < 10 -/
def digitByte (d : Nat) : UInt8 := UInt8.ofNat (48 + d)

def natDigits (n : Nat) : Bytes :=
  if _h : n < 10 then [digitByte n] else natDigits (n / 10) ++ [digitByte (n % 10)]
decreasing_by omega

/-- `%d` of an int64 -/
def formatInt (i : Int64) : Bytes :=
  if i.toInt < 0 then 45 :: natDigits i.toInt.natAbs else natDigits i.toInt.toNat

/-- `strconv.ParseInt(s, 10, 64)` as an int64 -/
def parseInt64? (s : Bytes) : Option Int64 := (parseInt? s).map Int64.ofInt

/-! ### float64 through its bit pattern -/

namespace F64

def sign (x : F64) : Bool := x.bits >>> 63 == 1
def expBits (x : F64) : Nat := ((x.bits >>> 52) &&& 0x7ff).toNat
def frac (x : F64) : Nat := (x.bits &&& 0xFFFFFFFFFFFFF).toNat
def isNaN (x : F64) : Bool := x.expBits == 2047 && x.frac != 0
def isInf (x : F64) : Bool := x.expBits == 2047 && x.frac == 0
/-- for finite x: |x| = mant · 2^exp2 -/
def mant (x : F64) : Nat := if x.expBits == 0 then x.frac else 2 ^ 52 + x.frac
def exp2 (x : F64) : Int := if x.expBits == 0 then -1074 else (x.expBits : Int) - 1075

def posInf : F64 := ⟨0x7ff0000000000000⟩
def negInf : F64 := ⟨0xfff0000000000000⟩
/-- the NaN `strconv.ParseFloat("nan")` returns -/
def nan : F64 := ⟨0x7ff8000000000001⟩

def minInt64 : Int64 := Int64.ofInt (-9223372036854775808)

/-- Go `int64(f)` on amd64 -/
def toInt64Go (x : F64) : Int64 :=
  if x.expBits == 2047 then minInt64 else
  let m := x.mant
  let e := x.exp2
  let n : Nat := if e ≥ 0 then m * 2 ^ e.toNat else m / 2 ^ (-e).toNat
  if x.sign then (if n ≤ 9223372036854775808 then Int64.ofInt (-(n : Int)) else minInt64)
  else (if n < 9223372036854775808 then Int64.ofInt n else minInt64)

/-- the float nearest to ±p/q (ties to even); `none` = magnitude overflows float64 -/
def ofRat (neg : Bool) (p q : Nat) : Option F64 :=
  let sbit : UInt64 := if neg then 0x8000000000000000 else 0
  if p == 0 || q == 0 then some ⟨sbit⟩ else
  -- e with 2^52 ≤ p/(q·2^e) < 2^53, clamped below at the subnormal exponent
  let e0 : Int := (p.log2 : Int) - (q.log2 : Int) - 52
  let scaled (e : Int) : Nat × Nat := if e ≥ 0 then (p, q * 2 ^ e.toNat) else (p * 2 ^ (-e).toNat, q)
  let e1 : Int := let (n, d) := scaled e0; if n / d < 2 ^ 52 then e0 - 1 else if n / d ≥ 2 ^ 53 then e0 + 1 else e0
  let e : Int := if e1 < -1074 then -1074 else e1
  let (n, d) := scaled e
  let qt := n / d
  let r := n % d
  let rounded := if 2 * r > d then qt + 1 else if 2 * r < d then qt else (if qt % 2 == 1 then qt + 1 else qt)
  let (m, e) := if rounded ≥ 2 ^ 53 then (rounded / 2, e + 1) else (rounded, e)
  if m < 2 ^ 52 then some ⟨sbit ||| UInt64.ofNat m⟩   -- subnormal (e = -1074) or zero
  else
    let ef := e + 1075
    if ef ≥ 2047 then none
    else some ⟨sbit ||| (UInt64.ofNat ef.toNat <<< 52) ||| UInt64.ofNat (m - 2 ^ 52)⟩

end F64

/-- strconv `underscoreOK` for input without base prefix: every `_` stands between two digits -/
def underscoreOK (s : Bytes) : Bool :=
  let body := match s with
    | 43 :: r => r
    | 45 :: r => r
    | r => r
  -- saw: 0 = beginning, 1 = digit, 2 = underscore, 3 = anything else
  let final := body.foldl (fun (st : Option Nat) c =>
    match st with
    | none => none
    | some saw =>
      if isDigit c then some 1
      else if c == 95 then (if saw == 1 then some 2 else none)
      else if saw == 2 then none
      else some 3) (some 0)
  match final with
  | none => false
  | some saw => saw != 2

/-- `strconv.ParseFloat(s, 64)` without digit separators -/
def parseFloatPlain? (s : Bytes) : Option F64 :=
  let l := toLower s
  let (neg, unsigned, signed) := match l with
    | 43 :: r => (false, r, true)
    | 45 :: r => (true, r, true)
    | r => (false, r, false)
  if unsigned == Bytes.ofString "inf" || unsigned == Bytes.ofString "infinity" then
    some (if neg then F64.negInf else F64.posInf)
  else if l == Bytes.ofString "nan" && !signed then some F64.nan
  else match splitDecimal s with
    | none => none
    | some (neg, mantDigits, fracDigits, e) =>
      let m := digitsVal mantDigits
      if m == 0 then F64.ofRat neg 0 1 else
      let e10 : Int := e - fracDigits
      let mag : Int := (natDigits m).length + e10
      if mag > 400 then none
      else if mag < -400 then F64.ofRat neg 0 1
      else if e10 ≥ 0 then F64.ofRat neg (m * 10 ^ e10.toNat) 1
      else F64.ofRat neg m (10 ^ (-e10).toNat)

/-- `strconv.ParseFloat(s, 64)`; `none` = Go returns an error (syntax or range) -/
def parseFloat? (s : Bytes) : Option F64 :=
  if s.contains 95 then
    (if underscoreOK s then parseFloatPlain? (s.filter (· != 95)) else none)
  else parseFloatPlain? s

def padLeftZeros (n : Nat) (b : Bytes) : Bytes := List.replicate (n - b.length) 48 ++ b

/-- `fmt.Sprintf("%f", x)` -/
def formatF (x : F64) : Bytes :=
  if x.isNaN then Bytes.ofString "NaN"
  else if x.isInf then Bytes.ofString (if x.sign then "-Inf" else "+Inf")
  else
    let m := x.mant
    let e := x.exp2
    let num := m * 1000000
    let scaled : Nat :=
      if e ≥ 0 then num * 2 ^ e.toNat
      else
        let d := 2 ^ (-e).toNat
        let qt := num / d
        let r := num % d
        if 2 * r > d then qt + 1 else if 2 * r < d then qt else (if qt % 2 == 1 then qt + 1 else qt)
    let body := natDigits (scaled / 1000000) ++ [46] ++ padLeftZeros 6 (natDigits (scaled % 1000000))
    if x.sign then 45 :: body else body

/-! ### strings -/

/-- `strings.Split(s, sep)` -/
def splitAux (sep : Bytes) : Bytes → Bytes → Nat → List Bytes
  | [], acc, _ => [acc.reverse]
  | _ :: cs, acc, skip + 1 => splitAux sep cs acc skip
  | c :: cs, acc, 0 =>
    if sep.isPrefixOf (c :: cs) then acc.reverse :: splitAux sep cs [] (sep.length - 1)
    else splitAux sep cs (c :: acc) 0

def splitBytes (s sep : Bytes) : List Bytes :=
  if sep.isEmpty then s.map (fun c => [c]) else splitAux sep s [] 0

/-- `strings.Join(parts, sep)` -/
def joinBytes (sep : Bytes) : List Bytes → Bytes
  | [] => []
  | [p] => p
  | p :: ps => p ++ sep ++ joinBytes sep ps

/-! ### mini regexp -/

inductive RAtom | lit (c : UInt8) | any | digit
deriving DecidableEq, Repr

structure Regex where
  atStart : Bool
  atoms : List RAtom
  atEnd : Bool
deriving Repr

def regexMeta : Bytes := Bytes.ofString "\\.+*?()|[]{}^$"

def parseAtoms : Nat → Bytes → Option (List RAtom × Bool)
  | 0, _ => none
  | _ + 1, [] => some ([], false)
  | _ + 1, [36] => some ([], true)                                   -- trailing `$`
  | fuel + 1, 46 :: r => (parseAtoms fuel r).map (fun (a, e) => (RAtom.any :: a, e))
  | fuel + 1, 91 :: 48 :: 45 :: 57 :: 93 :: r =>                      -- `[0-9]`
    (parseAtoms fuel r).map (fun (a, e) => (RAtom.digit :: a, e))
  | fuel + 1, c :: r =>
    if regexMeta.contains c then none
    else (parseAtoms fuel r).map (fun (a, e) => (RAtom.lit c :: a, e))

def Regex.parse (p : Bytes) : Option Regex :=
  let (st, rest) := match p with
    | 94 :: r => (true, r)
    | r => (false, r)
  (parseAtoms (rest.length + 1) rest).map (fun (a, e) => ⟨st, a, e⟩)

def RAtom.accepts : RAtom → UInt8 → Bool
  | .lit c, b => b == c
  | .any, b => b != 10
  | .digit, b => isDigit b

/-- do the atoms match a prefix of `s` (ending at the end of `s` when `atEnd`)? -/
def matchHere (atEnd : Bool) : List RAtom → Bytes → Bool
  | [], s => !atEnd || s.isEmpty
  | _ :: _, [] => false
  | a :: as, b :: s => a.accepts b && matchHere atEnd as s

def matchAnywhere (atEnd : Bool) (atoms : List RAtom) : Bytes → Bool
  | [] => matchHere atEnd atoms []
  | b :: s => matchHere atEnd atoms (b :: s) || matchAnywhere atEnd atoms s

/-- `re.Match(s)` -/
def Regex.matches (re : Regex) (s : Bytes) : Bool :=
  if re.atStart then matchHere re.atEnd re.atoms s else matchAnywhere re.atEnd re.atoms s

/-! ### mini JSON -/

def jsonWs (c : UInt8) : Bool := c == 32 || c == 9 || c == 10 || c == 13
def skipWs (s : Bytes) : Bytes := s.dropWhile jsonWs

/-- after the opening quote: the text up to the closing quote; `none` on backslash, control byte or end -/
def jsonStringBody : Bytes → Bytes → Option (Bytes × Bytes)
  | [], _ => none
  | c :: r, acc =>
    if c == 34 then some (acc.reverse, r)
    else if c == 92 || c < 32 then none
    else jsonStringBody r (c :: acc)

/-- the longest prefix with JSON number syntax `-?(0|[1-9]d*)(.d+)?([eE][+-]?d+)?` -/
def jsonNumberSplit (s : Bytes) : Option (Bytes × Bytes) :=
  let (sg, r) := match s with
    | 45 :: r => ([45], r)
    | r => (([] : Bytes), r)
  let ip := r.takeWhile isDigit
  let r1 := r.dropWhile isDigit
  if ip.isEmpty || (ip.length > 1 && ip.head? == some 48) then none else
  match (match r1 with
      | 46 :: t =>
        let fp := t.takeWhile isDigit
        if fp.isEmpty then none else some (46 :: fp, t.dropWhile isDigit)
      | t => some (([] : Bytes), t)) with
  | none => none
  | some (fr, r2) =>
    match (match r2 with
        | c :: t =>
          if c == 101 || c == 69 then
            let (es, u) := match t with
              | 43 :: u => ([43], u)
              | 45 :: u => ([45], u)
              | u => (([] : Bytes), u)
            let ds := u.takeWhile isDigit
            if ds.isEmpty then none else some (c :: es ++ ds, u.dropWhile isDigit)
          else some (([] : Bytes), c :: t)
        | [] => some (([] : Bytes), [])) with
    | none => none
    | some (ex, r3) => some (sg ++ ip ++ fr ++ ex, r3)

mutual
  def parseJsonValue : Nat → Bytes → Option (Value × Bytes)
    | 0, _ => none
    | fuel + 1, s =>
      match skipWs s with
      | 123 :: r =>                                   -- {
        match skipWs r with
        | 125 :: r' => some (.json [], r')
        | r' => (parseJsonMembers fuel r' []).map (fun (m, rest) => (.json m, rest))
      | 91 :: r =>                                    -- [
        match skipWs r with
        | 93 :: r' => some (.anyList [], r')
        | r' => (parseJsonElems fuel r').map (fun (l, rest) => (.anyList l, rest))
      | 34 :: r => (jsonStringBody r []).map (fun (t, rest) => (.str t, rest))
      | 116 :: 114 :: 117 :: 101 :: r => some (.bool true, r)
      | 102 :: 97 :: 108 :: 115 :: 101 :: r => some (.bool false, r)
      | 110 :: 117 :: 108 :: 108 :: r => some (.nil, r)
      | s' =>
        match jsonNumberSplit s' with
        | none => none
        | some (lit, rest) =>
          match parseFloat? lit with
          | some f => some (.float f, rest)
          | none => some (.nil, rest)                -- out of range: Go records an error, leaves nil
  /-- members after `{` (at least one), up to and including `}` -/
  def parseJsonMembers : Nat → Bytes → List (Bytes × Value) → Option (List (Bytes × Value) × Bytes)
    | 0, _, _ => none
    | fuel + 1, s, acc =>
      match skipWs s with
      | 34 :: r =>
        match jsonStringBody r [] with
        | none => none
        | some (k, r1) =>
          match skipWs r1 with
          | 58 :: r2 =>
            match parseJsonValue fuel r2 with
            | none => none
            | some (v, r3) =>
              let acc' := assocSet acc k v
              match skipWs r3 with
              | 44 :: r4 => parseJsonMembers fuel r4 acc'
              | 125 :: r4 => some (acc', r4)
              | _ => none
          | _ => none
      | _ => none
  /-- elements after `[` (at least one), up to and including `]` -/
  def parseJsonElems : Nat → Bytes → Option (List Value × Bytes)
    | 0, _ => none
    | fuel + 1, s =>
      match parseJsonValue fuel s with
      | none => none
      | some (v, r) =>
        match skipWs r with
        | 44 :: r1 => (parseJsonElems fuel r1).map (fun (l, rest) => (v :: l, rest))
        | 93 :: r1 => some ([v], r1)
        | _ => none
end

/-- `ret := make(JSON); json.Unmarshal(data, &ret)` with the error ignored -/
def parseJsonObject (data : Bytes) : List (Bytes × Value) :=
  match parseJsonValue (data.length + 2) data with
  | some (.json m, rest) => if (skipWs rest).isEmpty then m else []
  | _ => []

end Kvql
