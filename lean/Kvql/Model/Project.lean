/-
  The code that DRIVES the field cache: the scan plans' filter loops (scan_plan.go `Next` / `Batch`
  with `FilterExec.Filter` / `FilterBatch` of expression_exec.go) and projection_plan.go
  (`ProjectionPlan.Next` / `Batch`, `processProjection` / `processProjectionBatch`), over the
  evaluator models `exec` / `execBatch` and the `ExecuteCtx` model `Ctx`.

  PARAMETRIC in the scan node only through what the cursor yields:
    row mode    the list of pairs the cursor yields (`FullScanPlan`: the whole store; prefix / range
                scans: the pairs of the region; `MultiGetPlan`: the listed pairs that exist);
    batch mode  the list of INNER CHUNKS a scan forms (`filterBatch`): every `Batch` call reads whole
                inner chunks of `PlanBatchSize` pairs, so for a cursor scan the chunk boundaries sit at
                multiples of `bs` from the start of the scan whatever the calls are: `chunksOf bs pairs`.
                (`MultiGetPlan` forms smaller chunks when listed keys are missing; an empty inner chunk is
                skipped, `if len(filterBatch) > 0`.)  The theorems are stated over an arbitrary chunk list.

  One `*ExecuteCtx` (never nil: `NewExecuteCtx()`) is shared by all `Next` / `Batch` calls of a drain,
  as cmd / the harness do.  `select *` (`AllFields`) evaluates no field expression and is not modelled.

  `clear` : the `ctx.Clear()` at the head of `FilterExec.Filter` (commit 374dfd6).  The code that
  exists is `clear = true`; `scanNextNoClear` keeps the earlier code for the counterexample of C05.

  The PATCHED code is modelled (patches of the cache component):
    01  `ownsFieldName`: the projection reads the cache by name only for the FIRST field of that name
        (`seen` below) — names need not be unique: `select key as a, value as a`;
    05  `processProjectionBatch` evaluates a field that is not served from the cache with a nil context
        (`fieldCol`): the per-chunk results of the context are keyed by the first key of a chunk and
        still describe the chunks the scan filtered;
  and, in Model/Ctx.lean and Model/ExecVec.lean: 02 (`chunkCacheKey` with the length of the name) and
  03 (a function without vector form runs its row body with a nil context).
-/
import Kvql.Model.ExecVec

namespace Kvql.Project
open Kvql

/-- a select field: `FieldNames[i]` (the alias, or `String()` of the expression) and `Fields[i]` -/
structure Field where
  name : Bytes
  expr : Expr
deriving Inhabited

/-- outcomes other than rows -/
inductive PErr
  | eval (e : Err)       -- the filter's or a field's evaluation failed
  | whereNotBool         -- "where expression result is not boolean"
  | resultType           -- processProjection: "Expression result type not support" (row mode only)
  | colIndex             -- processProjectionBatch: `cols[j][i]`, index out of range (Go panic)
  | filterIndex          -- scan Batch: `filterBatch[i]`, index out of range (Go panic)
  | fuel                 -- the drain loop of the MODEL ran out of fuel (never with `drainRow` / `drainBatch`)
deriving DecidableEq, Repr, Inhabited

def PErr.cls : PErr → String
  | .eval e => e.cls
  | .whereNotBool => "where-not-bool"
  | .resultType => "result-type"
  | .colIndex => "panic"
  | .filterIndex => "panic"
  | .fuel => "model-fuel"

abbrev Row := List Value

/-! ### row mode -/

/-- `FilterExec.Filter` (= `filterBatch` on the one pair): `Clear`, `Execute`, the result must be a bool -/
def filterRowG (clear : Bool) (w : Expr) (kv : Pair) (c : Ctx) : Except PErr Bool × Ctx :=
  match exec w kv (if clear then c.clear else c) with
  | (.error e, c1) => (.error (.eval e), c1)
  | (.ok (.bool b), c1) => (.ok b, c1)
  | (.ok _, c1) => (.error .whereNotBool, c1)

/-- the loop of `FullScanPlan.Next` (`PrefixScanPlan` / `RangeScanPlan` / `MultiGetPlan` alike) over what
    the cursor still yields: the first pair the filter accepts, and what is left -/
def scanNextG (clear : Bool) (w : Expr) : List Pair → Ctx → Except PErr (Option Pair × List Pair) × Ctx
  | [], c => (.ok (none, []), c)
  | kv :: rest, c =>
    match filterRowG clear w kv c with
    | (.error e, c1) => (.error e, c1)
    | (.ok true, c1) => (.ok (some kv, rest), c1)
    | (.ok false, c1) => scanNextG clear w rest c1

/-- the type switch at the end of `processProjection`: every Go type the evaluators produce for a select
    field is accepted — since patch 06 also the typed lists `[]string`, `[]int64`, `[]float64` of `split()`,
    `list()`, `int_list()`, `float_list()`, which batch iteration returns as they are; only `[]Expression`
    (the value of a bare list literal, which cannot be a select field) is "not support" -/
def rowSupported : Value → Bool
  | .exprList _ => false
  | _ => true

/-- `processProjection`: per field, the cache BY FIELD NAME — if the field is the first of its name
    (`ownsFieldName`; `seen` = the names of the fields before it) —, else `Execute` -/
def fieldRow (seen : List Bytes) (f : Field) (kv : Pair) (c : Ctx) : Except Err Value × Ctx :=
  match (if seen.contains f.name then none else c.getFieldResult f.name) with
  | some v => (.ok v, c.updateHit)
  | none => exec f.expr kv c

def projectRowFrom (seen : List Bytes) : List Field → Pair → Ctx → Except PErr Row × Ctx
  | [], _, c => (.ok [], c)
  | f :: fs, kv, c =>
    match fieldRow seen f kv c with
    | (.error e, c1) => (.error (.eval e), c1)
    | (.ok v, c1) =>
      if !rowSupported v then (.error .resultType, c1)
      else
        match projectRowFrom (seen ++ [f.name]) fs kv c1 with
        | (.error e, c2) => (.error e, c2)
        | (.ok vs, c2) => (.ok (v :: vs), c2)

def projectRow (fields : List Field) (kv : Pair) (c : Ctx) : Except PErr Row × Ctx :=
  projectRowFrom [] fields kv c

/-- `ProjectionPlan.Next`: `ctx.Clear()`, the child's `Next`, `processProjection` -/
def nextRowG (clear : Bool) (w : Expr) (fields : List Field) (pairs : List Pair) (c : Ctx) :
    Except PErr (Option Row × List Pair) × Ctx :=
  match scanNextG clear w pairs c.clear with
  | (.error e, c1) => (.error e, c1)
  | (.ok (none, rest), c1) => (.ok (none, rest), c1)
  | (.ok (some kv, rest), c1) =>
    match projectRow fields kv c1 with
    | (.error e, c2) => (.error e, c2)
    | (.ok row, c2) => (.ok (some row, rest), c2)

/-- what a drain observes: the rows returned before the end or the first error -/
structure Out where
  rows : List Row
  err : Option PErr
deriving Inhabited

/-- `for { row, err := plan.Next(ctx); … }` until nil or an error -/
def drainRowFuel (clear : Bool) (w : Expr) (fields : List Field) : Nat → List Pair → Ctx → Out × Ctx
  | 0, _, c => (⟨[], some .fuel⟩, c)
  | n + 1, pairs, c =>
    match nextRowG clear w fields pairs c with
    | (.error e, c1) => (⟨[], some e⟩, c1)
    | (.ok (none, _), c1) => (⟨[], none⟩, c1)
    | (.ok (some row, rest), c1) =>
      let (o, c2) := drainRowFuel clear w fields n rest c1
      (⟨row :: o.rows, o.err⟩, c2)

/-- row-at-a-time drain of `select <fields> where <w>` over the pairs the cursor yields
    (every `Next` that returns a row consumes at least one pair) -/
def drainRow (w : Expr) (fields : List Field) (pairs : List Pair) (c : Ctx) : Out × Ctx :=
  drainRowFuel true w fields (pairs.length + 1) pairs c

/-- the code before commit 374dfd6: no `Clear` in `FilterExec.Filter` (the cache is cleared once per
    returned row, by `ProjectionPlan.Next`) -/
def scanNextNoClear := scanNextG false
def drainRowNoClear (w : Expr) (fields : List Field) (pairs : List Pair) (c : Ctx) : Out × Ctx :=
  drainRowFuel false w fields (pairs.length + 1) pairs c

/-! ### batch mode -/

def boolOf? : Value → Option Bool
  | .bool b => some b
  | _ => none

/-- `FilterExec.FilterBatch` = `filterChunk`: `ExecuteBatch`, every result must be a bool -/
def filterChunk (w : Expr) (chunk : List Pair) (c : Ctx) : Except PErr (List Bool) × Ctx :=
  match execBatch w chunk c with
  | (.error e, c1) => (.error (.eval e), c1)
  | (.ok vs, c1) =>
    match vs.mapM boolOf? with
    | some ms => (.ok ms, c1)
    | none => (.error .whereNotBool, c1)

/-- the bookkeeping of one inner chunk, threaded through the scan's `Batch` -/
structure Sel where
  ret : List Pair := []          -- `ret` (`count = len(ret)`)
  choose : List Nat := []        -- `chooseIdxes`
  bidx : Nat := 0                -- `bidx`
deriving Inhabited

/-- `for i, m := range matchs { if m { ret = append(ret, filterBatch[i]); chooseIdxes = append(chooseIdxes, bidx); count++ }; bidx++ }`
    (`filterBatch[i]` is read only for a match) -/
def selectLoop : List Bool → List Pair → Sel → Except PErr Sel
  | [], _, s => .ok s
  | true :: _, [], _ => .error .filterIndex
  | true :: ms, p :: ps, s => selectLoop ms ps { ret := s.ret ++ [p], choose := s.choose ++ [s.bidx], bidx := s.bidx + 1 }
  | false :: ms, ps, s => selectLoop ms ps.tail { s with bidx := s.bidx + 1 }

/-- the outer loop `for !finish` of a scan's `Batch` over the inner chunks still to come:
    (rows, chooseIdxes, chunks left) -/
def scanBatchLoop (w : Expr) (bs : Nat) : List (List Pair) → Sel → Ctx → Except PErr (Sel × List (List Pair)) × Ctx
  | [], s, c => (.ok (s, []), c)
  | [] :: rest, s, c => scanBatchLoop w bs rest s c            -- `if len(filterBatch) > 0`
  | (p :: ps) :: rest, s, c =>
    match filterChunk w (p :: ps) c with
    | (.error e, c1) => (.error e, c1)
    | (.ok ms, c1) =>
      match selectLoop ms (p :: ps) s with
      | .error e => (.error e, c1)
      | .ok s1 =>
        if s1.ret.length ≥ bs then (.ok (s1, rest), c1)
        else scanBatchLoop w bs rest s1 c1

/-- a scan's `Batch`: the loop, then `ctx.AdjustChunkCache(chooseIdxes)` (not on an error) -/
def scanBatch (w : Expr) (bs : Nat) (chunks : List (List Pair)) (c : Ctx) :
    Except PErr (List Pair × List (List Pair)) × Ctx :=
  match scanBatchLoop w bs chunks {} c with
  | (.error e, c1) => (.error e, c1)
  | (.ok (s, rest), c1) => (.ok (s.ret, rest), c1.adjustChunkCache s.choose)

/-- the first loop of `processProjectionBatch`: per field `GetChunkFieldFinalResult(name)` — if the field
    is the first of its name —, else `ExecuteBatch` WITHOUT a context (the per-chunk results of the
    context still describe the chunks the scan filtered) -/
def fieldCol (seen : List Bytes) (f : Field) (chunk : List Pair) (c : Ctx) : Except Err (List Value) × Ctx :=
  match (if seen.contains f.name then none else c.getChunkFieldFinalResult f.name) with
  | some col => (.ok col, c.updateHit)
  | none => ((execBatch f.expr chunk Ctx.none).1, c)     -- `ExecuteBatch(chunk, nil)`

def projectColsFrom (seen : List Bytes) : List Field → List Pair → Ctx → Except PErr (List (List Value)) × Ctx
  | [], _, c => (.ok [], c)
  | f :: fs, chunk, c =>
    match fieldCol seen f chunk c with
    | (.error e, c1) => (.error (.eval e), c1)
    | (.ok col, c1) =>
      match projectColsFrom (seen ++ [f.name]) fs chunk c1 with
      | (.error e, c2) => (.error e, c2)
      | (.ok cols, c2) => (.ok (col :: cols), c2)

def projectCols (fields : List Field) (chunk : List Pair) (c : Ctx) : Except PErr (List (List Value)) × Ctx :=
  projectColsFrom [] fields chunk c

/-- the second loop: `row[j] = cols[j][i]` for `i < len(chunk)`; a short column is a Go panic -/
def rowsOfCols (n : Nat) (cols : List (List Value)) : Except PErr (List Row) :=
  match (List.range n).mapM (fun i => cols.mapM (fun col => col[i]?)) with
  | some rows => .ok rows
  | none => .error .colIndex

/-- `ProjectionPlan.Batch`: `ctx.Clear()`, the child's `Batch`, `processProjectionBatch` -/
def nextBatch (w : Expr) (fields : List Field) (bs : Nat) (chunks : List (List Pair)) (c : Ctx) :
    Except PErr (List Row × List (List Pair)) × Ctx :=
  match scanBatch w bs chunks c.clear with
  | (.error e, c1) => (.error e, c1)
  | (.ok ([], rest), c1) => (.ok ([], rest), c1)            -- `if len(kvps) == 0 { return nil, nil }`
  | (.ok (kv :: kvs, rest), c1) =>
    match projectCols fields (kv :: kvs) c1 with
    | (.error e, c2) => (.error e, c2)
    | (.ok cols, c2) =>
      match rowsOfCols (kv :: kvs).length cols with
      | .error e => (.error e, c2)
      | .ok rows => (.ok (rows, rest), c2)

/-- `for { rows, err := plan.Batch(ctx); … }` until no row or an error; the batches as returned -/
def drainBatchFuel (w : Expr) (fields : List Field) (bs : Nat) : Nat → List (List Pair) → Ctx → List (List Row) × Option PErr × Ctx
  | 0, _, c => ([], some .fuel, c)
  | n + 1, chunks, c =>
    match nextBatch w fields bs chunks c with
    | (.error e, c1) => ([], some e, c1)
    | (.ok ([], _), c1) => ([], none, c1)
    | (.ok (r :: rs, rest), c1) =>
      let (bsz, e, c2) := drainBatchFuel w fields bs n rest c1
      ((r :: rs) :: bsz, e, c2)

/-- the inner chunks of a cursor scan: `bs` pairs each, the last one shorter -/
def chunksAux (bs : Nat) : Nat → List Pair → List (List Pair)
  | 0, _ => []
  | _ + 1, [] => []
  | n + 1, p :: ps => (p :: ps).take bs :: chunksAux bs n ((p :: ps).drop bs)

def chunksOf (bs : Nat) (pairs : List Pair) : List (List Pair) := chunksAux bs pairs.length pairs

/-- batch drain over a chunk list (every `Batch` that returns rows consumes at least one chunk) -/
def drainBatchChunks (w : Expr) (fields : List Field) (bs : Nat) (chunks : List (List Pair)) (c : Ctx) : Out × Ctx :=
  let (bsz, e, c') := drainBatchFuel w fields bs (chunks.length + 1) chunks c
  (⟨bsz.flatten, e⟩, c')

/-- batch drain of `select <fields> where <w>` over the pairs a cursor yields, `PlanBatchSize = bs ≥ 1`
    (`bs = 0`: the Go loop never ends; not modelled) -/
def drainBatch (w : Expr) (fields : List Field) (bs : Nat) (pairs : List Pair) (c : Ctx) : Out × Ctx :=
  drainBatchChunks w fields bs (chunksOf bs pairs) c

end Kvql.Project

/-! ### the alias table of a statement (what the theorems of C05 quantify over) -/

namespace Kvql.Cache
open Kvql

mutual
  /-- every alias reference inside an expression, with the copy of the target it carries — the
      references inside the targets included -/
  def refs : Expr → List (Bytes × Expr)
    | .ref _ n t => (n, t) :: refs t
    | .binop _ _ l r => refs l ++ refs r
    | .not _ r => refs r
    | .call _ _ args => refsList args
    | .list _ items => refsList items
    | .access _ l _ => refs l
    | .field .. | .str .. | .name .. | .cycle | .num .. | .float .. | .bool .. => []
  def refsList : List Expr → List (Bytes × Expr)
    | [] => []
    | e :: es => refs e ++ refsList es
end


/-- the alias references of a whole statement -/
def allRefs (w : Expr) (fields : List Project.Field) : List (Bytes × Expr) :=
  refs w ++ fields.flatMap (fun f => refs f.expr)

/-- a decidable check of the hypotheses `Functional` and `FieldsAgree` of the C05 theorems for
    `A := allRefs w fields` (`WF`, `FieldsWF` hold by construction): references to one name carry the same
    target, and the first field of a name IS the target of the references to that name — trees compared
    in wire form.  Used by the PROJECT group only to count how many generated statements the theorems
    cover; no theorem depends on it. -/
def hypsHold (w : Expr) (fields : List Project.Field) : Bool :=
  let A := allRefs w fields
  let functional := A.all (fun p => A.all (fun q => p.1 != q.1 || p.2.toWire == q.2.toWire))
  let rec agree (seen : List Bytes) : List Project.Field → Bool
    | [] => true
    | f :: fs =>
      (seen.contains f.name || A.all (fun p => p.1 != f.name || p.2.toWire == f.expr.toWire)) &&
        agree (seen ++ [f.name]) fs
  functional && agree [] fields

end Kvql.Cache
