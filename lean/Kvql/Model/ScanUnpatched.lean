/-
  filter_optimizer.go AS FOUND (before the C02/C18 fixes), function by function.

  Kept only to replay the validation of the modelling approach: the SCAN correspondence
  group was run with this model (`SCAN0` lines) against the unchanged engine and agreed on
  every generated predicate, *including* the ones on which the spec differential then showed
  the engine wrong.  The theorems are about `Kvql/Model/Scan.lean` (the repaired code).

  Differences from `Scan.lean` that exist only because the unrepaired code could produce them:
  an MGET key can be Go `nil` (from `intersectionRange`/`unionRange` "start == end" when one
  bound is nil and the other is `[]byte("")`), and `inRange` tells a nil key from an empty one.
-/
import Kvql.Model.Expr
import Kvql.Model.ByteOrder

namespace Kvql.Scan0

open Kvql Generated

/-- a Go `[]byte` that may be nil -/
abbrev OB := Option Bytes

/-- what `bytes.Compare/HasPrefix/Equal` and `string(·)` see of a possibly-nil slice -/
def bv : OB → Bytes
  | none => []
  | some b => b

/-- `ScanType{scanTp, keys}`: every construction site gives MGET a key list, PREFIX one key and
    RANGE two keys, so the `len(keys)` guards of the Go code never fire. -/
inductive Scan
  | empty
  | mget (ks : List OB)
  | pre (p : Bytes)
  | range (lo hi : OB)
  | full
deriving Repr, Inhabited

def Scan.tp : Scan → Nat
  | .empty => scanEMPTY | .mget _ => scanMGET | .pre _ => scanPREFIX
  | .range .. => scanRANGE | .full => scanFULL

def cmpO (a b : OB) : Ordering := Bytes.cmp (bv a) (bv b)

/-- `inRange(start, end, val, isEnd)` -/
def inRange (s e v : OB) (isEnd : Bool) : Bool :=
  if s.isNone && e.isSome then
    if v.isNone && !isEnd then true
    else if v.isNone && isEnd then false
    else Bytes.le (bv v) (bv e)
  else if s.isSome && e.isNone then
    if v.isNone && !isEnd then false
    else if v.isNone && isEnd then true
    else Bytes.le (bv s) (bv v)
  else Bytes.le (bv s) (bv v) && Bytes.le (bv v) (bv e)

/-! ### MGET ∘ MGET: Go goes through `map[string][]byte` (random iteration order, one entry
    per string, the last slice stored wins); the canonical order here is byte order. -/

def dedupLast : List OB → List OB
  | [] => []
  | k :: ks => if ks.any (fun x => bv x == bv k) then dedupLast ks else k :: dedupLast ks

def insertO (x : OB) : List OB → List OB
  | [] => [x]
  | y :: ys => if Bytes.le (bv x) (bv y) then x :: y :: ys else y :: insertO x ys

def sortO (xs : List OB) : List OB := xs.foldr insertO []

def intersectionMget (l r : List OB) : Scan :=
  let keys := sortO ((dedupLast l).filter (fun k => r.any (fun x => bv x == bv k)))
  if keys.isEmpty then .empty else .mget keys

def unionMget (l r : List OB) : Scan :=
  let keys := sortO (dedupLast (l ++ r))
  if keys.isEmpty then .empty else .mget keys

def intersectionMgetAndPrefix (ks : List OB) (p : Bytes) : Scan :=
  let ikeys := ks.filter (fun k => Bytes.isPrefix p (bv k))
  if ikeys.isEmpty then .empty else .mget ikeys

def unionMgetAndPrefix (ks : List OB) (p : Bytes) : Scan :=
  if ks.any (fun k => !Bytes.isPrefix p (bv k)) then .full else .pre p

def intersectionPrefix (l r : Bytes) : Scan :=
  if l == r then .pre l
  else if Bytes.lt l r && Bytes.isPrefix l r then .pre r
  else if Bytes.lt r l && Bytes.isPrefix r l then .pre l
  else .empty

def unionPrefix (l r : Bytes) : Scan :=
  if l == r then .pre l
  else if Bytes.lt l r && Bytes.isPrefix l r then .pre l
  else if Bytes.lt r l && Bytes.isPrefix r l then .pre r
  else .full

/-- the swap at the top of `intersectionRange` / `unionRange` -/
def swapBounds (s e : OB) : OB × OB :=
  if s.isSome && e.isSome && cmpO s e == .gt then (e, s) else (s, e)

/-- the common tail: both nil → FULL, equal → MGET, else RANGE -/
def finishRange (ns ne : OB) : Scan :=
  if ns.isNone && ne.isNone then .full
  else if cmpO ns ne == .eq then .mget [ns]
  else .range ns ne

def intersectionRange (ls0 le0 rs0 re0 : OB) : Scan :=
  let (ls, le) := swapBounds ls0 le0
  let (rs, re) := swapBounds rs0 re0
  if cmpO ls rs == .eq && cmpO le re == .eq then .range ls0 le0
  else if ls.isNone && rs.isNone && le.isNone && re.isNone then .full
  else if inRange ls le rs false && !inRange ls le re true then finishRange rs le
  else if inRange rs re ls false && !inRange rs re le true then finishRange ls re
  else if inRange ls le rs false && inRange ls le re true then finishRange rs re
  else if inRange rs re ls false && inRange rs re le true then finishRange ls le
  else if !inRange ls le rs false && !inRange ls le re true then .empty
  else finishRange none none

def unionRange (ls0 le0 rs0 re0 : OB) : Scan :=
  let (ls, le) := swapBounds ls0 le0
  let (rs, re) := swapBounds rs0 re0
  if cmpO ls rs == .eq && cmpO le re == .eq then .range ls0 le0
  else if ls.isNone && rs.isNone && le.isNone && re.isNone then .full
  else if inRange ls le rs false && !inRange ls le re true then finishRange ls re
  else if inRange rs re ls false && !inRange rs re le true then finishRange rs le
  else if inRange ls le rs false && inRange ls le re true then finishRange ls le
  else if inRange rs re ls false && inRange rs re le true then finishRange rs re
  else if !inRange ls le rs false && !inRange ls le re true then
    if inRange ls rs le true then finishRange ls re
    else if inRange rs ls re true then finishRange rs le
    else finishRange none none
  else finishRange none none

def intersectionMgetAndRange (ks : List OB) (rs re : OB) : Scan :=
  let ikeys := ks.filter (fun k => inRange rs re k false)
  if ikeys.isEmpty then .empty else .mget ikeys

def intersectionPrefixAndRange (p : Bytes) (rs re : OB) : Scan :=
  if inRange rs re (some p) false then
    if Bytes.isPrefix p (bv re) then
      if Bytes.eq p (bv re) then .mget [some p] else .range (some p) re
    else .pre p
  else
    if rs.isSome && Bytes.isPrefix p (bv rs) then .range rs re
    else if re.isSome && Bytes.lt (bv re) p then .empty
    else if rs.isSome && Bytes.lt p (bv rs) then .empty
    else .full

def unionMgetAndRange (ks : List OB) (rs re : OB) : Scan :=
  if ks.any (fun k => !inRange rs re k false) then
    match ks with
    | [mkey] =>
      if rs.isSome && Bytes.lt (bv mkey) (bv rs) then .range mkey re
      else if re.isSome && Bytes.lt (bv re) (bv mkey) then .range rs mkey
      else .full
    | _ => .full
  else .range rs re

def unionPrefixAndRange (p : Bytes) (rs re : OB) : Scan :=
  if inRange rs re (some p) false then
    if re.isSome && Bytes.isPrefix p (bv re) then .range rs none
    else if re.isNone then .range rs re
    else if re.isSome && !Bytes.isPrefix p (bv re) then .range rs re
    else .full
  else
    if rs.isSome && Bytes.lt p (bv rs) && !Bytes.isPrefix p (bv rs) then
      if Bytes.eq p (bv re) then .mget [some p] else .range (some p) re
    else if rs.isSome && re.isSome && Bytes.isPrefix p (bv rs) && !Bytes.isPrefix p (bv re) then
      if Bytes.eq p (bv re) then .mget [some p] else .range (some p) re
    else if rs.isSome && re.isSome && Bytes.isPrefix p (bv rs) && Bytes.isPrefix p (bv re) then .pre p
    else if re.isSome && Bytes.lt (bv re) p then .range rs none
    else .full

/-- `optimizeAndExpr` after both operands are inferred -/
def andScan (l r : Scan) : Scan :=
  if l.tp == r.tp then
    match l, r with
    | .mget a, .mget b => intersectionMget a b
    | .pre a, .pre b => intersectionPrefix a b
    | .range a b, .range c d => intersectionRange a b c d
    | _, _ => l
  else
    let (lp, hp) := if l.tp < r.tp then (l, r) else (r, l)
    match lp, hp with
    | .mget ks, .pre p => intersectionMgetAndPrefix ks p
    | .mget ks, .range s e => intersectionMgetAndRange ks s e
    | .pre p, .range s e => intersectionPrefixAndRange p s e
    | _, _ => lp

/-- `optimizeOrExpr` after both operands are inferred -/
def orScan (l r : Scan) : Scan :=
  if l.tp == r.tp then
    match l, r with
    | .mget a, .mget b => unionMget a b
    | .pre a, .pre b => unionPrefix a b
    | .range a b, .range c d => unionRange a b c d
    | _, _ => l
  else
    let (lp, hp) := if l.tp < r.tp then (l, r) else (r, l)
    match lp, hp with
    | .mget ks, .pre p => unionMgetAndPrefix ks p
    | .mget ks, .range s e => unionMgetAndRange ks s e
    | .pre p, .range s e => unionPrefixAndRange p s e
    | _, _ => hp

/-- the two `switch`es every comparison atom starts with: (field, key) -/
def operands (l r : Expr) : KW × OB :=
  let (field, key) : KW × OB := match l with
    | .str _ d => (.value, some d)
    | .field _ f => (f, none)
    | _ => (.value, none)
  match r with
  | .str _ d => (field, some d)
  | .field _ f => (f, key)
  | _ => (field, key)

def leftField : Expr → KW
  | .field _ f => f
  | _ => .value

def optimizeEqualExpr (l r : Expr) : Scan :=
  match operands l r with
  | (.key, some k) => .mget [some k]
  | _ => .full

def optimizePrefixMatchExpr (l r : Expr) : Scan :=
  match operands l r with
  | (.key, some k) => .pre k
  | _ => .full

def optimizeGtGteExpr (l r : Expr) : Scan :=
  match operands l r with
  | (.key, some k) => if k.isEmpty then .full else .range (some k) none
  | _ => .full

def optimizeLtLteExpr (l r : Expr) : Scan :=
  match operands l r with
  | (.key, some k) => if k.isEmpty then .empty else .range none (some k)
  | _ => .full

/-- the string items of the list and whether every item was a string -/
def stringItems : List Expr → List Bytes × Bool
  | [] => ([], true)
  | .str _ d :: rest => let (ks, ok) := stringItems rest; (d :: ks, ok)
  | _ :: rest => let (ks, _) := stringItems rest; (ks, false)

def optimizeInExpr (l r : Expr) : Scan :=
  let field := leftField l
  let (keys, can) : List Bytes × Bool := match r with
    | .list _ items => stringItems items
    | _ => ([], false)
  if field == .key && !keys.isEmpty && can then .mget (keys.map some) else .full

def optimizeBetweenExpr (l r : Expr) : Scan :=
  let field := leftField l
  match r with
  | .list _ [.str _ lo, .str _ hi] => if field == .key then .range (some lo) (some hi) else .full
  | _ => .full

def optimizeExpr : Expr → Scan
  | .binop _ op l r =>
    match op with
    | .and | .kwAnd => andScan (optimizeExpr l) (optimizeExpr r)
    | .or | .kwOr => orScan (optimizeExpr l) (optimizeExpr r)
    | .prefixMatch => optimizePrefixMatchExpr l r
    | .eq => optimizeEqualExpr l r
    | .gt | .gte => optimizeGtGteExpr l r
    | .lt | .lte => optimizeLtLteExpr l r
    | .in_ => optimizeInExpr l r
    | .between => optimizeBetweenExpr l r
    | _ => .full
  | .bool _ _ b => if b then .full else .empty
  | _ => .full

def showOB : OB → String
  | none => "nil"
  | some b => Bytes.toHex b

/-- `Optimize()`: the plan node built from the scan type, rendered canonically
    (`NewMultiGetPlan` sorts its keys with `sort.Strings`). -/
def render : Scan → String
  | .empty => "EMPTY"
  | .mget ks => "MGET " ++ ",".intercalate ((Bytes.sort (ks.map bv)).map Bytes.toHex)
  | .pre p => "PREFIX " ++ Bytes.toHex p
  | .range lo hi => "RANGE " ++ showOB lo ++ " " ++ showOB hi
  | .full => "FULL"

end Kvql.Scan0
