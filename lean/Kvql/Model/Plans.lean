/-
  The plan layer of kvql: scan_plan.go, plan.go (`EmptyResultPlan`), projection_plan.go
  (`select *` only), limit_plan.go (`LimitPlan` over a child that talks to the storage),
  delete_plan.go, put_plan.go, remove_plan.go and the statement → plan part of optimizer.go
  (`BuildPlan`, with its double `Init`, and the delete → remove shortcut).

  PARAMETRIC in evaluation: a filter is a function `Pair → Except Err Bool`; a PUT pair is the
  result of its key expression and, as a function of the evaluated key, of its value
  expression; a REMOVE key is the result of its expression.  The scan node (what the planner
  chose) is an input.

  Loops are written with the counter the Go loop itself has (`for i < PlanBatchSize`) or, where
  the Go loop runs "until the child is dry", with fuel; running out of fuel is `Err.diverge` and
  is what Go does for `PlanBatchSize = 0` (an endless loop).  Core Lean only.
-/
import Kvql.Model.Storage
import Kvql.Model.Limit

namespace Kvql.Plans

open Kvql Kvql.Storage

abbrev Filter := Pair → Except Err Bool

/-- the scan node chosen by the planner (exported fields of the scan plans) -/
inductive ScanNode
  | full
  | prefix (p : Bytes)
  /-- `nil` bounds are `none`; a non-nil empty bound is `some []` -/
  | range (start stop : Option Bytes)
  | mget (keys : List Bytes)
  | empty
deriving DecidableEq, Repr, Inhabited

/-- the test that ends a cursor scan: `!bytes.HasPrefix(key, pb)` / `End != nil && key > End` -/
def ScanNode.stop : ScanNode → Bytes → Bool
  | .prefix p, k => !p.isPrefixOf k
  | .range _ (some e), k => decide (e < k)
  | _, _ => false

/-- state of a scan plan: `iter` (nil until `Init`), `done` (the end of the scan was seen), and
    for MultiGet `Keys[idx:]` -/
structure ScanSt where
  iter : Option Cursor := none
  keysLeft : List Bytes := []
  done : Bool := false
deriving Repr, Inhabited, DecidableEq

/-- a plan below the final plan: `Init`, `Next`, `Batch` with `PlanBatchSize` as argument -/
structure Child (σ : Type) where
  init : σ → M σ
  next : σ → M (Option Pair × σ)
  batch : Nat → σ → M (List Pair × σ)

/-! ### filter -/

/-- `FilterExec.FilterBatch`: the whole chunk is evaluated; one failing pair fails the chunk -/
def filterChunk (filter : Filter) : List Pair → Except Err (List Bool)
  | [] => .ok []
  | p :: r =>
    match filter p with
    | .error e => .error e
    | .ok b =>
      match filterChunk filter r with
      | .error e => .error e
      | .ok bs => .ok (b :: bs)

/-- `for i, m := range matchs { if m { ret = append(ret, filterBatch[i]) … } }` -/
def selectMatches : List Pair → List Bool → List Pair
  | p :: ps, b :: bs => if b then p :: selectMatches ps bs else selectMatches ps bs
  | _, _ => []

/-! ### FullScanPlan / PrefixScanPlan / RangeScanPlan

The three Go copies differ only in `Init` and in the test that ends the scan (`stop`). -/

/-- `Next` (when not `done`): loop over `iter.Next()`; the recursion is on what is left of the
    snapshot.  Returns (row, what is left, `done`). -/
def cursorNext (stop : Bytes → Bool) (filter : Filter) : List Pair → M (Option Pair × List Pair × Bool)
  | [] => do
    call (.next none)
    pure (none, [], true)
  | p :: r => do
    call (.next (some p.1))
    if stop p.1 then pure (none, r, true)
    else
      match filter p with
      | .error e => M.throw e
      | .ok true => pure (some p, r, false)
      | .ok false => cursorNext stop filter r

/-- inner loop of `Batch`: `for i := 0; i < PlanBatchSize; i++ { iter.Next() … }`;
    returns (filterBatch, end of the scan seen: `done = finish = true`, rest of the snapshot) -/
def readChunk (stop : Bytes → Bool) : Nat → List Pair → List Pair → M (List Pair × Bool × List Pair)
  | 0, rest, acc => pure (acc, false, rest)
  | _ + 1, [], acc => do
    call (.next none)
    pure (acc, true, [])
  | i + 1, p :: r, acc => do
    call (.next (some p.1))
    if stop p.1 then pure (acc, true, r)
    else readChunk stop i r (acc ++ [p])

/-- outer loop of `Batch` (when not `done`): `for !finish { … }`; returns (rows, what is left, `done`) -/
def cursorBatchLoop (stop : Bytes → Bool) (filter : Filter) (bs : Nat) :
    Nat → List Pair → List Pair → M (List Pair × List Pair × Bool)
  | 0, _, _ => M.throw .diverge
  | fuel + 1, rest, ret => do
    let (chunk, done, rest') ← readChunk stop bs rest []
    if chunk.isEmpty then
      if done then pure (ret, rest', true) else cursorBatchLoop stop filter bs fuel rest' ret
    else
      let ms ← M.ofExcept (filterChunk filter chunk)
      let ret' := ret ++ selectMatches chunk ms
      -- `count` is `len(ret)`
      if done then pure (ret', rest', true)
      else if ret'.length ≥ bs then pure (ret', rest', false)
      else cursorBatchLoop stop filter bs fuel rest' ret'

/-! ### MultiGetPlan -/

def mgetNext (filter : Filter) : List Bytes → M (Option Pair × List Bytes)
  | [] => pure (none, [])
  | k :: ks => do
    let v ← get k
    match v with
    | none => mgetNext filter ks
    | some v =>
      match filter (k, v) with
      | .error e => M.throw e
      | .ok true => pure (some (k, v), ks)
      | .ok false => mgetNext filter ks

/-- inner loop of `MultiGetPlan.Batch`; a missing key uses up one of the `PlanBatchSize` turns -/
def mgetReadChunk : Nat → List Bytes → List Pair → M (List Pair × Bool × List Bytes)
  | 0, ks, acc => pure (acc, false, ks)
  | _ + 1, [], acc => pure (acc, true, [])
  | i + 1, k :: ks, acc => do
    let v ← get k
    match v with
    | none => mgetReadChunk i ks acc
    | some v => mgetReadChunk i ks (acc ++ [(k, v)])

def mgetBatchLoop (filter : Filter) (bs : Nat) : Nat → List Bytes → List Pair → M (List Pair × List Bytes)
  | 0, _, _ => M.throw .diverge
  | fuel + 1, ks, ret => do
    let (chunk, finish, ks') ← mgetReadChunk bs ks []
    let ret' ←
      if chunk.isEmpty then pure ret
      else do
        let ms ← M.ofExcept (filterChunk filter chunk)
        pure (ret ++ selectMatches chunk ms)
    -- `if count >= PlanBatchSize { finish = true }` stands outside the `if len(filterBatch) > 0`
    if finish || ret'.length ≥ bs then pure (ret', ks')
    else mgetBatchLoop filter bs fuel ks' ret'

/-- `sort.Strings(keys)` and the removal of repeated keys in `NewMultiGetPlan` (the result of
    sorting is unique, so any algorithm models it): insertion into a strictly ascending list -/
def insertKey (k : Bytes) : List Bytes → List Bytes
  | [] => [k]
  | k' :: r => if k' < k then k' :: insertKey k r else if k = k' then k' :: r else k :: k' :: r

/-- the `Keys` of `NewMultiGetPlan(s, f, keys)` -/
def newMultiGetKeys (keys : List Bytes) : List Bytes := keys.foldr insertKey []

/-! ### the scan plans as one `Child` -/

namespace ScanNode

def newState : ScanNode → ScanSt
  | .mget keys => { keysLeft := keys }
  | _ => {}

def init (node : ScanNode) (st : ScanSt) : M ScanSt :=
  match node with
  | .full => do
    let c ← cursor
    let c ← c.seek []
    pure { st with iter := some c, done := false }
  | .prefix p => do
    let c ← cursor
    let c ← c.seek p
    pure { st with iter := some c, done := false }
  | .range start _ => do
    let c ← cursor
    match start with
    | none => pure { st with iter := some c, done := false }
    | some s => do
      let c ← c.seek s
      pure { st with iter := some c, done := false }
  | .mget _ => pure st
  | .empty => pure st

def isCursorScan : ScanNode → Bool
  | .full | .prefix _ | .range .. => true
  | _ => false

def next (node : ScanNode) (filter : Filter) (st : ScanSt) : M (Option Pair × ScanSt) :=
  match node with
  | .mget _ => do
    let (r, ks) ← mgetNext filter st.keysLeft
    pure (r, { st with keysLeft := ks })
  | .empty => pure (none, st)
  | _ =>
    if st.done then pure (none, st)
    else
      match st.iter with
      | none => M.throw .nilCursor
      | some c => do
        let (r, rest, done) ← cursorNext node.stop filter c.rest
        pure (r, { st with iter := some { c with rest := rest }, done := done })

def batch (node : ScanNode) (filter : Filter) (bs : Nat) (st : ScanSt) : M (List Pair × ScanSt) :=
  match node with
  | .mget _ => do
    let (rows, ks) ← mgetBatchLoop filter bs (st.keysLeft.length + 1) st.keysLeft []
    pure (rows, { st with keysLeft := ks })
  | .empty => pure ([], st)
  | _ =>
    if st.done then pure ([], st)
    else
      match st.iter with
      | none => M.throw .nilCursor
      | some c => do
        let (rows, rest, done) ← cursorBatchLoop node.stop filter bs (c.rest.length + 1) c.rest []
        pure (rows, { st with iter := some { c with rest := rest }, done := done })

def child (node : ScanNode) (filter : Filter) : Child ScanSt where
  init := node.init
  next := node.next filter
  batch := node.batch filter

end ScanNode

/-! ### LimitPlan over a child in `M`

Same state machine as `Kvql.Limit` (whose child is a list); here the child is asked through
`M`, may fail, and leaves its calls in the log.  `Kvql.Limit.St` is the state. -/

structure LimitSt (σ : Type) where
  lim : Limit.St := {}
  child : σ

namespace LimitPlan

/-- first loop of `Next`: `for p.skips < p.Start { child.Next() … p.skips++ }`; `n` is
    `Start - skips`.  Returns (child ran dry, rows skipped, child state). -/
def skipNext (c : Child σ) : Nat → σ → M (Bool × Nat × σ)
  | 0, s => pure (false, 0, s)
  | n + 1, s => do
    let (r, s') ← c.next s
    match r with
    | none => pure (true, 0, s')
    | some _ => do
      let (dry, k, s'') ← skipNext c n s'
      pure (dry, k + 1, s'')

def next (start count : Nat) (c : Child σ) (st : LimitSt σ) : M (Option Pair × LimitSt σ) := do
  let (dry, k, s1) ← skipNext c (start - st.lim.skips) st.child
  let lim1 := { st.lim with skips := st.lim.skips + k }
  if dry then pure (none, { lim := lim1, child := s1 })
  else if lim1.current ≥ count then pure (none, { lim := lim1, child := s1 })
  else do
    let (r, s2) ← c.next s1
    match r with
    | none => pure (none, { lim := lim1, child := s2 })
    | some p => pure (some p, { lim := { lim1 with current := lim1.current + 1 }, child := s2 })

/-- first loop of `Batch`; the fuel is `Start - skips` (every turn skips at least one row).
    Returns `none` when the child ran dry (`return nil, nil`), else the rows left over. -/
def skipBatch (start bs : Nat) (c : Child σ) : Nat → Nat → σ → M (Option (List Pair) × Nat × σ)
  | 0, skips, s => if skips < start then M.throw .diverge else pure (some [], skips, s)
  | fuel + 1, skips, s =>
    if skips < start then do
      let restSkips := start - skips
      let (rows, s') ← c.batch bs s
      if rows.isEmpty then pure (none, skips, s')
      else if rows.length ≤ restSkips then skipBatch start bs c fuel (skips + rows.length) s'
      else pure (some (rows.drop restSkips), skips + restSkips, s')
    else pure (some [], skips, s)

/-- third loop of `Batch`: `for !finish { rows = child.Batch() … }`; on entry `current < count`;
    the fuel is `PlanBatchSize - count + 1` (every turn adds at least one row) -/
def fillBatch (count bs : Nat) (c : Child σ) : Nat → Nat → List Pair → σ → M (List Pair × Nat × σ)
  | 0, _, _, _ => M.throw .diverge
  | fuel + 1, current, acc, s => do
    let (rows, s') ← c.batch bs s
    if rows.isEmpty then pure (acc, current, s')
    else
      let taken := rows.take (count - current)
      let current' := current + taken.length
      let acc' := acc ++ taken
      if current' ≥ count then pure (acc', current', s')
      else if acc'.length ≥ bs then pure (acc', current', s')
      else fillBatch count bs c fuel current' acc' s'

def batch (start count : Nat) (c : Child σ) (bs : Nat) (st : LimitSt σ) : M (List Pair × LimitSt σ) := do
  let (rows?, skips, s1) ← skipBatch start bs c (start - st.lim.skips) st.lim.skips st.child
  match rows? with
  | none => pure ([], { lim := { st.lim with skips := skips }, child := s1 })
  | some rows =>
    let taken := rows.take (count - st.lim.current)
    let current1 := st.lim.current + taken.length
    if current1 ≥ count then pure (taken, { lim := { skips := skips, current := current1 }, child := s1 })
    else do
      let (out, current2, s2) ← fillBatch count bs c (bs + 1) current1 taken s1
      pure (out, { lim := { skips := skips, current := current2 }, child := s2 })

def init (c : Child σ) (st : LimitSt σ) : M (LimitSt σ) := do
  let s ← c.init st.child
  pure { lim := {}, child := s }

def child (start count : Nat) (c : Child σ) : Child (LimitSt σ) where
  init := init c
  next := next start count c
  batch := batch start count c

end LimitPlan

/-! ### final plans -/

/-- what a poll of a final plan hands to the caller -/
inductive Row
  | pair (p : Pair)
  /-- the single row `[n]` of PUT / REMOVE / DELETE -/
  | count (n : Nat)
deriving DecidableEq, Repr, Inhabited

/-! #### PutPlan -/

/-- a PUT pair after evaluation: the key expression's result and the value expression's result
    as a function of the evaluated key (`ekvp.Key = key`) -/
structure PutPair where
  key : Except Err Bytes
  value : Bytes → Except Err Bytes

/-- `for i, kvp := range p.KVPairs { processKVPair … }`: in order, the first failure wins -/
def evalPairs : List PutPair → Except Err (List Pair)
  | [] => .ok []
  | p :: r =>
    match p.key with
    | .error e => .error e
    | .ok k =>
      match p.value k with
      | .error e => .error e
      | .ok v =>
        match evalPairs r with
        | .error e => .error e
        | .ok kvs => .ok ((k, v) :: kvs)

/-- `PutPlan.execute` -/
def PutPlan.execute (pairs : List PutPair) : M Nat := do
  let kvps ← M.ofExcept (evalPairs pairs)
  match kvps with
  | [] => pure 0
  | [kv] => do
    put kv.1 kv.2
    pure 1
  | _ => do
    batchPut kvps
    pure kvps.length

/-! #### RemovePlan -/

def evalKeys : List (Except Err Bytes) → Except Err (List Bytes)
  | [] => .ok []
  | k :: r =>
    match k with
    | .error e => .error e
    | .ok k =>
      match evalKeys r with
      | .error e => .error e
      | .ok ks => .ok (k :: ks)

/-- `RemovePlan.execute` -/
def RemovePlan.execute (keys : List (Except Err Bytes)) : M Nat := do
  let ks ← M.ofExcept (evalKeys keys)
  match ks with
  | [] => pure 0
  | [k] => do
    delete k
    pure 1
  | _ => do
    batchDelete ks
    pure ks.length

/-! #### DeletePlan -/

/-- `DeletePlan.execute`: `for { rows = child.Batch(); if none return; BatchDelete(keys) }`.
    Go returns `count, err`: the count reached is part of an error outcome.
    Result: ((what `execute` returns, count), state of the child). -/
def DeletePlan.loop (c : Child σ) (bs : Nat) : Nat → Nat → σ → Option Nat → World → ((Except Err Nat × Nat) × σ) × World
  | 0, count, s, _, w => (((.error .diverge, count), s), w)
  | fuel + 1, count, s, f, w =>
    match c.batch bs s f w with
    | (.error e, w') => (((.error e, count), s), w')
    | (.ok (rows, s'), w') =>
      if rows.isEmpty then (((.ok count, count), s'), w')
      else
        match batchDelete (rows.map (·.1)) f w' with
        | (.error e, w'') => (((.error e, count), s'), w'')
        | (.ok (), w'') => DeletePlan.loop c bs fuel (count + rows.length) s' f w''

/-! ### statements and `BuildPlan` -/

inductive Stmt
  | select (node : ScanNode) (filter : Filter)
  /-- `hasAnd`: the WHERE expression contains `&` / `and` (no shortcut to RemovePlan then) -/
  | delete (node : ScanNode) (filter : Filter) (hasAnd : Bool) (limit : Option (Nat × Nat))
  | put (pairs : List PutPair)
  | remove (keys : List (Except Err Bytes))

/-- the plan tree `BuildPlan` returns, with its state -/
inductive Plan
  /-- ProjectionPlan{AllFields} over a scan -/
  | select (node : ScanNode) (filter : Filter) (st : ScanSt)
  | deleteScan (node : ScanNode) (filter : Filter) (executed : Bool) (st : ScanSt)
  | deleteLimit (node : ScanNode) (filter : Filter) (start count : Nat) (executed : Bool) (st : LimitSt ScanSt)
  | put (pairs : List PutPair) (executed : Bool)
  | remove (keys : List (Except Err Bytes)) (executed : Bool)

/-- how many rows a scan can still hand out at most: what is left of the snapshot, or of the key list -/
def ScanSt.size (st : ScanSt) : Nat :=
  (match st.iter with | some c => c.rest.length | none => 0) + st.keysLeft.length

def Plan.size : Plan → Nat
  | .select _ _ st | .deleteScan _ _ _ st => st.size
  | .deleteLimit _ _ _ _ _ st => st.child.size
  | _ => 0

/-- `Init` of the final plan -/
def Plan.init : Plan → M Plan
  | .select node filter st => do
    let st' ← node.init st
    pure (.select node filter st')
  | .deleteScan node filter _ st => do
    let st' ← node.init st
    pure (.deleteScan node filter false st')
  | .deleteLimit node filter start count _ st => do
    let st' ← LimitPlan.init (node.child filter) st
    pure (.deleteLimit node filter start count false st')
  | .put pairs _ => pure (.put pairs false)
  | .remove keys _ => pure (.remove keys false)

/-- `Optimizer.buildPlan` (after parsing and scan planning): builds the tree and runs the first `Init` -/
def buildPlan1 : Stmt → M Plan
  | .select node filter => Plan.init (.select node filter node.newState)
  | .put pairs => Plan.init (.put pairs false)
  | .remove keys => Plan.init (.remove keys false)
  | .delete node filter hasAnd limit =>
    match node, limit with
    | .empty, _ => Plan.init (.deleteScan .empty filter false {})
    | .mget keys, none =>
      if !hasAnd then
        -- optimizeDeletePlanToRemovePlan: the keys become string literals
        Plan.init (.remove (keys.map .ok) false)
      else Plan.init (.deleteScan node filter false node.newState)
    | _, none => Plan.init (.deleteScan node filter false node.newState)
    | _, some (start, count) =>
      Plan.init (.deleteLimit node filter start count false { child := node.newState })

/-- `Optimizer.BuildPlan`: `buildPlan`, then `Init` once more -/
def buildPlan (stmt : Stmt) : M Plan := do
  let p ← buildPlan1 stmt
  p.init

/-- one poll (`Next` or `Batch`) of a final plan as the caller sees it: rows, an error if any,
    the new plan.  PUT/REMOVE/DELETE hand out their row `[n]` together with the error. -/
structure Polled where
  rows : List Row
  err : Option Err
  plan : Plan

inductive PollKind | next | batch
deriving DecidableEq, Repr

def writePoll (exec : M Nat) (plan' : Plan) (f : Option Nat) (w : World) : Polled × World :=
  match exec f w with
  | (.ok n, w') => (⟨[.count n], none, plan'⟩, w')
  | (.error e, w') => (⟨[.count 0], some e, plan'⟩, w')

def Plan.poll (kind : PollKind) (bs : Nat) (plan : Plan) (f : Option Nat) (w : World) : Polled × World :=
  match plan with
  | .select node filter st =>
    match kind with
    | .next =>
      match node.next filter st f w with
      | (.ok (none, st'), w') => (⟨[], none, .select node filter st'⟩, w')
      | (.ok (some p, st'), w') => (⟨[.pair p], none, .select node filter st'⟩, w')
      | (.error e, w') => (⟨[], some e, plan⟩, w')
    | .batch =>
      match node.batch filter bs st f w with
      | (.ok (rows, st'), w') => (⟨rows.map .pair, none, .select node filter st'⟩, w')
      | (.error e, w') => (⟨[], some e, plan⟩, w')
  | .put pairs executed =>
    if executed then (⟨[], none, plan⟩, w)
    else writePoll (PutPlan.execute pairs) (.put pairs true) f w
  | .remove keys executed =>
    if executed then (⟨[], none, plan⟩, w)
    else writePoll (RemovePlan.execute keys) (.remove keys true) f w
  | .deleteScan node filter executed st =>
    if executed then (⟨[], none, plan⟩, w)
    else
      match DeletePlan.loop (node.child filter) bs (st.size + 2) 0 st f w with
      | (((.ok n, _), st'), w') => (⟨[.count n], none, .deleteScan node filter true st'⟩, w')
      | (((.error e, n), st'), w') => (⟨[.count n], some e, .deleteScan node filter true st'⟩, w')
  | .deleteLimit node filter start count executed st =>
    if executed then (⟨[], none, plan⟩, w)
    else
      match DeletePlan.loop (LimitPlan.child start count (node.child filter)) bs (st.child.size + 2) 0 st f w with
      | (((.ok n, _), st'), w') => (⟨[.count n], none, .deleteLimit node filter start count true st'⟩, w')
      | (((.error e, n), st'), w') => (⟨[.count n], some e, .deleteLimit node filter start count true st'⟩, w')

/-! ### running a statement the way a caller does -/

/-- outcome of a run: where it failed, if it did -/
inductive Outcome
  | ok
  | planErr (e : Err)
  | execErr (e : Err)
deriving DecidableEq, Repr, Inhabited

structure RunOut where
  outcome : Outcome
  /-- what each poll handed out (the last, empty, poll of a drain is not listed) -/
  polls : List (List Row)
deriving DecidableEq, Repr

/-- poll until a poll hands out nothing or fails -/
def drain (kind : PollKind) (bs : Nat) : Nat → Plan → List (List Row) → Option Nat → World → RunOut × World
  | 0, _, acc, _, w => (⟨.execErr .diverge, acc⟩, w)
  | fuel + 1, plan, acc, f, w =>
    match plan.poll kind bs f w with
    | (⟨rows, some e, _⟩, w') => (⟨.execErr e, if rows.isEmpty then acc else acc ++ [rows]⟩, w')
    | (⟨[], none, _⟩, w') => (⟨.ok, acc⟩, w')
    | (⟨rows, none, plan'⟩, w') => drain kind bs fuel plan' (acc ++ [rows]) f w'

/-- a prescribed sequence of polls, each recorded, errors included (the plan is polled on) -/
def pollSeq (bs : Nat) (f : Option Nat) : List PollKind → Plan → World → List (List Row × Option Err) →
    List (List Row × Option Err) × World
  | [], _, w, acc => (acc, w)
  | k :: ks, plan, w, acc =>
    match plan.poll k bs f w with
    | (⟨rows, e, plan'⟩, w') => pollSeq bs f ks plan' w' (acc ++ [(rows, e)])

/-- `BuildPlan` then drain (a drain hands out at most one row per pair of the snapshot or listed key) -/
def runG (stmt : Stmt) (kind : PollKind) (bs : Nat) (f : Option Nat) (w : World) : RunOut × World :=
  match buildPlan stmt f w with
  | (.error e, w') => (⟨.planErr e, []⟩, w')
  | (.ok plan, w') => drain kind bs (plan.size + 2) plan [] f w'

/-- a statement run on a store, with an empty log, fault at call `f` if any -/
def run (stmt : Stmt) (kind : PollKind) (bs : Nat) (f : Option Nat) (store : Store) : RunOut × World :=
  runG stmt kind bs f { store := store }

end Kvql.Plans
