/-
  The statement tree of statement.go, as values, and its wire format.

  Only what `Parser.Parse` returns is represented: `*SelectStmt` (a bare `where …` is a
  select with `AllFields = true` and no field lists), `*PutStmt`, `*RemoveStmt`,
  `*DeleteStmt`.  `OrderField.Field` and (for an alias or an expression) `GroupByField.Expr`
  point at nodes of `SelectStmt.Fields`; an order field is therefore recorded by name only,
  a group-by field with a copy of the expression it points at (in its final, checked state).

  Wire format — flat, comma separated, no spaces, expressions in the encoding of
  `Expr.encode` (Kvql/Model/Expr.lean), byte strings in hex (`-` = empty):

    SEL,pos,all,nf,FIELD…,nn,hexname…,nt,type…,wpos,WHERE,ORDER,GROUP,LIMIT
        all    0|1 (`AllFields`)
        nf     number of `Fields`, then that many expressions
        nn     number of `FieldNames`, then that many hex names
        nt     number of `FieldTypes`, then that many type codes
        wpos   `Where.Pos`, then the WHERE expression
        ORDER  0 | 1,pos,n,(hexname,order)…      order = token type code of ASC / DESC
        GROUP  0 | 1,pos,n,(hexname,EXPR)…
        LIMIT  0 | 1,pos,start,count
    PUT,pos,n,(KEY,VALUE)…
    REM,pos,n,KEY…
    DEL,pos,wpos,WHERE,LIMIT

  The Go serialiser is `wireStmt` in harness/astwire.go.
-/
import Kvql.Model.Expr

namespace Kvql

structure LimitS where
  pos : Nat
  start : Int64      -- Go `int` (64-bit): `int(exprs[0].Int)`
  count : Int64
deriving Repr, Inhabited

structure OrderS where
  pos : Nat
  orders : List (Bytes × Nat)            -- (OrderField.Name, OrderField.Order)
deriving Repr, Inhabited

structure GroupS where
  pos : Nat
  fields : List (Bytes × Expr)           -- (GroupByField.Name, GroupByField.Expr)
deriving Repr, Inhabited

structure SelectS where
  pos : Nat
  allFields : Bool
  fields : List Expr
  fieldNames : List Bytes
  fieldTypes : List Nat
  wherePos : Nat
  where_ : Expr
  order : Option OrderS
  groupBy : Option GroupS
  limit : Option LimitS
deriving Repr, Inhabited

inductive Stmt
  | select (s : SelectS)
  | put (pos : Nat) (pairs : List (Expr × Expr))
  | remove (pos : Nat) (keys : List Expr)
  | delete (pos : Nat) (wherePos : Nat) (where_ : Expr) (limit : Option LimitS)
deriving Repr, Inhabited

namespace Stmt

def encodeLimit : Option LimitS → List String
  | none => ["0"]
  | some l => ["1", toString l.pos, toString l.start.toInt, toString l.count.toInt]

def encodeOrder : Option OrderS → List String
  | none => ["0"]
  | some o => ["1", toString o.pos, toString o.orders.length] ++
      o.orders.flatMap (fun p => [Bytes.toHex p.1, toString p.2])

def encodeGroup : Option GroupS → List String
  | none => ["0"]
  | some g => ["1", toString g.pos, toString g.fields.length] ++
      g.fields.flatMap (fun p => Bytes.toHex p.1 :: Expr.encode p.2)

def encode : Stmt → List String
  | .select s =>
    ["SEL", toString s.pos, if s.allFields then "1" else "0", toString s.fields.length] ++
    Expr.encodeList s.fields ++
    [toString s.fieldNames.length] ++ s.fieldNames.map Bytes.toHex ++
    [toString s.fieldTypes.length] ++ s.fieldTypes.map toString ++
    [toString s.wherePos] ++ Expr.encode s.where_ ++
    encodeOrder s.order ++ encodeGroup s.groupBy ++ encodeLimit s.limit
  | .put pos pairs =>
    ["PUT", toString pos, toString pairs.length] ++
    pairs.flatMap (fun p => Expr.encode p.1 ++ Expr.encode p.2)
  | .remove pos keys => ["REM", toString pos, toString keys.length] ++ Expr.encodeList keys
  | .delete pos wpos w lim =>
    ["DEL", toString pos, toString wpos] ++ Expr.encode w ++ encodeLimit lim

def toWire (s : Stmt) : String := ",".intercalate (encode s)

end Stmt
end Kvql
