/-
  expression_exec_vec.go: the vectorised evaluator `ExecuteBatch`, with the vector bodies of
  scalar_func_vec.go (`vecBody`).

  Result slices.  The Go code computes most results *in place* in the slice returned for the left
  operand (`rleft[i] = …; return rleft`) and iterates `for i < len(chunk)`.  Inside the evaluators
  this reuse is not observable through aliasing: every `ExecuteBatch` returns a freshly allocated
  slice (literals, key/value, function results) or a private copy (an alias reference copies on
  a cache hit and stores a copy on a miss), no slice is returned twice, and element values
  ([]byte, []float64, maps) are never written to.  What IS observable is the *length* of the reused
  slice: if the operand's result is shorter than the chunk the loop panics (index out of
  range), if it is longer the tail is returned unchanged.  Both happen only when an operand's
  result length differs from the chunk length: a VarArgs function called with too few arguments in
  batch mode (`list()` returns `nil, nil`), or a chunk-cache hit for a different chunk with the
  same first key.  `mapRows` / `zipRows` keep exactly that behaviour.
-/
import Kvql.Model.Exec

namespace Kvql
open Generated

def idxPanic : Err := .panic "batch: slice[i], index out of range"

/-- `for i := 0; i < n; i++ { xs[i], err = f(xs[i]) }; return xs` -/
def mapRows (f : Value → Except Err Value) : Nat → List Value → Except Err (List Value)
  | 0, xs => .ok xs
  | _ + 1, [] => .error idxPanic
  | n + 1, x :: xs => do
    let y ← f x
    let ys ← mapRows f n xs
    pure (y :: ys)

/-- `ret := make([]any, n); for i < n { ret[i] = f(xs[i]) }` -/
def mapRowsFresh (f : Value → Value) : Nat → List Value → Except Err (List Value)
  | 0, _ => .ok []
  | _ + 1, [] => .error idxPanic
  | n + 1, x :: xs => do
    let ys ← mapRowsFresh f n xs
    pure (f x :: ys)

/-- `for i < n { ls[i], err = f(ls[i], rs[i]) }; return ls` -/
def zipRows (f : Value → Value → Except Err Value) : Nat → List Value → List Value → Except Err (List Value)
  | 0, ls, _ => .ok ls
  | n + 1, l :: ls, r :: rs => do
    let y ← f l r
    let ys ← zipRows f n ls rs
    pure (y :: ys)
  | _ + 1, _, _ => .error idxPanic

/-- `for i < n { as[i], err = f(as[i], bs[i], cs[i]) }; return as` -/
def zip3Rows (f : Value → Value → Value → Except Err Value) :
    Nat → List Value → List Value → List Value → Except Err (List Value)
  | 0, as, _, _ => .ok as
  | n + 1, a :: as, b :: bs, c :: cs => do
    let y ← f a b c
    let ys ← zip3Rows f n as bs cs
    pure (y :: ys)
  | _ + 1, _, _, _ => .error idxPanic

/-- `for i := range chunk { ret[i], err = f(chunk[i]) }` through the context -/
def forPairs (f : Pair → M Value) : List Pair → M (List Value)
  | [] => pure []
  | kv :: kvs => do
    let v ← f kv
    let vs ← forPairs f kvs
    pure (v :: vs)

/-- `for i := range chunk { ret[i], err = f(chunk[i], args, nil) }`: the row function runs with a
    nil context, the caller's context is left as it is -/
def rowWiseNoCtx (f : Pair → M Value) (chunk : List Pair) : M (List Value) :=
  fun ctx => ((forPairs f chunk Ctx.none).1, ctx)

def boolV (x : Except Err Bool) : Except Err Value := x.map Value.bool

/-- one row of the ListExpr loop of `execInBatch`: `listValues[j][i]` for j = 0, 1, … -/
def inColumns (number : Bool) (left : Value) (i : Nat) : List (List Value) → Except Err Bool
  | [] => .ok false
  | col :: cols =>
    match col[i]? with
    | none => .error idxPanic
    | some lval =>
      match compareBy number left lval .eq with
      | .error e => .error e
      | .ok true => .ok true
      | .ok false => inColumns number left i cols

/-- rows i, i+1, … of the ListExpr loop of `execInBatch` (in place in `rleft`) -/
def inRows (number : Bool) (cols : List (List Value)) : Nat → Nat → List Value → Except Err (List Value)
  | 0, _, ls => .ok ls
  | _ + 1, _, [] => .error idxPanic
  | n + 1, i, l :: ls => do
    let c ← inColumns number l i cols
    let rest ← inRows number cols n (i + 1) ls
    pure (.bool c :: rest)

/-- membership loop of `execInBatch` over an unpacked list value: an element that cannot be compared
    with the left operand ends the loop without a match and WITHOUT an error, exactly as the row loop
    of `execStringIn` / `execNumberIn` (`inAnyList`) does.  The lists functions return are homogeneous
    (`[]string`, `[]int64`, `[]float64`), so either every element is comparable with `left` or none is. -/
def inValues (number : Bool) (left : Value) (vals : List Value) : Except Err Bool :=
  .ok (inAnyList number left vals)

/-- the loop of the call/alias branch of `execInBatch` (in place in `rleft`): `frets[i]` is indexed and
    unpacked before `rleft[i]` is read -/
def inCallRows (number : Bool) : Nat → List Value → List Value → Except Err (List Value)
  | 0, ls, _ => .ok ls
  | _ + 1, _, [] => .error idxPanic
  | n + 1, ls, fret :: frets =>
    match unpackArray fret with
    | none => .error .operandType
    | some vals =>
      match ls with
      | [] => .error idxPanic
      | left :: ls' => do
        let c ← inValues number left vals
        let rest ← inCallRows number n ls' frets
        pure (.bool c :: rest)

/-- the batch loop of `substr` -/
def substrRow (v s l : Value) : Except Err Value :=
  substrKernel (toStringV v) (toIntV s 0) (toIntV l 0)

/-- one iteration of the distance loops: `largs[i]` is converted before `rargs[i]` is indexed -/
def distanceRow (dist : List F64 → List F64 → Except Err F64) (l : Value) (r? : Option Value) : Except Err Value := do
  let lv ← toFloatList l
  match r? with
  | none => .error idxPanic
  | some r =>
    let rv ← toFloatList r
    let d ← dist lv rv
    pure (.float d)

/-- `for i < n { ls[i], err = f(ls[i], rs[i]) }` where `rs[i]` is indexed only inside `f` -/
def zipRowsLazy (f : Value → Option Value → Except Err Value) : Nat → List Value → List Value → Except Err (List Value)
  | 0, ls, _ => .ok ls
  | _ + 1, [], _ => .error idxPanic
  | n + 1, l :: ls, rs => do
    let y ← f l rs.head?
    let ys ← zipRowsLazy f n ls rs.tail
    pure (y :: ys)

/-- one iteration of `execBetweenBatch`: the bounds are indexed and compared before `rleft[i]` is read -/
def betweenRow (number : Bool) (left? : Option Value) (lval uval : Value) : Except Err Value := do
  let cmp ← compareBy number lval uval .lt
  if !cmp then .error .data
  else
    match left? with
    | none => .error idxPanic
    | some left =>
      let lcmp ← compareBy number lval left .lte
      if !lcmp then .ok (.bool false)
      else
        let ucmp ← compareBy number left uval .lte
        .ok (.bool ucmp)

/-- the loop of `execBetweenBatch` (in place in `rleft`) -/
def betweenRows (number : Bool) : Nat → List Value → List Value → List Value → Except Err (List Value)
  | 0, ls, _, _ => .ok ls
  | n + 1, ls, lv :: lbs, uv :: ubs => do
    let y ← betweenRow number ls.head? lv uv
    let ys ← betweenRows number n ls.tail lbs ubs
    pure (y :: ys)
  | _ + 1, _, _, _ => .error idxPanic

/-- `execEqualBatch` after both operands are evaluated: empty chunk, then the comparison of `execEqual`
    pair by pair (the kind is chosen from each pair's left value) -/
def equalBatchFinish (not : Bool) (n : Nat) (rleft rright : List Value) : Except Err (List Value) :=
  if n == 0 then .ok []                                        -- `return nil, nil`
  else zipRows (fun x y => boolV ((equalRow x y).map (fun c => if not then !c else c))) n rleft rright

mutual
  /-- `Expression.ExecuteBatch(chunk, ctx)` -/
  def execBatch : Expr → List Pair → M (List Value)
    | .str _ d, chunk => pure (chunk.map (fun _ => .bytes d))
    | .field _ k, chunk => pure (chunk.map (fun kv => .bytes (match k with | .key => kv.key | .value => kv.value)))
    | .name _ d, chunk => pure (chunk.map (fun _ => .str d))
    | .num _ _ v, chunk => pure (chunk.map (fun _ => .int v))
    | .float _ _ v, chunk => pure (chunk.map (fun _ => .float v))
    | .bool _ _ v, chunk => pure (chunk.map (fun _ => .bool v))
    | .list _ items, chunk => pure (chunk.map (fun _ => .exprList items))
    | .cycle, _ => M.throw .outOfFuel
    | .not _ r, chunk => do
      let right ← execBatch r chunk
      M.lift (mapRows (fun v => boolV ((asBool v).map (!·))) chunk.length right)
    | .ref _ name target, chunk => fun ctx =>
      -- `chunk[0].Key` is evaluated whenever ctx != nil, before the cache is consulted
      if ctx.present && chunk.isEmpty then (.error (.panic "FieldReferenceExpr.ExecuteBatch: chunk[0]"), ctx)
      else
        let firstKey := (chunk.head?.map (·.key)).getD []
        match (if ctx.present then ctx.getChunkFieldResult name firstKey else none) with
        | some cval => (.ok cval, ctx.updateHit)
        | none =>
          match execBatch target chunk ctx with
          | (.error e, ctx') => (.error e, ctx')
          | (.ok vs, ctx') => (.ok vs, if ctx'.present then ctx'.setChunkFieldResult name firstKey vs else ctx')
    | .access _ l f, chunk => do
      let left ← execBatch l chunk
      match f with
      | .str _ d => M.lift (mapRows (dictAccess d) left.length left)
      | .num _ _ n => M.lift (mapRows (listAccess n) left.length left)
      | _ => M.throw .syntaxInExec
    | .call _ nm args, chunk =>
      match funcNameOf nm with
      | .error e => M.throw e
      | .ok fname =>
        match lookupFunc fname with
        | none => M.throw .unknownFunc
        | some fo =>
          if !fo.varArgs && args.length != fo.numArgs then M.throw .arity
          else if fo.varArgs && args.length < fo.numArgs then M.throw .arity
          else match fo.body with
            | none => M.throw (.panic "function body not modelled")
            | some b =>
              if fo.vecIsTwin then vecBody b args chunk
              else rowWiseNoCtx (rowBody b args) chunk  -- `BodyVec == nil`: the row body per pair, nil context
    | .binop _ op l r, chunk =>
      let leftStr := retType l == tyTSTR
      let n := chunk.length
      match op with
      | .eq => do
        let a ← execBatch l chunk
        let b ← execBatch r chunk
        M.lift (equalBatchFinish false n a b)
      | .neq => do
        let a ← execBatch l chunk
        let b ← execBatch r chunk
        M.lift (equalBatchFinish true n a b)
      | .prefixMatch => do
        let a ← execBatch l chunk
        let b ← execBatch r chunk
        M.lift (zipRows (fun x y =>
          match convertToByteArray x, convertToByteArray y with
          | some x, some y => .ok (.bool (y.isPrefixOf x))
          | _, _ => .error .operandType) n a b)
      | .regexMatch => do
        let a ← execBatch l chunk
        let b ← execBatch r chunk
        M.lift (zipRows (fun x y =>
          match convertToByteArray x, convertToByteArray y with
          | some x, some y =>
            match Regex.parse y with
            | none => .error .data
            | some re => .ok (.bool (re.matches x))
          | _, _ => .error .operandType) n a b)
      | .and | .kwAnd => do
        let a ← execBatch l chunk
        let b ← execBatch r chunk
        M.lift (zipRows (fun x y =>
          match x, y with
          | .bool p, .bool q => .ok (.bool (p && q))
          | _, _ => .error .operandType) n a b)
      | .or | .kwOr => do
        let a ← execBatch l chunk
        let b ← execBatch r chunk
        M.lift (zipRows (fun x y =>
          match x, y with
          | .bool p, .bool q => .ok (.bool (p || q))
          | _, _ => .error .operandType) n a b)
      | .add =>
        if leftStr then do
          let a ← execBatch l chunk
          let b ← execBatch r chunk
          M.lift (zipRows (fun x y =>
            match convertToByteArray x, convertToByteArray y with
            | some x, some y => .ok (.bytes (x ++ y))
            | _, _ => .error .operandType) n a b)
        else do
          let a ← execBatch l chunk
          let b ← execBatch r chunk
          M.lift (zipRows (fun x y => executeMathOp x y .add) n a b)
      | .sub => do
        let a ← execBatch l chunk
        let b ← execBatch r chunk
        M.lift (zipRows (fun x y => executeMathOp x y .sub) n a b)
      | .mul => do
        let a ← execBatch l chunk
        let b ← execBatch r chunk
        M.lift (zipRows (fun x y => executeMathOp x y .mul) n a b)
      | .div => do
        let a ← execBatch l chunk
        let b ← execBatch r chunk
        M.lift (zipRows (fun x y => executeMathOp x y .div) n a b)
      | .gt => do
        let a ← execBatch l chunk
        let b ← execBatch r chunk
        M.lift (zipRows (fun x y => boolV (compareBy (!leftStr) x y .gt)) n a b)
      | .gte => do
        let a ← execBatch l chunk
        let b ← execBatch r chunk
        M.lift (zipRows (fun x y => boolV (compareBy (!leftStr) x y .gte)) n a b)
      | .lt => do
        let a ← execBatch l chunk
        let b ← execBatch r chunk
        M.lift (zipRows (fun x y => boolV (compareBy (!leftStr) x y .lt)) n a b)
      | .lte => do
        let a ← execBatch l chunk
        let b ← execBatch r chunk
        M.lift (zipRows (fun x y => boolV (compareBy (!leftStr) x y .lte)) n a b)
      | .in_ => do
        let rleft ← execBatch l chunk
        let evalRight : M (List Value) := execBatch r chunk
        match r with
        | .list _ items => do
          let cols ← execInItemsBatch (!leftStr) items chunk
          M.lift (inRows (!leftStr) cols n 0 rleft)
        | .call .. | .ref .. => do
          let frets ← evalRight
          M.lift (inCallRows (!leftStr) n rleft frets)
        | _ => M.throw .operandType
      | .between => do
        let rleft ← execBatch l chunk
        match r with
        | .list _ [lo, hi] =>
          if leftStr && retType lo != tyTSTR then M.throw .operandType
          else if leftStr && retType hi != tyTSTR then M.throw .operandType
          else if !leftStr && retType lo != tyTNUMBER then M.throw .operandType
          else if !leftStr && retType hi != tyTNUMBER then M.throw .operandType
          else
            let lb ← execBatch lo chunk
            let ub ← execBatch hi chunk
            M.lift (betweenRows (!leftStr) n rleft lb ub)
        | _ => M.throw .operandType
      | .not => M.throw .unknownOp

  /-- the first loop of the ListExpr branch of `execInBatch`: type test, then batch evaluation, per item -/
  def execInItemsBatch (number : Bool) : List Expr → List Pair → M (List (List Value))
    | [], _ => pure []
    | e :: es, chunk =>
      if retType e != (if number then tyTNUMBER else tyTSTR) then M.throw .operandType
      else do
        let vals ← execBatch e chunk
        let rest ← execInItemsBatch number es chunk
        pure (vals :: rest)

  /-- `funcObj.BodyVec(chunk, args, ctx)` -/
  def vecBody : Body → List Expr → List Pair → M (List Value)
    | .lower, a0 :: _, chunk => do
      let rarg ← execBatch a0 chunk
      M.lift (mapRowsFresh (fun v => .str (toLower (toStringV v))) chunk.length rarg)
    | .upper, a0 :: _, chunk => do
      let rarg ← execBatch a0 chunk
      M.lift (mapRowsFresh (fun v => .str (toUpper (toStringV v))) chunk.length rarg)
    | .toInt, a0 :: _, chunk => do
      let rarg ← execBatch a0 chunk
      M.lift (mapRowsFresh (fun v => .int (toIntV v 0)) chunk.length rarg)
    | .toFloat, a0 :: _, chunk => do
      let rarg ← execBatch a0 chunk
      M.lift (mapRowsFresh (fun v => .float (toFloatV v F64.zero)) chunk.length rarg)
    | .toStr, a0 :: _, chunk => do
      let rarg ← execBatch a0 chunk
      M.lift (mapRowsFresh (fun v => .str (toStringV v)) chunk.length rarg)
    | .isInt, a0 :: _, chunk => do
      let rarg ← execBatch a0 chunk
      M.lift (mapRowsFresh (fun v => .bool (isIntV v)) chunk.length rarg)
    | .isFloat, a0 :: _, chunk => do
      let rarg ← execBatch a0 chunk
      M.lift (mapRowsFresh (fun v => .bool (isFloatV v)) chunk.length rarg)
    | .strlen, a0 :: _, chunk => do
      let rarg ← execBatch a0 chunk
      M.lift (mapRowsFresh (fun v => .int (Int64.ofNat (toStringV v).length)) chunk.length rarg)
    | .len, a0 :: _, chunk => do
      let rarg ← execBatch a0 chunk
      M.lift (mapRows (fun v => (getListLength v).map Value.goInt) chunk.length rarg)
    | .json, a0 :: _, chunk => do
      let values ← execBatch a0 chunk
      M.lift (mapRows (fun v =>
        match convertToByteArray v with
        | none => .error .operandType
        | some b => .ok (.json (parseJsonObject b))) chunk.length values)
    | .subStr, a0 :: a1 :: a2 :: _, chunk =>
      -- the static tests come first here (the row body evaluates args[0] first)
      if retType a1 != tyTNUMBER then M.throw .operandType
      else if retType a2 != tyTNUMBER then M.throw .operandType
      else do
        let values ← execBatch a0 chunk
        let starts ← execBatch a1 chunk
        let lengths ← execBatch a2 chunk
        M.lift (zip3Rows substrRow chunk.length values starts lengths)
    | .split, a0 :: a1 :: _, chunk =>
      if retType a1 != tyTSTR then M.throw .operandType
      else do
        let values ← execBatch a0 chunk
        let spliters ← execBatch a1 chunk
        M.lift (zipRows (fun v sp => .ok (.strList (splitBytes (toStringV v) (toStringV sp)))) chunk.length values spliters)
    | .cosine, a0 :: a1 :: _, chunk => do
      let largs ← execBatch a0 chunk
      let rargs ← execBatch a1 chunk
      M.lift (zipRowsLazy (distanceRow cosineDistance) chunk.length largs rargs)
    | .l2, a0 :: a1 :: _, chunk => do
      let largs ← execBatch a0 chunk
      let rargs ← execBatch a1 chunk
      M.lift (zipRowsLazy (distanceRow l2Distance) chunk.length largs rargs)
    -- the remaining vector bodies call the row body pair by pair WITHOUT a context
    -- (`funcJoin(chunk[i], args, nil)`): the chunk's context is neither read nor written
    | .join, args, chunk => rowWiseNoCtx (rowBody .join args) chunk
    | .floatList, args, chunk => rowWiseNoCtx (rowBody .floatList args) chunk
    | .intList, args, chunk => rowWiseNoCtx (rowBody .intList args) chunk
    | .toList, args, chunk => rowWiseNoCtx (rowBody .toList args) chunk
    | _, _, _ => M.throw (.panic "args[i]: index out of range")
end

end Kvql
