/-
  The storage machine the plans of kvql run against (kv.go: `Storage`, `Cursor`), as the
  harness' reference storage implements it (harness/store.go `RefStore`).

  * `Store` is the list of pairs, strictly ascending by key (byte-wise).
  * Every call appends one entry to the call LOG (same entries, in the same order, as
    `RefStore.Log`).  The call whose index equals the injected fault index fails with
    `Err.storage i` *before* it has any effect; its entry is marked `!fault`.
  * Cursors are SNAPSHOTS: a cursor carries the pairs of the store at the time it was created.
    A new cursor stands at the first key; `seek k` stands at the first key `≥ k`.

  `M` is "state (store, log) + exception, with the state kept when an exception is thrown";
  the fault index is a read-only parameter.  It is written out by hand so that the proofs
  unfold exactly what is written here.  Core Lean only.
-/
import Kvql.Model.Bytes

namespace Kvql.Storage

open Kvql

abbrev Pair := Bytes × Bytes

/-- pairs strictly ascending by key; every operation below preserves `Store.Sorted` -/
abbrev Store := List Pair

namespace Store

def Sorted (s : Store) : Prop := s.Pairwise (fun a b => a.1 < b.1)

instance (s : Store) : Decidable (Sorted s) := by unfold Sorted; infer_instance

def keys (s : Store) : List Bytes := s.map (·.1)

/-- `Get`: the value stored under `k` -/
def lookup : Store → Bytes → Option Bytes
  | [], _ => none
  | (k', v) :: r, k => if k' = k then some v else lookup r k

/-- `Put`: insert or overwrite, keeping the order -/
def insert : Store → Bytes → Bytes → Store
  | [], k, v => [(k, v)]
  | (k', v') :: r, k, v =>
    if k < k' then (k, v) :: (k', v') :: r
    else if k = k' then (k, v) :: r
    else (k', v') :: insert r k v

/-- `Delete` -/
def erase (s : Store) (k : Bytes) : Store := s.filter (fun p => p.1 ≠ k)

/-- `BatchPut`: in the order given (a later duplicate wins) -/
def insertMany (s : Store) (kvs : List Pair) : Store := kvs.foldl (fun s kv => s.insert kv.1 kv.2) s

/-- `BatchDelete` -/
def eraseMany (s : Store) (ks : List Bytes) : Store := ks.foldl erase s

/-- position of a lower-bound `Seek k`: the pairs from the first key `≥ k` on -/
def seek (s : Store) (k : Bytes) : List Pair := s.dropWhile (fun p => p.1 < k)

/-- build a store from pairs in any order (later duplicates win) -/
def ofList (kvs : List Pair) : Store := insertMany [] kvs

end Store

/-- what can go wrong.  `storage i`: the injected fault of call `i`.  `eval`: an expression
    failed to evaluate (raised by the evaluator the plans are parametric in).  `nilCursor`: Go
    would dereference the nil `iter` of a scan plan whose `Init` has not run (a panic).
    `diverge`: the Go loop does not terminate (`PlanBatchSize = 0`). -/
inductive Err
  | storage (i : Nat)
  | eval
  | nilCursor
  | diverge
deriving DecidableEq, Repr, Inhabited

/-- one storage call as it appears in the log -/
inductive Call
  | get (k : Bytes)
  | put (k v : Bytes)
  | batchPut (kvs : List Pair)
  | delete (k : Bytes)
  | batchDelete (ks : List Bytes)
  | cursor
  | seek (k : Bytes)
  /-- `Next` together with the key it returned (`none`: end of the snapshot) -/
  | next (k : Option Bytes)
deriving DecidableEq, Repr, Inhabited

namespace Call
def isWrite : Call → Bool
  | put .. | batchPut .. | delete .. | batchDelete .. => true
  | _ => false
def isRead (c : Call) : Bool := !c.isWrite
/-- `Put`/`BatchPut` -/
def isPut : Call → Bool
  | put .. | batchPut .. => true
  | _ => false
end Call

structure Entry where
  call : Call
  fault : Bool := false
deriving DecidableEq, Repr, Inhabited

structure World where
  store : Store
  log : List Entry := []
deriving Repr, Inhabited

/-- computations against the storage: fault index → world → (result, world) -/
def M (α : Type) : Type := Option Nat → World → Except Err α × World

namespace M

@[inline] def pure' (a : α) : M α := fun _ w => (.ok a, w)

@[inline] def bind' (m : M α) (k : α → M β) : M β := fun f w =>
  match m f w with
  | (.ok a, w') => k a f w'
  | (.error e, w') => (.error e, w')

instance : Monad M where
  pure := pure'
  bind := bind'

/-- raise an error (the world is kept) -/
@[inline] def throw (e : Err) : M α := fun _ w => (.error e, w)

/-- lift an evaluation result -/
@[inline] def ofExcept : Except Err α → M α
  | .ok a => pure a
  | .error e => throw e

end M

/-- register one storage call: the entry is appended; the call with the fault's index fails -/
def call (c : Call) : M Unit := fun f w =>
  if f = some w.log.length then
    (.error (.storage w.log.length), { w with log := w.log ++ [⟨c, true⟩] })
  else
    (.ok (), { w with log := w.log ++ [⟨c, false⟩] })

def getStore : M Store := fun _ w => (.ok w.store, w)

def modifyStore (g : Store → Store) : M Unit := fun _ w => (.ok (), { w with store := g w.store })

/-! ### the `Storage` interface -/

def get (k : Bytes) : M (Option Bytes) := do
  call (.get k)
  let s ← getStore
  pure (s.lookup k)

def put (k v : Bytes) : M Unit := do
  call (.put k v)
  modifyStore (·.insert k v)

def batchPut (kvs : List Pair) : M Unit := do
  call (.batchPut kvs)
  modifyStore (·.insertMany kvs)

def delete (k : Bytes) : M Unit := do
  call (.delete k)
  modifyStore (·.erase k)

def batchDelete (ks : List Bytes) : M Unit := do
  call (.batchDelete ks)
  modifyStore (·.eraseMany ks)

/-! ### the `Cursor` interface -/

/-- a snapshot cursor: the pairs at creation time and the part not yet handed out -/
structure Cursor where
  snap : List Pair
  rest : List Pair
deriving Repr, Inhabited, DecidableEq

def cursor : M Cursor := do
  call .cursor
  let s ← getStore
  pure ⟨s, s⟩

def Cursor.seek (c : Cursor) (k : Bytes) : M Cursor := do
  call (.seek k)
  pure { c with rest := Store.seek c.snap k }

/-- `Next`: the pair under the cursor (then advance), or `none` at the end -/
def Cursor.next (c : Cursor) : M (Option Pair × Cursor) :=
  match c.rest with
  | [] => do
    call (.next none)
    pure (none, c)
  | p :: r => do
    call (.next (some p.1))
    pure (some p, { c with rest := r })

/-! ### rendering (the formats of harness/store.go) -/

def showPair (p : Pair) : String := Bytes.toHex p.1 ++ "=" ++ Bytes.toHex p.2

def Call.render : Call → String
  | .get k => "Get:" ++ Bytes.toHex k
  | .put k v => "Put:" ++ showPair (k, v)
  | .batchPut kvs => "BatchPut:" ++ ",".intercalate (kvs.map showPair)
  | .delete k => "Delete:" ++ Bytes.toHex k
  | .batchDelete ks => "BatchDelete:" ++ ",".intercalate (ks.map Bytes.toHex)
  | .cursor => "Cursor"
  | .seek k => "Seek:" ++ Bytes.toHex k
  | .next none => "Next->end"
  | .next (some k) => "Next->" ++ Bytes.toHex k

def Entry.render (e : Entry) : String := e.call.render ++ (if e.fault then "!fault" else "")

/-- `RefStore.Dump` -/
def Store.render (s : Store) : String :=
  if s.isEmpty then "-" else ",".intercalate (s.map showPair)

end Kvql.Storage
