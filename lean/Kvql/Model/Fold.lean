/-
  expression_optimizer.go: `ExpressionOptimizer.Optimize` and its five helpers, function by
  function, as pure functions on trees — the code AFTER patches/C04-01 (a folded literal takes
  the kind of the result) and patches/C04-02 (re-association only where it is exact).  The model
  of the code before the patches is Model-prepatch/Fold.lean.txt (FOLD correspondence clean on
  the unpatched engine).

  Go mutates nodes in place *and* returns a (possibly new) root.  What is observable of the
  mutation: a node that stays has its children replaced (`e.Left = …`, `e.Args[i] = …`), and
  the node the caller handed in (a select field's root, to which alias references point) is
  left in that state even when a different root is returned.  Every function therefore yields
    `ret`   the returned expression,
    `node`  the state of the argument node after the call,
  and `pass` (Go `optimize`) also says where `ret` lives (`Which`), so that the second pass
  of `Optimize` can be replayed on the right node.  `Fold.optimize` is the returned root of
  `Optimize()`, `Fold.optimizeNode` the final state of the node that was the root before.

  Constant evaluation is the existing evaluator `Kvql.exec` on the empty pair
  (`NewKVP(nil, nil)`) with a nil context, exactly as the Go code does.  Type assertions that
  can panic (`ret.(string)`, `ret.(bool)`) are explicit `panic` outcomes (`Except String`).

  Not modelled (stated once, here):
  * `Data` of a folded *float* literal is `fmt.Sprintf("%v", float64)` (shortest round-trip
    formatting), which is outside Lib.lean's domain; the model leaves it empty.  It is read by
    `String()` / EXPLAIN only, never by an evaluator; the FOLD correspondence compares trees
    modulo the `Data` of float literals.  `Data` of folded integers (`%v` = `%d`), texts and
    Booleans is exact.
  * a call whose name node is not a `NameExpr` (see Exec.lean): `IsScalarFuncExpr` is false
    in the model; Check refuses such calls.
-/
import Kvql.Model.Exec

namespace Kvql
namespace Fold
open Generated

/-- a Go panic at the named site, or a result -/
abbrev R := Except String

/-- `NewKVP(nil, nil)` -/
def emptyPair : Pair := ⟨[], []⟩

/-- `case *StringExpr, *NumberExpr, *FloatExpr:` -/
def isLit3 : Expr → Bool
  | .str .. | .num .. | .float .. => true
  | _ => false

/-- `case *StringExpr, *NumberExpr, *FloatExpr, *BoolExpr:` -/
def isLit4 : Expr → Bool
  | .str .. | .num .. | .float .. | .bool .. => true
  | _ => false

/-! ### sizes (the recursion of `optimize` goes through `tryReorderBinaryOp`, which rebuilds
    the node: termination is by node count, which re-association preserves) -/

mutual
  def size : Expr → Nat
    | .binop _ _ l r => 1 + size l + size r
    | .not _ r => 1 + size r
    | .call _ n args => 1 + size n + sizeList args
    | .ref _ _ t => 1 + size t
    | .list _ items => 1 + sizeList items
    | .access _ l f => 1 + size l + size f
    | .field .. | .str .. | .name .. | .cycle | .num .. | .float .. | .bool .. => 1
  def sizeList : List Expr → Nat
    | [] => 0
    | e :: es => 1 + size e + sizeList es
end

/-! ### tryReorderBinaryOp -/

/-- `isBinaryOpExprAllValue(expr, op)`; `expr` is a `*BinaryOpExpr` -/
def allValue (op : Op) : Expr → Bool
  | .binop _ o l r =>
    if o != op then false
    else
      (match l with
        | .str .. | .num .. | .float .. => true
        | .binop .. => allValue op l
        | _ => false) &&
      (match r with
        | .str .. | .num .. | .float .. => true
        | .binop .. => allValue op r
        | _ => false)
  | _ => false

/-- the guard on `leftOpExpr.Right`: a literal, or a `*BinaryOpExpr` that is all values -/
def rightIsValues (op : Op) (lr : Expr) : Bool :=
  match lr with
  | .str .. | .num .. | .float .. => true
  | .binop .. => allValue op lr
  | _ => false

/-- the name test of `isIntegerExpr` on a call: `int`, `strlen`, `len` -/
def isIntCallName (nm : Expr) : Bool :=
  match funcNameOf nm with
  | .ok f => f == asciiBytes "int" || f == asciiBytes "strlen" || f == asciiBytes "len"
  | .error _ => false

/-- `isIntegerExpr(expr)`: the expression can only evaluate to an integer -/
def isIntegerExpr : Expr → Bool
  | .num .. => true
  | .binop _ op l r =>
    (op == .add || op == .sub || op == .mul || op == .div) && isIntegerExpr l && isIntegerExpr r
  | .call _ nm _ => isIntCallName nm
  | _ => false

/-- `canReassociate(op, x, c1, c2)`: `(x op c1) op c2 = x op (c1 op c2)` whatever `x` evaluates to -/
def canReassociate (op : Op) (x c1 c2 : Expr) : Bool :=
  (op == .add && retType x == tyTSTR && retType c1 == tyTSTR) ||
  (isIntegerExpr x && isIntegerExpr c1 && isIntegerExpr c2)

/-- `tryReorderBinaryOp(e)`: the state of node `e` afterwards (the function returns nothing).
    On a node that is not a `*BinaryOpExpr` the Go code is never called; identity here. -/
def reorder : Expr → Expr
  | .binop p op l r =>
    let l' := reorder l          -- `case *BinaryOpExpr: o.tryReorderBinaryOp(left)`
    let r' := reorder r
    if op != .add && op != .mul then .binop p op l' r'
    else
      match l' with
      | .binop _ lop ll lr =>
        -- !leftIsValue && leftIsOp && rightIsValue && !rightIsOp, then leftOpExpr.Op == e.Op
        if isLit3 r' && lop == op && canReassociate op ll lr r' && rightIsValues op lr then
          -- (ANY op VALUE) op VALUE: e.Left = leftOpExpr.Left; e.Right = &BinaryOpExpr{Pos: e.GetPos(), …}
          .binop p op ll (.binop p op lr r')
        else .binop p op l' r'
      | _ => .binop p op l' r'
  | e => e

theorem size_reorder : ∀ e : Expr, size (reorder e) = size e
  | .binop p op l r => by
    have hl := size_reorder l
    have hr := size_reorder r
    rw [reorder]
    split
    · simp only [size, hl, hr]
    · split
      · rename_i heq
        have hl' := hl
        rw [heq] at hl'
        split <;> simp only [size] at hl' ⊢ <;> omega
      · simp only [size, hl, hr]
  | .field .. | .str .. | .name .. | .cycle | .num .. | .float .. | .bool .. | .not .. | .call .. | .ref ..
  | .list .. | .access .. => by simp [reorder]

/-! ### results -/

/-- what a helper hands back: the returned expression, the returned flag ("is a value"), and
    the state in which the argument node is left -/
structure Out where
  ret : Expr
  isValue : Bool
  node : Expr
deriving Inhabited

/-- where the expression returned by `optimize(expr)` lives -/
inductive Which
  | self      -- the argument node itself
  | left      -- the argument node's (new) left child
  | right     -- the argument node's (new) right child
  | fresh     -- a newly allocated literal
deriving DecidableEq, Repr, Inhabited

structure Pass where
  ret : Expr
  node : Expr
  which : Which
deriving Inhabited

/-! ### tryOptimizeAndOr -/

def boolData (b : Bool) : Bytes := Bytes.ofString (if b then "true" else "false")

def mkBool (pos : Nat) (b : Bool) : Expr := .bool pos (boolData b) b

/-- `tryOptimizeAndOr(expr)` (the returned flag is dropped by the only caller) -/
def andOr (e : Expr) : Expr × Which :=
  match e with
  | .binop _ op l r =>
    if op != .and && op != .or then (e, .self)
    else
      match l, r with
      | .bool _ _ lv, .bool _ _ rv =>
        -- rightIsValue && leftIsValue
        if op == .and then (mkBool l.pos (lv && rv), .fresh) else (mkBool l.pos (lv || rv), .fresh)
      | .bool _ _ lv, _ =>
        -- leftIsValue && !rightIsValue
        if op == .and then (if lv then (r, .right) else (mkBool l.pos false, .fresh))
        else (if lv then (mkBool l.pos true, .fresh) else (r, .right))
      | _, .bool _ _ rv =>
        -- rightIsValue && !leftIsValue
        if op == .and then (if rv then (l, .left) else (mkBool r.pos false, .fresh))
        else (if rv then (mkBool r.pos true, .fresh) else (l, .left))
      | _, _ => (e, .self)
  | _ => (e, .self)

/-! ### tryOptimizeBinaryOpExecute / tryOptimizeFunctionCall / optimize -/

/-- `IsScalarFuncExpr(e)` for a call with name node `nm` -/
def isScalarFunc (nm : Expr) : Bool :=
  match funcNameOf nm with
  | .ok fname => (lookupFunc fname).isSome
  | .error _ => false

/-- `e.Execute(NewKVP(nil, nil), nil)` -/
def constExec (e : Expr) : Except Err Value := (exec e emptyPair Ctx.none).1

/-- the `switch e.Op` of `tryOptimizeBinaryOpExecute` once both operands are values;
    `n` is the node (children already replaced) -/
def foldBinary (n : Expr) : R (Option Expr) :=
  match n with
  | .binop _ op l _ =>
    let leftPos := l.pos
    match op with
    | .add | .sub | .mul | .div =>
      match constExec n with
      | .error _ => pure none
      | .ok ret =>
        -- `switch cret := ret.(type)`: the literal takes the kind of the result
        match ret with
        | .str s => pure (some (.str leftPos s))
        | .int c => pure (some (.num leftPos (formatInt c) c))
        | .float c => pure (some (.float leftPos [] c))
        | _ => pure none
    | .and | .or | .eq | .neq | .gt | .gte | .lt | .lte =>
      match constExec n with
      | .error _ => pure none
      | .ok ret =>
        match ret with
        | .bool b => pure (some (mkBool leftPos b))
        | _ => throw "tryOptimizeBinaryOpExecute: ret.(bool)"
    | _ => pure none
  | _ => pure none

/-- the tail of `tryOptimizeFunctionCall` once every argument is a value and the name is a
    scalar function; `n` is the call node (arguments already replaced) -/
def foldCall (n : Expr) : R (Option Expr) :=
  let retTp := retType n
  if retTp == tyTJSON then pure none
  else
    match constExec n with
    | .error _ => pure none
    | .ok ret =>
      if retTp == tyTSTR then
        match ret with
        | .str s => pure (some (.str n.pos s))
        | _ => throw "tryOptimizeFunctionCall: ret.(string)"
      else if retTp == tyTNUMBER then
        match ret with
        | .int c => pure (some (.num n.pos (formatInt c) c))
        | .float c => pure (some (.float n.pos [] c))
        | _ => pure none
      else if retTp == tyTBOOL then
        match ret with
        | .bool b => pure (some (mkBool n.pos b))
        | _ => throw "tryOptimizeFunctionCall: ret.(bool)"
      else pure none

mutual
  /-- `optimize(expr)`: one pass -/
  def pass : Expr → R Pass
    | .binop p op l r => do
      let o ← binExec (reorder (.binop p op l r))
      if o.isValue then
        -- a fresh literal; tryOptimizeAndOr returns it as it is
        pure ⟨(andOr o.ret).1, o.node, .fresh⟩
      else
        let (r, w) := andOr o.ret
        pure ⟨r, o.node, w⟩
    | .call p nm args => do
      let o ← callFold (.call p nm args)
      pure ⟨o.ret, o.node, if o.isValue then .fresh else .self⟩
    | e => pure ⟨e, e, .self⟩
  termination_by e => (size e, 2)
  decreasing_by
    · rw [size_reorder]; exact Prod.Lex.right _ (by omega)
    · exact Prod.Lex.right _ (by omega)

  /-- `tryOptimizeBinaryOpExecute(e)` -/
  def binExec : Expr → R Out
    | .binop p op l r => do
      let lo ← operand l
      let ro ← operand r
      let node := Expr.binop p op lo.ret ro.ret
      if !(lo.isValue && ro.isValue) then pure ⟨node, false, node⟩
      else
        match ← foldBinary node with
        | some c => pure ⟨c, true, node⟩
        | none => pure ⟨node, false, node⟩
    | e => pure ⟨e, false, e⟩
  termination_by e => (size e, 1)
  decreasing_by
    · exact Prod.Lex.left _ _ (by simp only [size]; omega)
    · exact Prod.Lex.left _ _ (by simp only [size]; omega)

  /-- the `switch left := e.Left.(type)` of `tryOptimizeBinaryOpExecute` -/
  def operand : Expr → R Out
    | .binop p op l r => binExec (.binop p op l r)
    | .call p nm args => callFold (.call p nm args)
    | .str p d => pure ⟨.str p d, true, .str p d⟩
    | .num p d v => pure ⟨.num p d v, true, .num p d v⟩
    | .float p d v => pure ⟨.float p d v, true, .float p d v⟩
    | .bool p d v => pure ⟨.bool p d v, true, .bool p d v⟩
    | e => pure ⟨e, false, e⟩
  termination_by e => (size e, 2)
  decreasing_by
    · exact Prod.Lex.right _ (by omega)
    · exact Prod.Lex.right _ (by omega)

  /-- `tryOptimizeFunctionCall(e)` -/
  def callFold : Expr → R Out
    | .call p nm args => do
      let args' ← optArgs args
      let node := Expr.call p nm args'
      if !(args'.all isLit4 && isScalarFunc nm) then pure ⟨node, false, node⟩
      else
        match ← foldCall node with
        | some c => pure ⟨c, true, node⟩
        | none => pure ⟨node, false, node⟩
    | e => pure ⟨e, false, e⟩
  termination_by e => (size e, 1)
  decreasing_by
    · exact Prod.Lex.left _ _ (by simp only [size]; omega)

  /-- `for i, arg := range e.Args { e.Args[i] = o.optimize(arg) }` -/
  def optArgs : List Expr → R (List Expr)
    | [] => pure []
    | a :: rest => do
      let pa ← pass a
      let rest' ← optArgs rest
      pure (pa.ret :: rest')
  termination_by args => (sizeList args, 0)
  decreasing_by
    · exact Prod.Lex.left _ _ (by simp only [sizeList]; omega)
    · exact Prod.Lex.left _ _ (by simp only [sizeList]; omega)
end

/-- replace the child of a binary node -/
def setLeft (n l : Expr) : Expr :=
  match n with
  | .binop p op _ r => .binop p op l r
  | _ => n
def setRight (n r : Expr) : Expr :=
  match n with
  | .binop p op l _ => .binop p op l r
  | _ => n

/-- `Optimize()`: `optimize` twice.  Returns (the new root, the final state of the old root node). -/
def optimizeBoth (e : Expr) : R (Expr × Expr) := do
  let p1 ← pass e
  let p2 ← pass p1.ret
  let node :=
    match p1.which with
    | .self => p2.node                       -- the second pass works on the old root itself
    | .fresh => p1.node                      -- a new literal: nothing else changes
    | .left => setLeft p1.node p2.node       -- the second pass works on the old root's left child
    | .right => setRight p1.node p2.node
  pure (p2.ret, node)

/-- the expression `Optimize()` returns -/
def optimize (e : Expr) : R Expr := (optimizeBoth e).map (·.1)

/-- the state in which `Optimize()` leaves the node that was the root (alias references point at it) -/
def optimizeNode (e : Expr) : R Expr := (optimizeBoth e).map (·.2)

end Fold
end Kvql
