/-
  Model of order_plan.go: `FinalOrderPlan` (Init/prepare/prepareBatch/Next/Batch), the row
  comparison (`orderColumnsRow.Less/compare/compareBytes/compareBool/compareNumber/
  compareInt/compareFloat`) and Go's `container/heap` (`up`, `down`, `Push`, `Pop`) on the
  slice `orderColumnsRowHeap`.

  This is the code AFTER patches 01/02 (per-operand conversion `orderNumber`, `orderBytes`,
  `orderBool`: no type assertion is left in the comparison).  A Go panic (index out of range
  — unreachable once `Init` succeeded) is the explicit outcome `Res.panic`; nothing defaults.

  Not modelled: errors of the child plan (`prepare` returns them unchanged), the name lookup
  of `Init` (`findOrderIdx`: the order list of the model already carries the column index and
  `FieldTypes[idx]`), hexadecimal / underscore-separated float syntax in text columns.
-/
import Kvql.Model.Col

namespace Kvql.Order
open Kvql.Generated (tyTSTR tyTNUMBER tyTBOOL)

/-- outcome of Go code that may panic -/
inductive Res (α : Type) where
  | ok (a : α)
  | panic
deriving Repr, DecidableEq

def Res.map {α β : Type} (f : α → β) : Res α → Res β
  | .ok a => .ok (f a)
  | .panic => .panic

/-! ### IEEE-754 comparison on the bit pattern (Go `==`, `<`, `>` on float64) -/

def f64IsNaN (x : F64) : Bool := (x.bits &&& 0x7fffffffffffffff) > 0x7ff0000000000000

/-- sign-magnitude reading of the bits: monotone in the numeric value, `+0` and `-0` ↦ 0 -/
def f64Key (x : F64) : Int :=
  let mag : Int := ((x.bits &&& 0x7fffffffffffffff).toNat : Int)
  if x.bits >>> 63 == 1 then -mag else mag

def f64Eq (a b : F64) : Bool := !f64IsNaN a && !f64IsNaN b && f64Key a == f64Key b
def f64Lt (a b : F64) : Bool := !f64IsNaN a && !f64IsNaN b && decide (f64Key a < f64Key b)

/-! ### `strconv.ParseFloat(s, 64)` on decimal text, correctly rounded (nearest, ties to even) -/

def pow2_52 : Nat := 4503599627370496
def pow2_53 : Nat := 9007199254740992

/-- `num/den · 2^(-k)` as a fraction of naturals -/
def scaled (num den : Nat) (k : Int) : Nat × Nat :=
  if k ≥ 0 then (num, den <<< k.toNat) else (num <<< (-k).toNat, den)

/-- the binary exponent `k` with 2^52 ≤ floor(num / (den·2^k)) < 2^53, clamped below at
    -1074 (subnormals) -/
def ratExp (num den : Nat) : Int :=
  let k0 : Int := (Nat.log2 num : Int) - (Nat.log2 den : Int) - 52
  let q0 := (scaled num den k0).1 / (scaled num den k0).2
  let k1 : Int := if q0 ≥ pow2_53 then k0 + 1 else if q0 < pow2_52 then k0 - 1 else k0
  if k1 < -1074 then -1074 else k1

/-- round `num / (den·2^k)` to the nearest integer, ties to even, and encode.
    `(k + 1074)·2^52 + q'` is the encoding both for subnormals (k = -1074, q' < 2^52) and for
    normals (biased exponent k + 1075, hidden bit carried into the exponent field) -/
def roundAt (num den : Nat) (k : Int) : Option Nat :=
  let n' := (scaled num den k).1
  let d' := (scaled num den k).2
  let q := n' / d'
  let r := n' % d'
  let q' := if 2 * r > d' ∨ (2 * r = d' ∧ q % 2 = 1) then q + 1 else q
  let bits := (k + 1074).toNat * pow2_52 + q'
  if bits ≥ 0x7ff0000000000000 then none else some bits

/-- `num/den > 0` → IEEE bits without sign, `none` on overflow (Go: `ErrRange`, an error) -/
def ratToBits (num den : Nat) : Option Nat := roundAt num den (ratExp num den)

/-- decimal subset of ParseFloat plus `inf`/`infinity`/`nan`; hexadecimal floats and
    underscores are outside the modelled domain (answer `none`) -/
def parseFloat? (s : Bytes) : Option F64 :=
  if isSpecialFloat s then
    let l := toLower s
    if l == Bytes.ofString "nan" then some ⟨0x7ff8000000000001⟩
    else match l with
      | 45 :: _ => some ⟨0xfff0000000000000⟩
      | _ => some ⟨0x7ff0000000000000⟩
  else match splitDecimal s with
    | none => none
    | some (neg, mant, fracDigits, e) =>
      let m := digitsVal mant
      let sign : Nat := if neg then 0x8000000000000000 else 0
      if m == 0 then some ⟨UInt64.ofNat sign⟩
      else
        let e10 : Int := e - (fracDigits : Int)
        let mag : Int := (toString m).length + e10   -- 10^(mag-1) ≤ value < 10^mag
        if mag > 400 then none                        -- overflow
        else if mag < -400 then some ⟨UInt64.ofNat sign⟩ -- underflow to ±0 is not an error
        else
          let (num, den) := if e10 ≥ 0 then (m * 10 ^ e10.toNat, 1) else (m, 10 ^ (-e10).toNat)
          match ratToBits num den with
          | none => none
          | some b => some ⟨UInt64.ofNat (sign + b)⟩

/-! ### the comparison functions -/

/-- Go `bytes.Compare` -/
def bytesCompare : Bytes → Bytes → Int
  | [], [] => 0
  | [], _ :: _ => -1
  | _ :: _, [] => 1
  | a :: as, b :: bs => if a < b then -1 else if b < a then 1 else bytesCompare as bs

/-- `compareInt(lval, rval int64, reverse bool) int` (the int64 values as integers) -/
def compareInt (lval rval : Int) (reverse : Bool) : Int :=
  if lval == rval then 0
  else if reverse then (if lval > rval then -1 else 1)
  else (if lval < rval then -1 else 1)

/-- `compareFloat(lval, rval float64, reverse bool) int` -/
def compareFloat (lval rval : F64) (reverse : Bool) : Int :=
  if f64Eq lval rval then 0
  else if reverse then (if f64Lt rval lval then -1 else 1)
  else (if f64Lt lval rval then -1 else 1)

/-- `orderBytes`: the bytes of a text value -/
def orderBytes : Col → Option Bytes
  | .bytes b => some b
  | .str b => some b
  | _ => none

/-- `compareBytes`: both operands converted independently; not text ⇒ 0 -/
def compareBytes (lval rval : Col) (reverse : Bool) : Res Int :=
  match orderBytes lval, orderBytes rval with
  | some lb, some rb => .ok (if reverse then 0 - bytesCompare lb rb else bytesCompare lb rb)
  | _, _ => .ok 0

/-- the tail of `compareBool` once both Booleans are known -/
def compareBoolVals (lbool rbool reverse : Bool) : Int :=
  let lint : Int := if lbool then 1 else 0
  let rint : Int := if rbool then 1 else 0
  if lint == rint then 0
  else if reverse then (if lint > rint then -1 else 1)
  else (if lint < rint then -1 else 1)

def trueBytes : Bytes := Bytes.ofString "true"

/-- `orderBool` -/
def orderBool : Col → Option Bool
  | .bool b => some b
  | .str s => some (s == trueBytes)
  | .bytes b => some (b == trueBytes)
  | _ => none

def compareBool (lval rval : Col) (reverse : Bool) : Res Int :=
  match orderBool lval, orderBool rval with
  | some lb, some rb => .ok (compareBoolVals lb rb reverse)
  | _, _ => .ok 0

/-- Go `float64(i)` for an int64: nearest, ties to even -/
def f64OfInt (i : Int) : F64 :=
  if i == 0 then ⟨0⟩
  else
    let sign : Nat := if i < 0 then 0x8000000000000000 else 0
    match ratToBits i.natAbs 1 with
    | some b => ⟨UInt64.ofNat (sign + b)⟩
    | none => ⟨UInt64.ofNat (sign + 0x7ff0000000000000)⟩ -- unreachable below 2^1024

/-- result of `orderNumber` when `ok`: an integer (`isFloat` false) or a float -/
inductive Num where
  | int (i : Int)
  | float (f : F64)
deriving Repr, DecidableEq

/-- `fval` of `orderNumber` -/
def Num.toF64 : Num → F64
  | .int i => f64OfInt i
  | .float f => f

/-- `orderNumber`; `none` = `ok` false -/
def orderNumber : Col → Option Num
  | .goInt i => some (.int i.toInt)
  | .int i => some (.int i.toInt)
  | .float f => some (.float f)
  | .bytes b =>
    match parseInt? b with
    | some i => some (.int i)
    | none => match parseFloat? b with
      | some f => some (.float f)
      | none => none
  | .str b =>
    match parseInt? b with
    | some i => some (.int i)
    | none => match parseFloat? b with
      | some f => some (.float f)
      | none => none
  | _ => none

def compareNumber (lval rval : Col) (reverse : Bool) : Res Int :=
  match orderNumber lval, orderNumber rval with
  | some (.int li), some (.int ri) => .ok (compareInt li ri reverse)
  | some l, some r => .ok (compareFloat l.toF64 r.toF64 reverse)
  | _, _ => .ok 0

/-- `compare(tp, lval, rval, reverse)`: switch on the declared type of the order field -/
def compare (tp : Nat) (lval rval : Col) (reverse : Bool) : Res Int :=
  if tp == tyTSTR then compareBytes lval rval reverse
  else if tp == tyTNUMBER then compareNumber lval rval reverse
  else if tp == tyTBOOL then compareBool lval rval reverse
  else .ok 0

/-- one entry of `orders`/`orderPos`/`orderTypes` (parallel slices filled by `Init`) -/
structure Key where
  pos : Nat        -- orderPos[i]: index of the column in the row
  tp : Nat         -- orderTypes[i] = FieldTypes[orderPos[i]]
  desc : Bool      -- orders[i].Order == DESC
deriving Repr, DecidableEq

abbrev Row := List Col

/-- `orderColumnsRow.Less`; `l.cols[oidx]` out of range is a panic -/
def less : List Key → Row → Row → Res Bool
  | [], _, _ => .ok false
  | o :: rest, l, r =>
    match l[o.pos]?, r[o.pos]? with
    | some lval, some rval =>
      match compare o.tp lval rval o.desc with
      | .panic => .panic
      | .ok c => if c < 0 then .ok true else if c > 0 then .ok false else less rest l r
    | _, _ => .panic

/-! ### container/heap on a slice, generic in the element type and in `Less` -/

section Heap
variable {α : Type} (lessR : α → α → Res Bool)

/-- `h.Less(i, j)` (`h[i].Less(h[j])`; an index out of range panics) -/
def lessAt (h : Array α) (i j : Nat) : Res Bool :=
  if hi : i < h.size then
    if hj : j < h.size then lessR h[i] h[j] else .panic
  else .panic

/-- `h.Swap(i, j)` -/
def swapAt (h : Array α) (i j : Nat) : Res (Array α) :=
  if hi : i < h.size then
    if hj : j < h.size then .ok (h.swap i j) else .panic
  else .panic

/-- `func up(h Interface, j int)`.  Go computes `(j - 1) / 2` on `int`, which is 0 for
    j = 0 (division truncates towards zero) — as is `(0 - 1) / 2` on `Nat`. -/
def up (h : Array α) (j : Nat) : Res (Array α) :=
  let i := (j - 1) / 2 -- parent
  if i = j then .ok h
  else
    match lessAt lessR h j i with
    | .panic => .panic
    | .ok false => .ok h
    | .ok true =>
      match swapAt h i j with
      | .panic => .panic
      | .ok h' => up h' i
termination_by j
decreasing_by omega

/-- `func down(h Interface, i0, n int) bool` (the Boolean result is not used by `Pop`);
    `j1 < 0` after overflow does not occur below 2^62 elements -/
def down (h : Array α) (i n : Nat) : Res (Array α) :=
  let j1 := 2 * i + 1
  if j1 ≥ n then .ok h
  else
    let j2 := j1 + 1
    -- j := j1; if j2 < n && h.Less(j2, j1) { j = j2 }
    match (if j2 < n then lessAt lessR h j2 j1 else .ok false) with
    | .panic => .panic
    | .ok b =>
      let j := if b then j2 else j1
      match lessAt lessR h j i with
      | .panic => .panic
      | .ok false => .ok h
      | .ok true =>
        match swapAt h i j with
        | .panic => .panic
        | .ok h' => down h' j n
termination_by n - i
decreasing_by all_goals (split <;> omega)

/-- `heap.Push(h, x)`: `h.Push(x)` (append) then `up(h, h.Len()-1)` -/
def push (h : Array α) (x : α) : Res (Array α) :=
  let h1 := h.push x
  up lessR h1 (h1.size - 1)

/-- `heap.Pop(h)`: `n := h.Len() - 1; h.Swap(0, n); down(h, 0, n); return h.Pop()`.
    On the empty heap `Swap(0, -1)` panics. -/
def pop (h : Array α) : Res (α × Array α) :=
  if h.size = 0 then .panic
  else
    let n := h.size - 1
    match swapAt h 0 n with
    | .panic => .panic
    | .ok h1 =>
      match down lessR h1 0 n with
      | .panic => .panic
      | .ok h2 =>
        -- orderColumnsRowHeap.Pop: x := old[n-1]; *h = old[0 : n-1]
        match h2.back? with
        | none => .panic
        | some x => .ok (x, h2.pop)

/-! ### FinalOrderPlan -/

/-- the mutable fields of `FinalOrderPlan` after `Init` -/
structure St (α : Type) where
  pos : Nat := 0
  total : Nat := 0
  sorted : Array α := #[]

/-- `heap.Push(p.sorted, row); p.total++` for every row of a slice -/
def pushAll : St α → List α → Res (St α)
  | st, [] => .ok st
  | st, r :: rows =>
    match push lessR st.sorted r with
    | .panic => .panic
    | .ok h => pushAll { st with sorted := h, total := st.total + 1 } rows

/-- `prepare`: `ChildPlan.Next` until it returns nil; the child is its remaining rows -/
def prepare (st : St α) (child : List α) : Res (St α × List α) :=
  match pushAll lessR st child with
  | .panic => .panic
  | .ok st' => .ok (st', [])

/-- `prepareBatch`: `ChildPlan.Batch` until it returns no rows; the child is the list of
    chunks it will hand out (then empty answers for ever) -/
def prepareBatch : St α → List (List α) → Res (St α × List (List α))
  | st, [] => .ok (st, [])
  | st, rows :: child =>
    if rows.isEmpty then .ok (st, child)
    else
      match pushAll lessR st rows with
      | .panic => .panic
      | .ok st' => prepareBatch st' child

/-- one call of `Next`.  `if p.total == 0 { prepare }` runs on every call as long as nothing
    was pushed (an empty child is asked again each time). -/
def next (st : St α) (child : List α) : Res (Option α × St α × List α) :=
  match (if st.total == 0 then prepare lessR st child else .ok (st, child)) with
  | .panic => .panic
  | .ok (st1, child1) =>
    if st1.pos < st1.total then
      match pop lessR st1.sorted with
      | .panic => .panic
      | .ok (row, h) => .ok (some row, { st1 with sorted := h, pos := st1.pos + 1 }, child1)
    else .ok (none, st1, child1)

/-- the loop of `Batch`: `for p.pos < p.total { pop; pos++; count++; if count >= bs break }` -/
def batchLoop (bs : Nat) : Nat → St α → Nat → List α → Res (List α × St α)
  | 0, st, _, acc => .ok (acc, st)
  | fuel + 1, st, count, acc =>
    if st.pos < st.total then
      match pop lessR st.sorted with
      | .panic => .panic
      | .ok (row, h) =>
        let st' := { st with sorted := h, pos := st.pos + 1 }
        if count + 1 ≥ bs then .ok (acc ++ [row], st')
        else batchLoop bs fuel st' (count + 1) (acc ++ [row])
    else .ok (acc, st)

/-- `Batch` after the `if p.total == 0 { prepareBatch }` prologue -/
def batchBody (bs : Nat) (st : St α) (child : List (List α)) : Res (List α × St α × List (List α)) :=
  match batchLoop lessR bs (st.total - st.pos) st 0 [] with
  | .panic => .panic
  | .ok (out, st2) => .ok (out, st2, child)

/-- one call of `Batch` with `PlanBatchSize = bs` -/
def batch (bs : Nat) (st : St α) (child : List (List α)) : Res (List α × St α × List (List α)) :=
  match (if st.total == 0 then prepareBatch lessR st child else .ok (st, child)) with
  | .panic => .panic
  | .ok (st1, child1) => batchBody lessR bs st1 child1

/-- call `Next` until it returns nil -/
def drainNext : Nat → St α → List α → Res (List α)
  | 0, _, _ => .ok []
  | fuel + 1, st, child =>
    match next lessR st child with
    | .panic => .panic
    | .ok (none, _, _) => .ok []
    | .ok (some r, st', child') =>
      match drainNext fuel st' child' with
      | .panic => .panic
      | .ok rs => .ok (r :: rs)

/-- call `Batch` until it returns no rows (what the executor does); keeps the batches -/
def drainBatch (bs : Nat) : Nat → St α → List (List α) → Res (List (List α))
  | 0, _, _ => .ok []
  | fuel + 1, st, child =>
    match batch lessR bs st child with
    | .panic => .panic
    | .ok ([], _, _) => .ok []
    | .ok (out, st', child') =>
      match drainBatch bs fuel st' child' with
      | .panic => .panic
      | .ok bss => .ok (out :: bss)

end Heap

end Kvql.Order
