/-
  expression_exec.go: the row-at-a-time evaluator `Execute`, with the row bodies of
  scalar_func.go (`rowBody`).  Structural recursion over `Expr` (arguments are `List Expr`).

  Not modelled (stated once, here):
  * `FunctionCallExpr.Result` (set only by AggregatePlan; nil after `Parse()`).
  * a call whose name node is not a `NameExpr`: Go *evaluates* the name node and uses the
    result if it is a Go string; the model reports `syntaxInExec` ("Invalid function name"), which
    is what Go does for every name node that does not evaluate to a string (key, value, literals).
  * `ReturnType()` of a cyclic alias does not terminate in Go; here it is TUNKNOWN, and evaluation
    reports `outOfFuel` when it reaches the cycle marker.
-/
import Kvql.Model.Funcs

namespace Kvql
open Generated

/-- `Expression.ReturnType()` -/
def retType : Expr → Nat
  | .binop _ op l _ =>
    match op with
    | .sub | .mul | .div => tyTNUMBER
    | .add => if retType l == tyTSTR then tyTSTR else tyTNUMBER
    | _ => tyTBOOL
  | .field .. => tyTSTR
  | .str .. => tyTSTR
  | .not .. => tyTBOOL
  | .call _ nm _ =>
    match nm with
    | .name _ d =>
      match lookupFunc (toLower d) with
      | some f => f.retType
      | none => (lookupAggrRetType (toLower d)).getD tyTUNKNOWN
    | _ => tyTUNKNOWN
  | .name .. => tyTIDENT
  | .ref _ _ t => retType t
  | .cycle => tyTUNKNOWN
  | .num .. => tyTNUMBER
  | .float .. => tyTNUMBER
  | .bool .. => tyTBOOL
  | .list .. => tyTLIST
  | .access .. => tyTSTR

/-- `GetFuncNameFromExpr` for a call's name node -/
def funcNameOf : Expr → Except Err Bytes
  | .name _ d => .ok (toLower d)
  | _ => .error .syntaxInExec

def asBool (v : Value) : Except Err Bool :=
  match v with
  | .bool b => .ok b
  | _ => .error .operandType

def mathOpOf : Op → Option MathOp
  | .add => some .add | .sub => some .sub | .mul => some .mul | .div => some .div | _ => none

def cmpOpOf : Op → Option CmpOp
  | .gt => some .gt | .gte => some .gte | .lt => some .lt | .lte => some .lte | _ => none

/-- `execStringCompare` / `execNumberCompare` chosen by the static type of the left operand -/
def compareBy (number : Bool) (l r : Value) (op : CmpOp) : Except Err Bool :=
  if number then execNumberCompare l r op else execStringCompare l r op

/-- the loop of `execStringIn` / `execNumberIn` over the value of a list-valued call:
    a comparison error ends the loop with `false, nil` (sic) -/
def inAnyList (number : Bool) (left : Value) : List Value → Bool
  | [] => false
  | v :: vs =>
    match compareBy number left v .eq with
    | .error _ => false
    | .ok true => true
    | .ok false => inAnyList number left vs

/-- `between`: the three comparisons after the bounds are evaluated -/
def betweenKernel (number : Bool) (left lval uval : Value) : Except Err Value := do
  let cmp ← compareBy number lval uval .lt
  if !cmp then .error .data      -- "lower boundary is greater than upper boundary"
  else
    let lcmp ← compareBy number lval left .lte
    if !lcmp then .ok (.bool false)
    else
      let ucmp ← compareBy number left uval .lte
      .ok (.bool ucmp)

mutual
  /-- `Expression.Execute(kv, ctx)` -/
  def exec : Expr → Pair → M Value
    | .str _ d, _ => pure (.bytes d)
    | .field _ k, kv => pure (.bytes (match k with | .key => kv.key | .value => kv.value))
    | .name _ d, _ => pure (.str d)
    | .num _ _ v, _ => pure (.int v)
    | .float _ _ v, _ => pure (.float v)
    | .bool _ _ v, _ => pure (.bool v)
    | .list _ items, _ => pure (.exprList items)
    | .cycle, _ => M.throw .outOfFuel
    | .not _ r, kv => do
      let v ← exec r kv
      let b ← M.lift (asBool v)
      pure (.bool !b)
    | .ref _ name target, kv => fun ctx =>
      match (if ctx.present then ctx.getFieldResult name else none) with
      | some cval => (.ok cval, ctx.updateHit)
      | none =>
        match exec target kv ctx with
        | (.error e, ctx') => (.error e, ctx')
        | (.ok v, ctx') => (.ok v, if ctx'.present then ctx'.setFieldResult name v else ctx')
    | .access _ l f, kv => do
      let left ← exec l kv
      match f with
      | .str _ d => M.lift (dictAccess d left)
      | .num _ _ n => M.lift (listAccess n left)
      | _ => M.throw .syntaxInExec
    | .call _ nm args, kv =>
      match funcNameOf nm with
      | .error e => M.throw e
      | .ok fname =>
        match lookupFunc fname with
        | none => M.throw .unknownFunc
        | some fo =>
          if !fo.varArgs && args.length != fo.numArgs then M.throw .arity
          else if fo.varArgs && args.length < fo.numArgs then M.throw .arity
          else match fo.body with
            | none => M.throw (.panic "function body not modelled")
            | some b => rowBody b args kv
    | .binop _ op l r, kv =>
      let leftStr := retType l == tyTSTR
      match op with
      | .eq => do
        let a ← exec l kv
        let b ← exec r kv
        let c ← M.lift (equalRow a b)
        pure (.bool c)
      | .neq => do
        let a ← exec l kv
        let b ← exec r kv
        let c ← M.lift (equalRow a b)
        pure (.bool !c)
      | .prefixMatch => do
        let a ← exec l kv
        let b ← exec r kv
        match convertToByteArray a, convertToByteArray b with
        | some x, some y => pure (.bool (y.isPrefixOf x))
        | _, _ => M.throw .operandType
      | .regexMatch => do
        let a ← exec l kv
        let b ← exec r kv
        match convertToByteArray a, convertToByteArray b with
        | some x, some y =>
          match Regex.parse y with
          | none => M.throw .data
          | some re => pure (.bool (re.matches x))
        | _, _ => M.throw .operandType
      | .and | .kwAnd => do
        let a ← exec l kv
        let x ← M.lift (asBool a)
        if !x then pure (.bool false)
        else
          let b ← exec r kv
          let y ← M.lift (asBool b)
          pure (.bool y)
      | .or | .kwOr => do
        let a ← exec l kv
        let x ← M.lift (asBool a)
        if x then pure (.bool true)
        else
          let b ← exec r kv
          let y ← M.lift (asBool b)
          pure (.bool y)
      | .add =>
        if leftStr then do
          let a ← exec l kv
          let b ← exec r kv
          pure (.str (toStringV a ++ toStringV b))
        else do
          let a ← exec l kv
          let b ← exec r kv
          M.lift (executeMathOp a b .add)
      | .sub => do
        let a ← exec l kv
        let b ← exec r kv
        M.lift (executeMathOp a b .sub)
      | .mul => do
        let a ← exec l kv
        let b ← exec r kv
        M.lift (executeMathOp a b .mul)
      | .div => do
        let a ← exec l kv
        let b ← exec r kv
        M.lift (executeMathOp a b .div)
      | .gt => do
        let a ← exec l kv
        let b ← exec r kv
        let c ← M.lift (compareBy (!leftStr) a b .gt)
        pure (.bool c)
      | .gte => do
        let a ← exec l kv
        let b ← exec r kv
        let c ← M.lift (compareBy (!leftStr) a b .gte)
        pure (.bool c)
      | .lt => do
        let a ← exec l kv
        let b ← exec r kv
        let c ← M.lift (compareBy (!leftStr) a b .lt)
        pure (.bool c)
      | .lte => do
        let a ← exec l kv
        let b ← exec r kv
        let c ← M.lift (compareBy (!leftStr) a b .lte)
        pure (.bool c)
      | .in_ => do
        let left ← exec l kv
        let evalRight : M Value := exec r kv
        let rightType := retType r
        match r with
        | .list _ items => execInItems (!leftStr) left items kv
        | .call .. | .ref .. =>
          if rightType != tyTLIST then M.throw .operandType
          else
            let fret ← evalRight
            match unpackArray fret with
            | some vals => pure (.bool (inAnyList (!leftStr) left vals))
            | none => M.throw .operandType
        | _ => M.throw .operandType
      | .between => do
        let left ← exec l kv
        match r with
        | .list _ [lo, hi] =>
          let want := if leftStr then tyTSTR else tyTNUMBER
          if retType lo != want then M.throw .operandType
          else if retType hi != want then M.throw .operandType
          else
            let lval ← exec lo kv
            let uval ← exec hi kv
            M.lift (betweenKernel (!leftStr) left lval uval)
        | _ => M.throw .operandType
      | .not => M.throw .unknownOp

  /-- the `for _, expr := range rlist.List` loop of `execStringIn` / `execNumberIn` -/
  def execInItems (number : Bool) (left : Value) : List Expr → Pair → M Value
    | [], _ => pure (.bool false)
    | e :: es, kv =>
      if retType e != (if number then tyTNUMBER else tyTSTR) then M.throw .operandType
      else do
        let lvalue ← exec e kv
        let c ← M.lift (compareBy number left lvalue .eq)
        if c then pure (.bool true) else execInItems number left es kv

  /-- evaluate every argument in order, stopping at the first error -/
  def execArgs : List Expr → Pair → M (List Value)
    | [], _ => pure []
    | e :: es, kv => do
      let v ← exec e kv
      let vs ← execArgs es kv
      pure (v :: vs)

  /-- `funcObj.Body(kv, args, ctx)`; `args[i]` beyond the end is a Go panic -/
  def rowBody : Body → List Expr → Pair → M Value
    | .lower, a0 :: _, kv => do let v ← exec a0 kv; pure (.str (toLower (toStringV v)))
    | .upper, a0 :: _, kv => do let v ← exec a0 kv; pure (.str (toUpper (toStringV v)))
    | .toInt, a0 :: _, kv => do let v ← exec a0 kv; pure (.int (toIntV v 0))
    | .toFloat, a0 :: _, kv => do let v ← exec a0 kv; pure (.float (toFloatV v F64.zero))
    | .toStr, a0 :: _, kv => do let v ← exec a0 kv; pure (.str (toStringV v))
    | .isInt, a0 :: _, kv => do let v ← exec a0 kv; pure (.bool (isIntV v))
    | .isFloat, a0 :: _, kv => do let v ← exec a0 kv; pure (.bool (isFloatV v))
    | .strlen, a0 :: _, kv => do let v ← exec a0 kv; pure (.int (Int64.ofNat (toStringV v).length))
    | .len, a0 :: _, kv => do
      let v ← exec a0 kv
      let n ← M.lift (getListLength v)
      pure (.goInt n)
    | .json, a0 :: _, kv => do
      let v ← exec a0 kv
      match convertToByteArray v with
      | none => M.throw .operandType
      | some b => pure (.json (parseJsonObject b))
    | .subStr, a0 :: a1 :: a2 :: _, kv => do
      let v ← exec a0 kv
      let val := toStringV v
      if retType a1 != tyTNUMBER then M.throw .operandType
      else if retType a2 != tyTNUMBER then M.throw .operandType
      else
        let s ← exec a1 kv
        let l ← exec a2 kv
        M.lift (substrKernel val (toIntV s 0) (toIntV l 0))
    | .split, a0 :: a1 :: _, kv => do
      let v ← exec a0 kv
      if retType a1 != tyTSTR then M.throw .operandType
      else
        let sp ← exec a1 kv
        pure (.strList (splitBytes (toStringV v) (toStringV sp)))
    | .join, a0 :: rest, kv =>
      if retType a0 != tyTSTR then M.throw .operandType
      else do
        let sep ← exec a0 kv
        let vals ← execArgs rest kv
        pure (.str (joinBytes (toStringV sep) (vals.map toStringV)))
    | .cosine, a0 :: a1 :: _, kv => do
      let l ← exec a0 kv
      let r ← exec a1 kv
      let lv ← M.lift (toFloatList l)
      let rv ← M.lift (toFloatList r)
      let d ← M.lift (cosineDistance lv rv)
      pure (.float d)
    | .l2, a0 :: a1 :: _, kv => do
      let l ← exec a0 kv
      let r ← exec a1 kv
      let lv ← M.lift (toFloatList l)
      let rv ← M.lift (toFloatList r)
      let d ← M.lift (l2Distance lv rv)
      pure (.float d)
    -- `execArgs args` unfolded once (a structural call needs a strict sub-list)
    | .floatList, [], _ => pure (.floatList [])
    | .floatList, a0 :: rest, kv => do
      let v ← exec a0 kv
      let vs ← execArgs rest kv
      pure (.floatList ((v :: vs).map (toFloatV · F64.zero)))
    | .intList, [], _ => pure (.intList [])
    | .intList, a0 :: rest, kv => do
      let v ← exec a0 kv
      let vs ← execArgs rest kv
      pure (.intList ((v :: vs).map (toIntV · 0)))
    | .toList, [], _ => pure (.intList [])
    | .toList, a0 :: rest, kv => do
      let first ← exec a0 kv
      -- funcIntList / funcFloatList evaluate every argument again, the first one included
      let v ← exec a0 kv
      let vs ← execArgs rest kv
      if listUseInt first then pure (.intList ((v :: vs).map (toIntV · 0)))
      else pure (.floatList ((v :: vs).map (toFloatV · F64.zero)))
    | _, _, _ => M.throw (.panic "args[i]: index out of range")
end

end Kvql
