/-
  Model of errors.go: `outputQueryAndErrPos(query, pos, adjust)`.
  The window constants are regenerated from the Go source.
-/
import Kvql.Model.Bytes
import Kvql.Generated.Tables

namespace Kvql.Errors

open Kvql Kvql.Generated

/-- 70: the widest stretch of the query that is shown -/
def winLen : Nat := errWinLen
/-- 35: how much of the query is shown left of the error position -/
def winLeft : Nat := errWinLeft

/-- number of leading ASCII white-space bytes (`len(query) - len(TrimLeftFunc(query, IsSpace))`) -/
def leadBlanks (q : Bytes) : Nat := (q.takeWhile isSpaceByte).length

structure Rendered where
  line1 : Bytes      -- the query line
  caret : Nat        -- number of spaces before `^--` in the second line
deriving Repr, DecidableEq

/-- `outputQueryAndErrPos`; `pos = none` is Go's `-1` (end of input); Go positions that are
    negative (other than -1) behave like 0 after the clamp, positions beyond the text like its end -/
def render (query : Bytes) (pos : Option Nat) (adjust : Nat) : Rendered :=
  let tq := trimSpace query
  let qlen := tq.length
  let pos0 : Nat := match pos with
    | none => qlen
    | some p => min (p - leadBlanks query) qlen
  if qlen > winLen then
    if pos0 ≤ winLeft then
      { line1 := tq.take winLen ++ Bytes.ofString " ...", caret := pos0 + adjust }
    else
      let trim := pos0 - winLeft
      let restLen := qlen - trim
      let trimRight := restLen > winLen
      let shown := (tq.drop trim).take (min restLen winLen)
      { line1 := Bytes.ofString "... " ++ shown ++ (if trimRight then Bytes.ofString " ..." else []),
        caret := (pos0 - trim) + adjust + 4 }
  else
    { line1 := tq, caret := pos0 + adjust }

/-- the text returned by the Go function: line1, newline, `caret` spaces, `^--`, newline -/
def renderText (query : Bytes) (pos : Option Nat) (adjust : Nat) : Bytes :=
  let r := render query pos adjust
  r.line1 ++ [10] ++ List.replicate r.caret 32 ++ Bytes.ofString "^--" ++ [10]

end Kvql.Errors
