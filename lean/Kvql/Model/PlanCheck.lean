/-
  Model of the plan-time validation of optimizer.go and of the order in which
  `Optimizer.BuildPlan` decides to accept or reject a statement BEFORE it touches the storage:

      init():   Parse                      (parser.go + checker.go + statement.go: `Parser.Parse`)
                checkStatementFunctionCalls (this file: `checkStmtCalls`)
                expression optimizer        (constant folding; never fails; see below)
      buildPlan: buildScanPlan              (builds plan structs, no storage call, no error)
                buildFinalPlan              (`finalPlanCheck`: the GROUP BY / aggregate shape errors)
                Init() chain, top down      (`aggrInit`: the aggregate constructors of
                                             AggregatePlan.Init run before ChildPlan.Init, which is
                                             the first storage call `Cursor()`)

  `planStage pf toks : Res Stmt` is that decision as a function of the token list alone.  The
  storage is not an argument: whatever `planStage` rejects is rejected without a storage call
  (`Proofs/TypingStage.lean: reject_before_storage`).

  `checkFunctionCalls(expr, allowAggr)` walks the tree with `Expression.Walk` (walker.go): the
  callback sees a node before its children, children left to right, an alias reference walks into
  the select field it refers to; the callback stops the walk at the first error, so the FIRST
  failing call in that pre-order is the one reported (`walkCalls`).

  Repairs modelled here (C14): 0011 — the static argument types that the bodies of `substr`,
  `split` and `join` test on every evaluation are tested when the plan is built
  (`staticArgTypes`, regenerated table); 0012 — an aggregate function is only known at the places
  of a select field where the aggregation plan looks for it (the field itself and operands of
  binary operators, `aggrCallSites`): `select upper(count(1)) …`, `select !(count(1) > 1) …` were
  accepted and failed on the first row with "Cannot find function count".  Go keeps the set of
  those call nodes by pointer; a node of the walk is in the set iff it is reached from the root
  through binary operators only (a reference never leads back to a node of the field it sits in:
  cyclic aliases are rejected by `Parse`), which is the flag `site` of `walkCalls`.

  Folding.  Between the validation and plan building the expression optimizer rewrites the WHERE
  expression and the select fields.  It never returns an error, and it cannot turn a select field
  with an aggregate call into one without (or back) except at one place: `tryOptimizeAndOr` on a
  field whose ROOT is `&` / `|` drops the other operand of a Boolean literal.  For such a field
  that contains an aggregate call the model stops with `unsupported`.  The statement returned by
  `planStage` is the statement as `Parse` left it (unfolded).

  Aggregate constructors.  `newAggrQuantileFunc` and `newAggrGroupConcatFunc` test the static
  type of their second argument (a `*SyntaxError`) and then EVALUATE it on an empty pair.  The
  model follows the type test; the evaluation is modelled for literals, and is `unsupported`
  otherwise (as is the `*ExecuteError` class of "percent > 1" / "not a float", which `PErr`
  has no constructor for).
-/
import Kvql.Model.Parser
import Kvql.Model.Funcs
import Kvql.Model.Plans

namespace Kvql
namespace PlanCheck

open Generated

/-- `NumArgs`, `VarArgs` of a function table entry -/
structure Sig where
  numArgs : Nat
  varArgs : Bool
deriving Repr, DecidableEq

/-- `GetScalarFunctionByName(fname)` -/
def scalarSig (fname : Bytes) : Option Sig :=
  (lookupFunc fname).map (fun f => ⟨f.numArgs, f.varArgs⟩)

/-- the `aggrFuncMap` entry of `fname` -/
def aggrEntry (fname : Bytes) : Option (String × Nat × Bool × Nat × List String) :=
  aggrTable.find? (fun e => asciiBytes e.1 == fname)

/-- `GetAggrFunctionByName(fname)` -/
def aggrSig (fname : Bytes) : Option Sig :=
  (aggrEntry fname).map (fun e => ⟨e.2.1, e.2.2.1⟩)

/-- `IsAggrFunc(fname)` -/
def isAggr (fname : Bytes) : Bool := (aggrEntry fname).isSome

/-- the signature the callback of `checkFunctionCalls` finds: scalar functions first, aggregate
    functions only where `allowAggr` -/
def findSig (allowAggr : Bool) (fname : Bytes) : Option Sig :=
  match scalarSig fname with
  | some s => some s
  | none => if allowAggr then aggrSig fname else none

/-- the two arity tests of the callback -/
def arityOk (s : Sig) (nargs : Nat) : Bool :=
  !(!s.varArgs && nargs != s.numArgs) && !(s.varArgs && nargs < s.numArgs)

/-- `staticArgTypes(fname)` (repair 0011): the static types the built-in `fname` demands of its
    arguments, from the regenerated table; `tyTUNKNOWN`: any -/
def argTypesOf (fname : Bytes) : List Nat :=
  match Generated.staticArgTypes.find? (fun e => asciiBytes e.1 == fname) with
  | some e => e.2
  | none => []

/-- `for i, tp := range argTypes { if i < len(fc.Args) && tp != TUNKNOWN && fc.Args[i].ReturnType() != tp … }` -/
def argTypeCheck : List Nat → List Expr → Res Unit
  | [], _ => pure ()
  | _, [] => pure ()
  | tp :: tps, a :: as =>
    if tp != tyTUNKNOWN && a.retType != tp then synErr a.pos else argTypeCheck tps as

/-- the callback of `checkFunctionCalls` on a `*FunctionCallExpr` at `pos` with callee `nm` and
    arguments `args`.  `GetFuncNameFromExpr` fails for a callee that is not a name ("Invalid
    function name", at the call).  `aggrSite`: the call is one the aggregation plan looks at
    (repair 0012, `aggrCallSites`). -/
def callCheck (aggrSite : Bool) (pos : Nat) (nm : Expr) (args : List Expr) : Res Unit :=
  match nm with
  | .name _ d =>
    match findSig aggrSite (toLower d) with
    | none => synErr pos                                  -- "Cannot find function"
    | some s =>
      if arityOk s args.length then
        -- only scalar functions have static argument types
        if (scalarSig (toLower d)).isSome then argTypeCheck (argTypesOf (toLower d)) args else pure ()
      else synErr pos
  | _ => synErr pos

/-- Go's `Walk` through a reference that points back into itself never returns -/
def walkPanic : String := "Walk: unbounded recursion through a cyclic alias"

mutual
  /-- `checkFunctionCalls(e, allowAggr)`: pre-order, left to right, first error wins.  `site`:
      the node is the checked expression itself or was reached from it through binary operators
      only — the places where `aggrCallSites` records a call (`allowAggr` at the root). -/
  def walkCalls (site : Bool) : Expr → Res Unit
    | .binop _ _ l r => do
      walkCalls site l
      walkCalls site r
    | .not _ r => walkCalls false r
    | .call pos nm args => do
      callCheck site pos nm args
      walkCalls false nm
      walkCallsList args
    | .ref _ _ t => walkCalls false t
    | .cycle => .panic walkPanic
    | .list _ items => walkCallsList items
    | .access _ l f => do
      walkCalls false l
      walkCalls false f
    | _ => pure ()
  /-- arguments, list items: never an aggregate site -/
  def walkCallsList : List Expr → Res Unit
    | [] => pure ()
    | e :: es => do
      walkCalls false e
      walkCallsList es
end

/-- the fields of a select statement: each is its own root -/
def walkFields : List Expr → Res Unit
  | [] => pure ()
  | f :: fs => do
    walkCalls true f
    walkFields fs

/-- the keys of a remove statement -/
def walkKeys : List Expr → Res Unit
  | [] => pure ()
  | k :: ks => do
    walkCalls false k
    walkKeys ks

def walkPairs : List (Expr × Expr) → Res Unit
  | [] => pure ()
  | (k, v) :: rest => do
    walkCalls false k
    walkCalls false v
    walkPairs rest

/-- `checkStatementFunctionCalls(stmt)` -/
def checkStmtCalls : Stmt → Res Unit
  | .select s => do
    walkCalls false s.where_
    walkFields s.fields
  | .delete _ _ w _ => walkCalls false w
  | .put _ pairs => walkPairs pairs
  | .remove _ keys => walkKeys keys

/-! ### `buildFinalPlan` -/

/-- `IsAggrFuncExpr` of a call with callee `nm` -/
def isAggrCallee : Expr → Bool
  | .name _ d => isAggr (toLower d)
  | _ => false

/-- `Optimizer.findAggrFunc` -/
def findAggrFunc : Expr → Bool
  | .binop _ _ l r => findAggrFunc l || findAggrFunc r
  | .call _ nm _ => isAggrCallee nm
  | _ => false

/-- is the field's root `&` / `|` (where `tryOptimizeAndOr` may drop an operand)? -/
def rootAndOr : Expr → Bool
  | .binop _ .and _ _ | .binop _ .or _ _ => true
  | _ => false

/-- the accept/reject part of `buildFinalPlan`; `true`: an AggregatePlan is built -/
def finalPlanCheck (s : SelectS) : Res Bool :=
  if s.fields.any (fun f => rootAndOr f && findAggrFunc f) then
    .unsupported "folding may drop an aggregate call"
  else
    let aggrFields := (s.fields.filter findAggrFunc).length
    let hasAggr0 := decide (0 < aggrFields)
    let hasAggr := match s.groupBy with
      | some g =>
        if s.fields.length == g.fields.length then g.fields.all (fun gf => s.fieldNames.contains gf.1)
        else hasAggr0
      | none => hasAggr0
    let ngroup := match s.groupBy with
      | some g => g.fields.length
      | none => 0
    if !hasAggr && ngroup > 0 then synErr s.pos          -- "No aggregate fields in select statement"
    else if !hasAggr then pure false
    else if aggrFields == 0 && ngroup > 0 then synErr s.pos
    else if aggrFields + ngroup < s.fields.length then
      match s.groupBy with
      | some g => synErr g.pos                            -- "Missing aggregate fields in group by statement"
      | none => eofErr                                    -- "Missing group by statement" (-1)
    else pure true

/-! ### `AggregatePlan.Init`: the aggregate constructors -/

/-- `listAggrFuncs`: the aggregate calls of a field, (callee name, arguments), left to right -/
def listAggrCalls : Expr → List (Bytes × List Expr)
  | .binop _ _ l r => listAggrCalls l ++ listAggrCalls r
  | .call _ (.name _ d) args => if isAggr (toLower d) then [(toLower d, args)] else []
  | _ => []

/-- the constructor `functor.Body(args)` of the aggregate `fname` -/
def aggrCtor (fname : Bytes) (args : List Expr) : Res Unit :=
  match aggrEntry fname with
  | some (_, _, _, _, ["newAggrQuantileFunc"]) =>
    match args with
    | [_, a] =>
      if a.retType != tyTNUMBER then synErr a.pos
      else
        match a with
        | .float _ _ v =>
          if F64.lt (F64.ofFloat 1.0) v then .unsupported "plan-time ExecuteError (quantile percent)"
          else pure ()
        | .num .. => .unsupported "plan-time ExecuteError (quantile percent)"
        | _ => .unsupported "quantile percent is evaluated when the plan is built"
    | _ => .panic "newAggrQuantileFunc: args[1]"
  | some (_, _, _, _, ["newAggrGroupConcatFunc"]) =>
    match args with
    | [_, a] =>
      if a.retType != tyTSTR then synErr a.pos
      else
        match a with
        | .str .. | .field .. => pure ()
        | _ => .unsupported "group_concat separator is evaluated when the plan is built"
    | _ => .panic "newAggrGroupConcatFunc: args[1]"
  | _ => pure ()

def aggrCtors : List (Bytes × List Expr) → Res Unit
  | [] => pure ()
  | (n, args) :: rest => do
    aggrCtor n args
    aggrCtors rest

/-- the field loop of `AggregatePlan.Init` (only calls and binary expressions are searched) -/
def aggrInit : List Expr → Res Unit
  | [] => pure ()
  | f :: fs => do
    aggrCtors (listAggrCalls f)
    aggrInit fs

/-- what `buildPlan` and the `Init` chain decide for an accepted, validated statement before
    the first storage call -/
def buildStage : Stmt → Res Unit
  | .select s => do
    let aggr ← finalPlanCheck s
    if aggr then aggrInit s.fields else pure ()
  | _ => pure ()

/-- `Parse`, then the function-call validation: the part of `Optimizer.init` that can fail -/
def frontStage (pf : Bytes → F64) (toks : Toks) : Res Stmt := do
  let s ← Parser.Parse pf toks
  checkStmtCalls s
  pure s

/-- everything `BuildPlan` decides before it touches the storage -/
def planStage (pf : Bytes → F64) (toks : Toks) : Res Stmt := do
  let s ← frontStage pf toks
  buildStage s
  pure s

/-! ### `BuildPlan(store)` and a drain, over the two models -/

/-- `NewOptimizer(q).BuildPlan(store)` followed by polling until the plan is dry: the pre-storage
    decision `planStage` and, ONLY for a statement it accepts, the plan layer on the store
    (`Plans.run`: `buildPlan` with its `Init` calls — the first storage calls — then the polls).
    `compile` stands for what is not modelled in this file: scan planning and the evaluation
    closures of the accepted statement (`Plans.Stmt` is parametric in them).  `none`: rejected. -/
def runQuery (compile : Stmt → Plans.Stmt) (pf : Bytes → F64) (toks : Toks)
    (kind : Plans.PollKind) (bs : Nat) (fault : Option Nat) (store : Storage.Store) :
    Option Plans.RunOut × Storage.World :=
  match planStage pf toks with
  | .ok s =>
    let r := Plans.run (compile s) kind bs fault store
    (some r.1, r.2)
  | _ => (none, { store := store })

end PlanCheck
end Kvql
