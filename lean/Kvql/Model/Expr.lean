/-
  The expression tree of expression.go, as values.  One constructor per Go node type.

  Go shares nodes by pointer; the only sharing that is observable is the alias reference
  (`FieldReferenceExpr.FieldExpr` points at the select field's node).  Here a reference
  carries a copy of the tree it points to (`target`); a reference that points back into
  itself (`select upper(u) as u`) is the marker `cycle`, on which every evaluator reports
  `outOfFuel` (Go: unbounded recursion).
-/
import Kvql.Model.Bytes
import Kvql.Generated.Tables

namespace Kvql

/-- IEEE-754 binary64 carried as its bit pattern so that trees have decidable equality;
    arithmetic goes through Lean's `Float` (opaque to the logic: theorems never unfold it). -/
structure F64 where
  bits : UInt64
deriving DecidableEq, Repr, Inhabited

namespace F64
def toFloat (x : F64) : Float := Float.ofBits x.bits
def ofFloat (f : Float) : F64 := ⟨f.toBits⟩
def add (a b : F64) : F64 := ofFloat (a.toFloat + b.toFloat)
def sub (a b : F64) : F64 := ofFloat (a.toFloat - b.toFloat)
def mul (a b : F64) : F64 := ofFloat (a.toFloat * b.toFloat)
def div (a b : F64) : F64 := ofFloat (a.toFloat / b.toFloat)
def lt (a b : F64) : Bool := a.toFloat < b.toFloat
def le (a b : F64) : Bool := a.toFloat ≤ b.toFloat
/-- IEEE `==` (NaN ≠ NaN, +0 = -0) -/
def eq (a b : F64) : Bool := a.toFloat == b.toFloat
def ofInt (i : Int64) : F64 := ofFloat (Float.ofInt i.toInt)
def sqrt (a : F64) : F64 := ofFloat a.toFloat.sqrt
def abs (a : F64) : F64 := ofFloat a.toFloat.abs
def zero : F64 := ofFloat 0.0
def isZero (a : F64) : Bool := a.toFloat == 0.0
end F64

/-- operators: the `Operator` constants of expression.go (codes regenerated in Tables.lean) -/
inductive Op
  | and | or | not | eq | neq | prefixMatch | regexMatch | add | sub | mul | div
  | gt | gte | lt | lte | in_ | between | kwAnd | kwOr
deriving DecidableEq, Repr, Inhabited

namespace Op
open Generated in
def code : Op → Nat
  | and => opAnd | or => opOr | not => opNot | eq => opEq | neq => opNotEq
  | prefixMatch => opPrefixMatch | regexMatch => opRegExpMatch | add => opAdd | sub => opSub
  | mul => opMul | div => opDiv | gt => opGt | gte => opGte | lt => opLt | lte => opLte
  | in_ => opIn | between => opBetween | kwAnd => opKWAnd | kwOr => opKWOr

def all : List Op := [and, or, not, eq, neq, prefixMatch, regexMatch, add, sub, mul, div,
  gt, gte, lt, lte, in_, between, kwAnd, kwOr]

def ofCode (n : Nat) : Option Op := all.find? (fun o => o.code == n)
end Op

/-- `KeyKW` / `ValueKW` -/
inductive KW | key | value
deriving DecidableEq, Repr, Inhabited

inductive Expr
  | binop (pos : Nat) (op : Op) (l r : Expr)                 -- *BinaryOpExpr
  | field (pos : Nat) (kw : KW)                              -- *FieldExpr
  | str (pos : Nat) (data : Bytes)                           -- *StringExpr
  | not (pos : Nat) (r : Expr)                               -- *NotExpr
  | call (pos : Nat) (name : Expr) (args : List Expr)        -- *FunctionCallExpr
  | name (pos : Nat) (data : Bytes)                          -- *NameExpr
  | ref (pos : Nat) (name : Bytes) (target : Expr)           -- *FieldReferenceExpr
  | cycle                                                    -- a reference back into itself
  | num (pos : Nat) (data : Bytes) (v : Int64)               -- *NumberExpr
  | float (pos : Nat) (data : Bytes) (v : F64)               -- *FloatExpr
  | bool (pos : Nat) (data : Bytes) (v : Bool)               -- *BoolExpr
  | list (pos : Nat) (items : List Expr)                     -- *ListExpr
  | access (pos : Nat) (left : Expr) (fname : Expr)          -- *FieldAccessExpr
deriving Repr, Inhabited

namespace Expr

/-- `GetPos()` -/
def pos : Expr → Nat
  | binop p .. | field p .. | str p .. | not p .. | call p .. | name p .. | ref p ..
  | num p .. | float p .. | bool p .. | list p .. | access p .. => p
  | cycle => 0

/-! ### wire format: a flat comma-separated prefix encoding (no spaces)

    B,pos,opcode,L,R | F,pos,1|2 | S,pos,hex | N,pos,R | C,pos,NAME,n,arg… | I,pos,hex |
    R,pos,hexname,TARGET | Y | M,pos,hexdata,int | D,pos,hexdata,bits | T,pos,hexdata,0|1 |
    L,pos,n,item… | A,pos,LEFT,FNAME -/

mutual
  def decode : Nat → List String → Option (Expr × List String)
    | 0, _ => none
    | fuel + 1, toks =>
      match toks with
      | "B" :: p :: o :: rest => do
        let op ← (o.toNat? >>= Op.ofCode)
        let (l, rest) ← decode fuel rest
        let (r, rest) ← decode fuel rest
        pure (.binop (← p.toNat?) op l r, rest)
      | "F" :: p :: k :: rest => do
        pure (.field (← p.toNat?) (if k == "1" then .key else .value), rest)
      | "S" :: p :: h :: rest => do pure (.str (← p.toNat?) (← Bytes.ofHex h), rest)
      | "N" :: p :: rest => do
        let (r, rest) ← decode fuel rest
        pure (.not (← p.toNat?) r, rest)
      | "C" :: p :: rest => do
        let (nm, rest) ← decode fuel rest
        match rest with
        | n :: rest =>
          let (args, rest) ← decodeList fuel (← n.toNat?) rest
          pure (.call (← p.toNat?) nm args, rest)
        | [] => none
      | "I" :: p :: h :: rest => do pure (.name (← p.toNat?) (← Bytes.ofHex h), rest)
      | "R" :: p :: h :: rest => do
        let (t, rest) ← decode fuel rest
        pure (.ref (← p.toNat?) (← Bytes.ofHex h) t, rest)
      | "Y" :: rest => some (.cycle, rest)
      | "M" :: p :: h :: v :: rest => do
        pure (.num (← p.toNat?) (← Bytes.ofHex h) (Int64.ofInt (← v.toInt?)), rest)
      | "D" :: p :: h :: v :: rest => do
        pure (.float (← p.toNat?) (← Bytes.ofHex h) ⟨UInt64.ofNat (← v.toNat?)⟩, rest)
      | "T" :: p :: h :: v :: rest => do
        pure (.bool (← p.toNat?) (← Bytes.ofHex h) (v == "1"), rest)
      | "L" :: p :: n :: rest => do
        let (items, rest) ← decodeList fuel (← n.toNat?) rest
        pure (.list (← p.toNat?) items, rest)
      | "A" :: p :: rest => do
        let (l, rest) ← decode fuel rest
        let (f, rest) ← decode fuel rest
        pure (.access (← p.toNat?) l f, rest)
      | _ => none
  def decodeList : Nat → Nat → List String → Option (List Expr × List String)
    | 0, _, _ => none
    | _ + 1, 0, toks => some ([], toks)
    | fuel + 1, n + 1, toks => do
      let (e, rest) ← decode fuel toks
      let (es, rest) ← decodeList fuel n rest
      pure (e :: es, rest)
end

def ofWire (s : String) : Option Expr :=
  let toks := s.splitOn ","
  match decode (toks.length + 1) toks with
  | some (e, []) => some e
  | _ => none

mutual
  def encode : Expr → List String
    | .binop p o l r => ["B", toString p, toString o.code] ++ encode l ++ encode r
    | .field p k => ["F", toString p, if k == .key then "1" else "2"]
    | .str p d => ["S", toString p, Bytes.toHex d]
    | .not p r => ["N", toString p] ++ encode r
    | .call p n args => ["C", toString p] ++ encode n ++ [toString args.length] ++ encodeList args
    | .name p d => ["I", toString p, Bytes.toHex d]
    | .ref p n t => ["R", toString p, Bytes.toHex n] ++ encode t
    | .cycle => ["Y"]
    | .num p d v => ["M", toString p, Bytes.toHex d, toString v.toInt]
    | .float p d v => ["D", toString p, Bytes.toHex d, toString v.bits.toNat]
    | .bool p d v => ["T", toString p, Bytes.toHex d, if v then "1" else "0"]
    | .list p items => ["L", toString p, toString items.length] ++ encodeList items
    | .access p l f => ["A", toString p] ++ encode l ++ encode f
  def encodeList : List Expr → List String
    | [] => []
    | e :: es => encode e ++ encodeList es
end

def toWire (e : Expr) : String := ",".intercalate (encode e)

end Expr
end Kvql
