/-
  Model of limit_plan.go (`FinalLimitPlan`, `LimitPlan`) and of the limit that
  optimizer.go pushes into `AggregatePlan` (aggregate_plan.go `Next`/`Batch`): the
  three copies of the same `skips`/`current` state machine.

  The child is whatever a child plan can be: a list of chunks handed out by successive
  `Batch` calls (then empty answers for ever), or the flattened rows handed out one by one
  by `Next` (then `nil` for ever).
-/
namespace Kvql.Limit

structure St where
  skips : Nat := 0
  current : Nat := 0
deriving Repr, DecidableEq

/-! ### row-at-a-time: `Next` -/

/-- one call of `Next`: `(returned row or none, new state, remaining child rows)` -/
def next (start count : Nat) : St → List α → Option α × St × List α
  | st, child =>
    -- for p.skips < p.Start { child.Next(); … p.skips++ }
    let need := start - st.skips
    if child.length < need then
      -- the child ran dry while skipping: `return nil, nil`
      (none, { st with skips := st.skips + child.length }, [])
    else
      let st1 := { st with skips := st.skips + need }
      let child1 := child.drop need
      if st1.current ≥ count then (none, st1, child1)
      else match child1 with
        | [] => (none, st1, [])
        | r :: rest => (some r, { st1 with current := st1.current + 1 }, rest)

/-- call `Next` until it returns `nil` -/
def drainNext (start count : Nat) : Nat → St → List α → List α
  | 0, _, _ => []
  | fuel + 1, st, child =>
    match next start count st child with
    | (none, _, _) => []
    | (some r, st', child') => r :: drainNext start count fuel st' child'

/-! ### batch: `Batch` -/

inductive Skip (α : Type) where
  /-- the child returned no rows while skipping: `return nil, nil` -/
  | exhausted (skips : Nat)
  /-- skipping finished; `rows` is what is left of the chunk in which it finished -/
  | done (skips : Nat) (rows : List α) (child : List (List α))

/-- first loop of `Batch`: `for p.skips < p.Start { … }` -/
def skipPhase (start : Nat) : Nat → List (List α) → Skip α
  | skips, [] => if skips < start then .exhausted skips else .done skips [] []
  | skips, rows :: child =>
    if skips < start then
      let restSkips := start - skips
      if rows.length ≤ restSkips then
        -- p.skips += nrows; rows = nil
        skipPhase start (skips + rows.length) child
      else
        -- p.skips += restSkips; rows = rows[restSkips:]; break
        .done (skips + restSkips) (rows.drop restSkips) child
    else .done skips [] (rows :: child)

/-- third loop of `Batch`: `for !finish { rows = child.Batch(); … }`;
    invariant on entry: `current < count` -/
def fillPhase (count bs : Nat) : Nat → Nat → List α → List (List α) → List α × Nat × List (List α)
  | current, _, acc, [] => (acc, current, [])
  | current, cnt, acc, rows :: child =>
    if rows.isEmpty then (acc, current, child)
    else
      let taken := rows.take (count - current)
      let current' := current + taken.length
      let cnt' := cnt + taken.length
      if current' ≥ count then (acc ++ taken, current', child)
      else if cnt' ≥ bs then (acc ++ taken, current', child)
      else fillPhase count bs current' cnt' (acc ++ taken) child

/-- one call of `Batch` with `PlanBatchSize = bs` -/
def batch (start count bs : Nat) (st : St) (child : List (List α)) : List α × St × List (List α) :=
  match skipPhase start st.skips child with
  | .exhausted skips => ([], { st with skips := skips }, [])
  | .done skips rows child1 =>
    -- `if len(rows) > 0 { for _, row := range rows { if p.current >= p.Count { break }; … } }`
    let taken := rows.take (count - st.current)
    let current1 := st.current + taken.length
    if current1 ≥ count then (taken, { skips := skips, current := current1 }, child1)
    else
      let (out, current2, child2) := fillPhase count bs current1 taken.length taken child1
      (out, { skips := skips, current := current2 }, child2)

/-- call `Batch` until it returns no rows; the result keeps the batch structure -/
def drainBatch (start count bs : Nat) : Nat → St → List (List α) → List (List α)
  | 0, _, _ => []
  | fuel + 1, st, child =>
    match batch start count bs st child with
    | ([], _, _) => []
    | (out, st', child') => out :: drainBatch start count bs fuel st' child'

end Kvql.Limit
