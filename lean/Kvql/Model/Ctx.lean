/-
  plan.go `ExecuteCtx`: the field-result caches threaded through both evaluators.

  Go passes a `*ExecuteCtx` that may be nil (`present = false`) and mutates it in place; here the
  context is an explicit state.  Maps are association lists kept sorted by key (rendering only).
  The chunk cache key is formed exactly as the code forms it, as ONE byte string
  (`chunkCacheKey`: `fmt.Sprintf("%d-%s-%s", len(name), name, string(key))`), so two (name, key)
  combinations that collide in Go collide here (none does: `chunkKey_inj` in Proofs/CacheKey.lean;
  before the repair the key was `name ++ "-" ++ firstKey`: `chunkKeyUnpatched`).
-/
import Kvql.Model.Value

namespace Kvql

structure Ctx where
  present : Bool := true                                  -- Go: ctx != nil
  enable : Bool := true                                   -- EnableCache
  hit : Nat := 0                                          -- Hit
  fieldCache : List (Bytes × Value) := []                 -- FieldCaches
  chunkKeyCache : List (Bytes × List Value) := []         -- FieldChunkKeyCaches
  chunkCache : List (Bytes × List Value) := []            -- FieldChunkCaches
deriving Inhabited

namespace Ctx

/-- a nil `*ExecuteCtx` -/
def none : Ctx := { present := false, enable := false }
/-- `NewExecuteCtx()` followed by `ctx.EnableCache = enable` -/
def new (enable : Bool) : Ctx := { present := true, enable := enable }
/-- the context of the cache-free theorems: non-nil, cache switched off -/
def off : Ctx := new false

/-- `GetFieldResult` -/
def getFieldResult (c : Ctx) (name : Bytes) : Option Value :=
  if !c.enable then Option.none else assocGet c.fieldCache name

/-- `SetFieldResult` -/
def setFieldResult (c : Ctx) (name : Bytes) (v : Value) : Ctx :=
  if !c.enable then c else { c with fieldCache := assocSet c.fieldCache name v }

def updateHit (c : Ctx) : Ctx := { c with hit := c.hit + 1 }

/-- `%d` of a length: the decimal digits -/
def decDigits (n : Nat) : Bytes :=
  if n < 10 then [UInt8.ofNat (48 + n)] else decDigits (n / 10) ++ [UInt8.ofNat (48 + n % 10)]
decreasing_by omega

/-- `chunkCacheKey`: `fmt.Sprintf("%d-%s-%s", len(name), name, string(key))` -/
def chunkKey (name key : Bytes) : Bytes := decDigits name.length ++ [45] ++ name ++ [45] ++ key

/-- the key before the repair: `fmt.Sprintf("%s-%s", name, string(key))` -/
def chunkKeyUnpatched (name key : Bytes) : Bytes := name ++ [45] ++ key

/-- `GetChunkFieldResult` -/
def getChunkFieldResult (c : Ctx) (name key : Bytes) : Option (List Value) :=
  if !c.enable then Option.none else assocGet c.chunkKeyCache (chunkKey name key)

/-- `AppendChunkFieldResult` -/
def appendChunkFieldResult (c : Ctx) (name : Bytes) (chunk : List Value) : Ctx :=
  if !c.enable then c else
  match assocGet c.chunkCache name with
  | some cdata => { c with chunkCache := assocSet c.chunkCache name (cdata ++ chunk) }
  | Option.none => { c with chunkCache := assocSet c.chunkCache name chunk }

/-- `SetChunkFieldResult` -/
def setChunkFieldResult (c : Ctx) (name key : Bytes) (chunk : List Value) : Ctx :=
  if !c.enable then c else
  let ckey := chunkKey name key
  match assocGet c.chunkKeyCache ckey with
  | some _ => c
  | Option.none =>
    ({ c with chunkKeyCache := assocSet c.chunkKeyCache ckey chunk }).appendChunkFieldResult name chunk

/-- `GetChunkFieldFinalResult` -/
def getChunkFieldFinalResult (c : Ctx) (name : Bytes) : Option (List Value) :=
  if !c.enable then Option.none else assocGet c.chunkCache name

/-- `Clear` -/
def clear (c : Ctx) : Ctx :=
  if !c.enable then c else { c with fieldCache := [], chunkCache := [], chunkKeyCache := [] }

def pickIdx (choose : List Nat) (l : List Value) : List Value :=
  ((List.range l.length).zip l).filterMap (fun (i, v) => if choose.contains i then some v else Option.none)

/-- `AdjustChunkCache` -/
def adjustChunkCache (c : Ctx) (chooseIdxes : List Nat) : Ctx :=
  if !c.enable then c else
  { c with chunkCache := c.chunkCache.map (fun (k, v) => (k, pickIdx chooseIdxes v)) }

/-- canonical rendering for the correspondence check -/
def canon (c : Ctx) : String :=
  if !c.present then "nil" else
  let lists (m : List (Bytes × List Value)) : String :=
    spaceJoin (m.map (fun (k, l) => Bytes.toHex k ++ "=" ++ (Value.anyList l).canon))
  s!"hit={c.hit} fc=[{spaceJoin (Value.canonMembers c.fieldCache)}] ck=[{lists c.chunkKeyCache}] cc=[{lists c.chunkCache}]"

end Ctx

/-- the evaluators' monad: an error class or a value, and the context as left behind
    (Go mutates the context through the pointer, so it survives an error) -/
def M (α : Type) := Ctx → Except Err α × Ctx

namespace M
@[inline] def pure {α} (a : α) : M α := fun c => (.ok a, c)
@[inline] def bind {α β} (x : M α) (f : α → M β) : M β := fun c =>
  match x c with
  | (.ok a, c') => f a c'
  | (.error e, c') => (.error e, c')
@[inline] def throw {α} (e : Err) : M α := fun c => (.error e, c)
@[inline] def lift {α} (x : Except Err α) : M α := fun c => (x, c)
instance : Monad M where
  pure := M.pure
  bind := M.bind
end M

end Kvql
