/-
  Column values (`type Column any` of kvql), restricted to the dynamic kinds that the
  comparison code of order_plan.go distinguishes.  One constructor per Go dynamic type that
  the engine's expressions produce; every other dynamic type (lists, JSON maps, …) is `other`
  — those reach no `case` of any type switch in order_plan.go.  (The fixed-width kinds
  `int16/int32/uint*/float32` that `compareNumber` also lists are never produced by the
  engine and are not represented: the harness never sends them.)

  The textual form is the harness' `canonValue` rendering (harness/store.go):
    `b:<hex>` []byte   `s:<hex>` string   `i:<n>` int64   `I:<n>` int
    `f:<16 hex digits>` float64 (IEEE-754 bits)   `t` / `F` bool   `n` nil
  anything else is `other` and is rendered `?`.
-/
import Kvql.Model.Expr

namespace Kvql

inductive Col where
  | bytes (b : Bytes)     -- []byte
  | str (b : Bytes)       -- string
  | int (i : Int64)       -- int64
  | goInt (i : Int64)     -- int (64-bit platform)
  | float (f : F64)       -- float64
  | bool (b : Bool)
  | nil
  | other
deriving DecidableEq, Repr, Inhabited

namespace Col

def hexNat (cs : List Char) : Option Nat :=
  cs.foldl (fun acc c => do
    let a ← acc
    let v ← Bytes.hexVal c
    pure (a * 16 + v)) (some 0)

def parseInt64 (s : String) : Option Int64 :=
  match s.toInt? with
  | some i => if -9223372036854775808 ≤ i ∧ i ≤ 9223372036854775807 then some (Int64.ofInt i) else none
  | none => none

/-- parser of the `canonValue` rendering -/
def ofCanon (s : String) : Col :=
  if s == "t" then .bool true
  else if s == "F" then .bool false
  else if s == "n" then .nil
  else match s.toList with
    | 'b' :: ':' :: h => match Bytes.ofHexChars' h with | some b => .bytes b | none => .other
    | 's' :: ':' :: h => match Bytes.ofHexChars' h with | some b => .str b | none => .other
    | 'i' :: ':' :: d => match parseInt64 (String.ofList d) with | some i => .int i | none => .other
    | 'I' :: ':' :: d => match parseInt64 (String.ofList d) with | some i => .goInt i | none => .other
    | 'f' :: ':' :: h =>
      if h.length == 16 then
        match hexNat h with | some n => .float ⟨UInt64.ofNat n⟩ | none => .other
      else .other
    | _ => .other
where
  /-- hex with `-` for the empty string -/
  Bytes.ofHexChars' (h : List Char) : Option Bytes :=
    if h == ['-'] then some [] else Bytes.ofHexChars h

def hex16 (n : Nat) : String :=
  String.ofList ((List.range 16).reverse.map (fun k => Bytes.hexDigit ((n / 16 ^ k) % 16)))

def toCanon : Col → String
  | .bytes b => "b:" ++ Bytes.toHex b
  | .str b => "s:" ++ Bytes.toHex b
  | .int i => "i:" ++ toString i.toInt
  | .goInt i => "I:" ++ toString i.toInt
  | .float f => "f:" ++ hex16 f.bits.toNat
  | .bool true => "t"
  | .bool false => "F"
  | .nil => "n"
  | .other => "?"

end Col
end Kvql
