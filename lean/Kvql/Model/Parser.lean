/-
  Model of parser.go: `Parser.Parse()` and everything it calls after the lexer, function by
  function, over `List Token`.

  State.  Go keeps `toks`, `pos` and the current token `p.tok` (`nil` at the end of input).
  Here the state is the list of tokens not yet consumed: `p.tok` is its head (`[]` ⇔ `nil`),
  `p.next()` is `tail` (and stays `[]` at the end).  Every function returns the remaining
  list with its result.  `p.exprLev` is only ever incremented and decremented, never read:
  it is not modelled.  `p.nestLev` is modelled by the parameter `lev` (the value of
  `p.nestLev` when the function is entered): all three users restore it before returning
  (`defer`), so it is a function of the call path; `incNestLev`'s error is looked at only in
  `parseBinaryExpr`.  The parameters `x` of `parseBinaryExpr(x, prec)` and
  `parsePrimaryExpr(x)` are `nil` at every call site and are dropped.

  Fuel.  The expression parser is one mutual structural recursion on `fuel` (every call
  passes `fuel - 1`), so `fuel` bounds the *depth* of the call tree; the statement-level
  loops take a separate loop fuel.  `Proofs/ParserTotal.lean` proves that `Parse` (which
  starts with `exprFuel toks = 8·|toks| + 8` and `|toks| + 2`) never returns `outOfFuel`
  and never reaches a `panic` branch: each `p.tok.X` on a possibly-nil `p.tok` is such a
  branch (`parseOperand` is the one without a nil test in the Go code; its only caller
  `parseUnaryExpr` has returned "Unexpected EOF" before).

  Floats.  `strconv.ParseFloat` is a parameter `pf` (the value of a FLOAT token's text):
  every definition and theorem is generic in it; the driver instantiates it from the values
  the harness sends along with the query (`PARSE <hexquery> <hexdata>=<bits>;…`).
-/
import Kvql.Model.Lexer
import Kvql.Model.Stmt
import Kvql.Model.Check

namespace Kvql

open Generated

/-- ASCII text as bytes (reduces in the kernel, unlike `String.toUTF8`) -/
def Bytes.ofAscii (s : String) : Bytes := s.toList.map (fun c => UInt8.ofNat c.toNat)

namespace Token
/-- `tok.Data` as a `String`, for comparison with the literals and tables of the Go source -/
def str (t : Token) : String := Bytes.toAsciiString t.data

/-- `Token.Precedence()` -/
def prec (t : Token) : Nat :=
  if t.tp == tkOPERATOR then (precTable.lookup t.str).getD 0 else 0
end Token

abbrev Toks := List Token

namespace Expr

/-! ### `String()` -/

/-- `OperatorToString[op]` (a missing key would print as the empty string) -/
def opText (op : Op) : Bytes := Bytes.ofAscii ((operatorToString.lookup op.code).getD "")

def joinSep (sep : Bytes) : List Bytes → Bytes
  | [] => []
  | [x] => x
  | x :: xs => x ++ sep ++ joinSep sep xs

mutual
  /-- `e.String()` -/
  def toString : Expr → Bytes
    | .binop _ op l r =>
      let generic := Bytes.ofAscii "(" ++ toString l ++ Bytes.ofAscii " " ++ opText op ++
        Bytes.ofAscii " " ++ toString r ++ Bytes.ofAscii ")"
      match op, r with
      | .between, .list _ items =>
        match toStringList items with
        | [lo, hi] =>
          Bytes.ofAscii "(" ++ toString l ++ Bytes.ofAscii " BETWEEN " ++ lo ++
            Bytes.ofAscii " AND " ++ hi ++ Bytes.ofAscii ")"
        | _ => generic
      | _, _ => generic
    | .field _ .key => Bytes.ofAscii "KEY"
    | .field _ .value => Bytes.ofAscii "VALUE"
    | .str _ d => Bytes.ofAscii "'" ++ d ++ Bytes.ofAscii "'"
    | .not _ r => Bytes.ofAscii "!(" ++ toString r ++ Bytes.ofAscii ")"
    | .call _ n args =>
      toString n ++ Bytes.ofAscii "(" ++ joinSep (Bytes.ofAscii ", ") (toStringList args) ++
        Bytes.ofAscii ")"
    | .name _ d => d
    | .ref _ n _ => Bytes.ofAscii "`" ++ n ++ Bytes.ofAscii "`"
    | .cycle => []
    | .num _ d _ => d
    | .float _ d _ => d
    | .bool _ d _ => d
    | .list _ items =>
      Bytes.ofAscii "(" ++ joinSep (Bytes.ofAscii ", ") (toStringList items) ++ Bytes.ofAscii ")"
    | .access _ l f => toString l ++ Bytes.ofAscii "[" ++ toString f ++ Bytes.ofAscii "]"
  def toStringList : List Expr → List Bytes
    | [] => []
    | e :: es => toString e :: toStringList es
end

/-- `newNumberExpr(pos, data)`: `strconv.ParseInt(data, 10, 64)`, 0 on error -/
def newNumber (pos : Nat) (data : Bytes) : Expr :=
  .num pos data (Int64.ofInt ((parseInt? data).getD 0))

end Expr

namespace Parser

/-- `p.expect(&Token{Tp: tp})`: only the token *type* is compared -/
def expect (tp : Nat) : Toks → Res Toks
  | [] => eofErr
  | t :: rest => if t.tp != tp then synErr t.pos else .ok rest

/-- `BuildOp(pos, data)` -/
def buildOp (pos : Nat) (data : String) : Res Op :=
  match (stringToOperator.lookup data) >>= Op.ofCode with
  | some op => .ok op
  | none => synErr pos

/-- `MaxNestLevel` -/
def maxNest : Nat := maxNestLevel

section expr
variable (pf : Bytes → F64)

mutual
  /-- `p.parseBinaryExpr(nil, prec1)` entered with `p.nestLev = lev` -/
  def parseBinaryExpr : Nat → Nat → Nat → Toks → Res (Expr × Toks)
    | 0, _, _, _ => .outOfFuel
    | fuel + 1, lev, prec1, ts => do
      let (x, ts) ← parseUnaryExpr fuel lev ts
      binaryLoop fuel (lev + 1) prec1 x ts
  termination_by structural fuel _ _ _ => fuel

  /-- one iteration of the `for n = 1; ; n++` loop of `parseBinaryExpr`; `lev` is
      `p.nestLev` after this iteration's `incNestLev()` -/
  def binaryLoop : Nat → Nat → Nat → Expr → Toks → Res (Expr × Toks)
    | 0, _, _, _, _ => .outOfFuel
    | fuel + 1, lev, prec1, x, ts =>
      if lev > maxNest then .err .nest
      else
        match ts with
        | [] => .ok (x, [])                       -- `tokPrec`: nil, LowestPrec
        | t :: rest =>
          let oprec := t.prec
          if oprec < prec1 then .ok (x, ts)
          else do
            -- `p.expect(opTok)` compares the token with itself and advances
            let (y, ts') ← (
              if t.str == "in" then
                match rest with
                | [] => eofErr
                | t2 :: _ =>
                  if t2.tp == tkLPAREN then parseList fuel lev t.pos rest
                  else parseBinaryExpr fuel lev (oprec + 1) rest
              else if t.str == "between" then parseBetween fuel lev t.pos (oprec + 1) rest
              else parseBinaryExpr fuel lev (oprec + 1) rest : Res (Expr × Toks))
            let op ← buildOp t.pos t.str
            binaryLoop fuel (lev + 1) prec1 (.binop t.pos op x y) ts'
  termination_by structural fuel _ _ _ _ => fuel

  /-- `p.parseUnaryExpr()` -/
  def parseUnaryExpr : Nat → Nat → Toks → Res (Expr × Toks)
    | 0, _, _ => .outOfFuel
    | fuel + 1, lev, ts =>
      match ts with
      | [] => eofErr
      | t :: rest =>
        if t.tp == tkOPERATOR && t.str == "!" then do
          let (x, ts') ← parseUnaryExpr fuel (lev + 1) rest
          pure (.not t.pos x, ts')
        else parsePrimaryExpr fuel (lev + 1) ts
  termination_by structural fuel _ _ => fuel

  /-- `p.parsePrimaryExpr(nil)` -/
  def parsePrimaryExpr : Nat → Nat → Toks → Res (Expr × Toks)
    | 0, _, _ => .outOfFuel
    | fuel + 1, lev, ts => do
      let (x, ts) ← parseOperand fuel lev ts
      primaryLoop fuel (lev + 1) x ts
  termination_by structural fuel _ _ => fuel

  /-- one iteration of the loop of `parsePrimaryExpr` -/
  def primaryLoop : Nat → Nat → Expr → Toks → Res (Expr × Toks)
    | 0, _, _, _ => .outOfFuel
    | fuel + 1, lev, x, ts =>
      match ts with
      | [] => .ok (x, [])
      | t :: _ =>
        if t.tp == tkLPAREN then
          -- outside the modelled domain: Go would *execute* the callee to learn its name
          if !x.calleeAtomic then .unsupported "call of a computed callee"
          else do
            let (x', ts') ← parseFuncCall fuel lev x ts
            primaryLoop fuel (lev + 1) x' ts'
        else if t.tp == tkLBRACK then do
          let (x', ts') ← parseFieldAccess fuel lev t.pos x ts
          primaryLoop fuel (lev + 1) x' ts'
        else .ok (x, ts)
  termination_by structural fuel _ _ _ => fuel

  /-- `p.parseOperand()`: dereferences `p.tok` without a nil test -/
  def parseOperand : Nat → Nat → Toks → Res (Expr × Toks)
    | 0, _, _ => .outOfFuel
    | fuel + 1, lev, ts =>
      match ts with
      | [] => .panic "parseOperand: p.tok is nil"
      | t :: rest =>
        if t.tp == tkKEY then .ok (.field t.pos .key, rest)
        else if t.tp == tkVALUE then .ok (.field t.pos .value, rest)
        else if t.tp == tkSTRING then .ok (.str t.pos t.data, rest)
        else if t.tp == tkLPAREN then do
          let (x, ts') ← parseBinaryExpr fuel lev 1 rest
          let ts'' ← expect tkRPAREN ts'
          pure (x, ts'')
        else if t.tp == tkNAME then .ok (.name t.pos t.data, rest)
        else if t.tp == tkNUMBER then .ok (Expr.newNumber t.pos t.data, rest)
        else if t.tp == tkFLOAT then .ok (.float t.pos t.data (pf t.data), rest)
        else if t.tp == tkTRUE then .ok (.bool t.pos t.data true, rest)
        else if t.tp == tkFALSE then .ok (.bool t.pos t.data false, rest)
        else synErr t.pos
  termination_by structural fuel _ _ => fuel

  /-- the argument loops of `parseFuncCall` (`strict`: anything but `,` between arguments is
      an error), `parseFieldAccess` and `parseList` (any one token is skipped), up to but not
      including the closing token `close` -/
  def parseItems : Nat → Nat → Nat → Bool → List Expr → Toks → Res (List Expr × Toks)
    | 0, _, _, _, _, _ => .outOfFuel
    | fuel + 1, lev, close, strict, acc, ts =>
      match ts with
      | [] => .ok (acc, [])
      | t :: _ =>
        if t.tp == close then .ok (acc, ts)
        else do
          let (arg, ts1) ← parseBinaryExpr fuel lev 1 ts
          let acc := acc ++ [arg]
          match ts1 with
          | [] => pure (acc, [])                  -- `p.next()` at the end of input; the loop ends
          | t1 :: rest1 =>
            if t1.tp == close then pure (acc, ts1)
            else if strict && !(t1.tp == tkSEP && t1.str == ",") then synErr t1.pos
            else parseItems fuel lev close strict acc rest1
  termination_by structural fuel _ _ _ _ _ => fuel

  /-- `p.parseFuncCall(fun)` -/
  def parseFuncCall : Nat → Nat → Expr → Toks → Res (Expr × Toks)
    | 0, _, _, _ => .outOfFuel
    | fuel + 1, lev, fn, ts => do
      let ts ← expect tkLPAREN ts
      let (args, ts) ← parseItems fuel lev tkRPAREN true [] ts
      let ts ← expect tkRPAREN ts
      pure (.call fn.pos fn args, ts)
  termination_by structural fuel _ _ _ => fuel

  /-- `p.parseFieldAccess(pos, left)` -/
  def parseFieldAccess : Nat → Nat → Nat → Expr → Toks → Res (Expr × Toks)
    | 0, _, _, _, _ => .outOfFuel
    | fuel + 1, lev, pos, left, ts => do
      let ts ← expect tkLBRACK ts
      let (names, ts) ← parseItems fuel lev tkRBRACK false [] ts
      let ts ← expect tkRBRACK ts
      match names with
      | [f] => pure (.access pos left f, ts)
      | _ => synErr pos
  termination_by structural fuel _ _ _ _ => fuel

  /-- `p.parseList(pos)` -/
  def parseList : Nat → Nat → Nat → Toks → Res (Expr × Toks)
    | 0, _, _, _ => .outOfFuel
    | fuel + 1, lev, pos, ts => do
      let ts ← expect tkLPAREN ts
      let (items, ts) ← parseItems fuel lev tkRPAREN false [] ts
      let ts ← expect tkRPAREN ts
      pure (.list pos items, ts)
  termination_by structural fuel _ _ _ => fuel

  /-- `p.parseBetween(pos, oprec)`: the `and` is any OPERATOR token -/
  def parseBetween : Nat → Nat → Nat → Nat → Toks → Res (Expr × Toks)
    | 0, _, _, _, _ => .outOfFuel
    | fuel + 1, lev, pos, oprec, ts => do
      let (lower, ts) ← parseBinaryExpr fuel lev oprec ts
      let ts ← expect tkOPERATOR ts
      let (upper, ts) ← parseBinaryExpr fuel lev oprec ts
      pure (.list pos [lower, upper], ts)
  termination_by structural fuel _ _ _ _ => fuel
end

/-- `p.parseExpr()` at statement level (`p.nestLev = 0`) -/
def parseExpr (fuel : Nat) (ts : Toks) : Res (Expr × Toks) := parseBinaryExpr pf fuel 0 1 ts

end expr

/-! ### statement level -/

/-- fuel for one call of `parseExpr` on (a suffix of) `toks` -/
def exprFuel (toks : Toks) : Nat := 8 * toks.length + 8
/-- fuel for a statement-level loop over (a suffix of) `toks` -/
def loopFuel (toks : Toks) : Nat := toks.length + 2

/-- `p.findFieldInSelect(selStmt, fieldName, pos)`: index and current tree of the field -/
def findFieldInSelect (tbl : Tbl) (fieldName : Bytes) (pos : Nat) : Res (Nat × Expr) :=
  match tbl.find fieldName with
  | none => synErr pos
  | some (i, fexpr) => do
    let t ← ({ tbl := tbl } : CheckCtx).rt fexpr
    if t == tyTSTR || t == tyTNUMBER || t == tyTBOOL then pure (i, fexpr) else synErr fexpr.pos

/-- the list built by `parseLimit`'s loop: the values of the NUMBER tokens seen -/
def limitLoop : Nat → List Int64 → Toks → Res (List Int64 × Toks)
  | 0, _, _ => .outOfFuel
  | fuel + 1, acc, ts =>
    match ts with
    | [] => .ok (acc, [])
    | t :: rest =>
      if t.tp == tkNUMBER then
        limitLoop fuel (acc ++ [Int64.ofInt ((parseInt? t.data).getD 0)]) rest
      else if t.tp == tkSEP then
        match rest with
        | [] => synErr t.pos
        | t2 :: _ => if t2.tp != tkNUMBER then synErr t2.pos else limitLoop fuel acc rest
      else .ok (acc, ts)

/-- `p.parseLimit()` -/
def parseLimit (lfuel : Nat) (ts : Toks) : Res (LimitS × Toks) :=
  match ts with
  | [] => .panic "parseLimit: p.tok is nil"
  | t :: _ => do
    let ts ← expect tkLIMIT ts
    let (vals, ts) ← limitLoop lfuel [] ts
    let here : Res (LimitS × Toks) := match ts with
      | [] => eofErr
      | t2 :: _ => synErr t2.pos
    match vals with
    | [c] => pure ({ pos := t.pos, start := 0, count := c }, ts)
    | [s, c] => pure ({ pos := t.pos, start := s, count := c }, ts)
    | _ => here            -- none, or more than two

section stmt
variable (pf : Bytes → F64)

/-- what the loop of `parseSelect` has gathered -/
structure SelAcc where
  all : Bool := false
  fields : List Expr := []
  names : List Bytes := []
  types : List Nat := []

/-- the `for p.tok != nil && p.tok.Tp != WHERE` loop of `parseSelect` -/
def selectLoop (efuel : Nat) : Nat → SelAcc → Toks → Res (SelAcc × Toks)
  | 0, _, _ => .outOfFuel
  | fuel + 1, acc, ts =>
    match ts with
    | [] => .ok (acc, [])
    | t :: rest =>
      if t.tp == tkWHERE then .ok (acc, ts)
      else if t.tp == tkOPERATOR && t.str == "*" then
        match rest with
        | t2 :: _ =>
          if t2.tp != tkWHERE then synErr t2.pos
          else if !acc.fields.isEmpty then synErr t2.pos
          else .ok ({ acc with all := true }, rest)
        | [] => if !acc.fields.isEmpty then eofErr else .ok ({ acc with all := true }, [])
      else do
        let (field, ts1) ← parseExpr pf efuel ts
        let (fname, ts2) ← (match ts1 with
          | [] => pure (field.toString, [])
          | t1 :: r1 =>
            if t1.tp == tkAS then
              match r1 with
              | [] => eofErr
              | t2 :: r2 => if t2.tp != tkNAME then synErr t2.pos else pure (t2.data, r2)
            else if t1.tp == tkSEP && t1.str == "," then pure (field.toString, ts1)
            else if t1.tp == tkWHERE then pure (field.toString, ts1)
            else synErr t1.pos : Res (Bytes × Toks))
        let acc := { acc with fields := acc.fields ++ [field], names := acc.names ++ [fname],
                              types := acc.types ++ [field.retType] }
        match ts2 with
        | [] => pure (acc, [])
        | t3 :: r3 => if t3.tp == tkWHERE then pure (acc, ts2) else selectLoop efuel fuel acc r3

/-- `p.parseSelect()`: (Pos, AllFields, Fields, FieldNames, FieldTypes) -/
def parseSelect (efuel lfuel : Nat) (ts : Toks) : Res ((Nat × SelAcc) × Toks) :=
  match ts with
  | [] => .panic "parseSelect: p.tok is nil"
  | t :: _ => do
    let ts ← expect tkSELECT ts
    let (acc, ts) ← selectLoop pf efuel lfuel {} ts
    if acc.fields.isEmpty && !acc.all then synErr t.pos
    else if acc.all then
      let k : Expr := .field 0 .key
      let v : Expr := .field 0 .value
      pure ((t.pos, { acc with fields := [k, v], names := [k.toString, v.toString] }), ts)
    else pure ((t.pos, acc), ts)

/-- the loop of `parseOrderBy`: (name, field index, order) -/
def orderLoop (efuel : Nat) (tbl : Tbl) : Nat → List (Bytes × Nat) → Toks →
    Res (List (Bytes × Nat) × Toks)
  | 0, _, _ => .outOfFuel
  | fuel + 1, acc, ts =>
    match ts with
    | [] => .ok (acc, [])
    | _ :: _ => do
      let (field, ts1) ← parseExpr pf efuel ts
      let fieldName := match field with
        | .name _ d => d
        | f => f.toString
      let _ ← findFieldInSelect tbl fieldName field.pos
      match ts1 with
      | [] => pure (acc ++ [(fieldName, tkASC)], [])
      | t1 :: r1 =>
        if t1.tp == tkSEP then orderLoop efuel tbl fuel (acc ++ [(fieldName, tkASC)]) r1
        else if t1.tp == tkASC || t1.tp == tkDESC then
          match r1 with
          | t2 :: r2 =>
            if t2.tp == tkSEP then orderLoop efuel tbl fuel (acc ++ [(fieldName, t1.tp)]) r2
            else pure (acc ++ [(fieldName, t1.tp)], r1)
          | [] => pure (acc ++ [(fieldName, t1.tp)], [])
        else pure (acc ++ [(fieldName, tkASC)], ts1)

/-- `p.parseOrderBy(selStmt)` -/
def parseOrderBy (efuel lfuel : Nat) (tbl : Tbl) (ts : Toks) : Res (OrderS × Toks) :=
  match ts with
  | [] => .panic "parseOrderBy: p.tok is nil"
  | t :: _ => do
    let ts ← expect tkORDER ts
    let ts ← expect tkBY ts
    let (orders, ts) ← orderLoop pf efuel tbl lfuel [] ts
    pure ({ pos := t.pos, orders := orders }, ts)

/-- what a `GroupByField.Expr` points at -/
inductive GTarget
  | sel (idx : Nat)        -- the node `selStmt.Fields[idx]`
  | own (e : Expr)         -- the freshly parsed `key` / `value`

/-- the loop of `parseGroupBy` -/
def groupLoop (efuel : Nat) (tbl : Tbl) : Nat → List (Bytes × GTarget) → Toks →
    Res (List (Bytes × GTarget) × Toks)
  | 0, _, _ => .outOfFuel
  | fuel + 1, acc, ts =>
    match ts with
    | [] => .ok (acc, [])
    | _ :: _ => do
      let (field, ts1) ← parseExpr pf efuel ts
      let entry ← (match field with
        | .name p d => do
          let (i, _) ← findFieldInSelect tbl d p
          pure (d, GTarget.sel i)
        | .field .. => pure (field.toString, GTarget.own field)
        | .call p nm _ => do
          let (i, fexpr) ← findFieldInSelect tbl field.toString p
          match Expr.funcName? nm with
          | none => synErr p                    -- `GetFuncNameFromExpr`: "Invalid function name"
          | some fname =>
            if Expr.isAggrName fname then synErr fexpr.pos
            else pure (field.toString, GTarget.sel i)
        | f => do
          let (i, _) ← findFieldInSelect tbl f.toString f.pos
          pure (f.toString, GTarget.sel i) : Res (Bytes × GTarget))
      match ts1 with
      | [] => pure (acc ++ [entry], [])
      | t1 :: r1 =>
        if t1.tp == tkSEP then groupLoop efuel tbl fuel (acc ++ [entry]) r1
        else pure (acc ++ [entry], ts1)

/-- `for _, f := range fields { f.Expr.Check(ctx) }` at the end of `parseGroupBy`: the select
    fields are rewritten in place, i.e. in the table -/
def groupCheck (tbl : Tbl) : List (Bytes × GTarget) → Res (Tbl × List (Bytes × GTarget))
  | [] => pure (tbl, [])
  | (n, .sel i) :: rest =>
    match tbl[i]? with
    | none => .panic "parseGroupBy: field index out of range"
    | some (_, e) => do
      let e' ← ({ tbl := tbl, cur := some i } : CheckCtx).check e
      let (tbl', rest') ← groupCheck (tbl.setField i e') rest
      pure (tbl', (n, .sel i) :: rest')
  | (n, .own e) :: rest => do
    let e' ← ({ tbl := tbl } : CheckCtx).check e
    let (tbl', rest') ← groupCheck tbl rest
    pure (tbl', (n, .own e') :: rest')

/-- `p.parseGroupBy(selStmt, ctx)` -/
def parseGroupBy (efuel lfuel : Nat) (tbl : Tbl) (ts : Toks) :
    Res ((Nat × List (Bytes × GTarget) × Tbl) × Toks) :=
  match ts with
  | [] => .panic "parseGroupBy: p.tok is nil"
  | t :: _ => do
    let ts ← expect tkGROUP ts
    let ts ← expect tkBY ts
    let (fields, ts) ← groupLoop pf efuel tbl lfuel [] ts
    let (tbl', fields') ← groupCheck tbl fields
    pure ((t.pos, fields', tbl'), ts)

/-- `p.parsePutKVPair()` -/
def parsePutKVPair (efuel : Nat) (ts : Toks) : Res ((Expr × Expr) × Toks) := do
  let ts ← expect tkLPAREN ts
  let (key, ts) ← parseExpr pf efuel ts
  match ts with
  | [] => eofErr
  | t :: rest =>
    if t.tp == tkSEP && t.str == "," then do
      let (value, ts) ← parseExpr pf efuel rest
      let ts ← expect tkRPAREN ts
      pure ((key, value), ts)
    else synErr t.pos

/-- the `for p.tok != nil` loop of `parsePut` -/
def putLoop (efuel : Nat) : Nat → List (Expr × Expr) → Toks → Res (List (Expr × Expr))
  | 0, _, _ => .outOfFuel
  | fuel + 1, acc, ts =>
    match ts with
    | [] => .ok acc
    | _ :: _ => do
      let (kv, ts1) ← parsePutKVPair pf efuel ts
      match ts1 with
      | [] => pure (acc ++ [kv])
      | _ :: _ => do
        let ts2 ← expect tkSEP ts1
        putLoop efuel fuel (acc ++ [kv]) ts2

/-- `PutStmt.Validate` / `validateKVPair` (the pairs as `Check` leaves them) -/
def validatePut (ctx : CheckCtx) : List (Expr × Expr) → Res (List (Expr × Expr))
  | [] => pure []
  | (k, v) :: rest => do
    let k' ← ctx.check k
    let tk ← ctx.rt k'
    if tk != tyTSTR && tk != tyTNUMBER then synErr k'.pos
    else do
      let v' ← ctx.check v
      let tv ← ctx.rt v'
      if tv != tyTSTR && tv != tyTNUMBER then synErr v'.pos
      else do
        let rest' ← validatePut ctx rest
        pure ((k', v') :: rest')

/-- `p.parsePut()` -/
def parsePut (efuel lfuel : Nat) (ts : Toks) : Res Stmt :=
  match ts with
  | [] => .panic "parsePut: p.tok is nil"
  | t :: _ => do
    let ts ← expect tkPUT ts
    let pairs ← putLoop pf efuel lfuel [] ts
    let pairs' ← validatePut { notAllowValue := true } pairs
    pure (.put t.pos pairs')

/-- the `for p.tok != nil` loop of `parseRemove` -/
def removeLoop (efuel : Nat) : Nat → List Expr → Toks → Res (List Expr)
  | 0, _, _ => .outOfFuel
  | fuel + 1, acc, ts =>
    match ts with
    | [] => .ok acc
    | _ :: _ => do
      let (k, ts1) ← parseExpr pf efuel ts
      match ts1 with
      | [] => pure (acc ++ [k])
      | _ :: _ => do
        let ts2 ← expect tkSEP ts1
        removeLoop efuel fuel (acc ++ [k]) ts2

/-- `RemoveStmt.Validate`: the type is asked before `Check` -/
def validateRemove (ctx : CheckCtx) : List Expr → Res (List Expr)
  | [] => pure []
  | k :: rest => do
    let t ← ctx.rt k
    if t != tyTSTR && t != tyTNUMBER then synErr k.pos
    else do
      let k' ← ctx.check k
      let rest' ← validateRemove ctx rest
      pure (k' :: rest')

/-- `p.parseRemove()` -/
def parseRemove (efuel lfuel : Nat) (ts : Toks) : Res Stmt :=
  match ts with
  | [] => .panic "parseRemove: p.tok is nil"
  | t :: _ => do
    let ts ← expect tkREMOVE ts
    let keys ← removeLoop pf efuel lfuel [] ts
    let keys' ← validateRemove { notAllowKey := true, notAllowValue := true } keys
    pure (.remove t.pos keys')

/-- `p.parseDelete()` -/
def parseDelete (efuel lfuel : Nat) (ts : Toks) : Res Stmt :=
  match ts with
  | [] => .panic "parseDelete: p.tok is nil"
  | t :: _ => do
    let ts ← expect tkDELETE ts
    match ts with
    | [] => eofErr                              -- `expect(WHERE)` at the end of input
    | wt :: _ => do
      let ts ← expect tkWHERE ts
      let (wexpr, ts) ← parseExpr pf efuel ts
      let (lim, ts) ← (match ts with
        | [] => pure (none, [])
        | t2 :: _ =>
          if t2.tp == tkLIMIT then do
            let (l, ts') ← parseLimit lfuel ts
            pure (some l, ts')
          else synErr t2.pos : Res (Option LimitS × Toks))
      match ts with
      | t3 :: _ => synErr t3.pos
      | [] => do
        -- `DeleteStmt.Validate` (repair 0007: the filter must be Boolean)
        let ctx : CheckCtx := {}
        let w' ← ctx.check wexpr
        let wtype ← ctx.rt w'
        if wtype != tyTBOOL then synErr w'.pos else pure (.delete t.pos wt.pos w' lim)

/-- the clauses after the WHERE expression -/
structure Clauses where
  order : Option OrderS := none
  group : Option (Nat × List (Bytes × GTarget)) := none
  limit : Option LimitS := none
  tbl : Tbl

/-- the `for p.tok != nil` loop of `Parse` over ORDER BY / GROUP BY / LIMIT -/
def clauseLoop (efuel lfuel : Nat) : Nat → Clauses → Toks → Res Clauses
  | 0, _, _ => .outOfFuel
  | fuel + 1, c, ts =>
    match ts with
    | [] => .ok c
    | t :: _ =>
      if t.tp == tkORDER then
        if c.order.isSome then synErr t.pos
        else do
          let (o, ts') ← parseOrderBy pf efuel lfuel c.tbl ts
          if o.orders.isEmpty then synErr o.pos
          else clauseLoop efuel lfuel fuel { c with order := some o } ts'
      else if t.tp == tkGROUP then
        if c.group.isSome then synErr t.pos
        else do
          let ((gpos, gfields, tbl'), ts') ← parseGroupBy pf efuel lfuel c.tbl ts
          if gfields.isEmpty then synErr gpos
          else clauseLoop efuel lfuel fuel { c with group := some (gpos, gfields), tbl := tbl' } ts'
      else if t.tp == tkLIMIT then
        if c.limit.isSome then synErr t.pos
        else do
          let (l, ts') ← parseLimit lfuel ts
          match ts' with
          | t2 :: _ => synErr t2.pos
          | [] => clauseLoop efuel lfuel fuel { c with limit := some l } []
      else synErr t.pos

/-- `checkAggrFuncArg` -/
def checkAggrFuncArg : Expr → Res Unit
  | .binop _ _ l r => do
    checkAggrFuncArg l
    checkAggrFuncArg r
  | .call p nm _ =>
    match Expr.funcName? nm with
    | some fname => if Expr.isAggrName fname then synErr p else pure ()
    | none => pure ()
  | _ => pure ()

def checkAggrFuncArgs : List Expr → Res Unit
  | [] => pure ()
  | a :: as => do
    checkAggrFuncArg a
    checkAggrFuncArgs as

/-- `SelectStmt.checkAggrFunctionArgs` -/
def checkAggrFunctionArgs : Expr → Res Unit
  | .binop _ _ l r => do
    checkAggrFunctionArgs l
    checkAggrFunctionArgs r
  | .call _ nm args =>
    match Expr.funcName? nm with
    | some fname => if Expr.isAggrName fname then checkAggrFuncArgs args else pure ()
    | none => pure ()
  | _ => pure ()

/-- `SelectStmt.RewriteFieldNames(ctx)` (repair: a select field that is just the name of another select
    field is a reference to that field, and takes its type): field `i`, `i+1`, … in turn (`n` fields
    left).  Runs right after the `CheckCtx` is made, before any other clause resolves field names.
    `GetNamedExpr` returning the field itself (`nexpr == name`) is the table index being `i`. -/
def rewriteFieldNames : Nat → Nat → Tbl → List Nat → Res (Tbl × List Nat)
  | 0, _, tbl, tys => pure (tbl, tys)
  | n + 1, i, tbl, tys =>
    match tbl[i]? with
    | none => pure (tbl, tys)
    | some (_, f) =>
      match f with
      | .name _ d =>
        match tbl.find d with
        | some (j, tgt) =>
          if j == i then rewriteFieldNames n (i + 1) tbl tys
          else do
            let f' ← ({ tbl := tbl, cur := some i } : CheckCtx).rewrite f
            let t ← ({ tbl := tbl } : CheckCtx).rt tgt
            rewriteFieldNames n (i + 1) (tbl.setField i f') (tys.set i t)
        | none => rewriteFieldNames n (i + 1) tbl tys
      | _ => rewriteFieldNames n (i + 1) tbl tys

/-- `for i := range FieldTypes { if i < len(Fields) { FieldTypes[i] = Fields[i].ReturnType() } }`
    (repair 0014, C07): the types recorded by `parseSelect` predate the resolution of field names -/
def refreshTypes (tbl : Tbl) : Nat → List Nat → Res (List Nat)
  | _, [] => pure []
  | i, t :: ts => do
    let t' ← (match tbl[i]? with
      | some (_, e) => ({ tbl := tbl } : CheckCtx).rt e
      | none => pure t : Res Nat)
    let ts' ← refreshTypes tbl (i + 1) ts
    pure (t' :: ts')

/-- `SelectStmt.ValidateFields(ctx)`: field `i`, `i+1`, … in turn (`n` fields left) -/
def validateFields : Nat → Nat → Tbl → Res Tbl
  | 0, _, tbl => pure tbl
  | n + 1, i, tbl =>
    match tbl[i]? with
    | none => pure tbl
    | some (_, f) => do
      let f' ← ({ tbl := tbl, cur := some i } : CheckCtx).check f
      checkAggrFunctionArgs f'
      validateFields n (i + 1) (tbl.setField i f')

/-! ### the final state of the shared nodes -/

mutual
  /-- apply `f` to every reference node (not to the copy it carries) -/
  def mapRefs (f : Nat → Bytes → Expr → Expr) : Expr → Expr
    | .binop p o l r => .binop p o (mapRefs f l) (mapRefs f r)
    | .not p r => .not p (mapRefs f r)
    | .call p n args => .call p (mapRefs f n) (mapRefsList f args)
    | .ref p n t => f p n t
    | .list p items => .list p (mapRefsList f items)
    | .access p l x => .access p (mapRefs f l) (mapRefs f x)
    | e => e
  def mapRefsList (f : Nat → Bytes → Expr → Expr) : List Expr → List Expr
    | [] => []
    | e :: es => mapRefs f e :: mapRefsList f es
end

/-- every reference gets a copy of its target in the target's final state; a reference whose
    target is already being expanded (a cyclic alias) becomes `cycle` — what `wireExpr` does
    with the Go pointers.  `path` lists the fields being expanded; it cannot grow beyond the
    number of fields, which is what `fuel` is. -/
def resolve (tbl : Tbl) : Nat → List Nat → Expr → Expr
  | 0, _, e => e
  | fuel + 1, path, e =>
    mapRefs (fun p nm t =>
      match tbl.find nm with
      | some (i, cur) => if path.contains i then .cycle else .ref p nm (resolve tbl fuel (i :: path) cur)
      | none => .ref p nm t) e

def resolveTop (tbl : Tbl) (e : Expr) : Expr := resolve tbl (tbl.length + 1) [] e

/-- `trimEndSemis`: trailing `;` tokens are dropped, but never the first token -/
def trimEndSemis : Toks → Toks
  | [] => []
  | t :: rest => t :: (rest.reverse.dropWhile (fun x => x.tp == tkSEMI)).reverse

/-- the final `GroupByStmt`: a field that points into the select list shows its final state -/
def finalGroup (tbl : Tbl) (g : Nat × List (Bytes × GTarget)) : GroupS :=
  { pos := g.1, fields := g.2.map (fun (n, tgt) =>
      match tgt with
      | .sel i =>
        match tbl[i]? with
        | some (_, e) => (n, resolveTop tbl e)
        | none => (n, .cycle)                 -- not reached: `i` came from `Tbl.find`
      | .own e => (n, resolveTop tbl e)) }

/-- the part of `Parse` after the WHERE keyword, for a select list `sel` at `spos` -/
def parseWhere (efuel lfuel : Nat) (spos : Nat) (sel : SelAcc) (wherePos : Nat) (ts : Toks) :
    Res Stmt :=
  match ts with
  | [] => eofErr
  | _ :: _ => do
    let (expr, ts) ← parseExpr pf efuel ts
    let tbl0 : Tbl := sel.names.zip sel.fields
    let (tbl, types) ← rewriteFieldNames tbl0.length 0 tbl0 sel.types
    let c ← clauseLoop pf efuel lfuel lfuel { tbl := tbl } ts
    -- Check syntax (repair 0013, C14): the select fields first — twice, a field may use a field
    -- defined after it and the second pass sees every field in its final form — then the filter,
    -- whose alias references are typed through the fields as they now are
    let tbl1 ← validateFields c.tbl.length 0 c.tbl
    let tbl' ← validateFields tbl1.length 0 tbl1
    let types ← refreshTypes tbl' 0 types
    let ctx : CheckCtx := { tbl := tbl' }
    let expr' ← ctx.check expr
    let wt ← ctx.rt expr'
    if wt != tyTBOOL then synErr expr'.pos
    else
      pure (.select {
        pos := spos, allFields := sel.all, fields := tbl'.map (fun p => resolveTop tbl' p.2),
        fieldNames := sel.names, fieldTypes := types,
        wherePos := wherePos, where_ := resolveTop tbl' expr',
        order := c.order, groupBy := c.group.map (finalGroup tbl'), limit := c.limit })

/-- `Parser.Parse()` on the token list of the lexer -/
def Parse (toks : Toks) : Res Stmt :=
  let toks := trimEndSemis toks
  let efuel := exprFuel toks
  let lfuel := loopFuel toks
  match toks with
  | [] => eofErr
  | t :: rest =>
    if t.tp == tkPUT then parsePut pf efuel lfuel toks
    else if t.tp == tkREMOVE then parseRemove pf efuel lfuel toks
    else if t.tp == tkDELETE then parseDelete pf efuel lfuel toks
    else if t.tp == tkSELECT then do
      let ((spos, sel), ts) ← parseSelect pf efuel lfuel toks
      match ts with
      | [] => eofErr                                 -- "Expect where keyword"
      | wt :: ts' => parseWhere pf efuel lfuel spos sel wt.pos ts'
    else if t.tp == tkWHERE then
      -- a bare filter: `&SelectStmt{AllFields: true}` (Pos 0, no field lists)
      parseWhere pf efuel lfuel 0 { all := true } t.pos rest
    else synErr t.pos

end stmt
end Parser
end Kvql
