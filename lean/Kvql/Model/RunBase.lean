/-
  Glue for the end-to-end model `Kvql.Run.runQuery` (Model/Run.lean): the adapters between the
  component models and the two pieces of bookkeeping the composition needs.  No component model is
  changed or re-implemented here.

  1. ADAPTERS.  `Value → Col` (Order), `Value → AVal` / `AVal → Value` (Aggregate), `Scan → ScanNode`
     (the plan node `Optimize()` builds), `Storage.Pair ↔ Kvql.Pair`.

  2. VERDICT TABLES.  The plan layer (`Plans.lean`) is parametric in a filter
     `Pair → Except Err Bool`; the evaluators thread an `ExecuteCtx`.  The composition runs the two
     sides in lock step:
       * evaluation side — `Project.filterRowG` (row mode: `FilterExec.Filter`, i.e. `Clear` then
         `Execute`) on every pair the cursor yields, `Project.filterChunk` (batch mode:
         `FilterExec.FilterBatch`, i.e. `ExecuteBatch`) on every INNER CHUNK the scan forms
         (`innerChunks`: `PlanBatchSize` pairs from the start of the scan; `MultiGetPlan`: the pairs
         that exist among `PlanBatchSize` listed keys), each with a cleared context;
       * storage side — the `Plans` node with the filter that looks the verdict up by key (keys are
         distinct).  A chunk whose evaluation fails marks every pair of the chunk as failing, so the
         plan model stops at exactly that chunk.
     `Storage.Err.eval` carries no class; the class reported is that of the first failing pair /
     chunk in scan order (`firstErr`) — the one the plan stops at, since it stops at the first.
     What the table does NOT reproduce: within one `Batch` call of a scan the context accumulates the
     per-chunk results of earlier inner chunks (keyed by field name and FIRST KEY of the chunk); a
     later chunk starts with another key and cannot hit them (C05 `chunk_key_injective`).  The
     projection, which does read those results, is run through `Project.drainRowFuel` /
     `Project.drainBatchFuel` with the context threaded exactly as the code does.

  3. TRACES.  LIMIT stops polling its child early, so the call log of a statement depends on how
     many polls of the child were made.  A `Trace` is the complete drain of a child plan: every
     successful non-empty poll with the storage world after it, and the terminal poll (end of data
     or an error).  The consumers (`Limit`, `Order`, `Aggregate` models — all over lists of child
     answers) are run on the polls plus a SENTINEL for the terminal poll; how much of the list a
     consumer has used up says which world the statement ends in, and whether the terminal poll
     (and with it a possible error) was reached at all.
-/
import Kvql.Model.Lexer
import Kvql.Model.PlanCheck
import Kvql.Model.Fold
import Kvql.Model.Scan
import Kvql.Model.Plans
import Kvql.Model.Project
import Kvql.Model.Limit
import Kvql.Model.Order
import Kvql.Model.Aggregate

namespace Kvql.Run

open Kvql Generated

abbrev SPair := Storage.Pair
abbrev World := Storage.World

/-- why a statement did not complete -/
inductive Fail
  /-- rejected by `BuildPlan` before the first storage call (`PlanCheck.planStage`) -/
  | plan (e : PErr)
  /-- an evaluation failed while the plan was polled; `cls` is the class of `Err.cls` /
      `Project.PErr.cls` / the aggregate model -/
  | exec (cls : String)
  /-- the storage machine failed while the plan was built (never without fault injection) -/
  | storagePlan (e : Storage.Err)
  /-- the storage machine failed while the plan was polled (`diverge`: `PlanBatchSize = 0`) -/
  | storageExec (e : Storage.Err)
  /-- a Go panic -/
  | panic (site : String)
  | fuel
  /-- the statement leaves what is modelled; never a guess -/
  | unsupported (what : String)
  /-- two component models that must agree did not (a defect of the composition, not of kvql) -/
  | glue (what : String)
deriving Repr, DecidableEq

/-- what a caller observes of a statement -/
structure Outcome where
  fail : Option Fail
  /-- the rows handed out before the end or the failure, batch boundaries forgotten -/
  rows : List (List Value)
  /-- final store and call log -/
  world : World
deriving Inhabited

/-! ### adapters -/

def toKv (p : SPair) : Kvql.Pair := ⟨p.1, p.2⟩
def ofKv (p : Kvql.Pair) : SPair := (p.key, p.value)

/-- the plan node `Optimize()` builds from a scan type (`NewMultiGetPlan` sorts the keys and keeps
    one of each; `Scan.plan` has done that already, `newMultiGetKeys` is idempotent on its result) -/
def nodeOf : Scan.Scan → Plans.ScanNode
  | .empty => .empty
  | .mget ks => .mget (Plans.newMultiGetKeys ks)
  | .pre p => .prefix p
  | .range lo hi => .range lo hi
  | .full => .full

/-- a column as order_plan.go's type switches see it -/
def toCol : Value → Col
  | .bytes b => .bytes b
  | .str b => .str b
  | .int i => .int i
  | .goInt i => .goInt i
  | .float f => .float f
  | .bool b => .bool b
  | .nil => .nil
  | _ => .other

/-- a value as the aggregation machinery distinguishes them -/
def toAVal : Value → Aggr.AVal
  | .bytes b => .bytes b
  | .str b => .str b
  | .int i => .int i
  | .goInt i => .goInt i
  | .float f => .float f
  | .bool b => .bool b
  | .nil => .nil
  | _ => .other

/-- back to a column value; `other` (a list or a JSON object that went through the aggregate model)
    has lost its content -/
def ofAVal : Aggr.AVal → Option Value
  | .bytes b => some (.bytes b)
  | .str b => some (.str b)
  | .int i => some (.int i)
  | .goInt i => some (.goInt i)
  | .float f => some (.float f)
  | .bool b => some (.bool b)
  | .nil => some .nil
  | .other => none

/-- the row `[]Column{key, value}` of `select *` -/
def pairRow (p : SPair) : List Value := [.bytes p.1, .bytes p.2]

/-! ### what a scan reads -/

/-- where a cursor scan stands after `Init` -/
def startRest (node : Plans.ScanNode) (store : Storage.Store) : List SPair :=
  match node with
  | .full => Storage.Store.seek store []
  | .prefix p => Storage.Store.seek store p
  | .range (some s) _ => Storage.Store.seek store s
  | .range none _ => store
  | _ => []

/-- the pairs a scan hands to its filter, in order: a cursor scan stops at the first key outside
    its region, `MultiGetPlan` reads the listed keys that exist -/
def yielded (node : Plans.ScanNode) (store : Storage.Store) : List SPair :=
  match node with
  | .mget ks => ks.filterMap (fun k => (store.lookup k).map (fun v => (k, v)))
  | .empty => []
  | _ => (startRest node store).takeWhile (fun p => !node.stop p.1)

/-- `bs` elements at a time -/
def chunksAux {α : Type} (bs : Nat) : Nat → List α → List (List α)
  | 0, _ => []
  | _ + 1, [] => []
  | n + 1, x :: xs => (x :: xs).take bs :: chunksAux bs n ((x :: xs).drop bs)

def chunksOf {α : Type} (bs : Nat) (l : List α) : List (List α) := chunksAux bs l.length l

/-- the inner chunks (`filterBatch`) a scan forms at `PlanBatchSize = bs ≥ 1`: a cursor scan takes
    `bs` pairs at a time; `MultiGetPlan` takes `bs` KEYS at a time and keeps the pairs that exist
    (a chunk may be short or empty) -/
def innerChunks (node : Plans.ScanNode) (bs : Nat) (store : Storage.Store) : List (List SPair) :=
  match node with
  | .mget ks => (chunksOf bs ks).map (fun c => c.filterMap (fun k => (store.lookup k).map (fun v => (k, v))))
  | _ => chunksOf bs (yielded node store)

/-! ### verdict tables -/

/-- key ↦ what the filter says of the stored pair with that key -/
abbrev Verdicts := List (Bytes × Except Project.PErr Bool)

/-- row mode: `FilterExec.Filter` on each pair (`c0`: the context the plan hands down — the
    statement's context, or nil below `AggregatePlan.prepare`) -/
def rowVerdicts (w : Expr) (c0 : Ctx) (pairs : List SPair) : Verdicts :=
  pairs.map (fun p => (p.1, (Project.filterRowG true w (toKv p) c0).1))

/-- `for i, m := range matchs { if m { … filterBatch[i] … } }`: a missing verdict selects nothing -/
def zipVerdicts : List SPair → List Bool → Verdicts
  | [], _ => []
  | p :: ps, [] => (p.1, .ok false) :: zipVerdicts ps []
  | p :: ps, b :: bs => (p.1, .ok b) :: zipVerdicts ps bs

/-- batch mode: `FilterExec.FilterBatch` on one inner chunk; a failure is the failure of every
    pair of the chunk; a `true` beyond the chunk's length is Go's `filterBatch[i]` out of range -/
def chunkVerdicts (w : Expr) (c0 : Ctx) (chunk : List SPair) : Verdicts :=
  match (Project.filterChunk w (chunk.map toKv) c0).1 with
  | .error e => chunk.map (fun p => (p.1, .error e))
  | .ok ms =>
    if (ms.drop chunk.length).any id then chunk.map (fun p => (p.1, .error .filterIndex))
    else zipVerdicts chunk ms

def batchVerdicts (w : Expr) (c0 : Ctx) (chunks : List (List SPair)) : Verdicts :=
  chunks.flatMap (chunkVerdicts w c0)

/-- the table as the filter of a plan node -/
def filterOfV (v : Verdicts) : Plans.Filter := fun p =>
  match v.lookup p.1 with
  | some (.ok b) => .ok b
  | _ => .error .eval

/-- the failure the plan stops at: the first in scan order -/
def firstErr (v : Verdicts) : Option Project.PErr :=
  v.findSome? (fun e => match e.2 with | .error x => some x | .ok _ => none)

/-- the class of an evaluation failure, in the vocabulary of harness/eval.go `evalErrClass` plus
    `where-not-bool`, `result-type`, `panic`, `fuel` -/
def perrFail (e : Project.PErr) : Fail :=
  match e with
  | .eval (.panic s) => .panic s
  | .eval .outOfFuel => .fuel
  | .colIndex => .panic "processProjectionBatch: cols[j][i]"
  | .filterIndex => .panic "scan Batch: filterBatch[i]"
  | .fuel => .glue "projection drain out of fuel"
  | e => .exec e.cls

def errFail (e : Err) : Fail := perrFail (.eval e)

/-! ### traces -/

/-- the complete drain of a plan: every non-empty poll with the world after it, then the terminal
    poll (`none`: end of data) -/
structure Trace (α : Type) where
  /-- the world after `BuildPlan` (before the first poll) -/
  w0 : World
  polls : List (List α × World)
  fin : Option Fail × World
deriving Inhabited

namespace Trace

def map {α β : Type} (f : α → β) (t : Trace α) : Trace β :=
  { w0 := t.w0, polls := t.polls.map (fun p => (p.1.map f, p.2)), fin := t.fin }

/-- the world after `k` polls of the child were made (`k = polls.length + 1`: the terminal one) -/
def worldAfter {α : Type} (t : Trace α) (k : Nat) : World :=
  match k with
  | 0 => t.w0
  | k + 1 => match t.polls[k]? with
    | some p => p.2
    | none => t.fin.2

/-- drained by the caller itself: all rows, the terminal outcome -/
def outcome (t : Trace (List Value)) : Outcome :=
  { fail := t.fin.1, rows := (t.polls.map (·.1)).flatten, world := t.fin.2 }

/-- a trace that fails before any row -/
def failed {α : Type} (f : Fail) (w : World) : Trace α := { w0 := w, polls := [], fin := (some f, w) }

end Trace

def pairsOfRows (rows : List Plans.Row) : List SPair :=
  rows.filterMap (fun r => match r with | .pair p => some p | .count _ => none)

/-- an error of the plan layer while polling; `eval` takes its class from the verdict table -/
def pollFail (cls : Option Project.PErr) : Storage.Err → Fail
  | .eval => match cls with
    | some e => perrFail e
    | none => .glue "the plan reports an evaluation failure the verdict table does not contain"
  | e => .storageExec e

/-- `Plans.drain` with the world recorded after every poll -/
def scanTraceLoop (cls : Option Project.PErr) (kind : Plans.PollKind) (bs : Nat) (w0 : World) :
    Nat → Plans.Plan → World → List (List SPair × World) → Trace SPair
  | 0, _, w, acc => { w0 := w0, polls := acc, fin := (some (.storageExec .diverge), w) }
  | fuel + 1, plan, w, acc =>
    match plan.poll kind bs none w with
    | (⟨_, some e, _⟩, w') => { w0 := w0, polls := acc, fin := (some (pollFail cls e), w') }
    | (⟨[], none, _⟩, w') => { w0 := w0, polls := acc, fin := (none, w') }
    | (⟨rows, none, plan'⟩, w') => scanTraceLoop cls kind bs w0 fuel plan' w' (acc ++ [(pairsOfRows rows, w')])

/-- `BuildPlan` of `select *` over `node` with the verdict table as filter, then the drain -/
def scanTrace (node : Plans.ScanNode) (v : Verdicts) (kind : Plans.PollKind) (bs : Nat)
    (store : Storage.Store) : Trace SPair :=
  match Plans.buildPlan (.select node (filterOfV v)) none { store := store } with
  | (.error e, w) => Trace.failed (.storagePlan e) w
  | (.ok plan, w) => scanTraceLoop (firstErr v) kind bs w (plan.size + 2) plan w []

/-- the evaluation side of a projection (rows per poll, the failure if any) laid over the storage
    side (pairs per poll, worlds): poll by poll the two must hand out the same number of rows -/
def zipProj : List (List SPair × World) → Option Fail × World → List (List Project.Row) → Option Project.PErr →
    World → List (List (List Value) × World) → Trace (List Value)
  | [], fin, [], err, w0, acc =>
    match err, fin with
    | none, (none, wf) => { w0 := w0, polls := acc, fin := (none, wf) }
    | some pe, (some (.exec _), wf) => { w0 := w0, polls := acc, fin := (some (perrFail pe), wf) }
    | some pe, (some (.panic _), wf) => { w0 := w0, polls := acc, fin := (some (perrFail pe), wf) }
    | some pe, (some .fuel, wf) => { w0 := w0, polls := acc, fin := (some (perrFail pe), wf) }
    | none, (some (.storageExec e), wf) => { w0 := w0, polls := acc, fin := (some (.storageExec e), wf) }
    | _, (_, wf) => { w0 := w0, polls := acc, fin := (some (.glue "scan and projection end differently"), wf) }
  | (_, w) :: _, _, [], err, w0, acc =>
    -- the scan handed out pairs, the projection of them failed
    match err with
    | some pe => { w0 := w0, polls := acc, fin := (some (perrFail pe), w) }
    | none => { w0 := w0, polls := acc, fin := (some (.glue "projection ends before the scan"), w) }
  | [], fin, _ :: _, _, w0, acc =>
    { w0 := w0, polls := acc, fin := (some (.glue "scan ends before the projection"), fin.2) }
  | (pairs, w) :: ps, fin, rows :: rs, err, w0, acc =>
    if rows.length == pairs.length then zipProj ps fin rs err w0 (acc ++ [(rows, w)])
    else { w0 := w0, polls := acc, fin := (some (.glue "scan and projection disagree on a poll"), w) }

end Kvql.Run
