/-
  Model of checker.go and of the statement validators of statement.go, plus the two
  helpers they share with the parser: `ReturnType()` (expression.go) and
  `GetFuncNameFromExpr` (func.go).

  Outcomes.  `Res` is the outcome type of the whole front end:
    ok a | err e | panic site | outOfFuel | unsupported what
  * `err (.syntax pos)`     a `*SyntaxError`; `pos = none` is Go's `-1`
  * `err (.cycle pos)`      the `*SyntaxError` raised when an alias reference would close a
                            cycle (`select upper(u) as u`); a separate class so that the
                            harness can tell this repaired defect from everything else
  * `err .nest`             `errors.New("exceed max nesting depth")` (not positional)
  * `panic site`            a Go run-time panic / fatal error at `site`
  * `unsupported what`      the input leaves the modelled domain (only: a call whose callee is
                            itself a computed expression, see `Expr.calleeAtomic`)

  Sharing.  Go's `Check` rewrites the tree in place (`NameExpr → FieldReferenceExpr`) and a
  `FieldReferenceExpr` points at the *node* stored in `selectStmt.Fields[i]`, which is itself
  rewritten later.  Here `check` returns the rewritten tree, and the current state of the
  select fields is the table `CheckCtx.tbl` (alias name, current tree).  `ReturnType()` of a
  reference is evaluated against the *current* table entry (`rtF`), as in Go; the copy a
  `ref` node carries is only used when its name is not in the table (never the case for
  trees produced by `check`) and is refreshed at the end of `Parse` (`Parser.resolve`).

  Repairs 0009 / 0010 (C14): `=` / `!=` accept texts, numbers and Booleans only (lists and JSON
  values were accepted and failed on the first row); the left operand of `in` must be a text or
  a number (Booleans, bare names, lists and JSON values were accepted and failed on the first row).

  What `Check` visits: since the repairs 0003–0005 `NotExpr.Check`, `ListExpr.Check` and
  `FieldAccessExpr.Check` check their operands (before them they did not); only the operands
  of binary operators and the arguments of calls are *rewritten* when they are alias names;
  `FieldReferenceExpr.Check` does nothing.
-/
import Kvql.Model.Expr

namespace Kvql

open Generated

/-- error values returned by the front end -/
inductive PErr
  | syntax (pos : Option Nat)
  | cycle (pos : Nat)
  | nest
deriving DecidableEq, Repr, Inhabited

inductive Res (α : Type)
  | ok (a : α)
  | err (e : PErr)
  | panic (site : String)
  | outOfFuel
  | unsupported (what : String)
deriving Repr, Inhabited

namespace Res
@[inline] def bind {α β : Type} : Res α → (α → Res β) → Res β
  | ok a, f => f a
  | err e, _ => err e
  | panic s, _ => panic s
  | outOfFuel, _ => outOfFuel
  | unsupported w, _ => unsupported w

instance : Monad Res where
  pure := ok
  bind := bind

@[simp] theorem bind_ok {α β : Type} (a : α) (f : α → Res β) : (ok a >>= f) = f a := rfl
@[simp] theorem bind_err {α β : Type} (e : PErr) (f : α → Res β) : (err e >>= f) = err e := rfl
@[simp] theorem bind_panic {α β : Type} (s : String) (f : α → Res β) : (panic s >>= f) = panic s := rfl
@[simp] theorem bind_fuel {α β : Type} (f : α → Res β) : (outOfFuel >>= f) = outOfFuel := rfl
@[simp] theorem bind_unsup {α β : Type} (s : String) (f : α → Res β) :
    (unsupported s >>= f) = unsupported s := rfl
@[simp] theorem pure_eq {α : Type} (a : α) : (pure a : Res α) = ok a := rfl
end Res

/-- `NewSyntaxError(pos, …)` -/
@[inline] def synErr {α : Type} (pos : Nat) : Res α := .err (.syntax (some pos))
/-- `NewSyntaxError(-1, …)` -/
@[inline] def eofErr {α : Type} : Res α := .err (.syntax none)

namespace Expr

/-! ### `GetFuncNameFromExpr` -/

/-- Go evaluates the callee with `fc.Name.Execute(NewKVP(nil, nil), nil)` and wants a `string`.
    For the six atomic node kinds the result is known statically: a `NameExpr` yields its text
    (a string), the others yield `[]byte`, `int64`, `float64` or `bool` (→ "Invalid function
    name").  A callee that is itself a call, an index, `!` or a binary expression would be
    *executed* at parse time (`('low' + 'er')(key)` calls `lower`): the parser model stops
    with `unsupported` when it meets one, so the functions below never see it. -/
def calleeAtomic : Expr → Bool
  | .name .. | .field .. | .str .. | .num .. | .float .. | .bool .. => true
  | _ => false

/-- `GetFuncNameFromExpr(call)` for a call with callee `callee`: `some (ToLower name)` or
    `none` for the error return (ASCII names; Go lower-cases Unicode as well) -/
def funcName? (callee : Expr) : Option String :=
  match callee with
  | .name _ d => some (Bytes.toAsciiString (toLower d))
  | _ => none

/-- `GetScalarFunctionByName(n)`, then `GetAggrFunctionByName(n)`: the `ReturnType` field -/
def funcRetType (n : String) : Nat :=
  match funcTable.lookup n with
  | some (_, _, ty, _) => ty
  | none =>
    match aggrTable.lookup n with
    | some (_, _, ty, _) => ty
    | none => tyTUNKNOWN

/-- `IsAggrFunc(n)` / `GetAggrFunctionByName(n)` found -/
def isAggrName (n : String) : Bool := (aggrTable.lookup n).isSome

/-- `FunctionCallExpr.ReturnType()` -/
def callRetType (callee : Expr) : Nat :=
  match funcName? callee with
  | some n => funcRetType n
  | none => tyTUNKNOWN

/-- `BinaryOpExpr.ReturnType()` for the operators whose result type does not depend on the
    operands (`none`: `Add`, which asks its left operand).  The Go `switch` lists exactly the
    operators below; `Op` has no other constructor, so its `TUNKNOWN` default is dead. -/
def opRetType : Op → Option Nat
  | .add => none
  | .sub | .mul | .div => some tyTNUMBER
  | _ => some tyTBOOL

/-- `Add`: `if e.Left.ReturnType() == TSTR { TSTR } else { TNUMBER }` -/
def addType (leftType : Nat) : Nat := if leftType == tyTSTR then tyTSTR else tyTNUMBER

/-- `ReturnType()` following the copy stored in a reference (exact for trees without
    references, which is what the parser produces; `cycle` is Go's unbounded recursion and is
    never met there) -/
def retType : Expr → Nat
  | .binop _ op l _ =>
    match opRetType op with
    | some t => t
    | none => addType (retType l)
  | .field .. => tyTSTR
  | .str .. => tyTSTR
  | .not .. => tyTBOOL
  | .call _ nm _ => callRetType nm
  | .name .. => tyTIDENT
  | .ref _ _ t => retType t
  | .cycle => tyTUNKNOWN
  | .num .. => tyTNUMBER
  | .float .. => tyTNUMBER
  | .bool .. => tyTBOOL
  | .list .. => tyTLIST
  | .access .. => tyTSTR

/-- number of nodes (references count their stored copy) -/
def size : Expr → Nat
  | .binop _ _ l r => 1 + size l + size r
  | .not _ r => 1 + size r
  | .call _ n args => 1 + size n + sizeList args
  | .ref _ _ t => 1 + size t
  | .list _ items => 1 + sizeList items
  | .access _ l f => 1 + size l + size f
  | _ => 1
where sizeList : List Expr → Nat
  | [] => 0
  | e :: es => size e + sizeList es

end Expr

/-! ### the select-field table and `CheckCtx` -/

/-- `CheckCtx.FieldNames` zipped with the current state of `CheckCtx.Fields` -/
abbrev Tbl := List (Bytes × Expr)

/-- `CheckCtx.GetNamedExpr(name)`: the first field of that name, with its index -/
def Tbl.find (tbl : Tbl) (nm : Bytes) : Option (Nat × Expr) :=
  go tbl 0
where go : Tbl → Nat → Option (Nat × Expr)
  | [], _ => none
  | (n, e) :: rest, i => if n == nm then some (i, e) else go rest (i + 1)

/-- `Fields[i] = e` -/
def Tbl.setField (tbl : Tbl) (i : Nat) (e : Expr) : Tbl :=
  match tbl, i with
  | [], _ => []
  | (n, _) :: rest, 0 => (n, e) :: rest
  | p :: rest, i + 1 => p :: Tbl.setField rest i e

def Tbl.nodes (tbl : Tbl) : Nat := tbl.foldl (fun acc p => acc + p.2.size + 1) 0

structure CheckCtx where
  tbl : Tbl := []
  notAllowKey : Bool := false
  notAllowValue : Bool := false
  /-- (repair 0001) index of the select field whose tree is being checked: `validateField`
      and `parseGroupBy` set it; `none` while the WHERE expression, PUT/REMOVE/DELETE
      expressions are checked -/
  cur : Option Nat := none
deriving Repr

/-- `ReturnType()` with references resolved through the current table.  Every step costs one
    unit of fuel; `none` = the fuel ran out = Go recurses without bound (a cyclic alias). -/
def rtF (tbl : Tbl) : Nat → Expr → Option Nat
  | 0, _ => none
  | fuel + 1, e =>
    match e with
    | .binop _ op l _ =>
      match Expr.opRetType op with
      | some t => some t
      | none => (rtF tbl fuel l).map Expr.addType
    | .ref _ nm t =>
      match tbl.find nm with
      | some (_, cur) => rtF tbl fuel cur
      | none => rtF tbl fuel t
    | .cycle => none
    | e => some e.retType

/-- enough fuel for every chain that does not run in a circle: it visits each table entry at
    most once, and inside one tree only walks down -/
def rtFuel (tbl : Tbl) (e : Expr) : Nat := tbl.nodes + e.size + 2

/-- the one panic site of the front end that is not a nil token: Go's `ReturnType()` recursing
    without bound through a cyclic alias (a fatal stack overflow).  Since repair 0001 no
    reference that closes a cycle is ever created, so it cannot be reached; that fact is
    property C05's `alias_acyclic` and is not proved here. -/
def cyclicPanic : String := "ReturnType: unbounded recursion through a cyclic alias"

/-- `e.ReturnType()` during checking -/
def CheckCtx.rt (ctx : CheckCtx) (e : Expr) : Res Nat :=
  match rtF ctx.tbl (rtFuel ctx.tbl e) e with
  | some t => .ok t
  | none => .panic cyclicPanic

/-! ### repair 0001: an alias reference must not close a cycle -/

/-- indices of the table entries a tree refers to (every `ref` node, wherever it sits — Go's
    `Walk` visits all children) -/
def Expr.refIdx (tbl : Tbl) : Expr → List Nat
  | .binop _ _ l r => refIdx tbl l ++ refIdx tbl r
  | .not _ r => refIdx tbl r
  | .call _ n args => refIdx tbl n ++ refIdxList tbl args
  | .ref _ nm _ => match tbl.find nm with
    | some (i, _) => [i]
    | none => []
  | .list _ items => refIdxList tbl items
  | .access _ l f => refIdx tbl l ++ refIdx tbl f
  | _ => []
where refIdxList (tbl : Tbl) : List Expr → List Nat
  | [] => []
  | e :: es => refIdx tbl e ++ refIdxList tbl es

/-- `CheckCtx.reaches`: does field `j` reach field `target` through alias references?
    Recursive depth-first walk with a visited set, as in the Go code (`Walk` follows a
    reference into its target unless the target was seen before).  `fuel` bounds the nesting
    depth, which cannot exceed the number of fields because every level adds a new field to
    `seen`; the result is (found, seen). -/
def Tbl.reaches (tbl : Tbl) (target : Nat) : Nat → Nat → List Nat → Bool × List Nat
  | 0, _, seen => (false, seen)
  | fuel + 1, j, seen =>
    if j == target then (true, seen)
    else if seen.contains j then (false, seen)
    else
      let next := match tbl[j]? with
        | some (_, e) => e.refIdx tbl
        | none => []
      next.foldl (fun acc k => if acc.1 then acc else Tbl.reaches tbl target fuel k acc.2)
        (false, j :: seen)

/-- would a reference from the field being checked to field `j` close a cycle? -/
def CheckCtx.closesCycle (ctx : CheckCtx) (j : Nat) : Bool :=
  match ctx.cur with
  | none => false
  | some i => (ctx.tbl.reaches i (ctx.tbl.length + 1) j []).1

/-! ### `tryRewriteExpr` -/

/-- one operand of `BinaryOpExpr.tryRewriteExpr` / one argument of
    `FunctionCallExpr.tryRewriteExpr`: a `NameExpr` that names a select field becomes a
    `FieldReferenceExpr` to it -/
def CheckCtx.rewrite (ctx : CheckCtx) (e : Expr) : Res Expr :=
  match e with
  | .name pos d =>
    match ctx.tbl.find d with
    | some (j, tgt) =>
      if ctx.closesCycle j then .err (.cycle pos) else .ok (.ref pos d tgt)
    | none => .ok e
  | e => .ok e

/-! ### the per-operator checks of `BinaryOpExpr` -/

def isBoolish : Expr → Bool      -- *BinaryOpExpr, *FunctionCallExpr, *NotExpr, *FieldReferenceExpr
  | .binop .. | .call .. | .not .. | .ref .. => true
  | _ => false

/-- the operand kinds `checkWithAndOr` accepts (repair 0002: Boolean literals as well) -/
def isBoolOperand : Expr → Bool
  | .bool .. => true
  | e => isBoolish e

def CheckCtx.checkAndOrSide (ctx : CheckCtx) (e : Expr) : Res Unit :=
  if isBoolOperand e then do
    let t ← ctx.rt e
    if t != tyTBOOL then synErr e.pos else pure ()
  else synErr e.pos

/-- `checkWithAndOr` -/
def CheckCtx.checkWithAndOr (ctx : CheckCtx) (l r : Expr) : Res Unit := do
  ctx.checkAndOrSide l
  ctx.checkAndOrSide r

/-- one `switch exp := e.X.(type)` of `checkWithMath`: `ok true` = the operand is text -/
def CheckCtx.mathSide (ctx : CheckCtx) (e : Expr) : Res Bool :=
  match e with
  | .binop .. | .call .. | .num .. | .float .. | .ref .. => do
    let t ← ctx.rt e
    if t != tyTNUMBER then
      if t == tyTSTR then pure true else synErr e.pos
    else pure false
  | .str .. | .field .. | .access .. => pure true
  | _ => synErr e.pos

/-- `checkWithMath` -/
def CheckCtx.checkWithMath (ctx : CheckCtx) (op : Op) (l r : Expr) : Res Unit := do
  let lstring ← ctx.mathSide l
  let rstring ← ctx.mathSide r
  (if op == .add && lstring && rstring then pure ()
   else if lstring then synErr l.pos
   else if rstring then synErr r.pos
   else pure () : Res Unit)
  if op == .div then
    match r with
    | .num p _ v => if v == 0 then synErr p else pure ()
    | .float p _ v => if v.isZero then synErr p else pure ()
    | _ => pure ()
  else pure ()

/-- one `switch exp := e.X.(type)` of `checkWithCompares`: (key fields, value fields) seen -/
def compareSide (e : Expr) : Res (Nat × Nat) :=
  match e with
  | .field _ .key => pure (1, 0)
  | .field _ .value => pure (0, 1)
  | .call .. | .ref .. => pure (0, 0)
  | .str .. | .bool .. | .num .. | .float .. | .binop .. | .access .. => pure (0, 0)
  | _ => synErr e.pos

/-- `checkWithCompares` -/
def CheckCtx.checkWithCompares (ctx : CheckCtx) (pos : Nat) (op : Op) (l r : Expr) : Res Unit := do
  let (lk, lv) ← compareSide l
  let (rk, rv) ← compareSide r
  if lk + rk == 2 || lv + rv == 2 then synErr pos
  else do
    let ltype ← ctx.rt l
    let rtype ← ctx.rt r
    if ltype != rtype then synErr pos
    else
      match op with
      | .eq | .neq =>                            -- repair 0009: texts, numbers and Booleans only
        if ltype != tyTNUMBER && ltype != tyTSTR && ltype != tyTBOOL then synErr l.pos else pure ()
      | .gt | .gte | .lt | .lte =>
        if ltype != tyTNUMBER && ltype != tyTSTR then synErr l.pos else pure ()
      | .prefixMatch | .regexMatch =>
        if ltype != tyTSTR then synErr l.pos else pure ()
      | _ => pure ()

/-- the loop of `checkWithIn` over a list's items -/
def CheckCtx.inItems (ctx : CheckCtx) (ltype : Nat) : List Expr → Res Unit
  | [] => pure ()
  | x :: xs => do
    let t ← ctx.rt x
    if t != ltype then synErr x.pos else ctx.inItems ltype xs

/-- `checkWithIn` -/
def CheckCtx.checkWithIn (ctx : CheckCtx) (l r : Expr) : Res Unit := do
  let ltype ← ctx.rt l
  if ltype != tyTSTR && ltype != tyTNUMBER then synErr l.pos   -- repair 0010: texts and numbers only
  else
    match r with
    | .list _ items => ctx.inItems ltype items
    | .call .. | .ref .. => do
      let t ← ctx.rt r
      if t != tyTLIST then synErr r.pos else pure ()
    | _ => synErr r.pos

/-- `checkWithBetween` -/
def CheckCtx.checkWithBetween (ctx : CheckCtx) (l r : Expr) : Res Unit := do
  let ltype ← ctx.rt l
  match r with
  | .list _ [lo, hi] =>
    if ltype != tyTSTR && ltype != tyTNUMBER then synErr l.pos
    else do
      let t1 ← ctx.rt lo
      if t1 != ltype then synErr r.pos
      else do
        let t2 ← ctx.rt hi
        if t2 != ltype then synErr r.pos else pure ()
  | _ => synErr r.pos

/-- the `switch e.Op` of `BinaryOpExpr.Check` -/
def CheckCtx.checkOp (ctx : CheckCtx) (pos : Nat) (op : Op) (l r : Expr) : Res Unit :=
  match op with
  | .and | .or | .kwAnd | .kwOr => ctx.checkWithAndOr l r      -- repair 0006: `and` / `or` too
  | .not => synErr pos
  | .add | .sub | .mul | .div => ctx.checkWithMath op l r
  | .in_ => ctx.checkWithIn l r
  | .between => ctx.checkWithBetween l r
  | _ => ctx.checkWithCompares pos op l r

/-- `ListExpr.Check` after its items were visited: non-empty, all items of the first's type -/
def CheckCtx.listTypes (ctx : CheckCtx) (pos : Nat) (items : List Expr) : Res Unit :=
  match items with
  | [] => synErr pos
  | first :: rest =>
    if rest.isEmpty then pure ()
    else do
      let ftype ← ctx.rt first
      let rec go : List Expr → Res Unit
        | [] => pure ()
        | x :: xs => do
          let t ← ctx.rt x
          if t != ftype then synErr x.pos else go xs
      go rest

/-- `FieldAccessExpr.Check` after its operands were visited -/
def CheckCtx.accessTypes (ctx : CheckCtx) (l f : Expr) : Res Unit := do
  let leftIsFAE := match l with
    | .access .. => true
    | _ => false
  let lrType ← ctx.rt l
  if lrType != tyTJSON && lrType != tyTLIST then
    if leftIsFAE then pure () else synErr l.pos
  else
    match f with
    | .str .. => if lrType == tyTJSON || leftIsFAE then pure () else synErr f.pos
    | .num .. => if lrType == tyTLIST || leftIsFAE then pure () else synErr f.pos
    | _ => synErr f.pos

/-! ### `Check` -/

mutual
  /-- `e.Check(ctx)`, returning the tree as `Check` leaves it -/
  def CheckCtx.check (ctx : CheckCtx) : Expr → Res Expr
    | .binop pos op l r => do
      let l1 ← ctx.check l
      let r1 ← ctx.check r
      let l2 ← ctx.rewrite l1
      let r2 ← ctx.rewrite r1
      ctx.checkOp pos op l2 r2
      pure (.binop pos op l2 r2)
    | .field pos kw =>
      if kw == .key && ctx.notAllowKey then synErr pos
      else if kw == .value && ctx.notAllowValue then synErr pos
      else pure (.field pos kw)
    | .not pos r => do
      let r' ← ctx.check r                  -- repair 0003 (an operand that is a name is not rewritten)
      let t ← ctx.rt r'
      if t != tyTBOOL then synErr r'.pos else pure (.not pos r')
    | .call pos nm args =>
      match nm with
      | .name .. => do
        let args' ← ctx.checkArgs args
        pure (.call pos nm args')
      | _ => synErr nm.pos
    | .list pos items =>
      match items with
      | [] => synErr pos
      | _ :: _ => do
        let items' ← ctx.checkItems items   -- repair 0004 (names among the items are not rewritten)
        ctx.listTypes pos items'
        pure (.list pos items')
    | .access pos l f => do
      let l' ← ctx.check l                  -- repair 0005 (no rewriting here either)
      let f' ← ctx.check f
      ctx.accessTypes l' f'
      pure (.access pos l' f')
    | e => pure e
  /-- the argument loop of `FunctionCallExpr.Check`: `a = e.tryRewriteExpr(i, ctx); a.Check(ctx)` -/
  def CheckCtx.checkArgs (ctx : CheckCtx) : List Expr → Res (List Expr)
    | [] => pure []
    | a :: as => do
      let a' ← (match a with
        | .name .. => ctx.rewrite a        -- then `Check` of a name or of a reference: nothing
        | a => ctx.check a : Res Expr)
      let as' ← ctx.checkArgs as
      pure (a' :: as')
  /-- the item loop of `ListExpr.Check`: `item.Check(ctx)` -/
  def CheckCtx.checkItems (ctx : CheckCtx) : List Expr → Res (List Expr)
    | [] => pure []
    | a :: as => do
      let a' ← ctx.check a
      let as' ← ctx.checkItems as
      pure (a' :: as')
end

end Kvql
