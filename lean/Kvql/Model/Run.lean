/-
  The end-to-end model: one statement, given as TEXT, from `Lexer.split` to the rows, the outcome,
  the final store and the storage-call log — obtained by COMPOSING the component models the way
  optimizer.go composes the Go plans:

      text ──Lexer.split──▶ tokens ──PlanCheck.planStage──▶ Stmt          (Parse, checker, plan-time validation,
                                                                           buildFinalPlan shape errors, aggregate
                                                                           constructors: everything decided before
                                                                           the first storage call)
      SELECT / DELETE: Fold.optimizeBoth on WHERE and on every select field  (optimizeSelectExpressions);
                       alias references re-pointed at the folded field nodes (`Parser.resolveTop`)
      Scan.optimize (folded WHERE) ──nodeOf──▶ Plans.ScanNode                (buildScanPlan)
      scan + filter      Plans (storage, call log) in lock step with Project.filterRowG / filterChunk
                         (`exec` / `execBatch`)                              (RunBase.lean: verdict tables)
      ProjectionPlan     `select *`: the pairs; fields: Project.drainRowFuel / drainBatchFuel (field cache)
      FinalOrderPlan     Order.next / Order.batch over the projected rows    (elided for `order by key asc`)
      FinalLimitPlan     Limit.next / Limit.batch                            (or pushed into AggregatePlan)
      AggregatePlan      Aggr.prepare / prepareBatch with `Eval` := exec of the group expressions and
                         aggregate arguments, `AggExpr` built from the field (RunAggr.lean)
      PUT / REMOVE / DELETE   Plans.run with the tables := exec / the verdict table

  `runQuery` never guesses: what is not covered ends in `Fail.unsupported`, a disagreement between
  two component models that should agree in `Fail.glue`.
-/
import Kvql.Model.RunBase

namespace Kvql.Run

open Kvql Generated

/-- a statement that `BuildPlan` does not accept: no row, nothing touched -/
def rejected (f : Fail) (store : Storage.Store) : Outcome :=
  { fail := some f, rows := [], world := { store := store } }

/-! ### constant folding of a statement (optimizer.go `init`) -/

/-- a SELECT after `optimizeSelectExpressions`: the WHERE and the fields `Optimize()` returned,
    alias references carrying the state in which folding left the field NODES they point at -/
structure FoldedSelect where
  where_ : Expr
  fields : List Expr
  /-- the nodes that were the roots of the select fields (targets of alias references and of
      `GroupByField.Expr`) -/
  nodes : List Expr

def foldSelect (s : SelectS) : Fold.R FoldedSelect := do
  let w ← Fold.optimizeBoth s.where_
  let fs ← s.fields.mapM Fold.optimizeBoth
  let tbl : Tbl := s.fieldNames.zip (fs.map (·.2))
  pure { where_ := Parser.resolveTop tbl w.1,
         fields := fs.map (fun p => Parser.resolveTop tbl p.1),
         nodes := fs.map (fun p => Parser.resolveTop tbl p.2) }

/-! ### consumers over traces -/

section consumers
variable {α : Type}

/-- `FinalLimitPlan.Next` until it returns nil: the child's rows one by one, `none` the sentinel
    for the child's terminal poll.  Returns (rows handed out, what is left of the child list). -/
def limitNextLoop (start count : Nat) : Nat → Limit.St → List (Option α) → List α → List α × List (Option α)
  | 0, _, child, acc => (acc, child)
  | fuel + 1, st, child, acc =>
    match Limit.next start count st child with
    | (some (some r), st', child') => limitNextLoop start count fuel st' child' (acc ++ [r])
    | (_, _, child') => (acc, child')

/-- `FinalLimitPlan.Batch` until it returns no rows; the child's chunks, `[]` the sentinel for its
    terminal poll.  Returns (batches, the batch of the call in which the sentinel was used up, what
    is left). -/
def limitBatchLoop (start count bs : Nat) : Nat → Limit.St → List (List α) → List (List α) →
    List (List α) × List α × List (List α)
  | 0, _, child, acc => (acc, [], child)
  | fuel + 1, st, child, acc =>
    match Limit.batch start count bs st child with
    | (out, st', child') =>
      if child'.isEmpty then (acc, out, [])
      else if out.isEmpty then (acc, [], child')
      else limitBatchLoop start count bs fuel st' child' (acc ++ [out])

end consumers

/-- LIMIT over a drained child.  The child's terminal poll (and its failure, if it is one) counts
    only when the limit plan asked for it; the world is the one after the polls actually made. -/
def limitTrace {α : Type} (start count : Nat) (kind : Plans.PollKind) (bs : Nat) (t : Trace α) : Trace α :=
  let n := t.polls.length
  match kind with
  | .next =>
    let child : List (Option α) := (t.polls.flatMap (·.1)).map some ++ [none]
    let (rows, rest) := limitNextLoop start count (child.length + 2) {} child []
    let w := t.worldAfter (child.length - rest.length)
    let polls := rows.map (fun r => ([r], w))
    if rest.isEmpty then { w0 := t.w0, polls := polls, fin := (t.fin.1, w) }
    else { w0 := t.w0, polls := polls, fin := (none, w) }
  | .batch =>
    let child : List (List α) := t.polls.map (·.1) ++ [[]]
    let (batches, last, rest) := limitBatchLoop start count bs (child.length + 2) {} child []
    let w := t.worldAfter (n + 1 - rest.length)
    if rest.isEmpty then
      match t.fin.1 with
      | some f => { w0 := t.w0, polls := batches.map (fun b => (b, w)), fin := (some f, w) }
      | none => { w0 := t.w0, polls := (batches ++ (if last.isEmpty then [] else [last])).map (fun b => (b, w)), fin := (none, w) }
    else { w0 := t.w0, polls := batches.map (fun b => (b, w)), fin := (none, w) }

/-- the order keys `FinalOrderPlan.Init` computes: position of the field of that name, its type -/
def orderKeys (names : List Bytes) (types : List Nat) (o : OrderS) : Option (List Order.Key) :=
  o.orders.mapM (fun (nm, ord) => do
    let idx ← names.findIdx? (· == nm)
    let tp ← types[idx]?
    pure { pos := idx, tp := tp, desc := ord == tkDESC })

def lessRows (keys : List Order.Key) (a b : List Value) : Order.Res Bool :=
  Order.less keys (a.map toCol) (b.map toCol)

/-- ORDER BY over a drained child: the first poll drains the child (`prepare` / `prepareBatch`),
    every poll pops from the heap -/
def orderTrace (keys : List Order.Key) (kind : Plans.PollKind) (bs : Nat) (t : Trace (List Value)) :
    Trace (List Value) :=
  let wf := t.fin.2
  match t.fin.1 with
  | some f => { w0 := t.w0, polls := [], fin := (some f, wf) }
  | none =>
    let n := (t.polls.map (·.1.length)).sum
    match kind with
    | .next =>
      match Order.drainNext (lessRows keys) (n + 2) {} (t.polls.flatMap (·.1)) with
      | .panic => { w0 := t.w0, polls := [], fin := (some (.panic "orderColumnsRow.Less"), wf) }
      | .ok rows => { w0 := t.w0, polls := rows.map (fun r => ([r], wf)), fin := (none, wf) }
    | .batch =>
      match Order.drainBatch (lessRows keys) bs (n + 2) {} (t.polls.map (·.1)) with
      | .panic => { w0 := t.w0, polls := [], fin := (some (.panic "orderColumnsRow.Less"), wf) }
      | .ok bss => { w0 := t.w0, polls := bss.map (fun b => (b, wf)), fin := (none, wf) }

/-! ### SELECT without aggregates -/

/-- is the single order field the select field `key`, ascending?  (`buildFinalOrderPlan`) -/
def elideOrder (s : SelectS) (o : OrderS) : Bool :=
  match o.orders with
  | [(nm, ord)] =>
    ord == tkASC &&
    (match s.fieldNames.findIdx? (· == nm) with
     | some i => match s.fields[i]? with
       | some (.field _ .key) => true
       | _ => false
     | none => false)
  | _ => false

/-- `FieldNameList()` / `FieldTypeList()` of the ProjectionPlan -/
def projNames (s : SelectS) : List Bytes := s.fieldNames
def projTypes (s : SelectS) : List Nat := if s.allFields then [tyTSTR, tyTSTR] else s.fieldTypes

/-- ProjectionPlan over the scan plan of the folded WHERE -/
def projTrace (s : SelectS) (f : FoldedSelect) (store : Storage.Store) (kind : Plans.PollKind) (bs : Nat)
    (cache : Bool) : Trace (List Value) :=
  let c0 := Ctx.new cache
  let node := nodeOf (Scan.optimize f.where_)
  match kind with
  | .next =>
    let ys := yielded node store
    let st := scanTrace node (rowVerdicts f.where_ c0 ys) kind bs store
    if s.allFields then st.map pairRow
    else
      let fields : List Project.Field := (s.fieldNames.zip f.fields).map (fun p => ⟨p.1, p.2⟩)
      let (o, _) := Project.drainRowFuel true f.where_ fields (ys.length + 1) (ys.map toKv) c0
      zipProj st.polls st.fin (o.rows.map (fun r => [r])) o.err st.w0 []
  | .batch =>
    let chunks := innerChunks node bs store
    let st := scanTrace node (batchVerdicts f.where_ c0 chunks) kind bs store
    if s.allFields then st.map pairRow
    else
      let fields : List Project.Field := (s.fieldNames.zip f.fields).map (fun p => ⟨p.1, p.2⟩)
      let (bsz, e, _) := Project.drainBatchFuel f.where_ fields bs (chunks.length + 1) (chunks.map (·.map toKv)) c0
      zipProj st.polls st.fin bsz e st.w0 []

def limitNat (l : LimitS) : Nat × Nat := (l.start.toInt.toNat, l.count.toInt.toNat)

/-- `buildFinalPlan` without aggregates: Projection, then ORDER BY, then LIMIT -/
def runPlainSelect (s : SelectS) (f : FoldedSelect) (store : Storage.Store) (kind : Plans.PollKind) (bs : Nat)
    (cache : Bool) : Outcome :=
  let t0 := projTrace s f store kind bs cache
  let t1? : Except Fail (Trace (List Value)) :=
    match s.order with
    | none => .ok t0
    | some o =>
      if elideOrder s o then .ok t0
      else match orderKeys (projNames s) (projTypes s) o with
        | some keys => .ok (orderTrace keys kind bs t0)
        | none => .error (.glue "order field not in the select list")
  match t1? with
  | .error e => { fail := some e, rows := [], world := t0.w0 }
  | .ok t1 =>
    match s.limit with
    | none => t1.outcome
    | some l => (limitTrace (limitNat l).1 (limitNat l).2 kind bs t1).outcome

/-! ### PUT / REMOVE / DELETE: `Plans.run` with its tables instantiated by the evaluators -/

/-- `[]byte(toString(expr.Execute(pair, ctx)))` -/
def evalBytes (e : Expr) (p : Kvql.Pair) (c0 : Ctx) : Except Err Bytes :=
  match (exec e p c0).1 with
  | .ok v => .ok (toStringV v)
  | .error x => .error x

def toPlanErr {β : Type} : Except Err β → Except Storage.Err β
  | .ok b => .ok b
  | .error _ => .error .eval

/-- `NewKVPStr("", "")` -/
def emptyKv : Kvql.Pair := ⟨[], []⟩

/-- `processKVPair`: the key on the empty pair, the value on the pair (key, "") -/
def putPairs (c0 : Ctx) (pairs : List (Expr × Expr)) : List Plans.PutPair :=
  pairs.map (fun kv => { key := toPlanErr (evalBytes kv.1 emptyKv c0),
                         value := fun key => toPlanErr (evalBytes kv.2 ⟨key, []⟩ c0) })

/-- the evaluation `PutPlan.execute` stops at -/
def putFirstErr (c0 : Ctx) : List (Expr × Expr) → Option Err
  | [] => none
  | (k, v) :: rest =>
    match evalBytes k emptyKv c0 with
    | .error e => some e
    | .ok key =>
      match evalBytes v ⟨key, []⟩ c0 with
      | .error e => some e
      | .ok _ => putFirstErr c0 rest

def removeKeys (c0 : Ctx) (keys : List Expr) : List (Except Storage.Err Bytes) :=
  keys.map (fun k => toPlanErr (evalBytes k emptyKv c0))

def removeFirstErr (c0 : Ctx) (keys : List Expr) : Option Err :=
  keys.findSome? (fun k => match evalBytes k emptyKv c0 with | .error e => some e | .ok _ => none)

/-- the row `[]Column{n}` (`n` is a Go `int`) -/
def writeRows (polls : List (List Plans.Row)) : List (List Value) :=
  polls.flatten.map (fun r => match r with
    | .count n => [Value.goInt (Int64.ofNat n)]
    | .pair p => pairRow p)

/-- the outcome of `Plans.run` on a write statement; an evaluation failure takes its class from `cls`.
    The row `[n]` that accompanies an error is not handed to the caller's result. -/
def writeOutcome (cls : Option Fail) (r : Plans.RunOut × World) : Outcome :=
  match r.1.outcome with
  | .ok => { fail := none, rows := writeRows r.1.polls, world := r.2 }
  | .planErr e => { fail := some (.storagePlan e), rows := [], world := r.2 }
  | .execErr .eval =>
    { fail := some (cls.getD (.glue "the plan reports an evaluation failure the tables do not contain")),
      rows := [], world := r.2 }
  | .execErr e => { fail := some (.storageExec e), rows := [], world := r.2 }

/-- `buildDeletePlan` on the folded WHERE: the scan node, the remove shortcut (`hasAndOp`), LIMIT as
    a `LimitPlan` under the `DeletePlan`; the filter is always evaluated chunk-wise
    (`DeletePlan.execute` polls `ChildPlan.Batch` in either mode) -/
def runDelete (where_ : Expr) (limit : Option LimitS) (store : Storage.Store) (kind : Plans.PollKind) (bs : Nat)
    (cache : Bool) : Outcome :=
  match Fold.optimize where_ with
  | .error site => { fail := some (.panic site), rows := [], world := { store := store } }
  | .ok fw =>
    let node := nodeOf (Scan.optimize fw)
    let v := batchVerdicts fw (Ctx.new cache) (innerChunks node bs store)
    writeOutcome ((firstErr v).map perrFail)
      (Plans.run (.delete node (filterOfV v) (Scan.hasAndOp fw) (limit.map limitNat)) kind bs none store)

/-! ### SELECT with aggregates: `Aggregate.lean` with its evaluation tables instantiated by the evaluators -/

/-- the class carried by `Aggr.Err.eval` -/
def aggrFail : Aggr.Err → Fail
  | .eval code => if code == "panic" then .panic "aggregate: evaluation" else if code == "fuel" then .fuel else .exec code
  | .conv => .exec "result-type"            -- "Expression result type not support"
  | .divZero _ => .exec "data"              -- "Divide by zero"
  | .badOperand => .exec "operand-type"     -- "Invalid operator … parameter type"
  | .marshal => .exec "other-error"         -- json.Marshal: unsupported value
  | .malformed => .glue "aggregate plan description"

def valA : Except Err Value → Except Aggr.Err Aggr.AVal
  | .ok v => .ok (toAVal v)
  | .error x => .error (.eval x.cls)

/-- `e.Execute(pair, ctx)` right after `ctx.Clear()` -/
def evalRowA (c0 : Ctx) (e : Expr) (p : SPair) : Except Aggr.Err Aggr.AVal := valA (exec e (toKv p) c0).1

/-- the value `e.ExecuteBatch(chunk, ctx)` has for the pair (assumption E2 of Aggregate.lean: the
    chunk's result is the pair-by-pair result — C03 `batch_pairwise`) -/
def evalBatchA (c0 : Ctx) (e : Expr) (p : SPair) : Except Aggr.Err Aggr.AVal :=
  match (execBatch e [toKv p] c0).1 with
  | .ok [v] => .ok (toAVal v)
  | .ok _ => .error (.eval "panic")
  | .error x => .error (.eval x.cls)

def mathOpA : Op → Option Aggr.MathOp
  | .add => some .add | .sub => some .sub | .mul => some .mul | .div => some .div | _ => none

mutual
  /-- an aggregate call where `listAggrFuncs` does not look (a call argument, `!`, an alias target) -/
  def deepAggr : Expr → Bool
    | .binop _ _ l r => deepAggr l || deepAggr r
    | .call _ nm args => PlanCheck.isAggrCallee nm || deepAggrList args
    | .not _ r => deepAggr r
    | .ref _ _ t => deepAggr t
    | _ => false
  def deepAggrList : List Expr → Bool
    | [] => false
    | e :: es => deepAggr e || deepAggrList es
end

/-- the expression around the aggregate calls of a field (`FunctionCallExpr.Result` substituted by
    `AggExpr.call`); the counter numbers the calls in `listAggrFuncs` order.  `none`: an aggregate
    call under an operator `AggExpr` has no constructor for. -/
def aggExprOf (c0 : Ctx) : Expr → Nat → Option (Aggr.AggExpr × Nat)
  | .binop p op l r, n =>
    if (PlanCheck.listAggrCalls (.binop p op l r)).isEmpty then
      if deepAggr (.binop p op l r) then none
      else some (.leaf (valA (exec (.binop p op l r) emptyKv c0).1), n)
    else
      match mathOpA op with
      | none => none
      | some mop =>
        match aggExprOf c0 l n with
        | none => none
        | some (le, n1) =>
          match aggExprOf c0 r n1 with
          | none => none
          | some (re, n2) =>
            if op == .add && retType l == tyTSTR then some (.strcat le re, n2)
            else some (.arith mop r.pos le re, n2)
  | .call p nm args, n =>
    if PlanCheck.isAggrCallee nm then some (.call n, n + 1)
    else if deepAggr (.call p nm args) then none
    else some (.leaf (valA (exec (.call p nm args) emptyKv c0).1), n)
  | e, n => if deepAggr e then none else some (.leaf (valA (exec e emptyKv c0).1), n)

/-- the accumulator of an aggregate call (the separator of `group_concat` is evaluated when the
    plan is built: `planStage` has let through a literal or `key` / `value` on the empty pair) -/
def kindOf (name : Bytes) (args : List Expr) : Option Aggr.Kind :=
  if name == asciiBytes "count" then some .count
  else if name == asciiBytes "sum" then some .sum
  else if name == asciiBytes "avg" then some .avg
  else if name == asciiBytes "min" then some .min
  else if name == asciiBytes "max" then some .max
  else if name == asciiBytes "json_arrayagg" then some .arrayagg
  else if name == asciiBytes "group_concat" then
    match args with
    | [_, sep] => match (exec sep emptyKv Ctx.none).1 with
      | .ok v => some (.concat (toStringV v))
      | .error _ => none
    | _ => none
  else none

/-- `AggregatePlan.Init`: a field is a key field unless it is a call or a binary expression in
    which `listAggrFuncs` finds an aggregate call -/
def aggrField (c0 : Ctx) (f : Expr) : Option Aggr.Field :=
  let calls := match f with
    | .call .. | .binop .. => PlanCheck.listAggrCalls f
    | _ => []
  if calls.isEmpty then some .key
  else do
    let kinds ← calls.mapM (fun c => kindOf c.1 c.2)
    let (e, _) ← aggExprOf c0 f 0
    pure (.agg kinds e)

/-- the expressions `GroupByField.Expr` point at, after folding: `key` / `value` written in the
    GROUP BY clause itself, or the node of the select field of that name -/
def groupExprs (s : SelectS) (f : FoldedSelect) : Option (List Expr) :=
  match s.groupBy with
  | none => some []
  | some g => g.fields.mapM (fun (nm, e) =>
      match e with
      | .field .. => some e
      | _ => do
        let i ← s.fieldNames.findIdx? (· == nm)
        f.nodes[i]?)

/-- the evaluation tables of Aggregate.lean: GROUP BY expressions through `Execute` (row mode) or
    `ExecuteBatch` (batch mode: `batchGetAggrKeys`), key fields and aggregate arguments through
    `Execute` in either mode (`createAggrRow`, `Update`) -/
def aggrEval (kind : Plans.PollKind) (c0 : Ctx) (groups fields : List Expr) : Aggr.Eval SPair where
  group j p := match groups[j]? with
    | none => .error .malformed
    | some e => match kind with
      | .next => evalRowA c0 e p
      | .batch => evalBatchA c0 e p
  keyField i p := match fields[i]? with
    | none => .error .malformed
    | some e => evalRowA c0 e p
  arg i c p := match fields[i]? with
    | none => .error .malformed
    | some f => match (PlanCheck.listAggrCalls f)[c]? with
      | some (_, a0 :: _) => evalRowA c0 a0 p
      | _ => .error .malformed

/-- `AggregatePlan.next` / `batch` (no limit) until dry, over the rows `prepare` built; every poll in
    the world `w` (no storage call after `prepare`) -/
def aggrInner (rows : List Aggr.Row) (kind : Plans.PollKind) (bs : Nat) (w : World) : Trace (List Aggr.AVal) :=
  match kind with
  | .next =>
    let (outs, err) := Aggr.drainNext rows
    { w0 := w, polls := outs.map (fun r => ([r], w)), fin := (err.map aggrFail, w) }
  | .batch =>
    let (bss, err) := Aggr.drainBatch bs (rows.length + 1) rows
    { w0 := w, polls := bss.map (fun b => (b, w)), fin := (err.map aggrFail, w) }

def traceValues (t : Trace (List Aggr.AVal)) : Option (Trace (List Value)) := do
  let polls ← t.polls.mapM (fun p => do
    let rows ← p.1.mapM (fun r => r.mapM ofAVal)
    pure (rows, p.2))
  pure { w0 := t.w0, polls := polls, fin := t.fin }

/-- `buildFinalPlan` with aggregates: AggregatePlan over the scan (the LIMIT pushed into it when
    there is no ORDER BY), then ORDER BY, then LIMIT -/
def runAggrSelect (s : SelectS) (f : FoldedSelect) (store : Storage.Store) (kind : Plans.PollKind) (bs : Nat)
    (cache : Bool) : Outcome :=
  let c0 := Ctx.new cache
  match f.fields.mapM (aggrField c0), groupExprs s f with
  | none, _ => rejected (.unsupported "aggregate field (quantile, or an aggregate under a non-arithmetic operator)") store
  | _, none => rejected (.glue "GROUP BY field not in the select list") store
  | some afields0, some groups =>
    let ev := aggrEval kind c0 groups f.fields
    let node := nodeOf (Scan.optimize f.where_)
    -- `prepare`: `ChildPlan.Next(nil)`; `prepareBatch`: `ChildPlan.Batch(ctx)`
    let st : Trace SPair := match kind with
      | .next => scanTrace node (rowVerdicts f.where_ Ctx.none (yielded node store)) kind bs store
      | .batch => scanTrace node (batchVerdicts f.where_ c0 (innerChunks node bs store)) kind bs store
    let wf := st.fin.2
    let pairs : List SPair := st.polls.flatMap (fun (p : List SPair × World) => p.1)
    -- the context the output expressions are evaluated in: `next` / `batch` clear it before every
    -- output row (fix: patches/01-aggr-output-stale-field-cache.patch)
    let pl0 : Aggr.Plan := { aggrAll := s.groupBy.isNone, nGroups := groups.length, fields := afields0 }
    let cOut := c0.clear
    match f.fields.mapM (aggrField cOut) with
    | none => rejected (.glue "aggregate field description") store
    | some afields =>
    let pl : Aggr.Plan := { pl0 with fields := afields }
    let pushed := s.limit.isSome && s.order.isNone
    let prep : Except Fail (List Aggr.Row) :=
      match st.fin.1 with
      | some fl => .error fl
      | none =>
        let r : Except Aggr.Err Aggr.Groups := match kind with
          | .next => Aggr.prepare ev pl [] pairs
          | .batch => Aggr.prepareBatch ev pl [] (st.polls.map (fun (p : List SPair × World) => p.1))
        match r with
        | .error e => .error (aggrFail e)
        | .ok gs => .ok (Aggr.rowsOf gs)
    -- the AggregatePlan as its parent sees it: the first poll runs `prepare`
    let ta? : Except Fail (Trace (List Value)) :=
      match prep with
      | .error fl => .ok { w0 := st.w0, polls := [], fin := (some fl, wf) }
      | .ok rows =>
        let inner := aggrInner rows kind bs wf
        let inner := match s.limit, pushed with
          | some l, true => limitTrace (limitNat l).1 (limitNat l).2 kind bs inner
          | _, _ => inner
        match traceValues inner with
        | none => .error (.unsupported "aggregate column of list kind")
        | some t => .ok { t with w0 := st.w0 }
    match ta? with
    | .error fl => rejected fl store
    | .ok ta =>
      match s.order with
      | none => ta.outcome
      | some o =>
        match orderKeys s.fieldNames s.fieldTypes o with
        | none => rejected (.glue "order field not in the select list") store
        | some keys =>
          let t1 := orderTrace keys kind bs ta
          match s.limit with
          | none => t1.outcome
          | some l => (limitTrace (limitNat l).1 (limitNat l).2 kind bs t1).outcome

/-! ### the statement -/

def resFail {β : Type} : Res β → Fail
  | .ok _ => .glue "ok"
  | .err e => .plan e
  | .panic s => .panic s
  | .outOfFuel => .fuel
  | .unsupported w => .unsupported w

/-- the statement `planStage` accepted, on the store -/
def runStmt (stmt : Stmt) (store : Storage.Store) (kind : Plans.PollKind) (bs : Nat) (cache : Bool) : Outcome :=
  if bs == 0 then rejected (.unsupported "PlanBatchSize = 0") store else
  match stmt with
  | .select s =>
    match PlanCheck.finalPlanCheck s with
    | .ok false =>
      match foldSelect s with
      | .error site => rejected (.panic site) store
      | .ok f => runPlainSelect s f store kind bs cache
    | .ok true =>
      match foldSelect s with
      | .error site => rejected (.panic site) store
      | .ok f => runAggrSelect s f store kind bs cache
    | r => rejected (resFail r) store
  | .put _ pairs =>
    let c0 := Ctx.new cache
    writeOutcome ((putFirstErr c0 pairs).map errFail) (Plans.run (.put (putPairs c0 pairs)) kind bs none store)
  | .remove _ keys =>
    let c0 := Ctx.new cache
    writeOutcome ((removeFirstErr c0 keys).map errFail) (Plans.run (.remove (removeKeys c0 keys)) kind bs none store)
  | .delete _ _ w lim => runDelete w lim store kind bs cache

/-- **the end-to-end model**: `NewOptimizer(query).BuildPlan(store)`, then `Next` (`kind = next`) or
    `Batch` (`kind = batch`, `PlanBatchSize = bs`) with one `NewExecuteCtx()` whose `EnableCache` is
    `cache`, until a poll returns nothing or fails.  `pf` is `strconv.ParseFloat` on the FLOAT tokens. -/
def runQuery (query : Bytes) (pf : Bytes → F64) (store : Storage.Store) (kind : Plans.PollKind) (bs : Nat)
    (cache : Bool) : Outcome :=
  match PlanCheck.planStage pf (Lexer.split query) with
  | .ok stmt => runStmt stmt store kind bs cache
  | r => rejected (resFail r) store

end Kvql.Run
