/-
  Value-level helpers of utils.go / func.go / scalar_func.go (everything that does not evaluate an
  expression): conversions, comparison and arithmetic kernels shared by the row and the batch
  evaluator, list helpers, and the function table lookup.

  Go type switches enumerate int8…uint64, float32, [][]byte, []int, … — none of those is ever
  produced by an evaluator (see `Value`), so only the reachable cases appear here.
-/
import Kvql.Model.Lib
import Kvql.Model.Ctx

namespace Kvql
open Generated

/-! ### utils.go -/

/-- `convertToByteArray` -/
def convertToByteArray : Value → Option Bytes
  | .bytes b => some b
  | .str b => some b
  | _ => none

/-- `convertToInt` -/
def convertToInt : Value → Option Int64
  | .int i => some i
  | .goInt i => some i
  | _ => none

/-- `convertToFloat` -/
def convertToFloat : Value → Option F64
  | .float f => some f
  | _ => none

/-- arithmetic operator bytes of `executeMathOp` -/
inductive MathOp | add | sub | mul | div
deriving DecidableEq, Repr

def intMath (op : MathOp) (l r : Int64) : Except Err Value :=
  match op with
  | .add => .ok (.int (l + r))
  | .sub => .ok (.int (l - r))
  | .mul => .ok (.int (l * r))
  | .div => if r == 0 then .error .data else .ok (.int (l / r))   -- Int64 `/` truncates and MinInt64 / -1 wraps, as in Go

def floatMath (op : MathOp) (l r : F64) : Except Err Value :=
  match op with
  | .add => .ok (.float (l.add r))
  | .sub => .ok (.float (l.sub r))
  | .mul => .ok (.float (l.mul r))
  | .div => if r.isZero then .error .data else .ok (.float (l.div r))

/-- `executeMathOp` -/
def executeMathOp (left right : Value) (op : MathOp) : Except Err Value :=
  match convertToInt left, convertToInt right with
  | some l, some r => intMath op l r
  | li, ri =>
    match convertToFloat left, convertToFloat right with
    | some l, some r => floatMath op l r
    | lf, rf =>
      match li, rf, lf, ri with
      | some l, some r, _, _ => floatMath op (F64.ofInt l) r
      | _, _, some l, some r => floatMath op l (F64.ofInt r)
      | _, _, _, _ => .error .operandType

/-- comparison operator strings of `execNumberCompare` / `execStringCompare` -/
inductive CmpOp | gt | gte | lt | lte | eq
deriving DecidableEq, Repr

def intCmp (op : CmpOp) (l r : Int64) : Bool :=
  match op with
  | .gt => r < l | .gte => r ≤ l | .lt => l < r | .lte => l ≤ r | .eq => l == r

def floatCmp (op : CmpOp) (l r : F64) : Bool :=
  match op with
  | .gt => r.lt l | .gte => r.le l | .lt => l.lt r | .lte => l.le r | .eq => l.eq r

/-- `execNumberCompare` -/
def execNumberCompare (left right : Value) (op : CmpOp) : Except Err Bool :=
  match convertToInt left, convertToInt right with
  | some l, some r => .ok (intCmp op l r)
  | li, ri =>
    match li, convertToFloat right, convertToFloat left, ri with
    | some l, some r, _, _ => .ok (floatCmp op (F64.ofInt l) r)
    | _, _, some l, some r => .ok (floatCmp op l (F64.ofInt r))
    | _, some r, some l, _ => .ok (floatCmp op l r)
    | _, _, _, _ => .error .operandType

def ordCmp (op : CmpOp) (o : Ordering) : Bool :=
  match op with
  | .gt => o == .gt | .gte => o != .lt | .lt => o == .lt | .lte => o != .gt | .eq => o == .eq

/-- `execStringCompare` -/
def execStringCompare (left right : Value) (op : CmpOp) : Except Err Bool :=
  match convertToByteArray left, convertToByteArray right with
  | some l, some r => .ok (ordCmp op (Bytes.cmp l r))
  | _, _ => .error .operandType

/-- `unpackArray` ([]any is NOT among its cases) -/
def unpackArray : Value → Option (List Value)
  | .strList l => some (l.map .str)
  | .intList l => some (l.map .int)
  | .floatList l => some (l.map .float)
  | _ => none

/-! ### func.go conversions -/

/-- `toString` -/
def toStringV : Value → Bytes
  | .str b => b
  | .bytes b => b
  | .int i => formatInt i
  | .goInt i => formatInt i
  | .float f => formatF f
  | .bool b => Bytes.ofString (if b then "true" else "false")
  | .nil => Bytes.ofString "<nil>"
  | _ => []

def textToInt (b : Bytes) (defVal : Int64) : Int64 :=
  match parseInt64? b with
  | some i => i
  | none =>
    match parseFloat? b with
    | some f => f.toInt64Go
    | none => defVal

/-- `toInt` -/
def toIntV (v : Value) (defVal : Int64) : Int64 :=
  match v with
  | .str b => textToInt b defVal
  | .bytes b => textToInt b defVal
  | .int i => i
  | .goInt i => i
  | .float f => f.toInt64Go
  | _ => defVal

/-- `toFloat` -/
def toFloatV (v : Value) (defVal : F64) : F64 :=
  match v with
  | .str b => (parseFloat? b).getD defVal
  | .bytes b => (parseFloat? b).getD defVal
  | .int i => F64.ofInt i
  | .goInt i => F64.ofInt i
  | .float f => f
  | _ => defVal

def parseFloatAll : List Bytes → Except Err (List F64)
  | [] => .ok []
  | b :: bs =>
    match parseFloat? b with
    | none => .error .data                      -- *strconv.NumError
    | some f => (parseFloatAll bs).map (f :: ·)

/-- `toFloatList` -/
def toFloatList : Value → Except Err (List F64)
  | .strList l => parseFloatAll l
  | .intList l => .ok (l.map F64.ofInt)
  | .floatList l => .ok l
  | _ => .error .operandType                    -- "Cannot convert to float list"

/-! ### scalar_func.go kernels -/

/-- `is_int` on an evaluated argument -/
def isIntV : Value → Bool
  | .str b => (parseInt? b).isSome
  | .bytes b => (parseInt? b).isSome
  | .int _ => true
  | .goInt _ => true
  | _ => false

/-- `is_float` on an evaluated argument -/
def isFloatV : Value → Bool
  | .str b => (parseFloat? b).isSome
  | .bytes b => (parseFloat? b).isSome
  | .float _ => true
  | _ => false

def Bytes.slice (b : Bytes) (s e : Nat) : Bytes := (b.take e).drop s

/-- `subString(val, start, end)`: the bytes from position `start` up to (not including) `end`,
    positions outside the value clipped.  Go `int` = Int64 here; no arithmetic that could wrap. -/
def subString (val : Bytes) (start end_ : Int64) : Bytes :=
  let st : Int := if start.toInt < 0 then 0 else start.toInt
  let en : Int := min end_.toInt val.length
  if st ≥ en then [] else Bytes.slice val st.toNat en.toNat

/-- the tail of `funcSubStr` after the three arguments are converted -/
def substrKernel (val : Bytes) (start end_ : Int64) : Except Err Value :=
  .ok (.str (subString val start end_))

/-- `cosineDistance` -/
def cosineLoop : List F64 → List F64 → F64 → F64 → F64 → F64 × F64 × F64
  | l :: ls, r :: rs, t1, t2, t3 => cosineLoop ls rs (t1.add (l.mul r)) (t2.add (l.mul l)) (t3.add (r.mul r))
  | _, _, t1, t2, t3 => (t1, t2, t3)

def F64.one : F64 := F64.ofInt 1

def cosineDistance (l r : List F64) : Except Err F64 :=
  if l.length != r.length then .error .data
  else
    let (t1, t2, t3) := cosineLoop l r F64.zero F64.zero F64.zero
    .ok (F64.one.sub (t1.div (t2.sqrt.mul t3.sqrt)))

def l2Loop : List F64 → List F64 → F64 → F64
  | l :: ls, r :: rs, total => let d := (l.sub r).abs; l2Loop ls rs (total.add (d.mul d))
  | _, _, total => total

/-- `l2Distance` -/
def l2Distance (l r : List F64) : Except Err F64 :=
  if l.length != r.length then .error .data else .ok (l2Loop l r F64.zero).sqrt

/-- the type sniffing of `funcToList` / `funcToListVec` on the first argument's value -/
def listUseInt : Value → Bool
  | .str b => (parseInt? b).isSome
  | .bytes b => (parseInt? b).isSome
  | .int _ => true
  | .goInt _ => true
  | _ => false

/-- `getListLength` -/
def getListLength : Value → Except Err Int64
  | .str b => .ok (Int64.ofNat b.length)
  | .bytes b => .ok (Int64.ofNat b.length)
  | .int _ => .ok 0
  | .goInt _ => .ok 0
  | .float _ => .ok 0
  | .strList l => .ok (Int64.ofNat l.length)
  | .anyList l => .ok (Int64.ofNat l.length)
  | .intList l => .ok (Int64.ofNat l.length)
  | .floatList l => .ok (Int64.ofNat l.length)
  | _ => .error .operandType                   -- "invalid type": bool, JSON, nil, []Expression

/-! ### field access (expression_exec.go / expression_exec_vec.go) -/

/-- `execDictAccess` (row) = one iteration of `execDictAccessBatch` -/
def dictAccess (fieldName : Bytes) : Value → Except Err Value
  | .json m => .ok ((assocGet m fieldName).getD (.str []))
  | .str b => if b.isEmpty then .ok (.str []) else .error .operandType
  | _ => .error .operandType

/-- `lval[idx]` guarded by `idx < len(lval)` only: a negative index panics -/
def indexGuarded {α} (l : List α) (idx : Int64) (wrap : α → Value) : Except Err Value :=
  if idx.toInt < l.length then
    (if idx.toInt < 0 then .error (.panic "execListAccess: lval[idx]")
     else .ok ((l[idx.toInt.toNat]?.map wrap).getD (.str [])))
  else .ok (.str [])

/-- `execListAccess` (row) = one iteration of `execListAccessBatch`: `[]any`, `[]string`, `[]int64`, `[]float64` -/
def listAccess (idx : Int64) : Value → Except Err Value
  | .anyList l => indexGuarded l idx id
  | .strList l => indexGuarded l idx .str
  | .intList l => indexGuarded l idx .int
  | .floatList l => indexGuarded l idx .float
  | .str b => if b.isEmpty then .ok (.str []) else .error .operandType
  | _ => .error .operandType

/-! ### `=` kernels -/

/-- `execNumberCompare(l, r, "=")` with its error turned into the evaluators' "wrong type" -/
def numberEqual (l r : Value) : Except Err Bool :=
  match execNumberCompare l r .eq with
  | .ok b => .ok b
  | .error _ => .error .operandType

/-- the body of `execEqual` after both sides are evaluated = one iteration of the loop of `execEqualBatch` -/
def equalRow (l r : Value) : Except Err Bool :=
  match l with
  | .str _ | .bytes _ =>
    match convertToByteArray l, convertToByteArray r with
    | some a, some b => .ok (a == b)
    | _, _ => .error .operandType
  | .int _ | .goInt _ | .float _ => numberEqual l r
  | .bool a =>
    match r with
    | .bool b => .ok (a == b)
    | _ => .error .operandType
  | _ => .error .operandType

/-! ### the function table -/

/-- the row/vector bodies of scalar_func.go / scalar_func_vec.go, named by their Go identifiers -/
inductive Body
  | lower | upper | toInt | toFloat | toStr | isInt | isFloat | subStr | json | split
  | toList | floatList | intList | len | join | strlen | cosine | l2
deriving DecidableEq, Repr, Inhabited

def Body.ofRowIdent : String → Option Body
  | "funcToLower" => some .lower | "funcToUpper" => some .upper | "funcToInt" => some .toInt
  | "funcToFloat" => some .toFloat | "funcToString" => some .toStr | "funcIsInt" => some .isInt
  | "funcIsFloat" => some .isFloat | "funcSubStr" => some .subStr | "funcJson" => some .json
  | "funcSplit" => some .split | "funcToList" => some .toList | "funcFloatList" => some .floatList
  | "funcIntList" => some .intList | "funcLen" => some .len | "funcJoin" => some .join
  | "funcStrlen" => some .strlen | "funcCosineDistance" => some .cosine | "funcL2Distance" => some .l2
  | _ => none

def Body.rowIdent : Body → String
  | .lower => "funcToLower" | .upper => "funcToUpper" | .toInt => "funcToInt" | .toFloat => "funcToFloat"
  | .toStr => "funcToString" | .isInt => "funcIsInt" | .isFloat => "funcIsFloat" | .subStr => "funcSubStr"
  | .json => "funcJson" | .split => "funcSplit" | .toList => "funcToList" | .floatList => "funcFloatList"
  | .intList => "funcIntList" | .len => "funcLen" | .join => "funcJoin" | .strlen => "funcStrlen"
  | .cosine => "funcCosineDistance" | .l2 => "funcL2Distance"

/-- every vector body is the row identifier + "Vec" -/
def Body.vecIdent (b : Body) : String := b.rowIdent ++ "Vec"

structure FuncInfo where
  name : String
  numArgs : Nat
  varArgs : Bool
  retType : Nat
  /-- `Body`; `none`: a function of the Go table the model does not know -/
  body : Option Body
  /-- `BodyVec` is the vector twin of `Body` (false: some other identifier or nil) -/
  vecIsTwin : Bool
deriving Repr

def FuncInfo.ofEntry (e : String × Nat × Bool × Nat × List String) : FuncInfo :=
  let (name, n, va, rt, idents) := e
  let body := idents.head? >>= Body.ofRowIdent
  { name := name, numArgs := n, varArgs := va, retType := rt, body := body,
    vecIsTwin := match body, idents with
      | some b, [_, v] => v == b.vecIdent
      | _, _ => false }

/-- the bytes of an ASCII string (function names); unlike `Bytes.ofString` it reduces in the kernel -/
def asciiBytes (s : String) : Bytes := s.toList.map (fun c => UInt8.ofNat c.toNat)

/-- `funcMap[name]` over the regenerated table -/
def lookupFunc (name : Bytes) : Option FuncInfo :=
  (funcTable.find? (fun e => asciiBytes e.1 == name)).map FuncInfo.ofEntry

def lookupAggrRetType (name : Bytes) : Option Nat :=
  (aggrTable.find? (fun e => asciiBytes e.1 == name)).map (fun e => e.2.2.2.1)

end Kvql
