/-
  Model of lexer.go: `Lexer.Split` and `buildToken`, statement by statement.
  The keyword table and the token-type codes are regenerated from the Go source
  (Kvql/Generated/Tables.lean).
-/
import Kvql.Model.Bytes
import Kvql.Generated.Tables

namespace Kvql

structure Token where
  tp : Nat
  data : Bytes
  pos : Nat
deriving DecidableEq, Repr, Inhabited

namespace Lexer

open Generated

/-- `isNumber`: `strconv.ParseInt(val, 10, 64)` succeeds -/
def isNumber (w : Bytes) : Bool := (parseInt? w).isSome
/-- `isFloat`: `strconv.ParseFloat(val, 64)` succeeds -/
def isFloat (w : Bytes) : Bool := parseFloatOk w

/-- the `switch curr` of `buildToken` after lower-casing and trimming -/
def classify (w : Bytes) : Nat :=
  match keywordTable.lookup (Bytes.toAsciiString w) with
  | some tp => tp
  | none => if isNumber w then tkNUMBER else if isFloat w then tkFLOAT else tkNAME

/-- `buildToken(curr, pos)`; `none` is Go's `nil` -/
def buildToken (curr : Bytes) (pos : Nat) : Option Token :=
  let w := toLower (trimSpace curr)
  if w.isEmpty then none else some { tp := classify w, data := w, pos := pos }

structure State where
  strStart : Bool := false
  strStartChar : UInt8 := 0
  tokStart : Nat := 0
  tokLen : Nat := 0
  tokStartPos : Nat := 0
  prev : UInt8 := 0
  ret : List Token := []
deriving Repr

/-- `l.Query[tokStart : tokStart+min(tokLen, l.Length-tokStart)]` (for
    `tokStart ≤ len`, which `tokStart_le` proves is always the case) -/
def slice (q : Bytes) (start len : Nat) : Bytes := (q.drop start).take len

def pushOpt (ret : List Token) : Option Token → List Token
  | none => ret
  | some t => ret ++ [t]

/-- flush the pending word: `buildToken(curr, tokStartPos)` appended when non-nil -/
def flushWord (q : Bytes) (st : State) : List Token :=
  pushOpt st.ret (buildToken (slice q st.tokStart st.tokLen) st.tokStartPos)

def isQuote (c : UInt8) : Bool := c == 34 || c == 39       -- " '
def isBackquote (c : UInt8) : Bool := c == 96              -- `
def isOpChar (c : UInt8) : Bool :=                         -- ~ ^ = ! * + - / > <
  c == 126 || c == 94 || c == 61 || c == 33 || c == 42 || c == 43 || c == 45 || c == 47 ||
  c == 62 || c == 60
def isPunct (c : UInt8) : Bool :=                          -- & | ( ) [ ]
  c == 38 || c == 124 || c == 40 || c == 41 || c == 91 || c == 93
def isSep (c : UInt8) : Bool := c == 44 || c == 59         -- , ;

/-- bytes that `Split` treats like `' '` (regenerated from the `case ' '` label) -/
def isBlank (c : UInt8) : Bool := blankBytes.contains c.toNat

/-- the body of the `for` loop for index `i`, byte `c`, look-ahead `next` -/
def step (q : Bytes) (st : State) (i : Nat) (c next : UInt8) : State :=
  let st' : State :=
    if isBlank c then
      if st.strStart then { st with tokLen := st.tokLen + 1 }
      else { st with ret := flushWord q st, tokLen := 0, tokStartPos := i + 1, tokStart := i + 1 }
    else if isQuote c || isBackquote c then
      if !st.strStart then
        -- a word directly followed by a quote ends at the quote
        { st with ret := flushWord q st, tokLen := 0,
                  strStart := true, strStartChar := c, tokStartPos := i, tokStart := i + 1 }
      else if st.strStartChar == c then
        let tok : Token := { tp := if isQuote c then tkSTRING else tkNAME,
                             data := slice q st.tokStart st.tokLen, pos := st.tokStartPos }
        { st with strStart := false, ret := st.ret ++ [tok], tokLen := 0,
                  tokStartPos := i + 1, tokStart := i + 1 }
      else { st with tokLen := st.tokLen + 1 }
    else if isOpChar c then
      if st.strStart then { st with tokLen := st.tokLen + 1 }
      else
        let ret := flushWord q st
        -- single-character operator when the next byte is not '='
        let single : Bool := next != 61 &&
          (c == 33 || c == 42 || c == 43 || c == 45 || c == 47 || c == 62 || c == 60)
        if single then
          { st with ret := ret ++ [{ tp := tkOPERATOR, data := [c], pos := i }],
                    tokLen := 0, tokStartPos := i + 1, tokStart := i + 1 }
        else if c == 61 then
          let tok : Token :=
            if st.prev == 94 || st.prev == 126 || st.prev == 33 || st.prev == 60 || st.prev == 62 then
              { tp := tkOPERATOR, data := [st.prev, 61], pos := i - 1 }
            else { tp := tkOPERATOR, data := [61], pos := i }
          { st with ret := ret ++ [tok], tokLen := 0, tokStartPos := i + 1, tokStart := i + 1 }
        else
          { st with ret := ret, tokLen := 0, tokStartPos := i + 1, tokStart := i + 1 }
    else if isPunct c then
      if st.strStart then { st with tokLen := st.tokLen + 1 }
      else
        let tp := if c == 40 then tkLPAREN else if c == 41 then tkRPAREN
                  else if c == 91 then tkLBRACK else if c == 93 then tkRBRACK else tkOPERATOR
        { st with ret := flushWord q st ++ [{ tp := tp, data := [c], pos := i }],
                  tokLen := 0, tokStartPos := i + 1, tokStart := i + 1 }
    else if isSep c then
      if st.strStart then { st with tokLen := st.tokLen + 1 }
      else
        let tp := if c == 44 then tkSEP else tkSEMI
        { st with ret := flushWord q st ++ [{ tp := tp, data := [c], pos := i }],
                  tokLen := 0, tokStartPos := i + 1, tokStart := i + 1 }
    else { st with tokLen := st.tokLen + 1 }
  { st' with prev := c }

/-- the `for i := 0; i < l.Length; i++` loop over the remaining bytes -/
def run (q : Bytes) : State → Nat → Bytes → State
  | st, _, [] => st
  | st, i, c :: rest => run q (step q st i c (rest.headD 0)) (i + 1) rest

/-- `Lexer.Split` -/
def split (q : Bytes) : List Token :=
  let st := run q {} 0 q
  if st.strStart then
    -- unterminated literal: `buildToken(l.Query[tokStartPos:], tokStartPos)`
    pushOpt st.ret (buildToken (q.drop st.tokStartPos) st.tokStartPos)
  else if st.tokLen > 0 then flushWord q st else st.ret

end Lexer
end Kvql
