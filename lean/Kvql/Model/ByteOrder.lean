/-
  Byte-wise order and prefix test of Go's `bytes` package (and of `<`, `==`,
  `strings.HasPrefix` on Go strings, which are the same functions on the underlying bytes).
  Core Lean only.  Laws (linear order, prefix/order interplay) are proved in
  `Kvql/Proofs/ByteOrderLaws.lean`.
-/
import Kvql.Model.Bytes

namespace Kvql
namespace Bytes

/-- `bytes.Compare(a, b)`: lexicographic on unsigned bytes, a proper prefix is smaller.
    (`nil` and the empty slice are both `[]` here; where Go code tests `== nil` the models
    carry an `Option Bytes`.) -/
def cmp : Bytes → Bytes → Ordering
  | [], [] => .eq
  | [], _ :: _ => .lt
  | _ :: _, [] => .gt
  | a :: as, b :: bs => if a < b then .lt else if b < a then .gt else cmp as bs

/-- `bytes.Compare(a, b) <= 0` -/
def le (a b : Bytes) : Bool := cmp a b != .gt

/-- `bytes.Compare(a, b) < 0` -/
def lt (a b : Bytes) : Bool := cmp a b == .lt

/-- `bytes.Equal(a, b)` / `bytes.Compare(a, b) == 0` -/
def eq (a b : Bytes) : Bool := cmp a b == .eq

/-- `bytes.HasPrefix(k, p)` as `isPrefix p k` -/
def isPrefix : Bytes → Bytes → Bool
  | [], _ => true
  | _ :: _, [] => false
  | a :: as, b :: bs => a == b && isPrefix as bs

/-- insertion into a list sorted by `le` -/
def insertSorted (x : Bytes) : List Bytes → List Bytes
  | [] => [x]
  | y :: ys => if le x y then x :: y :: ys else y :: insertSorted x ys

/-- `sort.Strings` (the result of sorting is unique, so any algorithm models it) -/
def sort (xs : List Bytes) : List Bytes := xs.foldr insertSorted []

/-- keep the first occurrence of every byte string -/
def dedup : List Bytes → List Bytes
  | [] => []
  | x :: xs => x :: (dedup xs).filter (fun y => !(y == x))

end Bytes
end Kvql
