/-
  Model of aggregate_plan.go (`AggregatePlan`: prepare / prepareBatch / getAggrKey /
  batchGetAggrKeys / createAggrRow / updateRowAggrFunc / next / batch) and of the accumulators of
  aggr_func.go (count, sum, avg, min, max, group_concat, json_arrayagg).

  PARAMETRIC IN EVALUATION.  The expression evaluator is not modelled here.  A statement is
  described to the model by an `Eval P` (P = whatever identifies an arriving pair): for every pair
  the value of each GROUP BY expression, of each key field of the select list and of the first
  argument of each aggregate call — or the error the evaluator reports.  The model assumes about
  the evaluator only that
    (E1) evaluating an expression on a pair depends on the pair alone (not on what was evaluated
         before — this is what the stale field cache of the unpatched engine violates), and
    (E2) `ExecuteBatch` over a chunk gives the row-wise values, and when some pair fails it reports
         the error of the first failing pair of the chunk.
  Values are the small column values `AVal` (what the harness' `canonValue` renders).

  Out of scope / restrictions (said once, here):
    * `quantile` (github.com/beorn7/perks) is not modelled.
    * The limit that optimizer.go pushes into the plan (`Limit`/`Start`, `skips`/`current`) is
      `Kvql.Limit` (Model/Limit.lean, proved in C08); here `Limit < 0`: `Next` = `next`,
      `Batch` = `batch`.
    * `strconv.ParseFloat` is implemented for decimal text (`[+-]digits[.digits][e[+-]digits]`,
      underscores between digits, correctly rounded, overflow = error, underflow = 0) and
      `inf/infinity/nan`; hexadecimal float text (`0x1p3`) is NOT parsed by the model (Go parses it).
      `%f` and the JSON number of a float64 are computed exactly (shortest round-trip digits).
    * `int64(f)` for NaN / out-of-range `f` is what amd64 does (`0x8000000000000000`).
    * JSON string escaping is Go's `encoding/json` with HTML escaping for bytes < 0x80; bytes
      ≥ 0x80 are copied (Go replaces invalid UTF-8 by `�` and escapes U+2028/U+2029).
    * an error ends the run (Go: a later call would resume with a half-updated state).
    * field expressions over aggregates are `AggExpr`: aggregate calls, constant leaves and
      `+ - * /` (`+` with a string-typed left operand is concatenation).
-/
import Kvql.Model.Bytes
import Kvql.Model.Expr
import Kvql.Generated.Tables

namespace Kvql.Aggr

/-! ## values and errors -/

/-- a column value as far as the aggregation machinery distinguishes them -/
inductive AVal
  | bytes (b : Bytes)      -- []byte
  | str (b : Bytes)        -- string
  | int (i : Int64)        -- int64
  | goInt (i : Int64)      -- int
  | float (f : F64)        -- float64
  | bool (b : Bool)
  | nil
  | other                  -- lists, JSON objects, …
deriving DecidableEq, Repr, Inhabited

inductive Err
  /-- the evaluator failed on a pair; `code` is the error class the harness computed -/
  | eval (code : String)
  /-- `convertToBytes`: "Expression result type not support" (`ExecuteError` at 0) -/
  | conv
  /-- `executeMathOp`: "Divide by zero" (`ExecuteError` at the right operand) -/
  | divZero (pos : Nat)
  /-- `executeMathOp`: "Invalid operator … parameter type" (plain error) -/
  | badOperand
  /-- `json.Marshal` failed (NaN, ±Inf) -/
  | marshal
  /-- the plan description is not well formed (no Go counterpart: a call index without a call) -/
  | malformed
deriving DecidableEq, Repr, Inhabited

/-! ## Go formatting used by `toString`, `convertToBytes`, `appendAggrKeyPart`, `json.Marshal` -/

/-- `strconv.AppendInt(_, n, 10)` for `n ≥ 0` -/
def natDec (n : Nat) : Bytes :=
  if n < 10 then [UInt8.ofNat (48 + n)] else natDec (n / 10) ++ [UInt8.ofNat (48 + n % 10)]
decreasing_by omega

def intDec (i : Int) : Bytes := if i < 0 then 45 :: natDec i.natAbs else natDec i.natAbs

/-- `fmt.Sprintf("%d", i)` -/
def int64Dec (i : Int64) : Bytes := intDec i.toInt

/-- a finite or special float64, decoded: finite value = `mant * 2^exp` -/
inductive FClass
  | nan
  | inf (neg : Bool)
  /-- `lowClose`: the lower neighbour is only half as far away (mantissa 2^52 of a normal number) -/
  | fin (neg : Bool) (mant : Nat) (exp : Int) (lowClose : Bool)
deriving Repr

def classify (x : F64) : FClass :=
  let b := x.bits.toNat
  let neg := b / 2 ^ 63 == 1
  let e : Nat := (b / 2 ^ 52) % 2048
  let m : Nat := b % 2 ^ 52
  if e == 2047 then (if m == 0 then .inf neg else .nan)
  else if e == 0 then .fin neg m (-1074) false
  else .fin neg (2 ^ 52 + m) ((e : Int) - 1075) (m == 0 && e > 1)

def padZeros (n : Nat) (b : Bytes) : Bytes := List.replicate (n - b.length) 48 ++ b

/-- `fmt.Sprintf("%f", x)`: six decimals, exact value rounded half-to-even -/
def fmtF (x : F64) : Bytes :=
  match classify x with
  | .nan => Bytes.ofString "NaN"
  | .inf neg => Bytes.ofString (if neg then "-Inf" else "+Inf")
  | .fin neg m e _ =>
    let q : Nat :=
      if e ≥ 0 then m * 2 ^ e.toNat * 10 ^ 6
      else
        let d := 2 ^ (-e).toNat
        let s := m * 10 ^ 6
        let q := s / d
        let r := s % d
        if 2 * r > d || (2 * r == d && q % 2 == 1) then q + 1 else q
    (if neg then [45] else []) ++ natDec (q / 10 ^ 6) ++ [46] ++ padZeros 6 (natDec (q % 10 ^ 6))

/-- smallest `j ≥ 1` with `v * 10^j ≥ den` (for `0 < v < den`) -/
def fracShift (v den : Nat) : Nat → Nat → Nat
  | 0, j => j
  | fuel + 1, j => if v * 10 ^ j ≥ den then j else fracShift v den fuel (j + 1)

/-- shortest decimal that reads back as the same float64 (`strconv.FormatFloat(x, _, -1, 64)`):
    digits without trailing zeros and the position of the decimal point (`0.d₁d₂… × 10^dp`) -/
def shortestGo (m : Nat) (e : Int) (lowClose : Bool) : Nat → Nat → Int → Nat × Int
  | 0, _, k => (0, k)
  | fuel + 1, n, k =>
    -- value = V/den, neighbours' midpoints L/den and U/den
    let t := e - 2
    let sc := if t ≥ 0 then 2 ^ t.toNat else 1
    let den := if t ≥ 0 then 1 else 2 ^ (-t).toNat
    let dl := if lowClose then 1 else 2
    let (v, u, l) := (4 * m * sc, (4 * m + 2) * sc, (4 * m - dl) * sc)
    let incl := m % 2 == 0
    -- candidates with n digits: multiples of 10^(k-n)
    let up := if k - n ≥ 0 then 1 else 10 ^ ((n : Int) - k).toNat
    let unit := if k - n ≥ 0 then den * 10 ^ (k - n).toNat else den
    let (v', u', l') := (v * up, u * up, l * up)
    let a := v' / unit
    let cdown := a * unit
    let cup := cdown + unit
    let okdown := cdown > l' || (cdown == l' && incl)
    let okup := cup < u' || (cup == u' && incl)
    let rem := v' - cdown
    let roundUp := 2 * rem > unit || (2 * rem == unit && a % 2 == 1)
    if okdown && okup then (if roundUp then (a + 1, k - n) else (a, k - n))
    else if okdown then (a, k - n)
    else if okup then (a + 1, k - n)
    else shortestGo m e lowClose fuel (n + 1) k

/-- number of integer digits of `v/den` (`≤ 0` for values below 1) -/
def intDigits (v den : Nat) : Int :=
  if v ≥ den then ((natDec (v / den)).length : Int) else 1 - (fracShift v den 400 1 : Int)

def stripZeros (ds : Bytes) : Bytes := (ds.reverse.dropWhile (· == 48)).reverse

/-- digits and decimal point of the shortest representation of a finite non-zero float -/
def shortestDigits (m : Nat) (e : Int) (lowClose : Bool) : Bytes × Int :=
  let t := e - 2
  let sc := if t ≥ 0 then 2 ^ t.toNat else 1
  let den := if t ≥ 0 then 1 else 2 ^ (-t).toNat
  let k := intDigits (4 * m * sc) den
  let (a, ex) := shortestGo m e lowClose 40 0 k
  let ds := natDec a
  (stripZeros ds, (ds.length : Int) + ex)

def digitAt (ds : Bytes) (j : Int) : UInt8 :=
  if j < 0 then 48 else ds.getD j.toNat 48

/-- `encoding/json` `floatEncoder`: `%e`-style below 1e-6 and from 1e21, plain otherwise;
    `none` for NaN and ±Inf (`UnsupportedValueError`) -/
def jsonFloat (x : F64) : Option Bytes :=
  match classify x with
  | .nan => none
  | .inf _ => none
  | .fin neg m e lc =>
    let sign : Bytes := if neg then [45] else []
    if m == 0 then some (sign ++ [48])
    else
      let (ds, dp) := shortestDigits m e lc
      let absBits := x.bits.toNat % 2 ^ 63
      if absBits < 0x3EB0C6F7A0B5ED8D || absBits ≥ 0x444B1AE4D6E2EF50 then
        -- d.ddde±x (two exponent digits, then json's clean-up of a leading zero)
        let ex := dp - 1
        let mant := match ds with
          | [] => [48]
          | [d] => [d]
          | d :: rest => d :: 46 :: rest
        some (sign ++ mant ++ [101] ++ (if ex < 0 then [45] else [43]) ++ natDec ex.natAbs)
      else
        let ip : Bytes := if dp > 0 then (List.range dp.toNat).map (fun (i : Nat) => digitAt ds (i : Int)) else [48]
        let prec := ((ds.length : Int) - dp).toNat
        let fp : Bytes := if prec > 0 then 46 :: (List.range prec).map (fun (i : Nat) => digitAt ds (dp + (i : Int))) else []
        some (sign ++ ip ++ fp)

def hexLower (n : Nat) : UInt8 := if n < 10 then UInt8.ofNat (48 + n) else UInt8.ofNat (87 + n)

/-- one byte of a JSON string (`appendString` with `escapeHTML`) -/
def jsonEscByte (b : UInt8) : Bytes :=
  if b == 34 || b == 92 then [92, b]
  else if b == 8 then [92, 98]
  else if b == 12 then [92, 102]
  else if b == 10 then [92, 110]
  else if b == 13 then [92, 114]
  else if b == 9 then [92, 116]
  else if b < 32 || b == 60 || b == 62 || b == 38 then
    [92, 117, 48, 48, hexLower (b.toNat / 16), hexLower (b.toNat % 16)]
  else [b]

def jsonString (s : Bytes) : Bytes := [34] ++ s.flatMap jsonEscByte ++ [34]

/-! ## Go conversions -/

/-- `int64(f)` on amd64 (CVTTSD2SQ): NaN and out-of-range give `math.MinInt64` -/
def f64ToInt64 (f : F64) : Int64 :=
  let x := f.toFloat
  if x.isNaN || x ≥ Float.ofNat 9223372036854775808 || x < -(Float.ofNat 9223372036854775808) then Int64.minValue
  else x.toInt64

/-- multiply the fraction `n/d` by `2^k` -/
def mulPow2 (n d : Nat) (k : Int) : Nat × Nat :=
  if k ≥ 0 then (n * 2 ^ k.toNat, d) else (n, d * 2 ^ (-k).toNat)

/-- the float64 nearest to `n/d` (`n, d > 0`), ties to even; `none` = overflow.  Bits without sign. -/
def roundToF64 (n d : Nat) : Option Nat :=
  let lb : Int := (n.log2 : Int) - (d.log2 : Int)
  let (n1, d1) := mulPow2 n d (-lb)
  let e2 : Int := if n1 ≥ d1 then lb else lb - 1
  let shift : Int := if e2 < -1022 then 1074 else 52 - e2
  let (n2, d2) := mulPow2 n d shift
  let q := n2 / d2
  let r := n2 % d2
  let q' := if 2 * r > d2 || (2 * r == d2 && q % 2 == 1) then q + 1 else q
  if e2 < -1022 then some q'
  else
    let (q'', e2') := if q' == 2 ^ 53 then (2 ^ 52, e2 + 1) else (q', e2)
    if e2' > 1023 then none
    else some ((e2' + 1023).toNat * 2 ^ 52 + (q'' - 2 ^ 52))

/-- strconv `underscoreOK` for text without base prefix: an underscore only between digits -/
def underscoreOK : Bytes → UInt8 → Bool
  | [], saw => saw != 95
  | c :: rest, saw =>
    if isDigit c then underscoreOK rest 48
    else if c == 95 then (if saw != 48 then false else underscoreOK rest 95)
    else if saw == 95 then false
    else underscoreOK rest 33

/-- `strconv.ParseFloat(s, 64)` on decimal text and inf/nan (see the header for what is excluded) -/
def parseFloatPlain? (s : Bytes) : Option F64 :=
  let l := toLower s
  let (neg, unsigned) := match l with
    | 43 :: r => (false, r)
    | 45 :: r => (true, r)
    | r => (false, r)
  let signBit : Nat := if neg then 2 ^ 63 else 0
  if unsigned == Bytes.ofString "inf" || unsigned == Bytes.ofString "infinity" then
    some ⟨UInt64.ofNat (signBit + 0x7FF0000000000000)⟩
  else if l == Bytes.ofString "nan" then some ⟨UInt64.ofNat 0x7FF8000000000001⟩
  else match splitDecimal s with
    | none => none
    | some (neg, mant, fracDigits, e) =>
      let signBit : Nat := if neg then 2 ^ 63 else 0
      let m := digitsVal mant
      if m == 0 then some ⟨UInt64.ofNat signBit⟩
      else
        let mag : Int := ((natDec m).length : Int) - (fracDigits : Int) + e
        if mag > 310 then none
        else if mag < -330 then some ⟨UInt64.ofNat signBit⟩
        else
          let x : Int := e - (fracDigits : Int)
          let (n, d) := if x ≥ 0 then (m * 10 ^ x.toNat, 1) else (m, 10 ^ (-x).toNat)
          match roundToF64 n d with
          | none => none
          | some bits => some ⟨UInt64.ofNat (signBit + bits)⟩

/-- underscores may separate digits (`1_000.5`); they are dropped after `underscoreOK` -/
def parseFloat? (s : Bytes) : Option F64 :=
  if s.contains 95 then
    let body := match s with
      | 43 :: r => r
      | 45 :: r => r
      | r => r
    if underscoreOK body 94 && (splitDecimal (s.filter (· != 95))).isSome then parseFloatPlain? (s.filter (· != 95))
    else none
  else parseFloatPlain? s

def numOfText (s : Bytes) : Int64 × F64 × Bool :=
  match parseInt? s with
  | some i => (Int64.ofInt i, F64.ofInt (Int64.ofInt i), false)
  | none =>
    match parseFloat? s with
    | some f => (f64ToInt64 f, f, true)
    | none => (0, F64.zero, false)

/-- aggr_func.go `convertToNumber`: `(ival, fval, isFloat)` -/
def convertToNumber : AVal → Int64 × F64 × Bool
  | .str s => numOfText s
  | .bytes s => numOfText s
  | .int i => (i, F64.ofInt i, false)
  | .goInt i => (i, F64.ofInt i, false)
  | .float f => (f64ToInt64 f, f, true)
  | .bool true => (1, F64.ofInt 1, false)
  | .bool false => (0, F64.zero, false)
  | .nil => (0, F64.zero, false)
  | .other => (0, F64.zero, false)

/-- func.go `toString` -/
def toStr : AVal → Bytes
  | .str s => s
  | .bytes s => s
  | .int i => int64Dec i
  | .goInt i => int64Dec i
  | .float f => fmtF f
  | .bool true => Bytes.ofString "true"
  | .bool false => Bytes.ofString "false"
  | .nil => Bytes.ofString "<nil>"
  | .other => []

/-- aggregate_plan.go `convertToBytes` (a nil value gives a nil slice: the empty byte string) -/
def convertToBytes : AVal → Except Err Bytes
  | .bool true => .ok (Bytes.ofString "true")
  | .bool false => .ok (Bytes.ofString "false")
  | .bytes s => .ok s
  | .str s => .ok s
  | .int i => .ok (int64Dec i)
  | .goInt i => .ok (int64Dec i)
  | .float f => .ok (fmtF f)
  | .nil => .ok []
  | .other => .error .conv

/-! ## accumulators (aggr_func.go) -/

/-- an element of `aggrJsonArrayAggFunc.items` -/
inductive JItem
  | int (i : Int64) | float (f : F64) | bool (b : Bool) | str (s : Bytes)
deriving DecidableEq, Repr

def JItem.ofVal : AVal → JItem
  | .int i => .int i
  | .goInt i => .int i
  | .float f => .float f
  | .bytes s => .str s
  | .bool b => .bool b
  | v => .str (toStr v)

def JItem.render : JItem → Option Bytes
  | .int i => some (int64Dec i)
  | .float f => jsonFloat f
  | .bool true => some (Bytes.ofString "true")
  | .bool false => some (Bytes.ofString "false")
  | .str s => some (jsonString s)

/-- `json.Marshal(items)` of a non-nil slice -/
def jsonArray (items : List JItem) : Option Bytes :=
  (items.mapM JItem.render).map (fun rs => [91] ++ List.intercalate [44] rs ++ [93])

/-- which aggregate function a call is (the separator of group_concat is evaluated when the plan
    is initialised) -/
inductive Kind
  | count | sum | avg | min | max | concat (sep : Bytes) | arrayagg
deriving DecidableEq, Repr

/-- the state of one accumulator object -/
inductive Acc
  | count (counter : Int64)
  | sum (isum : Int64) (fsum : F64) (isFloat : Bool)
  | avg (isum : Int64) (fsum : F64) (count : Int64) (isFloat : Bool)
  | min (imin : Int64) (fmin : F64) (isFloat : Bool) (first : Bool)
  | max (imax : Int64) (fmax : F64) (isFloat : Bool) (first : Bool)
  | concat (sep : Bytes) (items : List Bytes)
  | arrayagg (items : List JItem)
deriving DecidableEq, Repr

/-- `Clone()` of the prototype built by `newAggr…Func` -/
def Kind.init : Kind → Acc
  | .count => .count 0
  | .sum => .sum 0 F64.zero false
  | .avg => .avg 0 F64.zero 0 false
  | .min => .min 0 F64.zero false false
  | .max => .max 0 F64.zero false false
  | .concat sep => .concat sep []
  | .arrayagg => .arrayagg []

/-- `Update` once the argument has been evaluated to `v` -/
def Acc.update (a : Acc) (v : AVal) : Acc :=
  match a with
  | .count n => .count (n + 1)
  | .sum isum fsum isF =>
    let (i, f, isFloat) := convertToNumber v
    .sum (isum + i) (F64.add fsum f) (isF || isFloat)
  | .avg isum fsum cnt isF =>
    let (i, f, isFloat) := convertToNumber v
    .avg (isum + i) (F64.add fsum f) (cnt + 1) (isF || isFloat)
  | .min imin fmin isF first =>
    let (i, f, isFloat) := convertToNumber v
    if !first then .min i f isFloat true
    else if isF then (if F64.lt f fmin then .min i f isFloat true else .min imin fmin isF first)
    else (if i < imin then .min i f isFloat true else .min imin fmin isF first)
  | .max imax fmax isF first =>
    let (i, f, isFloat) := convertToNumber v
    if !first then .max i f isFloat true
    else if isF then (if F64.lt fmax f then .max i f isFloat true else .max imax fmax isF first)
    else (if imax < i then .max i f isFloat true else .max imax fmax isF first)
  | .concat sep items => .concat sep (items ++ [toStr v])
  | .arrayagg items => .arrayagg (items ++ [JItem.ofVal v])

/-- `Update(kv, args, ctx)`: every accumulator but count evaluates `args[0]` first -/
def Acc.step (a : Acc) (arg : Except Err AVal) : Except Err Acc :=
  match a with
  | .count n => .ok (.count (n + 1))
  | a => arg.map a.update

/-- `Complete()` -/
def Acc.complete : Acc → Except Err AVal
  | .count n => .ok (.int n)
  | .sum isum fsum isF => .ok (if isF then .float fsum else .int isum)
  | .avg isum fsum cnt isF =>
    .ok (.float (if isF then F64.div fsum (F64.ofInt cnt) else F64.div (F64.ofInt isum) (F64.ofInt cnt)))
  | .min imin fmin isF _ => .ok (if isF then .float fmin else .int imin)
  | .max imax fmax isF _ => .ok (if isF then .float fmax else .int imax)
  | .concat sep items => .ok (.str (List.intercalate sep items))
  | .arrayagg items =>
    match jsonArray items with
    | some b => .ok (.str b)
    | none => .error .marshal

/-! ## expressions over aggregate results (expression_exec.go / utils.go `executeMathOp`) -/

inductive MathOp | add | sub | mul | div
deriving DecidableEq, Repr

inductive AggExpr
  /-- the i-th aggregate call of the field (`FunctionCallExpr.Result`) -/
  | call (i : Nat)
  /-- a leaf without aggregate calls, evaluated on the empty pair: a constant or an error -/
  | leaf (v : Except Err AVal)
  /-- `execMath`; `rpos` = position of the right operand (where "Divide by zero" is reported) -/
  | arith (op : MathOp) (rpos : Nat) (l r : AggExpr)
  /-- `+` whose left operand has type string: `execStringConcate` -/
  | strcat (l r : AggExpr)
deriving Repr

def asInt : AVal → Option Int64
  | .int i => some i
  | .goInt i => some i
  | _ => none

def asFloat : AVal → Option F64
  | .float f => some f
  | _ => none

def floatOp (op : MathOp) (rpos : Nat) (l r : F64) : Except Err AVal :=
  match op with
  | .add => .ok (.float (F64.add l r))
  | .sub => .ok (.float (F64.sub l r))
  | .mul => .ok (.float (F64.mul l r))
  | .div => if F64.isZero r then .error (.divZero rpos) else .ok (.float (F64.div l r))

/-- utils.go `executeMathOp` -/
def executeMathOp (op : MathOp) (rpos : Nat) (l r : AVal) : Except Err AVal :=
  match asInt l, asInt r, asFloat l, asFloat r with
  | some li, some ri, _, _ =>
    match op with
    | .add => .ok (.int (li + ri))
    | .sub => .ok (.int (li - ri))
    | .mul => .ok (.int (li * ri))
    | .div => if ri == 0 then .error (.divZero rpos) else .ok (.int (li / ri))
  | _, _, some lf, some rf => floatOp op rpos lf rf
  | some li, _, _, some rf => floatOp op rpos (F64.ofInt li) rf
  | _, some ri, some lf, _ => floatOp op rpos lf (F64.ofInt ri)
  | _, _, _, _ => .error .badOperand

/-- `col.Expr.Execute(NewKVP(nil, nil), ctx)` after the results have been written into the calls -/
def AggExpr.eval (res : List AVal) : AggExpr → Except Err AVal
  | .call i => match res[i]? with
    | some v => .ok v
    | none => .error .malformed
  | .leaf v => v
  | .arith op rpos l r => do
    let lv ← l.eval res
    let rv ← r.eval res
    executeMathOp op rpos lv rv
  | .strcat l r => do
    let lv ← l.eval res
    let rv ← r.eval res
    pure (.str (toStr lv ++ toStr rv))

/-! ## the plan -/

/-- a field of the select list as `Init` classifies it -/
inductive Field
  /-- `IsKey`: no aggregate call inside -/
  | key
  /-- the aggregate calls found by `listAggrFuncs` (left to right) and the expression around them -/
  | agg (calls : List Kind) (e : AggExpr)
deriving Repr

structure Plan where
  aggrAll : Bool
  /-- `len(GroupByFields)` -/
  nGroups : Nat
  fields : List Field
deriving Repr

/-- what the evaluator says about a pair -/
structure Eval (P : Type) where
  /-- `GroupByFields[j].Expr.Execute` -/
  group : Nat → P → Except Err AVal
  /-- `Fields[i].Execute` for a key field -/
  keyField : Nat → P → Except Err AVal
  /-- `FuncExprs[c].Args[0].Execute` of field i -/
  arg : Nat → Nat → P → Except Err AVal

/-- a column of a group's row (`AggrPlanField`) -/
inductive Col
  | key (value : Bytes)
  | agg (accs : List Acc) (e : AggExpr)
deriving Repr

abbrev Row := List Col

/-- `aggrMap` together with `aggrRows`: the rows in order of creation, each under its key -/
abbrev Groups := List (Bytes × Row)

def defaultAggrKey : Bytes := [42]

/-- `appendAggrKeyPart`: the length in decimal, a colon, the bytes -/
def appendAggrKeyPart (key part : Bytes) : Bytes := key ++ natDec part.length ++ [58] ++ part

section
variable {P : Type} (ev : Eval P) (pl : Plan)

/-- the loop of `getAggrKey` over the remaining GROUP BY fields -/
def getAggrKeyLoop (p : P) : List Nat → Bytes → Except Err Bytes
  | [], gkey => .ok gkey
  | j :: js, gkey => do
    let v ← ev.group j p
    let b ← convertToBytes v
    getAggrKeyLoop p js (appendAggrKeyPart gkey b)

def getAggrKey (p : P) : Except Err Bytes :=
  if pl.aggrAll then .ok defaultAggrKey else getAggrKeyLoop ev p (List.range pl.nGroups) []

/-- second half of `batchGetAggrKeys`: the key of pair i from the evaluated columns -/
def keyOfVals : List AVal → Bytes → Except Err Bytes
  | [], k => .ok k
  | v :: vs, k => do
    let b ← convertToBytes v
    keyOfVals vs (appendAggrKeyPart k b)

/-- second loop of `batchGetAggrKeys`: `for i := 0; i < len(chunk); i++ { … fields[j][i] … }`;
    `cols` are the evaluated columns `fields[j][i:]`, the first argument is `len(chunk) - i` -/
def keysOfCols : Nat → List (List AVal) → Except Err (List Bytes)
  | 0, _ => .ok []
  | n + 1, cols => do
    let k ← keyOfVals (cols.map (fun c => c.headD .nil)) []
    let ks ← keysOfCols n (cols.map List.tail)
    pure (k :: ks)

/-- `batchGetAggrKeys`: every GROUP BY field over the whole chunk first (E2), then the keys -/
def batchGetAggrKeys (chunk : List P) : Except Err (List Bytes) :=
  if pl.aggrAll then .ok (chunk.map (fun _ => defaultAggrKey))
  else do
    let cols ← (List.range pl.nGroups).mapM (fun j => chunk.mapM (fun p => ev.group j p))
    keysOfCols chunk.length cols

/-- `createAggrRow`, fields from index i on -/
def createCols (p : P) : Nat → List Field → Except Err Row
  | _, [] => .ok []
  | i, .key :: fs => do
    let v ← ev.keyField i p
    let b ← convertToBytes v
    let rest ← createCols p (i + 1) fs
    pure (.key b :: rest)
  | i, .agg calls e :: fs => do
    let rest ← createCols p (i + 1) fs
    pure (.agg (calls.map Kind.init) e :: rest)

def createAggrRow (p : P) : Except Err Row := createCols ev p 0 pl.fields

/-- inner loop of `updateRowAggrFunc`: the calls of field i from index c on -/
def updateAccs (i : Nat) (p : P) : Nat → List Acc → Except Err (List Acc)
  | _, [] => .ok []
  | c, a :: as => do
    let a' ← a.step (ev.arg i c p)
    let as' ← updateAccs i p (c + 1) as
    pure (a' :: as')

/-- `updateRowAggrFunc`, columns from index i on -/
def updateCols (p : P) : Nat → Row → Except Err Row
  | _, [] => .ok []
  | i, .key v :: cs => do
    let rest ← updateCols p (i + 1) cs
    pure (.key v :: rest)
  | i, .agg accs e :: cs => do
    let accs' ← updateAccs ev i p 0 accs
    let rest ← updateCols p (i + 1) cs
    pure (.agg accs' e :: rest)

def updateRow (p : P) (row : Row) : Except Err Row := updateCols ev p 0 row

/-- replace the row stored under `key` (Go updates it in place through the pointer) -/
def setRow (key : Bytes) (row : Row) : Groups → Groups
  | [] => []
  | (k, r) :: gs => if k == key then (k, row) :: gs else (k, r) :: setRow key row gs

/-- the body of the loops of `prepare` / `prepareBatch` for one pair whose key is known -/
def absorb (gs : Groups) (key : Bytes) (p : P) : Except Err Groups :=
  match gs.lookup key with
  | some row => do
    let row' ← updateRow ev p row
    pure (setRow key row' gs)
  | none => do
    let row ← createAggrRow ev pl p
    let row' ← updateRow ev p row
    pure (gs ++ [(key, row')])

/-- `prepare` (row mode): pairs as `ChildPlan.Next` hands them out -/
def prepare : Groups → List P → Except Err Groups
  | gs, [] => .ok gs
  | gs, p :: ps => do
    let key ← getAggrKey ev pl p
    let gs' ← absorb ev pl gs key p
    prepare gs' ps

def absorbChunk : Groups → List (Bytes × P) → Except Err Groups
  | gs, [] => .ok gs
  | gs, (key, p) :: rest => do
    let gs' ← absorb ev pl gs key p
    absorbChunk gs' rest

/-- `prepareBatch`: chunks as `ChildPlan.Batch` hands them out; an empty chunk is the end -/
def prepareBatch : Groups → List (List P) → Except Err Groups
  | gs, [] => .ok gs
  | gs, chunk :: rest =>
    if chunk.isEmpty then .ok gs
    else do
      let keys ← batchGetAggrKeys ev pl chunk
      let gs' ← absorbChunk ev pl gs (keys.zip chunk)
      prepareBatch gs' rest

end

/-! ## handing out the rows -/

/-- the body of `next` / `batch` for one group: complete every accumulator, write the results into
    the calls, evaluate the field -/
def finishRow : Row → Except Err (List AVal)
  | [] => .ok []
  | .key v :: cs => do
    let rest ← finishRow cs
    pure (.bytes v :: rest)
  | .agg accs e :: cs => do
    let res ← accs.mapM Acc.complete
    let v ← e.eval res
    let rest ← finishRow cs
    pure (v :: rest)

/-- `next`: `(row or nil or error, rows not yet handed out)` -/
def next : List Row → Except Err (Option (List AVal)) × List Row
  | [] => (.ok none, [])
  | r :: rest => ((finishRow r).map some, rest)

/-- call `Next` until it returns nil or an error: the rows received and the error, if any -/
def drainNext : List Row → List (List AVal) × Option Err
  | [] => ([], none)
  | r :: rest =>
    match finishRow r with
    | .error e => ([], some e)
    | .ok out =>
      let (outs, err) := drainNext rest
      (out :: outs, err)

/-- the loop `for count < PlanBatchSize` of `batch`; the first argument is `PlanBatchSize - count` -/
def batchLoop : Nat → List Row → List (List AVal) → Except Err (List (List AVal)) × List Row
  | 0, rows, acc => (.ok acc, rows)
  | _ + 1, [], acc => (.ok acc, [])
  | n + 1, r :: rest, acc =>
    match finishRow r with
    | .error e => (.error e, rest)
    | .ok out => if rest.isEmpty then (.ok (acc ++ [out]), rest) else batchLoop n rest (acc ++ [out])

/-- `batch` with `PlanBatchSize = bs` -/
def batch (bs : Nat) (rows : List Row) : Except Err (List (List AVal)) × List Row :=
  if rows.isEmpty then (.ok [], []) else batchLoop bs rows []

/-- call `Batch` until it returns no rows or an error -/
def drainBatch (bs : Nat) : Nat → List Row → List (List (List AVal)) × Option Err
  | 0, _ => ([], none)
  | fuel + 1, rows =>
    match batch bs rows with
    | (.error e, _) => ([], some e)
    | (.ok [], _) => ([], none)
    | (.ok b, rest) =>
      let (bs', err) := drainBatch bs fuel rest
      (b :: bs', err)

/-! ## whole runs -/

def rowsOf (gs : Groups) : List Row := gs.map Prod.snd

/-- row mode: `Next` until nil -/
def runNext {P : Type} (ev : Eval P) (pl : Plan) (pairs : List P) : List (List AVal) × Option Err :=
  match prepare ev pl [] pairs with
  | .error e => ([], some e)
  | .ok gs => drainNext (rowsOf gs)

/-- batch mode: `Batch` until empty -/
def runBatch {P : Type} (ev : Eval P) (pl : Plan) (bs : Nat) (chunks : List (List P)) :
    List (List (List AVal)) × Option Err :=
  match prepareBatch ev pl [] chunks with
  | .error e => ([], some e)
  | .ok gs => drainBatch bs (gs.length + 1) (rowsOf gs)

end Kvql.Aggr
