/-
  Byte strings and the small pieces of Go's standard library the lexer and the
  executors rely on.  Core Lean only (the driver links this file).

  Go strings are byte sequences; `Bytes := List UInt8`.
-/
namespace Kvql

abbrev Bytes := List UInt8

namespace Bytes

def ofString (s : String) : Bytes := s.toUTF8.toList

/-- lossless only for ASCII; used for messages and debugging -/
def toAsciiString (b : Bytes) : String :=
  String.ofList (b.map (fun c => Char.ofNat c.toNat))

def hexDigit (n : Nat) : Char :=
  if n < 10 then Char.ofNat (48 + n) else Char.ofNat (87 + n)

/-- hex encoding used on the wire; the empty string is `-` -/
def toHex (b : Bytes) : String :=
  if b.isEmpty then "-" else
  String.ofList (b.flatMap (fun c => [hexDigit (c.toNat / 16), hexDigit (c.toNat % 16)]))

def hexVal (c : Char) : Option Nat :=
  if '0' ≤ c ∧ c ≤ '9' then some (c.toNat - 48)
  else if 'a' ≤ c ∧ c ≤ 'f' then some (c.toNat - 87)
  else if 'A' ≤ c ∧ c ≤ 'F' then some (c.toNat - 55)
  else none

def ofHexChars : List Char → Option Bytes
  | [] => some []
  | [_] => none
  | a :: b :: rest => do
    let x ← hexVal a
    let y ← hexVal b
    let r ← ofHexChars rest
    pure (UInt8.ofNat (x * 16 + y) :: r)

def ofHex (s : String) : Option Bytes :=
  if s == "-" then some [] else ofHexChars s.toList

end Bytes

/-! ### ASCII case mapping (Go `strings.ToLower/ToUpper` restricted to ASCII input) -/

def lowerByte (c : UInt8) : UInt8 := if 65 ≤ c ∧ c ≤ 90 then c + 32 else c
def upperByte (c : UInt8) : UInt8 := if 97 ≤ c ∧ c ≤ 122 then c - 32 else c
def toLower (b : Bytes) : Bytes := b.map lowerByte
def toUpper (b : Bytes) : Bytes := b.map upperByte

/-- the ASCII part of Go's `unicode.IsSpace`: `\t \n \v \f \r` and space -/
def isSpaceByte (c : UInt8) : Bool := c == 32 || (9 ≤ c && c ≤ 13)

/-- Go `strings.TrimSpace` on ASCII input -/
def trimSpace (b : Bytes) : Bytes :=
  ((b.dropWhile isSpaceByte).reverse.dropWhile isSpaceByte).reverse

def isDigit (c : UInt8) : Bool := 48 ≤ c && c ≤ 57

/-- value of a run of decimal digits -/
def digitsVal (ds : Bytes) : Nat := ds.foldl (fun acc c => acc * 10 + (c.toNat - 48)) 0

/-- Go `strconv.ParseInt(s, 10, 64)`: optional sign, one or more digits, in range -/
def parseInt? (s : Bytes) : Option Int :=
  let (neg, ds) := match s with
    | 43 :: r => (false, r)
    | 45 :: r => (true, r)
    | r => (false, r)
  if ds.isEmpty || !ds.all isDigit then none
  else
    let n := digitsVal ds
    if neg then (if n ≤ 9223372036854775808 then some (-(n : Int)) else none)
    else (if n ≤ 9223372036854775807 then some (n : Int) else none)

def isHexDigit (c : UInt8) : Bool :=
  isDigit c || (97 ≤ c && c ≤ 102) || (65 ≤ c && c ≤ 70)

/-- the syntax accepted by Go `strconv.ParseFloat(s, 64)` for decimal input without
    underscores: `[+-]? (digits [. digits*] | . digits) ([eE][+-]?digits)?`.
    Returns (mantissa digits without the dot, number of fraction digits, exponent). -/
def splitDecimal (s : Bytes) : Option (Bool × Bytes × Nat × Int) :=
  let (neg, r) := match s with
    | 43 :: r => (false, r)
    | 45 :: r => (true, r)
    | r => (false, r)
  let ip := r.takeWhile isDigit
  let r1 := r.dropWhile isDigit
  let (fp, r2, _sawDot) := match r1 with
    | 46 :: t => (t.takeWhile isDigit, t.dropWhile isDigit, true)
    | t => ([], t, false)
  if ip.isEmpty && fp.isEmpty then none
  else match r2 with
    | [] => some (neg, ip ++ fp, fp.length, 0)
    | c :: t =>
      if c == 101 || c == 69 then
        let (eneg, ds) := match t with
          | 43 :: u => (false, u)
          | 45 :: u => (true, u)
          | u => (false, u)
        if ds.isEmpty || !ds.all isDigit then none
        else
          let ev : Int := digitsVal ds
          some (neg, ip ++ fp, fp.length, if eneg then -ev else ev)
      else none

/-- `inf`, `infinity`, `nan` (any case), `inf`/`infinity` optionally signed -/
def isSpecialFloat (s : Bytes) : Bool :=
  let l := toLower s
  let unsigned := match l with
    | 43 :: r => r
    | 45 :: r => r
    | r => r
  unsigned == Bytes.ofString "inf" || unsigned == Bytes.ofString "infinity" ||
    l == Bytes.ofString "nan"

/-- hexadecimal floating-point syntax (`0x1.8p3`), without underscores -/
def isHexFloat (s : Bytes) : Bool :=
  let r := match s with
    | 43 :: r => r
    | 45 :: r => r
    | r => r
  match r with
  | 48 :: x :: t =>
    if x == 120 || x == 88 then
      let ip := t.takeWhile isHexDigit
      let r1 := t.dropWhile isHexDigit
      let (fp, r2) := match r1 with
        | 46 :: u => (u.takeWhile isHexDigit, u.dropWhile isHexDigit)
        | u => ([], u)
      if ip.isEmpty && fp.isEmpty then false
      else match r2 with
        | p :: u =>
          if p == 112 || p == 80 then
            let (eneg, ds) := match u with
              | 43 :: v => (false, v)
              | 45 :: v => (true, v)
              | v => (false, v)
            -- a binary exponent that overflows float64 is a range error in Go
            -- (exactly: value ≥ 2^1024; inputs within 2^±8 of that are outside the modelled domain)
            !ds.isEmpty && ds.all isDigit && (eneg || digitsVal ds + 4 * ip.length < 1020)
          else false
        | [] => false
    else false
  | _ => false

/-- Go `strconv.lexUnderscoreOK`: underscores only between digits, or between a base prefix and a
    digit.  `saw`: 0 = start, 1 = digit or base prefix, 2 = underscore, 3 = anything else. -/
def lexUnderscoreLoop (hex : Bool) : Nat → Bytes → Bool
  | saw, [] => saw != 2
  | saw, c :: rest =>
    if isDigit c || (hex && isHexDigit c) then lexUnderscoreLoop hex 1 rest
    else if c == 95 then (if saw != 1 then false else lexUnderscoreLoop hex 2 rest)
    else if saw == 2 then false
    else lexUnderscoreLoop hex 3 rest

def lexUnderscoreOK (s : Bytes) : Bool :=
  let r := match s with
    | 43 :: r => r
    | 45 :: r => r
    | r => r
  match r with
  | 48 :: x :: t =>
    let lx := lowerByte x
    if lx == 98 || lx == 111 || lx == 120 then lexUnderscoreLoop (lx == 120) 1 t
    else lexUnderscoreLoop false 0 r
  | _ => lexUnderscoreLoop false 0 r

/-- does `strconv.ParseFloat(s, 64)` succeed?  (syntax; decimal overflow to ±Inf is
    an error in Go: we treat a decimal magnitude ≥ 10^310 as overflow and
    < 10^300 as in range — inputs in between are outside the modelled domain) -/
def parseFloatOk (s0 : Bytes) : Bool :=
  -- `readFloat` skips underscores and validates them afterwards with `lexUnderscoreOK`
  if s0.contains 95 && !lexUnderscoreOK s0 then false else
  let s := s0.filter (· != 95)
  if isSpecialFloat s0 || isHexFloat s then true
  else match splitDecimal s with
    | none => false
    | some (_, mant, fracDigits, e) =>
      let m := digitsVal mant
      if m == 0 then true
      else
        -- decimal magnitude: number of digits of m - fracDigits + e
        let mag : Int := (toString m).length - (fracDigits : Int) + e
        mag < 305

end Kvql
